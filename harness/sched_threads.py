"""C06 — controlled thread scheduler over the REAL sync engine (no source hooks).

Every sender is an OS thread running under `sys.settrace`. At each `line` event inside
`statemachine/{event,statemachine,engines/sync,engines/base}.py` (granularity "full"; "engine" keeps
only `engines/sync.py` + `engines/base.py`) and at the begin/end of every user callback the thread
stops at a *decision*: exactly one thread holds the baton, the schedule decides who continues.
A schedule is a sparse map {decision index -> choice}; choice 0 is the default (the running thread
continues; when a thread finished: the lowest-numbered unfinished one), choice c>0 switches to the
c-th other runnable thread. A switch away from a thread that could continue is a *preemption*;
schedules are enumerated CHESS-style (iterative context bounding) by `sched_explore`.

Atomicity assumed (and said so in the evidence): one source line is the preemption granularity and a
`threading.Lock.acquire(blocking=False)` / `deque.append` / `deque.popleft` / `Lock.release` is
atomic. Bytecode-level preemption inside a line is NOT explored — the claim is partial for the runtime.

Replay = scenario + the deviation map; deterministic because only the baton holder runs.
"""
from __future__ import annotations

import os
import sys
import threading
import time

from sched_common import PROBE_UID, Mapper, Obs, Scenario, U, classify_engine, un

_CLASS_CACHE = {}
_FILES = {}


def _files():
    if not _FILES:
        import statemachine
        import statemachine.engines.base as b
        import statemachine.engines.sync as s
        import statemachine.event as e
        import statemachine.statemachine as m
        _FILES.update(sync=s.__file__, base=b.__file__, event=e.__file__, sm=m.__file__)
        kinds, problems = classify_engine(s.__file__, b.__file__)
        _FILES.update(kinds=kinds, problems=problems)
    return _FILES


def decode_ret(r):
    """`send` returns the `on` result (uid) or [None.., uid]; None when nothing was processed."""
    if isinstance(r, (list, tuple)):
        xs = [x for x in r if x is not None]
        return xs[0] if len(xs) == 1 else (tuple(xs) if xs else None)
    return r


def make_class(K):
    if ("sync", K) in _CLASS_CACHE:
        return _CLASS_CACHE[("sync", K)]
    from statemachine import State, StateMachine
    ns = {}
    sts = [State(f"s{i}", initial=(i == 0)) for i in range(K)]
    for i, s in enumerate(sts):
        ns[f"s{i}"] = s
    go = sts[0].to(sts[1])
    for i in range(1, K):
        go = go | sts[i].to(sts[(i + 1) % K])
    ns["go"] = go

    def _cb(self, name, uid):
        h = getattr(self, "h", None)
        if h is None or uid is None:
            return None
        uid = un(uid)
        return h.callback(self, name, uid)

    ns["_cb"] = _cb
    ns["before_go"] = lambda self, uid=None: self._cb("before", uid)
    ns["on_go"] = lambda self, uid=None: self._cb("on", uid)
    ns["after_go"] = lambda self, uid=None: self._cb("after", uid)
    ns["on_exit_state"] = lambda self, uid=None: self._cb("exit", uid)
    ns["on_enter_state"] = lambda self, uid=None: self._cb("enter", uid)
    for k in ("before_go", "on_go", "after_go", "on_exit_state", "on_enter_state"):
        ns[k].__name__ = k
        ns[k].__qualname__ = f"C06Machine{K}.{k}"
    cls = type(StateMachine)(f"C06Machine{K}", (StateMachine,), ns)
    _CLASS_CACHE[("sync", K)] = cls
    return cls


class Abort(BaseException):
    pass


class ThreadHarness:
    MAIN = -1

    def __init__(self, scn: Scenario, devs: dict, want_where=False):
        f = _files()
        self.scn = scn
        self.devs = devs
        self.n = scn.n
        self.obs = Obs(scn)
        self.mapper = Mapper(f["kinds"], f["sync"])
        self.cv = threading.Condition()
        self.current = None
        self.done = [False] * self.n
        self.step = 0
        self.local = threading.local()
        self.abort = False
        self.probing = False
        self.want_where = want_where
        self.map_files = {f["sync"], f["base"], f["event"], f["sm"]}
        self.point_files = {f["sync"], f["base"]} if scn.gran == "engine" else set(self.map_files)

    # ---------------------------------------------------------------- baton
    def _wait_for(self, tid):
        while self.current != tid:
            if self.abort:
                raise Abort()
            self.cv.wait(0.5)

    def decide(self, tid, enabled, cost, where):
        k = self.step
        self.step += 1
        c = self.devs.get(k, 0)
        if c >= len(enabled) and self.devs.get(-1) == 1:
            c %= len(enabled)      # sampled schedule: choices wrap around
        if c >= len(enabled):
            self.obs.map_notes.append(f"schedule diverged at decision {k}: choice {c} of {len(enabled)}")
            c = 0
        self.obs.trace.append((len(enabled), cost))
        if self.want_where:
            self.obs.where.append((k, tid, enabled[c], where))
        if c != 0 and cost == 1 and self._window():
            self.obs.window_preempt = True
        return enabled[c]

    def _window(self):
        # some sender has enqueued and has not yet returned
        return bool(self.mapper.open)

    def point(self, tid, where=None):
        with self.cv:
            others = [t for t in range(self.n) if t != tid and not self.done[t]]
            if not others:
                self.step += 1
                self.obs.trace.append((1, 1))
                return
            nxt = self.decide(tid, [tid] + others, 1, where)
            if nxt != tid:
                self.current = nxt
                self.cv.notify_all()
                self._wait_for(tid)

    def finish(self, tid):
        with self.cv:
            self.done[tid] = True
            rest = [t for t in range(self.n) if not self.done[t]]
            if not rest:
                self.current = self.MAIN
            else:
                self.current = self.decide(tid, rest, 0, "finish")
            self.cv.notify_all()

    # ---------------------------------------------------------------- callbacks of the machine
    def callback(self, sm, name, uid):
        if self.probing:
            return uid if name == "on" else None
        tid = self.local.tid
        self.mapper.cb(tid, "B")
        self.obs.marks.append(("B", uid, name, tid))
        self.point(tid, f"cb-begin {name} {uid}")
        if self.scn.nest_at.get(uid) == name:
            for kid in self.scn.nest.get(uid, []):
                self.mapper.set_sending(tid, kid)
                try:
                    r, exc = sm.send("go", uid=U(kid)), None
                except Exception as e:  # noqa: BLE001
                    r, exc = None, repr(e)
                self.obs.nested.append((tid, uid, kid, decode_ret(r), exc))
        self.mapper.cb(tid, "E")
        self.obs.marks.append(("E", uid, name, tid))
        self.point(tid, f"cb-end {name} {uid}")
        return uid if name == "on" else None

    # ---------------------------------------------------------------- tracing
    def tracer(self, tid):
        mapper, map_files, point_files = self.mapper, self.map_files, self.point_files

        def local(frame, event, arg):
            if event == "line":
                mapper.line(tid, frame)
                if frame.f_code.co_filename in point_files:
                    self.point(tid, (os.path.basename(frame.f_code.co_filename), frame.f_lineno)
                               if self.want_where else None)
            elif event == "return":
                mapper.other(tid, frame)
            return local

        def glob(frame, event, arg):
            if event == "call" and frame.f_code.co_filename in map_files:
                mapper.other(tid, frame)
                return local
            return None

        return glob

    def sender(self, sm, tid):
        self.local.tid = tid
        try:
            with self.cv:
                self._wait_for(tid)
            sys.settrace(self.tracer(tid))
            try:
                for uid in self.scn.progs[tid]:
                    self.mapper.set_sending(tid, uid)
                    try:
                        r, exc = sm.send("go", uid=U(uid)), None
                    except Abort:
                        raise
                    except Exception as e:  # noqa: BLE001
                        r, exc = None, repr(e)
                    self.mapper.finish(tid)
                    self.obs.sends.append((tid, uid, decode_ret(r), exc))
            finally:
                sys.settrace(None)
        except Abort:
            self.obs.errors.append(f"sender {tid} aborted (timeout)")
            return
        except BaseException as e:  # noqa: BLE001
            self.obs.errors.append(f"sender {tid}: {e!r}")
        self.finish(tid)


def run_schedule(scn: Scenario, devs: dict, want_where=False, timeout=20.0) -> Obs:
    """Run ONE schedule of the scenario against the real engine; returns the observation."""
    total = len(scn.all_uids())
    cls = make_class(total + 2)
    sm = cls()
    h = ThreadHarness(scn, devs, want_where)
    f = _files()
    if f["problems"]:
        h.obs.map_notes += f["problems"]
    sm.h = h
    threads = [threading.Thread(target=h.sender, args=(sm, i), daemon=True) for i in range(scn.n)]
    for t in threads:
        t.start()
    with h.cv:
        h.current = h.decide(h.MAIN, list(range(scn.n)), 0, "start")
        h.cv.notify_all()
        t0 = time.time()
        while h.current != h.MAIN:
            h.cv.wait(0.5)
            if time.time() - t0 > timeout:
                h.abort = True
                h.obs.errors.append("schedule timed out (deadlock in the scheduler or the engine)")
                h.cv.notify_all()
                break
    for t in threads:
        t.join(2.0)
    obs = h.obs
    obs.labels = h.mapper.labels
    obs.map_notes += h.mapper.notes
    obs.decisions = h.step
    try:
        obs.queue_left = len(sm._engine._external_queue)
    except Exception:  # noqa: BLE001
        obs.queue_left = None
    try:
        obs.final_state = sm.current_state.id
    except Exception as e:  # noqa: BLE001
        obs.final_state = f"<{e!r}>"
    # follow-up send through the public API: a stale result reveals an event left behind
    h.probing = True
    try:
        r = decode_ret(sm.send("go", uid=U(PROBE_UID)))
        obs.probe = (r, sm.current_state.id)
    except Exception as e:  # noqa: BLE001
        obs.probe = (f"<{e!r}>", None)
    return obs
