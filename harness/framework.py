"""Check framework: Lean obligations audit, known findings, verdict lines, evidence files.

Every property check is `harness/props/<id>.py` exposing `run(ctx) -> None`; it fills `ctx` and the
framework prints KNOWN-FINDING / VIOLATION lines, writes evidence/<id>.json and sets the exit code.
"""
from __future__ import annotations

import hashlib
import json
import os
import re
import subprocess
import sys
import time

from common import LEAN, VERIF

ALLOWED_AXIOMS = {"propext", "Classical.choice", "Quot.sound"}
FORBIDDEN = [r"\bsorry\b", r"\badmit\b", r"\bnative_decide\b", r"\bbv_decide\b", r"implemented_by",
             r"\bunsafe\b", r"maxHeartbeats\s+0\b", r"^\s*axiom\s"]

TRUSTED_BASE = [
    "Lean 4.33.0 kernel (leanchecker re-check in the thorough tier)",
    "axioms allowed: propext, Classical.choice, Quot.sound (audited by #print axioms on every run)",
    "statement of each theorem in lean/SMV/Props and of each Spec definition (human-read)",
    "correspondence harness: generator, class builder, observers, canonicaliser, driver parser/printer",
    "CPython 3.12 semantics of the modelled externals (call protocol, dict/deque/Lock, asyncio, ast, re, inspect, copy, pickle, pydot)",
]


class Ctx:
    def __init__(self, prop, tier, seed, replay=None):
        self.prop = prop
        self.tier = tier
        self.seed = seed
        self.replay = replay
        self.t0 = time.time()
        # VERIF_SCRATCH: write out/ and evidence/ somewhere else (runs against seeded changes, so
        # that they neither overwrite the committed evidence nor collide when run in parallel)
        self.base = os.environ.get("VERIF_SCRATCH") or VERIF
        self.out = os.path.join(self.base, "out", prop)
        os.makedirs(self.out, exist_ok=True)
        for fn in ([] if replay else os.listdir(self.out)):  # replays of earlier runs are not evidence of this one
            try:
                os.remove(os.path.join(self.out, fn))
            except OSError:
                pass
        self.violations = []          # (replay path, no_input_found: bool, what)
        self.known_printed = []
        self.coverage = {}
        self.assumptions = []
        self.level = "proof"
        self.budget_s = float(os.environ.get("VERIF_BUDGET_S", "70" if tier == "quick" else "600"))

    def elapsed(self):
        return time.time() - self.t0

    def left(self):
        return self.budget_s - self.elapsed()

    def write_replay(self, name, text):
        p = os.path.join(self.out, name)
        with open(p, "w") as f:
            f.write(text)
        return os.path.relpath(p, VERIF)

    def violation(self, replay_path, what, no_input=False):
        self.violations.append((replay_path, no_input, what))


# ----------------------------------------------------------------------------- Lean obligations

def _strip_comments(src: str) -> str:
    src = re.sub(r"/-.*?-/", "", src, flags=re.S)
    return "\n".join(l.split("--")[0] for l in src.split("\n"))


def _import_closure(mod):
    seen, todo, out = set(), [mod], []
    while todo:
        m = todo.pop()
        if m in seen:
            continue
        seen.add(m)
        path = os.path.join(LEAN, *m.split(".")) + ".lean"
        if not os.path.exists(path):
            continue
        out.append(path)
        for l in open(path):
            mm = re.match(r"\s*import\s+(SMV\.[\w.]+)", l)
            if mm:
                todo.append(mm.group(1))
    return out


def index_of(prop):
    p = os.path.join(LEAN, "SMV", "Props", f"{prop}.index")
    if not os.path.exists(p):
        return []
    return [l.strip() for l in open(p) if l.strip() and not l.startswith("#")]


# Source tie (harness/srcgen.py, lean/SMV/Src): which source-derived scripts each property's theorems rest on.
# The theorems of SMV/Src/Tie.lean named in the property's index say that the *expected* scripts mean the
# engine model; `source_tie` regenerates the scripts from the tree under test and has the kernel decide
# `Gen.x = Expected.x`.
_W = ["wrapperCall", "wrapperDunder"]
_G = ["execAll", "execAsyncAll"]
_A = ["execCall", "execAsyncCall"]
_E = ["eventCall", "smSend"]
SRC_TIE = {
    "C07": ["eventCall", "reservedNames", "injectedNames", "bindExpected", "callableMethod", "engBase", "takeCallback"],
    "C16": ["engBase", "factory"] + ["surface", "glue"],
    "C13": _E + ["allowedEvents", "decl"] + ["surface", "objects"],
    "C15": ["decl", "factory"] + ["surface", "objects"],
    "C18": ["diagram"] + ["surface"],
    "C10": ["store", "smInit", "getState", "setState"] + ["surface", "glue", "objects"],
    "C12": ["smInit", "registerCallbacks", "addListener", "registry", "specs", "takeCallback"],
    "C17": ["getState", "setState", "registerCallbacks", "addListener"] + ["surface"],
    "C09": ["visitConnected", "classCheck", "metaInit", "transitionInit", "decl", "objects"],
    "C01": ["triggerSync", "triggerAsync"] + _W + _G + ["decl"] + ["surface"],
    "C02": ["activateSync", "activateAsync"] + _W + _A + ["registry", "registerCallbacks", "addListener", "decl", "specs"],
    "C03": ["processSync", "processAsync"] + _E + ["engBase"],
    "C04": ["activateSync", "activateAsync", "processSync", "processAsync"] + _A,
    "C06": ["processSync", "processAsync", "engBase"],
    "C05": ["activateSync", "activateAsync", "triggerSync", "triggerAsync", "processSync", "processAsync"] + _W + _G + _A + ["glue"],
    "C08": _W + _G + ["parser", "specs", "takeCallback"],
    "C11": ["triggerSync", "triggerAsync", "engineStart", "store", "smInit", "engBase", "glue"],
    "C14": ["activateSync", "activateAsync", "triggerSync", "triggerAsync", "processSync", "processAsync"] + _W + _A
           + ["registerCallbacks", "addListener", "specs"],
}
TIE_MOD = "SMV.Src.Tie"
TIE_MODS = ["SMV.Src.Tie", "SMV.Src.TieExpr"]
# further tie modules, built and audited only for the properties whose index names their theorems
TIE_EXTRA = {"C07": ["SMV.Src.TieBind", "SMV.Src.TieEng", "SMV.Src.TieTake"], "C03": ["SMV.Src.TieEng"], "C06": ["SMV.Src.TieEng"],
             "C16": ["SMV.Src.TieEng", "SMV.Src.TieFactory", "SMV.Src.TieSurface", "SMV.Src.TieGlue"], "C05": ["SMV.Src.TieGlue"], "C09": ["SMV.Src.TieCheck", "SMV.Src.TieDecl", "SMV.Src.TieObj"], "C01": ["SMV.Src.TieDecl", "SMV.Src.TieSurface"],
             "C15": ["SMV.Src.TieDecl", "SMV.Src.TieFactory", "SMV.Src.TieSurface", "SMV.Src.TieObj"], "C18": ["SMV.Src.TieDiagram", "SMV.Src.TieSurface"], "C10": ["SMV.Src.TieStore", "SMV.Src.TieSurface", "SMV.Src.TieGlue", "SMV.Src.TieObj"],
             "C11": ["SMV.Src.TieStore", "SMV.Src.TieEng", "SMV.Src.TieGlue"], "C12": ["SMV.Src.TieStore", "SMV.Src.TieReg", "SMV.Src.TieSpec", "SMV.Src.TieTake"], "C02": ["SMV.Src.TieReg", "SMV.Src.TieStore", "SMV.Src.TieDecl", "SMV.Src.TieSpec"],
             "C14": ["SMV.Src.TieStore", "SMV.Src.TieSpec"], "C08": ["SMV.Src.TieSpec", "SMV.Src.TieTake"], "C13": ["SMV.Src.TieStore", "SMV.Src.TieDecl", "SMV.Src.TieSurface", "SMV.Src.TieObj"],
             "C17": ["SMV.Src.TieStore", "SMV.Src.TieSurface"]}


def source_tie(ctx: Ctx):
    """-> list of failures ("srctie:<script>:<why>"); fills ctx.coverage["source_tie"]"""
    import srcgen
    names = SRC_TIE.get(ctx.prop, [])
    if not names:
        return []
    repo = os.environ.get("VERIF_REPO", "/repo")
    res = srcgen.translate(repo)
    exp = srcgen.expected_terms()
    failed, rows = [], {}
    gen = os.path.join(ctx.out, "SrcTie.lean")
    thms = []
    with open(gen, "w") as f:
        f.write(f"import {TIE_MOD}\n" + srcgen.lean_defs({k: v for k, v in res.items() if k in names}, "SMV.Src.Gen"))
        f.write("namespace SMV.Src\n")
        for n in names:
            ty, term, err = res[n]
            if term is not None:
                f.write(f"theorem tie_{n} : Gen.{n} = Expected.{n} := by decide\n")
                thms.append(n)
        f.write("end SMV.Src\n" + "".join(f"#print axioms SMV.Src.tie_{n}\n" for n in thms))
    a = subprocess.run(["lake", "env", "lean", gen], cwd=LEAN, capture_output=True, text=True)
    txt = a.stdout + a.stderr
    for n in names:
        ty, term, err = res[n]
        if term is None:
            rows[n] = "untranslatable"
            failed.append(f"srctie:{n}:the source could not be translated: {err}")
            continue
        ok = re.search(r"'SMV\.Src\.tie_" + n + r"' (does not depend on any axioms|depends on axioms: \[([^\]]*)\])", txt)
        if ok and not (set(x.strip() for x in (ok.group(2) or "").split(",") if x.strip()) - ALLOWED_AXIOMS) \
                and not re.search(r"error.*tie_" + n + r"\b", txt):
            same = exp.get(n, (None, None))[1] == term
            rows[n] = "same" if same else "same (kernel), text differs"
            if not re.search(rf"SrcTie\.lean:\d+:\d+: error", txt) or same:
                continue
        rows[n] = "differs"
        failed.append(f"srctie:{n}:the script derived from the source is not the one the theorems were proved for\n"
                      f"--- expected\n{exp.get(n, (None, '<none>'))[1]}\n--- derived from {repo}\n{term}")
    if a.returncode != 0 and not failed:
        failed.append("srctie:lean:" + txt[-800:])
    st = None
    if not failed and any(v[2] for v in res.values()):
        # a function outside this property's list does not translate: edits inside it cannot be told apart, the
        # self-test is not meaningful on this tree (the properties that list the function report the broken tie)
        st = dict(skipped="not every translated function of this tree translates: "
                          + ", ".join(k for k, v in res.items() if v[2]))
    elif not failed:
        # is the translator blind? (only meaningful on a tree it can translate): every edit of a fixed list, applied
        # alone to a scratch copy of the files, must change what it derives
        # (deterministic in the translator and the sources it reads: computed once per such pair, kept next to the
        # build output, re-used by the other checks of the same run)
        import hashlib
        h = hashlib.sha256(open(srcgen.__file__, "rb").read())
        for rel in sorted(srcgen._all_sources(repo)):
            h.update(rel.encode() + b"\0" + open(os.path.join(repo, rel), "rb").read())
        cache = os.path.join(VERIF, "out", f".translator_selftest_{h.hexdigest()[:24]}.json")
        if os.path.exists(cache):
            st = json.load(open(cache))
        else:
            a_, d_, blind = srcgen.selftest(repo)
            st = dict(edits_applied=a_, noticed=d_)
            if a_ != d_:
                raise RuntimeError(f"the source translator did not notice {blind}")
            # … and is it touchy? edits that change nothing the code does must leave every script as it is
            ha, hs, hc = srcgen.harmless(repo)
            st.update(harmless_edits_applied=ha, harmless_left_unchanged=hs)
            if ha != hs:
                raise RuntimeError(f"harmless edits changed the derived scripts: {hc}")
            try:
                os.makedirs(os.path.dirname(cache), exist_ok=True)
                with open(cache + ".tmp", "w") as f:
                    json.dump(st, f)
                os.replace(cache + ".tmp", cache)
            except OSError:
                pass
    ctx.coverage["source_tie"] = dict(scripts=rows, translator="harness/srcgen.py", translator_selftest=st,
                                      checker_cmd=f"lake env lean <Gen.x = Expected.x by decide for {names}>")
    return failed


def lean_obligations(ctx: Ctx, modules=None):
    """Build the property module, audit axioms of every indexed theorem, grep forbidden tokens.
    Returns dict(obligations, discharged, failed, checker_cmd)."""
    prop = ctx.prop
    names = index_of(prop)
    mod = f"SMV.Props.{prop}"
    failed = []
    t = time.time()
    mods = [mod] + (TIE_MODS + TIE_EXTRA.get(prop, []) if prop in SRC_TIE else [])
    b = subprocess.run(["lake", "build", *mods, "driver"], cwd=LEAN, capture_output=True, text=True)
    if b.returncode != 0:
        failed.append("build:" + (b.stdout + b.stderr)[-1500:])
    axioms = {}
    if not failed:
        failed += source_tie(ctx)
        audit = os.path.join(ctx.out, "Audit.lean")
        with open(audit, "w") as f:
            f.write("".join(f"import {m}\n" for m in mods) + "".join(f"#print axioms {n}\n" for n in names))
        a = subprocess.run(["lake", "env", "lean", audit], cwd=LEAN, capture_output=True, text=True)
        txt = a.stdout + a.stderr
        if a.returncode != 0:
            failed.append("audit:" + txt[-1500:])
        for n in names:
            m = re.search(r"'" + re.escape(n) + r"' depends on axioms: \[([^\]]*)\]", txt, flags=re.S)
            if m:
                axioms[n] = {x.strip() for x in m.group(1).replace("\n", " ").split(",") if x.strip()}
            elif re.search(r"'" + re.escape(n) + r"' does not depend on any axioms", txt):
                axioms[n] = set()
            else:
                failed.append(f"no-axiom-report:{n}")
    # forbidden tokens in every source file the property module (transitively) imports
    for path in sorted({p for m in mods for p in _import_closure(m)}):
        src = _strip_comments(open(path).read())
        for pat in FORBIDDEN:
            if re.search(pat, src, flags=re.M):
                failed.append(f"forbidden:{pat}:{os.path.basename(path)}")
    discharged = 0
    for n in names:
        if n in axioms and axioms[n] <= ALLOWED_AXIOMS:
            discharged += 1
        elif n in axioms:
            failed.append(f"axioms:{n}:{sorted(axioms[n] - ALLOWED_AXIOMS)}")
    checker = f"cd lean && lake build {mod} && lake env lean <#print axioms for {len(names)} theorems>"
    if ctx.tier == "thorough" and not failed:
        c = subprocess.run(["lake", "env", "leanchecker", mod], cwd=LEAN, capture_output=True, text=True)
        checker += f" && lake env leanchecker {mod}"
        if c.returncode != 0:
            failed.append("leanchecker:" + (c.stdout + c.stderr)[-800:])
    res = dict(obligations=len(names), discharged=discharged if not failed else min(discharged, max(0, len(names) - 1)),
               failed=failed, checker_cmd=checker, theorems=names, lean_s=round(time.time() - t, 1))
    ctx.coverage.update(obligations=res["obligations"], discharged=res["discharged"],
                        checker_cmd=checker, trusted_base=TRUSTED_BASE, theorems=names)
    ctx.lean = res
    return res


# ----------------------------------------------------------------------------- known findings

def known_findings(prop=None):
    p = os.path.join(VERIF, "known_findings.jsonl")
    out = []
    if os.path.exists(p):
        for l in open(p):
            l = l.strip()
            if l:
                j = json.loads(l)
                if prop is None or j.get("property") == prop:
                    out.append(j)
    return out


def safe_probe(fn, *a, pair=False, **k):
    """run a probe (a seeded program that checks the Spec directly on the implementation); an exception that escapes
    from the library while the probe's scenario runs is a failing observation of that scenario — reported with the
    probe's name and arguments as the input — not a crash of the check"""
    import traceback
    try:
        return fn(*a, **k)
    except Exception as e:  # noqa: BLE001
        tb = traceback.extract_tb(e.__traceback__)
        where = next((f"{os.path.basename(fr.filename)}:{fr.lineno}" for fr in reversed(tb) if "statemachine" in fr.filename), "")
        msg = (f"{fn.__name__}{a!r}: the scenario made the library raise {type(e).__name__}: {str(e)[:200]}"
               + (f" [{where}]" if where else ""))
        return (1, [msg]) if pair else [msg]


def run_py_corpus(ctx):
    """corpus/<prop>/*.py: regression inputs of fixed findings, plain programs with asserts"""
    import runpy
    import warnings
    cdir = os.path.join(VERIF, "corpus", ctx.prop)
    n = 0
    for fn in sorted(os.listdir(cdir)) if os.path.isdir(cdir) else []:
        if fn.endswith(".py"):
            n += 1
            try:
                with warnings.catch_warnings():
                    warnings.simplefilter("ignore")
                    runpy.run_path(os.path.join(cdir, fn))
            except BaseException as e:
                if isinstance(e, (KeyboardInterrupt, SystemExit)):
                    raise
                ctx.violation(os.path.join("corpus", ctx.prop, fn), f"regression input fails: {type(e).__name__}: {e}")
    return n


def scn_hash(text: str) -> str:
    return hashlib.sha1(text.encode()).hexdigest()[:12]


# ----------------------------------------------------------------------------- finish

def finish(ctx: Ctx):
    lean = getattr(ctx, "lean", None)
    if lean and lean["failed"] and not any(not ni for _, ni, _ in ctx.violations):
        # a proof obligation no longer checks and no failing input was found for it
        if not any(w.startswith("lean:") for _, _, w in ctx.violations):
            rp = ctx.write_replay("lean_obligation_failed.txt", "\n".join(lean["failed"]) + "\n")
            ctx.violation(rp, "lean:" + lean["failed"][0][:80], no_input=True)
    for k in ctx.known_printed:
        print(f"KNOWN-FINDING: property={ctx.prop} {k}")
    code = 0
    for path, no_input, what in ctx.violations:
        tail = " no-failing-input-found" if no_input else ""
        print(f"VIOLATION property={ctx.prop} replay={path}{tail}")
        code = 1
    cov = dict(ctx.coverage)
    cov.setdefault("evaluations", 0)
    cov.setdefault("distinct_nontrivial", 0)
    cov.setdefault("rule", "")
    cov.setdefault("samples", [])
    ev = dict(property_id=ctx.prop, tier=ctx.tier, seed=int(ctx.seed), level=ctx.level, coverage=cov,
              assumptions=ctx.assumptions, wall_s=round(ctx.elapsed(), 2), violations=len(ctx.violations),
              known_findings_printed=ctx.known_printed)
    os.makedirs(os.path.join(ctx.base, "evidence"), exist_ok=True)
    with open(os.path.join(ctx.base, "evidence", f"{ctx.prop}.json"), "w") as f:
        json.dump(ev, f, indent=1, default=str)
    print(f"[{ctx.prop}] tier={ctx.tier} seed={ctx.seed} evaluations={cov['evaluations']} "
          f"nontrivial={cov['distinct_nontrivial']} obligations={cov.get('obligations')} "
          f"discharged={cov.get('discharged')} violations={len(ctx.violations)} wall={ev['wall_s']}s")
    return code
