"""C10 scenarios: machines over many kinds of state values, model shapes, field names, histories of
events and external writes. Generator, (de)serialiser, rendering for the Lean driver `drv_store`.

Every random choice comes from the `rng` passed in.
"""
from __future__ import annotations

import enum
import json
import random
from dataclasses import asdict, dataclass, field


# ----------------------------------------------------------------------------- value pool

class Color(enum.Enum):
    RED = 1
    GREEN = 2
    ZERO = 0


class Lvl(enum.Enum):
    """enum whose members follow the truthiness of their value: `Lvl.OFF` is falsy"""
    OFF = 0
    ON = 1

    def __bool__(self):
        return bool(self.value)


class Flag(enum.IntEnum):
    NO = 0
    YES = 1


# key -> python value. Keys are what scenarios and replays contain.
VALS = {
    "str:": "", "str:a": "a", "str:b": "b", "str:0": "0", "str:None": "None", "str:state": "state",
    "str:False": "False", "str: ": " ",
    "int:0": 0, "int:-1": -1, "int:7": 7, "int:1": 1, "int:2": 2, "int:big": 2 ** 70,
    "bool:False": False, "bool:True": True,
    "float:0.0": 0.0, "float:2.5": 2.5, "float:-0.0": -0.0,
    "enum:Color.RED": Color.RED, "enum:Color.GREEN": Color.GREEN, "enum:Color.ZERO": Color.ZERO,
    "enum:Lvl.OFF": Lvl.OFF, "enum:Lvl.ON": Lvl.ON,
    "ienum:Flag.NO": Flag.NO, "ienum:Flag.YES": Flag.YES,
    "tuple:()": (), "tuple:(1,2)": (1, 2), "tuple:(0,)": (0,), "tuple:('a',1)": ("a", 1), "tuple:((),)": ((),),
    "bytes:": b"", "bytes:x": b"x",
    "fset:": frozenset(), "fset:1": frozenset([1]),
}


class StateObj:
    """stands for one of the machine's own `State` objects used where a state *value* belongs
    (`sm.current_state_value = sm.s0`, `model.state = M.s1`): resolved when the operation is performed"""

    def __init__(self, idx):
        self.idx = idx

    def __repr__(self):
        return f"M.s{self.idx}"


KEYS = list(VALS)                       # what a state value / start value / initial content may be
VALS["sobj:0"] = StateObj(0)
VALS["sobj:1"] = StateObj(1)
WRITE_KEYS = list(VALS)                 # … and what a history may try to write
FALSY_KEYS = [k for k in KEYS if not VALS[k]]
KINDS = sorted({k.split(":")[0] for k in KEYS})


def collide(a: str, b: str) -> bool:
    """two pool values that a dict treats as one key (0 / False / 0.0 / Flag.NO, 1 / True / Flag.YES …)"""
    return a != b and VALS[a] == VALS[b]


def compatible(keys) -> bool:
    ks = list(keys)
    return not any(collide(a, b) for i, a in enumerate(ks) for b in ks[i + 1:])


def key_of(v):
    """python value -> pool key, strict on type and equality (so `False` is never taken for `0`)"""
    if v is None:
        return None
    sid = getattr(v, "id", None)
    if type(v).__name__ in ("State", "InstanceState") and isinstance(sid, str) and sid[:1] == "s" and sid[1:].isdigit():
        return f"sobj:{sid[1:]}"
    for k, pv in VALS.items():
        if type(pv) is type(v) and pv == v and repr(pv) == repr(v):
            return k
    return "?" + repr(v)[:40]


EVENTS = ["go", "go_back", "e", "e1", "e10", "stop", "tick", "nope"]   # "nope" is never declared
FIELDS = ["state", "st", "status", "current", "_state", "workflow_step", "x", "state_value", "model", "value"]
SHAPES = ["none", "default", "plain", "noattr", "property", "classdefault", "len0", "boolfalse", "listsub",
          "dictsub", "slots", "proxy", "mixin", "mixinlen0", "getattr"]
FALSY_SHAPES = {"len0", "boolfalse", "listsub", "dictsub", "mixinlen0"}
MIXINS = ("mixin", "mixinlen0")
STATE_NAMES = [None, None, "Same", "Same", "A", "draft"]


# ----------------------------------------------------------------------------- scenario

@dataclass
class SScn:
    name: str
    values: list = field(default_factory=list)      # pool key per state (declaration order)
    names: list = field(default_factory=list)       # explicit State(name=…) or None
    initial: int = 0
    finals: list = field(default_factory=list)
    trans: list = field(default_factory=list)       # [src, event index, tgt]
    allow: bool = False
    field_name: str = "state"
    start: str | None = None                        # pool key
    shape: str = "none"
    cell0: str | None = None                        # what the user's object holds before construction
    ops: list = field(default_factory=list)         # ["send", ev] ["wv", key|None] ["ws", idx] ["raw", key|None] ["del"] ["read"]
    fixed: bool = True                              # which variant of the model the tree is expected to be
    bundles: list = field(default_factory=list)     # [i, k]: ops i+1 .. i+k are performed *from inside* a callback of
                                                    # the transition that `send` op i runs (one macrostep); only the
                                                    # last of them may be a send (it is queued behind the running event)

    def distinct(self):
        return len(set(self.values)) == len(self.values)

    def used_keys(self):
        ks = list(self.values)
        for k in [self.start, self.cell0] + [op[1] for op in self.ops if op[0] in ("wv", "raw")]:
            if k is not None and k not in ks:
                ks.append(k)
        return ks

    def tokens(self):
        return {k: i + 1 for i, k in enumerate(self.used_keys())}


def to_json(s: SScn) -> str:
    return json.dumps(asdict(s), sort_keys=True)


def from_json(txt: str) -> SScn:
    d = json.loads(txt)
    return SScn(**d)


def model_lines(s: SScn):
    tk = s.tokens()
    t = lambda k: "-" if k is None else str(tk[k])
    if s.shape == "none":
        model = "none"
    elif s.shape in FALSY_SHAPES:
        model = "falsy"
    else:
        model = "truthy"
    out = [f"scn store {s.name}",
           f"opt fixed={int(s.fixed)} allow={int(s.allow)} initial={s.initial} start={t(s.start)} "
           f"model={model} cell={t(s.cell0)}",
           "values " + ",".join(t(k) for k in s.values)]
    falsy = [str(tk[k]) for k in tk if not VALS[k]]
    if falsy:
        out.append("falsy " + ",".join(falsy))
    for (a, e, b) in s.trans:
        out.append(f"trans {a} {e} {b}")
    for op in s.ops:
        if op[0] == "send":
            out.append(f"op send {op[1]}")
        elif op[0] in ("wv", "raw"):
            out.append(f"op {op[0]} {t(op[1])}")
        elif op[0] == "ws":
            out.append(f"op ws {op[1]}")
        elif op[0] == "del":
            out.append("op raw -")
        else:
            out.append("op read")
    out.append("end")
    return out


def render(s: SScn) -> str:
    """human-readable Python-like text of the scenario (goes into replay files)"""
    L = [f"# scenario {s.name}", "class M(StateMachine):"]
    for i, k in enumerate(s.values):
        extra = ""
        if i == s.initial:
            extra += ", initial=True"
        if i in s.finals:
            extra += ", final=True"
        if s.names[i] is not None:
            extra += f", name={s.names[i]!r}"
        L.append(f"    s{i} = State(value={VALS[k]!r}{extra})")
    for (a, e, b) in s.trans:
        L.append(f"    # s{a} --{EVENTS[e]}--> s{b}")
    L.append(f"user_model = <{s.shape}>  # field {s.field_name!r} holds "
             f"{VALS[s.cell0]!r}" if s.cell0 is not None else f"user_model = <{s.shape}>  # field {s.field_name!r} holds nothing")
    kw = []
    if s.shape != "none":
        kw.append("user_model")
    if s.field_name != "state":
        kw.append(f"state_field={s.field_name!r}")
    if s.start is not None:
        kw.append(f"start_value={VALS[s.start]!r}")
    if s.allow:
        kw.append("allow_event_without_transition=True")
    L.append(f"sm = M({', '.join(kw)})")
    for op in s.ops:
        if op[0] == "send":
            L.append(f"sm.send({EVENTS[op[1]]!r})")
        elif op[0] == "wv":
            L.append(f"sm.current_state_value = {None if op[1] is None else VALS[op[1]]!r}")
        elif op[0] == "ws":
            L.append(f"sm.current_state = sm.s{op[1]}")
        elif op[0] == "raw":
            L.append(f"setattr(user_model, {s.field_name!r}, {None if op[1] is None else VALS[op[1]]!r})")
        elif op[0] == "del":
            L.append(f"delattr(user_model, {s.field_name!r})")
        else:
            L.append("# read")
    return "\n".join(L) + "\n"


# ----------------------------------------------------------------------------- generator

def gen_values(rng: random.Random, n: int):
    """n pairwise non-colliding pool keys, biased towards falsy values and mixed kinds"""
    for _ in range(200):
        style = rng.random()
        if style < 0.25:
            kind = rng.choice(KINDS)
            pool = [k for k in KEYS if k.startswith(kind + ":")]
            if len(pool) < n:
                pool = KEYS
        elif style < 0.45:
            pool = FALSY_KEYS + rng.sample(KEYS, 4)
        else:
            pool = KEYS
        pool = list(dict.fromkeys(pool))
        if len(pool) < n:
            continue
        ks = rng.sample(pool, n)
        if compatible(ks):
            return ks
    return ["str:a", "str:b", "int:7", "tuple:()", "enum:Color.RED", "str:"][:n]


def gen_scenario(rng: random.Random, name: str, n_ops=(3, 10)) -> SScn:
    s = SScn(name=name)
    n = rng.choice([1, 2, 2, 3, 3, 3, 4, 4, 5, 6])
    s.values = gen_values(rng, n)
    if n >= 2 and rng.random() < 0.06:          # duplicate values: states_map keeps the last one
        i, j = rng.sample(range(n), 2)
        s.values[j] = s.values[i]
    s.names = [rng.choice(STATE_NAMES) for _ in range(n)]
    s.initial = rng.randrange(n)
    s.finals = [i for i in range(n) if i != s.initial and rng.random() < 0.15]
    evs = rng.sample(range(len(EVENTS) - 1), rng.randint(1, 4))
    nonfinal = [i for i in range(n) if i not in s.finals]
    reach = [s.initial]
    others = [i for i in range(n) if i != s.initial]
    rng.shuffle(others)
    for o in others:
        pred = rng.choice([r for r in reach if r not in s.finals])
        s.trans.append([pred, rng.choice(evs), o])
        reach.append(o)
    for _ in range(rng.randint(0, 6)):
        s.trans.append([rng.choice(nonfinal), rng.choice(evs), rng.randrange(n)])
    for i in nonfinal:
        if not any(t[0] == i for t in s.trans):
            s.trans.append([i, rng.choice(evs), rng.choice([i, s.initial])])
    s.allow = rng.random() < 0.25
    s.field_name = rng.choice(FIELDS) if rng.random() < 0.7 else "state"
    s.shape = rng.choice(SHAPES)
    if s.shape in MIXINS:           # MachineMixin passes only the model and the field name
        s.allow = False
    # other values that may be written / used as start value: must not collide with the machine's
    others_ok = [k for k in WRITE_KEYS if k not in s.values and compatible(s.values + [k])]

    def invalid(objects=False):
        # (a State object where a value belongs: only as a written value, not as start value / initial content)
        return rng.choice([k for k in others_ok
                           if not k.startswith("sobj:") or (objects and int(k[5:]) < len(s.values))])

    def valid():
        # bias towards falsy declared values
        fal = [k for k in s.values if not VALS[k]]
        return rng.choice(fal) if fal and rng.random() < 0.5 else rng.choice(s.values)

    if s.shape not in ("none", "noattr") and rng.random() < 0.3:
        s.cell0 = valid() if rng.random() < 0.85 else invalid()
    if s.shape not in MIXINS:
        r = rng.random()
        if r < 0.5:
            s.start = valid()
        elif r < 0.58:
            s.start = invalid()
    for _ in range(rng.randint(*n_ops)):
        r = rng.random()
        if r < 0.38:
            ev = rng.choice(evs) if rng.random() < 0.9 else len(EVENTS) - 1
            s.ops.append(["send", ev])
        elif r < 0.52:
            s.ops.append(["wv", valid() if rng.random() < 0.7 else (invalid(True) if rng.random() < 0.8 else None)])
        elif r < 0.64:
            s.ops.append(["ws", rng.randrange(n)])
        elif r < 0.86:
            q = rng.random()
            if q < 0.65:
                s.ops.append(["raw", valid()])
            elif q < 0.85:
                s.ops.append(["raw", invalid(True)])
            elif q < 0.93 or s.shape not in ("plain", "noattr", "listsub", "len0", "boolfalse", "dictsub"):
                s.ops.append(["raw", None])
            else:
                s.ops.append(["del"])
        else:
            s.ops.append(["read"])
    # somebody writes the model field, and sends the next event, from inside a callback of a running transition
    i = 0
    while i < len(s.ops):
        if s.ops[i][0] == "send" and rng.random() < 0.35:
            k = 0
            while i + k + 1 < len(s.ops) and k < 3:
                k += 1
                if s.ops[i + k][0] == "send":
                    break
            if k:
                s.bundles.append([i, k])
                i += k
        i += 1
    # values outside the machine never collide (==) with a declared one (`others_ok`), so a token is
    # mapped iff the Python value is a key of states_map
    return s


def nontrivial(s: SScn) -> bool:
    """a falsy value or a non-default model shape is involved and >= 1 external write happens"""
    falsy = any(not VALS[k] for k in s.used_keys())
    shape = s.shape not in ("none", "default")
    ext = any(op[0] in ("wv", "ws", "raw", "del") for op in s.ops)
    return (falsy or shape) and ext
