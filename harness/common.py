"""Shared plumbing: paths, the Lean driver pipe, diffing."""
from __future__ import annotations

import os
import subprocess
import sys

HERE = os.path.dirname(os.path.abspath(__file__))
VERIF = os.path.dirname(HERE)
LEAN = os.path.join(VERIF, "lean")
DRIVER = os.path.join(LEAN, ".lake", "build", "bin", "driver")
REPO = os.environ.get("VERIF_REPO", "/repo")


def assert_repo():
    import statemachine
    f = os.path.realpath(statemachine.__file__)
    if not f.startswith(os.path.realpath(REPO) + os.sep):
        raise SystemExit(f"statemachine imported from {f}, expected under {REPO}")


def run_driver(lines, exe="driver", root="Driver.lean"):
    """Pipe scenario lines to a Lean driver; returns {scenario name: [observation lines]}."""
    path = os.path.join(LEAN, ".lake", "build", "bin", exe)
    if os.path.exists(path):
        cmd = [path]
    else:
        cmd = ["lake", "env", "lean", "--run", root]
    p = subprocess.run(cmd, input="\n".join(lines) + "\n", capture_output=True, text=True, cwd=LEAN)
    if p.returncode != 0:
        raise RuntimeError(f"driver failed: {p.stderr[:2000]}")
    out, cur, name = {}, None, None
    for l in p.stdout.split("\n"):
        if l.startswith("scn "):
            name = l[4:]
            cur = []
        elif l == "end":
            out[name] = cur
            cur = None
        elif cur is not None:
            cur.append(l)
    return out


def first_diff(a, b):
    for i, (x, y) in enumerate(zip(a, b)):
        if x != y:
            return i, x, y
    if len(a) != len(b):
        i = min(len(a), len(b))
        return i, (a[i] if i < len(a) else "<end>"), (b[i] if i < len(b) else "<end>")
    return None
