"""Regression input of D29 (fixed by the commit recorded in known_findings.jsonl): a copy of a machine to
which a listener was attached with add_listener() must evaluate guard expressions as its original does.

`cond="!locked"` with `locked` provided by the machine (True) and by the late listener (False): the original
holds one guard per attachment pass (not machine.locked, not listener.locked) and refuses `go`; before the
repair the copy registered all providers in one pass (not (machine.locked and listener.locked)) and accepted."""
import copy

from statemachine import State, StateMachine
from statemachine.exceptions import TransitionNotAllowed


class D29M(StateMachine):
    a = State(initial=True)
    b = State()
    go = a.to(b, cond="!locked")
    alt = a.to(b, cond="locked or busy")
    back = b.to(a)
    locked = True
    busy = False


class Late:
    def __init__(self, locked, busy):
        self.locked = locked
        self.busy = busy


def outcome(sm, ev):
    try:
        sm.send(ev)
        return sm.current_state.id
    except TransitionNotAllowed:
        return "refused"


for (ml, mb, ll, lb) in [(a, b, c, d) for a in (True, False) for b in (True, False) for c in (True, False)
                         for d in (True, False)]:
    for ev in ("go", "alt"):
        D29M.locked, D29M.busy = ml, mb
        sm = D29M()
        sm.add_listener(Late(ll, lb))
        twice = copy.deepcopy(copy.deepcopy(sm))
        once = copy.deepcopy(sm)
        o = outcome(sm, ev)
        for name, c in (("deepcopy of a deepcopy", twice), ("deepcopy", once)):
            got = outcome(c, ev)
            assert got == o, (f"D29: machine(locked={ml}, busy={mb}) + late listener(locked={ll}, busy={lb}), "
                              f"event {ev}: original {o}, {name} {got}")
