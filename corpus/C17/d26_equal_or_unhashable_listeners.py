"""Regression inputs of D26 (fixed by the commit recorded in known_findings.jsonl): listeners are
attached by identity — objects that compare equal, or that are unhashable, are all served, also by
a copy of the machine."""
import copy
from dataclasses import dataclass

from statemachine import State, StateMachine

log = []


class Eq:
    def __eq__(self, other):
        return isinstance(other, Eq)

    def __hash__(self):
        return 7


class A(Eq):
    def cb1(self):
        log.append("A.cb1")


class B(Eq):
    def on_enter_b(self):
        log.append("B.enter_b")


@dataclass
class U:                      # eq=True without frozen: unhashable
    n: int = 0

    def on_enter_b(self):
        log.append("U.enter_b")


class D26M(StateMachine):
    a = State(initial=True)
    b = State()
    go = a.to(b, on="cb1")
    back = b.to(a)


x, y = B(), A()
assert x == y and hash(x) == hash(y)
sm = D26M(listeners=[x, y])
sm.go()
assert log == ["A.cb1", "B.enter_b"], log
c = copy.deepcopy(sm)
c.back()
log.clear()
c.go()
assert log == ["A.cb1", "B.enter_b"], f"D26: the copy lost a listener that compares equal to another: {log}"
log.clear()
sm = D26M(listeners=[U(), A()])
sm.go()
assert log == ["A.cb1", "U.enter_b"], log
sm2 = D26M(listeners=[A()])
sm2.add_listener(U())
