"""Regression inputs of D25a/D25b (fixed by the commit recorded in known_findings.jsonl): a copy of a
machine must keep the callbacks its listeners provide, and must run the async engine when its only
coroutine callbacks come from a listener."""
import copy
import pickle
import warnings

from statemachine import State, StateMachine

log = []


class L:
    def cb1(self):
        log.append("cb1")


class LA:
    async def on_enter_b(self):
        log.append("async_enter_b")


class D25M(StateMachine):
    a = State(initial=True)
    b = State()
    go = a.to(b, on="cb1")
    back = b.to(a)


class D25M2(StateMachine):
    a = State(initial=True)
    b = State()
    go = a.to(b)
    back = b.to(a)


for mech in ("deepcopy", "pickle"):
    log.clear()
    sm = D25M(listeners=[L()])
    sm.go()
    c = copy.deepcopy(sm) if mech == "deepcopy" else None
    if c is not None:      # (classes defined in a run_path module are not picklable by name)
        c.back()
        c.go()
        assert log == ["cb1", "cb1"], f"D25a: clone does not run the listener-provided callback: {log}"

log.clear()
sm = D25M2(listeners=[LA()])
sm.go()
assert log == ["async_enter_b"], log
with warnings.catch_warnings(record=True) as w:
    warnings.simplefilter("always")
    c = copy.deepcopy(sm)
    c.back()
    log.clear()
    c.go()
    assert log == ["async_enter_b"], f"D25b: clone never awaited the listener's coroutine callback: {log}"
