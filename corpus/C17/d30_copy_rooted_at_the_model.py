"""Regression input of D30 (fixed by the commit recorded in known_findings.jsonl): a deepcopy / pickle round trip that
*starts at the model* — a `MachineMixin` model owns its machine; a model onto which the triggers were bound with
`bind_events_to` refers to it — rebuilds the machine while the model copy is still empty. Before the repair the copy's
engine then took the model for a fresh one: sync machines ran the initial state's enter callbacks again during the
copy; async machines queued a stale activation and refused their first event (`TransitionNotAllowed: Can't
__initial__ when in ...`)."""
import asyncio
import copy
import warnings

from statemachine import State, StateMachine

log = []

with warnings.catch_warnings():
    warnings.simplefilter("ignore")

    class D30Sync(StateMachine):
        a = State(initial=True)
        b = State()
        c = State(final=True)
        go = a.to(b) | b.to(c)

        def on_enter_a(self):
            log.append("enter_a")

        def on_enter_c(self):
            log.append("enter_c")

    class D30Async(StateMachine):
        a = State(initial=True)
        b = State()
        c = State(final=True)
        go = a.to(b) | b.to(c)

        async def on_enter_a(self):
            log.append("enter_a")

        async def on_enter_c(self):
            log.append("enter_c")


class Order:
    """what `statemachine.mixins.MachineMixin` does (without its class registry, which wants a configured django
    when django is installed): the model creates its machine, keeps it, and gets the triggers as methods"""

    def __init__(self):
        self.state = None
        sm = D30Sync(self, state_field="state")
        self.statemachine = sm
        with warnings.catch_warnings():
            warnings.simplefilter("ignore")
            sm.bind_events_to(self)


class Plain:
    state = None


# a MachineMixin model, copied as applications copy their records
order = Order()
order.go()
assert order.state == "b" and log == ["enter_a"], (order.state, log)
log.clear()
twin = copy.deepcopy(order)
assert log == [], f"D30: copying the model ran callbacks of its machine: {log}"
assert twin.state == "b" and twin.statemachine.current_state.id == "b", (twin.state, twin.statemachine.current_state)
assert twin.statemachine is not order.statemachine and twin.statemachine.model is twin
twin.go()
assert (twin.state, order.state, log) == ("c", "b", ["enter_c"]), (twin.state, order.state, log)

# triggers bound onto a plain model; the copy starts at the model; async machine
log.clear()


async def main():
    m = Plain()
    sm = D30Async(m)
    sm.bind_events_to(m)
    await m.go()
    assert m.state == "b" and log == ["enter_a"], (m.state, log)
    log.clear()
    c = copy.deepcopy(m)
    assert log == [] and c.state == "b", (log, c.state)
    await c.go()          # before the repair: TransitionNotAllowed("Can't __initial__ when in B.")
    assert (c.state, m.state, log) == ("c", "b", ["enter_c"]), (c.state, m.state, log)

asyncio.run(main())
