"""Regression input of D36 (fixed by the commit recorded in known_findings.jsonl): an async machine is created
over an empty model (its activation is deferred), then the record is loaded — a valid state is stored on the
model — and only then the first event arrives / the machine is activated explicitly."""
import asyncio
import warnings

from statemachine import State, StateMachine
from statemachine.exceptions import TransitionNotAllowed

warnings.simplefilter("ignore")


class Mdl:
    state = None


class D36(StateMachine):
    a = State(initial=True)
    b = State()
    c = State(final=True)
    go = a.to(b)
    fin = b.to(c)
    entered = []

    async def on_fin(self):
        return "fin"

    def on_enter_state(self, state):
        D36.entered.append(state.id)


async def in_loop():
    m = Mdl()
    sm = D36(m)
    m.state = "b"
    assert await sm.activate_initial_state() is None
    assert D36.entered == [], D36.entered
    assert m.state == "b"
    assert await sm.fin() == "fin" and m.state == "c"
    # a caller's own `__initial__` is still an unknown event
    try:
        await sm.send("__initial__")
    except TransitionNotAllowed:
        pass
    else:
        raise AssertionError("send('__initial__') accepted")


asyncio.run(in_loop())
D36.entered.clear()
m = Mdl()
sm = D36(m)
m.state = "b"
assert sm.fin() == "fin" and m.state == "c", "the first event after the record was loaded"
assert D36.entered == ["c"], D36.entered
# written and taken away again before the activation: activated as usual
m = Mdl()
sm = D36(m)
m.state = "b"
m.state = None
D36.entered.clear()
assert sm.go() is None and m.state == "b" and D36.entered == ["a", "b"], (m.state, D36.entered)
