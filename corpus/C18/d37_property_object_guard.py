"""Regression input of D37 (fixed by the commit recorded in known_findings.jsonl): guards given as `property`
objects. The edge label lists them by attribute name, `!` for `unless`, for the class and for an instance."""
import warnings

from statemachine import State, StateMachine
from statemachine.contrib.diagram import DotGraphMachine

warnings.simplefilter("ignore")


class Order:
    state = None

    @property
    def is_ready(self):
        return True

    @property
    def is_locked(self):
        return False


class D37(StateMachine):
    a = State(initial=True)
    b = State(final=True)

    @property
    def ok(self):
        return True

    go = a.to(b, cond=[ok, Order.is_ready], unless=Order.is_locked)


def labels(g):
    return sorted(e.get_label().strip('"') for e in g.get_edges() if e.get_source().strip('"') != "i")


assert labels(DotGraphMachine(D37)()) == ["go\n[ok, is_ready, !is_locked]"], labels(DotGraphMachine(D37)())
sm = D37(Order())
assert labels(sm._graph()) == ["go\n[ok, is_ready, !is_locked]"], labels(sm._graph())
sm.go()
assert sm.current_state.id == "b"
