"""Regression input of D38 (fixed by the commit recorded in known_findings.jsonl): the diagram of an async
machine that has not been activated yet (no current state): every state drawn, none highlighted; after the
activation exactly the current one."""
import asyncio
import warnings

from statemachine import State, StateMachine

warnings.simplefilter("ignore")


class D38(StateMachine):
    a = State(initial=True)
    b = State()
    c = State(final=True)
    go = a.to(b)
    fin = b.to(c)

    async def on_go(self):
        pass


def highlighted(g):
    return sorted(n.get_name().strip('"') for n in g.get_nodes()
                  if n.get_name().strip('"') != "i" and n.get_fillcolor() not in (None, "white"))


async def main():
    sm = D38()
    g = sm._graph()
    assert sorted(n.get_name().strip('"') for n in g.get_nodes()) == ["a", "b", "c", "i"]
    assert highlighted(g) == [], highlighted(g)
    await sm.activate_initial_state()
    assert highlighted(sm._graph()) == ["a"]
    await sm.go()
    assert highlighted(sm._graph()) == ["b"]


asyncio.run(main())
