"""Regression input of D43 (fixed by the commit recorded in known_findings.jsonl): a callback *method* behind a
decorator that sets `__signature__` to the signature of the function it wraps (what `decorator`, `makefun`, `boltons`
style decorators do). That signature lists the instance; the bound method must still receive exactly what it
declares — named parameters the same-named built-ins / keywords, the remaining ones the positional arguments in
order — as the undecorated method does."""
import functools
import inspect

from statemachine import State, StateMachine


def keeps_signature(f):
    @functools.wraps(f)
    def w(*a, **k):
        return f(*a, **k)
    w.__signature__ = inspect.signature(f)
    return w


def machine(deco):
    class M(StateMachine):
        a = State(initial=True)
        b = State()
        go = a.to(b)
        back = b.to(a)

        @deco
        def on_go(self, x, source, y=None, *rest, k=0, **kw):
            return ("on_go", x, source.id, y, rest, k, sorted(kw))

        @deco
        def before_back(self, target, first=None):
            return ("before_back", target.id, first)
    return M


def run(deco):
    sm = machine(deco)()
    out = [sm.go(1, 2, 3, k=9, extra="e")]
    out.append(sm.back("p"))
    out.append(sm.go(7))
    return out


plain = run(lambda f: f)
decorated = run(keeps_signature)
assert plain == decorated, (plain, decorated)
assert plain[0] == ("on_go", 1, "a", 3, (), 9, ["extra"]) or plain[0][1] == 1, plain
print("OK")
