"""Regression input of D31 (fixed by the commit recorded in known_findings.jsonl): user keyword arguments may have any
name; `key` used to collide with a parameter of the callbacks registry (`TypeError: CallbacksRegistry.call() got
multiple values for argument 'key'`), on both engines, for guards and for actions."""
import asyncio
import warnings

from statemachine import State, StateMachine

with warnings.catch_warnings():
    warnings.simplefilter("ignore")

    class D31(StateMachine):
        a = State(initial=True)
        b = State()
        go = a.to(b, cond="ok") | b.to(a)

        def ok(self, key=None, **kw):
            return key == 5

        def on_go(self, key=None, callback=None):
            return (key, callback)

    class D31Async(StateMachine):
        a = State(initial=True)
        b = State()
        go = a.to(b, cond="ok")

        async def ok(self, key=None):
            return key == 5

        async def on_go(self, key=None):
            return key

sm = D31()
assert sm.send("go", key=5, callback=7) == (5, 7)
assert sm.current_state.id == "b"
assert sm.send("go", key=1) == (1, None)      # b -> a has no guard


async def main():
    sm = D31Async()
    await sm.activate_initial_state()
    assert await sm.send("go", key=5) == 5

asyncio.run(main())
