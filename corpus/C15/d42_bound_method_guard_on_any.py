"""Regression input of D42 (fixed by the commit recorded in known_findings.jsonl): a guard given as a bound method
of an object outside the machine. `z.from_.any(cond=flags.is_ok)` must ask *that* object, exactly as the explicit
`a.to(z, cond=flags.is_ok) | b.to(z, cond=flags.is_ok)` does — not a copy of it taken while the class was built."""
from statemachine import State, StateMachine
from statemachine.exceptions import TransitionNotAllowed


class Flags:
    ok = False
    asked = 0

    def is_ok(self):
        self.asked += 1
        return self.ok


def machines(flags):
    class ByAny(StateMachine):
        a = State(initial=True)
        b = State()
        z = State(final=True)
        go = a.to(b)
        stop = z.from_.any(cond=flags.is_ok)

    class Explicit(StateMachine):
        a = State(initial=True)
        b = State()
        z = State(final=True)
        go = a.to(b)
        stop = a.to(z, cond=flags.is_ok) | b.to(z, cond=flags.is_ok)

    return ByAny, Explicit


for history in ([], ["go"]):
    seen = []
    for which in (0, 1):
        flags = Flags()
        cls = machines(flags)[which]
        sm = cls()
        for e in history:
            sm.send(e)
        try:
            sm.send("stop")
            first = "fired"
        except TransitionNotAllowed:
            first = "refused"
        flags.ok = True          # the application changes its mind after the class exists
        try:
            sm.send("stop")
            second = "fired"
        except TransitionNotAllowed:
            second = "refused"
        seen.append((first, second, sm.current_state.id, flags.asked))
    assert seen[0] == seen[1] == ("refused", "fired", "z", 2), (history, seen)
print("OK")
