"""Regression input of D46 (fixed by the commit recorded in known_findings.jsonl): `event=` given as a space-separated
string written with a run of blanks, or a blank at either end, declares the same events as the list of the names —
no event named ""."""
from statemachine import State, StateMachine
from statemachine.exceptions import TransitionNotAllowed


def machine(ev):
    class W(StateMachine):
        s1 = State(initial=True)
        s2 = State()
        s3 = State(final=True)
        c = s2.to(s3)
        s1.to(s2, event=ev)
    return W


ref = machine(["a", "b"])
for text in ("a b", "a  b", " a b", "a b ", "  a   b  ", "a\tb"):
    W = machine(text)
    assert [str(e) for e in W.events] == [str(e) for e in ref.events], (text, [str(e) for e in W.events])
    assert [e.id for e in W().allowed_events] == ["a", "b"], text
    w = W()
    try:
        w.send("")
        raise AssertionError(f"{text!r}: send('') was accepted, state {w.current_state.id}")
    except TransitionNotAllowed:
        pass
    w.send("b")
    assert w.current_state.id == "s2"
print("OK")
