"""Regression input of D44 (fixed by the commit recorded in known_findings.jsonl): `add_listener()` called from inside
a callback, the new listener having a callback in the very group that is executing. The transition completes, and
from the next event on the listener receives its callbacks like any other provider — once per event."""
import asyncio

from statemachine import State, StateMachine


class Late:
    def __init__(self):
        self.log = []

    def after_go(self, source, target):
        self.log.append(("after_go", source.id, target.id))

    def on_enter_state(self, state):
        self.log.append(("enter", state.id))


def sync_case():
    class M(StateMachine):
        a = State(initial=True)
        b = State()
        go = a.to(b)
        back = b.to(a)

        def after_go(self):
            if not hasattr(self, "late"):
                self.late = Late()
                self.add_listener(self.late)
            return "x"

    sm = M()
    sm.go()
    assert sm.current_state.id == "b"
    sm.back()
    sm.go()
    assert sm.late.log == [("enter", "a"), ("after_go", "a", "b"), ("enter", "b")] or \
        sm.late.log == [("enter", "a"), ("enter", "b"), ("after_go", "a", "b")], sm.late.log


def async_case():
    class M(StateMachine):
        a = State(initial=True)
        b = State()
        go = a.to(b)
        back = b.to(a)

        async def on_enter_state(self, state):
            if state.id == "b" and not hasattr(self, "late"):
                self.late = Late()
                self.add_listener(self.late)

    async def main():
        sm = M()
        await sm.activate_initial_state()
        await sm.go()
        assert sm.current_state.id == "b"
        await sm.back()
        await sm.go()
        assert ("after_go", "a", "b") in sm.late.log and sm.late.log.count(("enter", "b")) == 1, sm.late.log
    asyncio.run(main())


sync_case()
async_case()
print("OK")
