"""Regression input of D7b (fixed by the commit recorded in known_findings.jsonl): defining an empty
subclass of a machine that uses from_.any() must not change the base class or its live instances."""
from statemachine import State, StateMachine

calls = []


class Base(StateMachine):
    a = State(initial=True)
    b = State()
    z = State(final=True)
    go = a.to(b)
    cancel = z.from_.any(cond="ok")

    def ok(self):
        calls.append(1)
        return False


sm = Base()
before = [(t.source.id, t.target.id, t.event) for t in Base.a.transitions]
try:
    sm.cancel()
except Exception:
    pass
n_before = len(calls)


class Sub(Base):
    pass


class Sub2(Base):
    pass


after = [(t.source.id, t.target.id, t.event) for t in Base.a.transitions]
calls.clear()
try:
    sm.cancel()
except Exception:
    pass
assert after == before, f"defining subclasses changed Base.a.transitions: {before} -> {after}"
assert len(calls) == n_before == 1, f"guard of the any() transition evaluated {len(calls)} times after subclassing"
sub = [(t.source.id, t.target.id, t.event) for t in Sub.a.transitions]
assert sub == before, f"subclass holds duplicated transitions: {sub}"
