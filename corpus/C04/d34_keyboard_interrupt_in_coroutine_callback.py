"""Regression input of D34 (fixed by the commit recorded in known_findings.jsonl): a coroutine callback that
raises KeyboardInterrupt / SystemExit on an async machine driven from synchronous code. asyncio lets these two
escape from the loop at once; the engine's task had not unwound (lock held) and resumed inside the *next*
send(), which raised the same exception again and lost its event."""
import warnings

from statemachine import State, StateMachine
from statemachine.exceptions import TransitionNotAllowed

warnings.simplefilter("ignore")

for exc in (KeyboardInterrupt, SystemExit):
    for phase in ("before", "on", "after"):
        class D34(StateMachine):
            a = State(initial=True)
            b = State()
            go = a.to(b)
            back = b.to(a)

            async def before_go(self, boom=None):
                if boom == "before":
                    raise exc
                return "before"

            async def on_go(self, boom=None):
                if boom == "on":
                    raise exc
                return "on"

            async def after_go(self, boom=None):
                if boom == "after":
                    raise exc

        sm = D34()
        try:
            sm.go(boom=phase)
        except exc:
            pass
        else:
            raise AssertionError("the failure did not reach the caller")
        expected = "b" if phase == "after" else "a"
        assert sm.current_state.id == expected, (exc.__name__, phase, sm.current_state.id)
        if expected == "b":
            assert sm.back() is None
        # the next event is processed normally from that state
        try:
            r = sm.go()
        except (KeyboardInterrupt, SystemExit) as e:
            raise AssertionError(f"{exc.__name__} in {phase}: the next send() raised {type(e).__name__} again") from None
        assert r == ["before", "on"], (exc.__name__, phase)
        assert sm.current_state.id == "b"
        try:
            sm.go()
        except TransitionNotAllowed:
            pass
        else:
            raise AssertionError("go from b")
