"""Regression input of D27 (fixed by the commit recorded in known_findings.jsonl): a callback that raises
a BaseException (here a stand-in for KeyboardInterrupt / asyncio.CancelledError) drops the queued events
like any other failing callback."""
import asyncio

from statemachine import State, StateMachine


class Boom(BaseException):
    pass


def make(is_async):
    log = []

    class D27(StateMachine):
        a = State(initial=True)
        b = State()
        c = State()
        go = a.to(b)
        nxt = b.to(c)
        back = c.to(a) | b.to(a)

        if is_async:
            async def on_go(self):
                r = self.send("nxt")
                if asyncio.iscoroutine(r):
                    await r

            async def after_go(self):
                raise Boom()
        else:
            def on_go(self):
                self.send("nxt")

            def after_go(self):
                raise Boom()

        def on_nxt(self):
            log.append("nxt ran")
    return D27, log


for is_async in (False, True):
    cls, log = make(is_async)
    sm = cls()
    try:
        sm.go()
        raise AssertionError("the exception did not reach the caller")
    except Boom:
        pass
    assert sm.current_state.id == "b", sm.current_state.id
    r = sm.send("back")
    assert log == [] and sm.current_state.id == "a", f"D27 (async={is_async}): the event queued before the failure ran later: {log}, state {sm.current_state.id}"
