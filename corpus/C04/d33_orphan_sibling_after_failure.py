"""Regression input of D33 (fixed by the commit recorded in known_findings.jsonl): on the async engine the
callbacks of one group run under `asyncio.gather`; when one of them raised, a sibling that was suspended at
that moment went on in the background after `send()` had reported the failure — during the next, unrelated
event it sent its own event (the machine ended somewhere no event of the caller leads) or ran side by side with
that event's callbacks. Driven from synchronous code and from inside a running loop."""
import asyncio
import warnings

from statemachine import State, StateMachine

warnings.simplefilter("ignore")


def make(log):
    class D33(StateMachine):
        s1 = State(initial=True)
        s2 = State()
        s3 = State()
        go = s1.to(s2)
        nxt = s1.to(s3) | s2.to(s3)
        other = s1.to.itself(internal=True) | s3.to.itself(internal=True)

        async def before_go(self):
            raise RuntimeError("boom")

        async def before_transition(self, event):
            log.append(f"begin {event}")
            if event == "go":
                for _ in range(5):
                    await asyncio.sleep(0)
                log.append("stale part of before_transition(go)")
                r = self.send("nxt")
                if asyncio.iscoroutine(r):
                    await r
            log.append(f"end {event}")

    return D33


def sync_driver():
    log = []
    sm = make(log)()
    try:
        sm.send("go")
    except RuntimeError:
        pass
    else:
        raise AssertionError("the failure did not reach the caller")
    assert sm.current_state.id == "s1", sm.current_state.id
    for _ in range(3):
        sm.send("other")
    assert sm.current_state.id == "s1", f"a callback of the abandoned event went on later: {log}"
    assert "stale part of before_transition(go)" not in log, log


async def loop_driver():
    log = []
    sm = make(log)()
    await sm.activate_initial_state()
    try:
        await sm.send("go")
    except RuntimeError:
        pass
    else:
        raise AssertionError("the failure did not reach the caller")
    for _ in range(10):
        await asyncio.sleep(0)
    await sm.send("other")
    assert sm.current_state.id == "s1", f"a callback of the abandoned event went on later: {log}"
    assert "stale part of before_transition(go)" not in log, log


sync_driver()
asyncio.run(loop_driver())
