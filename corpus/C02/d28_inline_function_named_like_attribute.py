"""Regression input of D28 (fixed by the commit recorded in known_findings.jsonl): an inline function callback
whose __name__ is also the name of an unrelated, non-method attribute of the model or of a listener."""
import warnings

from statemachine import State, StateMachine

warnings.simplefilter("ignore")
log = []


def audit():
    log.append("function audit")


class Mdl:
    state = None
    audit = 5


class Hooks:
    def __init__(self):
        self.audit = lambda: log.append("hook")


class D28(StateMachine):
    a = State(initial=True)
    b = State()
    go = a.to(b, on=audit)
    back = b.to(a)


sm = D28(Mdl())
sm.go()
assert log == ["function audit"], log
log.clear()
sm = D28(listeners=[Hooks()])
sm.go()
assert log == ["function audit"], log
