#!/usr/bin/env python3
"""Seeded property-breaking changes: confirm them and run the checks against them.

  tools/seeded.py import <dir-with patch.diff demo.py meta.json> <id>   confirm in a scratch worktree, keep as seeded/<id>/
  tools/seeded.py detect <id> [--props C01,C05] [--tier quick]           run the checks against the change
  tools/seeded.py detect-all [--jobs N] [--only-missing]
  tools/seeded.py table                                                  summary (markdown) of seeded/*/detect.json

Nothing is ever written to /repo: the change is applied to a scratch git worktree of /repo's HEAD under
/var/tmp (removed afterwards) and the checks are pointed at it with VERIF_REPO; out/ and evidence/ of such
runs go to a scratch directory (VERIF_SCRATCH) so the committed evidence is not touched.
"""
import json
import os
import shutil
import subprocess
import sys
import tempfile
import time
from concurrent.futures import ThreadPoolExecutor

VERIF = os.path.dirname(os.path.dirname(os.path.abspath(__file__)))
REPO = "/repo"
SEEDED = os.path.join(VERIF, "seeded")
PY = "/venv/bin/python"
TESTS = [PY, "-m", "pytest", "-q", "-p", "no:cacheprovider", "--timeout=900", "-x"]


def sh(cmd, cwd=None, env=None, timeout=3600):
    p = subprocess.run(cmd, cwd=cwd, env=env, capture_output=True, text=True, timeout=timeout)
    return p.returncode, p.stdout + p.stderr


class Worktree:
    def __init__(self, tag):
        self.dir = tempfile.mkdtemp(prefix=f"pysm_{tag}_", dir="/var/tmp")
        os.rmdir(self.dir)

    def __enter__(self):
        rc, out = sh(["git", "-C", REPO, "worktree", "add", "-q", "--detach", self.dir, "HEAD"])
        if rc:
            raise RuntimeError(out)
        return self.dir

    def __exit__(self, *a):
        sh(["git", "-C", REPO, "worktree", "remove", "--force", self.dir])
        shutil.rmtree(self.dir, ignore_errors=True)


def run_demo(wt, demo):
    env = dict(os.environ, PYTHONPATH=wt, PYTHONDONTWRITEBYTECODE="1")
    try:
        return sh([PY, demo], cwd=wt, env=env, timeout=300)
    except subprocess.TimeoutExpired:
        return 124, "timeout"


def cmd_import(src, sid):
    dst = os.path.join(SEEDED, sid)
    patch = os.path.join(src, "patch.diff")
    demo = os.path.join(src, "demo.py")
    meta = json.load(open(os.path.join(src, "meta.json")))
    ran = []
    with Worktree(sid) as wt:
        rc0, out0 = run_demo(wt, demo)
        ran.append(f"demo on the unchanged tree: exit {rc0}")
        rc, out = sh(["git", "-C", wt, "apply", "--whitespace=nowarn", patch])
        if rc:
            print(f"{sid}: patch does not apply: {out[:300]}")
            return False
        rct, outt = sh(TESTS, cwd=wt, timeout=1800)
        tail = [l for l in outt.strip().split("\n") if "passed" in l or "failed" in l or "error" in l.lower()][-1:]
        ran.append(f"test suite with the change: exit {rct}: {tail}")
        sh(["git", "-C", wt, "checkout", "--", "docs"])
        rc1, out1 = run_demo(wt, demo)
        ran.append(f"demo with the change: exit {rc1}: {out1.strip().splitlines()[-1][:200] if out1.strip() else ''}")
    ok = rc0 == 0 and rct == 0 and "348 passed" in outt and rc1 not in (0, 124)
    print(f"{sid}: confirmed={ok} | " + " | ".join(ran))
    if not ok:
        return False
    os.makedirs(dst, exist_ok=True)
    shutil.copy(patch, os.path.join(dst, "patch.diff"))
    shutil.copy(demo, os.path.join(dst, "demo.py"))
    for extra in os.listdir(src):
        if extra.endswith(".py") and extra != "demo.py":
            shutil.copy(os.path.join(src, extra), os.path.join(dst, extra))
    # helper modules next to the mutant dirs (e.g. a shared checker.py)
    par = os.path.dirname(os.path.abspath(src))
    for extra in os.listdir(par):
        if extra.endswith(".py"):
            shutil.copy(os.path.join(par, extra), os.path.join(dst, extra))
    meta["id"] = sid
    meta["breaks"] = meta.get("property")
    meta["confirmed"] = ran
    meta["repo_head"] = sh(["git", "-C", REPO, "rev-parse", "--short", "HEAD"])[1].strip()
    json.dump(meta, open(os.path.join(dst, "meta.json"), "w"), indent=1)
    return True


def cmd_detect(sid, props=None, tier="quick", seed="0"):
    d = os.path.join(SEEDED, sid)
    meta = json.load(open(os.path.join(d, "meta.json")))
    props = props or ([meta["breaks"]] + list(meta.get("also_checks", [])))
    res = {}
    with Worktree("det_" + sid) as wt:
        rc, out = sh(["git", "-C", wt, "apply", "--whitespace=nowarn", os.path.join(d, "patch.diff")])
        if rc:
            print(f"{sid}: patch does not apply to the current HEAD: {out[:200]}")
            return None
        scratch = tempfile.mkdtemp(prefix=f"pysm_scr_{sid}_", dir="/var/tmp")
        try:
            for p in props:
                env = dict(os.environ, VERIF_REPO=wt, VERIF_SCRATCH=scratch, VERIF_SEED=seed)
                t = time.time()
                try:
                    rc, out = sh([os.path.join(VERIF, "check"), p, "--tier", tier], cwd=VERIF, env=env, timeout=3000)
                except subprocess.TimeoutExpired:
                    rc, out = 124, "timeout"
                viol = [l for l in out.split("\n") if l.startswith("VIOLATION")]
                why = ""
                for v in viol[:1]:
                    rp = v.split("replay=")[1].split(" ")[0]
                    fp = os.path.join(VERIF, rp)
                    if os.path.exists(fp):
                        why = "".join(open(fp).readlines()[:3])[:400]
                res[p] = dict(exit=rc, violations=viol, wall_s=round(time.time() - t, 1), replay_head=why,
                              tail=out.strip().split("\n")[-3:] if rc not in (0, 1) else [])
                # replays written under VERIF/out by relative path live in scratch; nothing to clean in VERIF
        finally:
            shutil.rmtree(scratch, ignore_errors=True)
    det_path = os.path.join(d, "detect.json")
    old = json.load(open(det_path)) if os.path.exists(det_path) else {}
    old.setdefault("runs", {})
    for p, r in res.items():
        old["runs"][f"{p}:{tier}"] = r
    old["verif_commit"] = sh(["git", "-C", VERIF, "rev-parse", "--short", "HEAD"])[1].strip()
    json.dump(old, open(det_path, "w"), indent=1)
    for p, r in res.items():
        print(f"{sid} vs {p} [{tier}]: exit={r['exit']} {'CAUGHT' if r['exit'] == 1 and r['violations'] else 'MISSED' if r['exit'] == 0 else 'ERROR'} "
              f"{r['wall_s']}s {r['violations'][:1]}")
    return res


def all_ids():
    return sorted(x for x in os.listdir(SEEDED) if os.path.isfile(os.path.join(SEEDED, x, "meta.json")))


def cmd_table():
    """writes seeded/TABLE.md: which quick checks catch which seeded change"""
    rows = []
    for sid in all_ids():
        d = os.path.join(SEEDED, sid)
        m = json.load(open(os.path.join(d, "meta.json")))
        det = json.load(open(os.path.join(d, "detect.json"))) if os.path.exists(os.path.join(d, "detect.json")) else {"runs": {}}
        caught, missed = [], []
        for k, r in sorted(det["runs"].items()):
            p, tier = k.split(":")
            if tier == "quick":
                (caught if (r["exit"] == 1 and r["violations"]) else missed).append(p)
        rows.append((sid, m["breaks"], m.get("title", "").replace("|", "/")[:95], caught, missed))
    n = len(rows)
    own = sum(1 for r in rows if r[1] in r[3])
    some = sum(1 for r in rows if r[3])
    out = [f"# Seeded changes: {n} confirmed; {own} caught by the check of the property they break, {some} by some check", "",
           "| id | breaks | change (agent's title) | caught by (quick tier) | not caught by |", "|---|---|---|---|---|"]
    for sid, p, title, c, mi in rows:
        out.append(f"| {sid} | {p} | {title} | {', '.join(c) or '—'} | {', '.join(mi)} |")
    open(os.path.join(SEEDED, "TABLE.md"), "w").write("\n".join(out) + "\n")
    print(out[0])


def main():
    a = sys.argv[1:]
    if a[0] == "import":
        sys.exit(0 if cmd_import(a[1], a[2]) else 1)
    if a[0] == "detect":
        props = None
        tier = "quick"
        if "--props" in a:
            props = a[a.index("--props") + 1].split(",")
        if "--tier" in a:
            tier = a[a.index("--tier") + 1]
        cmd_detect(a[1], props, tier)
    elif a[0] == "detect-all":
        jobs = int(a[a.index("--jobs") + 1]) if "--jobs" in a else 4
        ids = all_ids()
        if "--only-missing" in a:
            ids = [i for i in ids if not os.path.exists(os.path.join(SEEDED, i, "detect.json"))]
        with ThreadPoolExecutor(jobs) as ex:
            list(ex.map(cmd_detect, ids))
    elif a[0] == "table":
        cmd_table()


if __name__ == "__main__":
    main()
