#!/usr/bin/env python3
"""Prepare a round of independent seeded changes.

  tools/mkround.py <round-number> [--props C01,C02]

For every property: a scratch git worktree of /repo's HEAD at /tmp/wt<r>_<id>, and /tmp/mut<r>/<id>/prompt.txt —
the complete task description for a sub-agent. The prompt holds the verbatim text of the property and the one-line
titles of the changes that earlier rounds already tried for it (so that a round moves on to other mechanisms);
nothing else from /verif. Import afterwards with tools/seeded.py import /tmp/mut<r>/<id>/m<k> <id>_r<r>m<k>.
"""
import json
import os
import subprocess
import sys

VERIF = os.path.dirname(os.path.dirname(os.path.abspath(__file__)))
REPO = "/repo"


def main():
    r = sys.argv[1]
    only = None
    if "--props" in sys.argv:
        only = sys.argv[sys.argv.index("--props") + 1].split(",")
    props = [json.loads(l) for l in open(os.path.join(VERIF, "properties.jsonl")) if l.strip()]
    earlier = {}
    sd = os.path.join(VERIF, "seeded")
    for d in sorted(os.listdir(sd)):
        mp = os.path.join(sd, d, "meta.json")
        if os.path.exists(mp):
            m = json.load(open(mp))
            earlier.setdefault(m.get("breaks") or m.get("property"), []).append(m["title"])
    for p in props:
        pid = p["id"]
        if only and pid not in only:
            continue
        wt = f"/tmp/wt{r}_{pid}"
        out = f"/tmp/mut{r}/{pid}"
        os.makedirs(out + "/m1", exist_ok=True)
        os.makedirs(out + "/m2", exist_ok=True)
        if not os.path.isdir(wt):
            subprocess.run(["git", "-C", REPO, "worktree", "add", "-q", "--detach", wt, "HEAD"], check=True)
        tried = "\n".join("  - " + t for t in earlier.get(pid, []))
        prompt = f"""You are testing how well a verification effort detects realistic regressions in the Python library fgmacedo/python-statemachine (version 2.5.0 plus a number of bug-fix commits). Your own scratch git worktree of the library is at {wt} (work only there; never touch /repo or /verif, and do not read anything under /verif). Python: /venv/bin/python (the library's dependencies are installed there; run things with PYTHONPATH={wt}). There is no network.

The semantic property under test (JSON, verbatim):

{json.dumps(p, indent=1)}

Your job: produce TWO different, independent changes to the library source (files under {wt}/statemachine/ only) that each BREAK this property, while
  (1) the library still imports, and the existing test suite still passes unedited:  cd {wt} && /venv/bin/python -m pytest -q -p no:cacheprovider --timeout=900 -x 2>&1 | tail -3   (expect "348 passed, 9 xfailed"; one threading test is occasionally flaky under load — rerun once if only that fails). Note: running the suite rewrites a few PNG files under docs/images; ignore them, never include them in a patch;
  (2) each change looks like something a maintainer could plausibly commit (a refactor, an optimisation, a cache, a "simplification", a tidy-up of error handling, an EAFP rewrite, a helper extracted, a compatibility shim, a performance fast path...), not sabotage;
  (3) each change needs something SPECIFIC to manifest: a particular multi-step sequence of operations, an unusual but legal input or machine shape, a particular interleaving or fault at a particular point, or two cooperating code sites that each look fine alone. Changes that ordinary use would expose at once are not wanted.

Changes of the following kinds were already tried for this property in earlier rounds — find OTHER mechanisms, in other code sites where possible (look also at less obvious files: dispatcher.py, callbacks.py, event.py, event_data.py, statemachine.py, factory.py, state.py, states.py, transition*.py, events.py, utils.py, mixins.py, model.py, registry.py, signature.py, spec_parser.py, graph.py, contrib/diagram.py — whichever the property depends on):
{tried}

Do not use `git stash` (it is shared between worktrees of the repository and other people work in other worktrees): to go back to the clean tree use `git checkout -- .`.

For each change k in (1, 2) write into {out}/m<k>/ :
  - patch.diff : `git -C {wt} diff -- statemachine` with only that change applied (then `git -C {wt} checkout -- .` before starting the next change, so the two patches are independent, each against the clean worktree);
  - demo.py    : a small self-contained program using only the public API of the library (imports `statemachine`), which exits 0 (prints OK) on the clean worktree and exits non-zero (assertion failure showing the property being broken) with the change applied. Run as: cd {wt} && PYTHONPATH={wt} /venv/bin/python {out}/m<k>/demo.py
  - meta.json  : {{"property": "{pid}", "title": "<one line: what was changed>", "files": [...], "needs": "<what is needed for the breakage to manifest>", "why_tests_pass": "<why the suite does not notice>", "ran": ["<the commands you ran and their outcomes>"]}}

You MUST actually verify all of it yourself: the suite passes with the change, the demo fails with the change and passes without. Leave the worktree clean (git checkout -- .) at the end. In your final message, list for each change: title, files, what it needs to manifest, and the verification outcomes. Do not write anything outside {wt} and {out}/.

If, along the way, you notice behaviour of the UNCHANGED library that already seems to contradict the property (a genuine bug on the clean worktree), add a short side remark about it at the end of your final message with the exact input that shows it. That is optional and secondary to the two changes.
"""
        open(out + "/prompt.txt", "w").write(prompt)
    print("prepared round", r)


if __name__ == "__main__":
    main()
