#!/usr/bin/env python3
"""Regenerates MANIFEST.json from the table below (kept in one place so it stays valid)."""
import json, os, subprocess
HERE = os.path.dirname(os.path.abspath(__file__)); VERIF = os.path.dirname(HERE)
BASE = json.load(open("/root/.vp/BASELINE.json")) if os.path.exists("/root/.vp/BASELINE.json") else {}
FIXES = [l.split()[0] for l in subprocess.run(["git", "-C", "/repo", "log", "--format=%h %s"], capture_output=True, text=True).stdout.split("\n") if " fix:" in " " + l]

NOTE = ("Trusted: Lean 4.33 kernel; axioms propext/Classical.choice/Quot.sound only (audited each run); the "
        "hand-written model is tied to /repo by differential execution (correspondence) on generated "
        "scenarios, so the proof speaks about the code only as far as the correspondence was exercised; "
        "user callbacks are a universally quantified parameter of the model.")

SRC_TIE = {
    "C01": "_trigger (both engines), CallbackWrapper.call/__call__ and CallbacksExecutor.all/async_all",
    "C02": "_activate (both engines), CallbackWrapper.call/__call__ and CallbacksExecutor.call/async_call; the registry (CallbacksExecutor.add, __lt__ under insort, Listeners.search_name / resolve: which callbacks are in which group, in which order)",
    "C03": "processing_loop (both engines), Event.__call__ and StateMachine.send (put, then the loop)",
    "C07": "Event.__call__ (the reserved keywords are stripped before the trigger is built) and the two name lists — `_event_data_kwargs` and the keys `EventData.extended_kwargs` injects — proved equal (reserved_eq_injected); SignatureAdapter.bind_expected translated structurally (every if/elif/else, test and statement of its two loops) and proved to mean the binder model (runBind_bindExpected), dispatcher.callable_method's two adapters proved to be invokeWith (runC_invokeWith), so that C07_receive_scripts states the property about the scripts themselves",
    "C09": "graph.visit_connected_states (the deque loop, proved to be the model's `go`: runLoop_go, reachBy_bfs), StateMachineMetaclass._check with the five _check_* methods and their two helpers (which list each computes, when it is a problem, raise vs strict-or-warn; proved to be the model's `check` for every class definition: runCheck_check), the order of the steps of the metaclass' __init__ (metaInit_order) and Transition.__init__ (internal-transition test, which keyword feeds which callback group with which expected value)",
    "C13": "StateMachine.send and Event.__call__: every calling style is the same put-then-process (runS_send, runE_send); the properties `events` / `allowed_events` (which names are looked up on the instance: allowed_shape)",
    "C10": "statemachine.py: the getter and the checked setter of current_state_value, the getter and setter of current_state, _get_initial_state and the constructor's choice of the model object, proved to be currentStateValue / writeValue / currentState / writeState / initialValue true / chooseModel true of the store model (runVGet_value, runVSet_writeValue, runSGet_currentState, runSSet_writeState, runIGet_initial, chooseModelBy_chooseModel)",
    "C12": "statemachine.py: the constructor (every provider registered before the engine is chosen: ctor_order), _register_callbacks (one pass over machine, model, constructor listeners; then the check; then the engine kind) and add_listener (a pass over the given listeners only, names only, remembered for copies); callbacks.py / dispatcher.py: CallbacksExecutor.add (= Reg.add: runAdd_add), CallbackWrapper.__lt__ under bisect.insort (= Reg.insort), Listeners.search_name (= Reg.buildSpec), Listeners.resolve (= Reg.resolveInto: runResolve_resolveInto), CallbacksRegistry.check / async_or_sync",
    "C17": "statemachine.py: __getstate__ (what is left out and what is recorded: getState_shape) and __setstate__ (state given back to an empty model, constructor pass, late passes replayed one by one, engine chosen and started last: setState_order), _register_callbacks, add_listener",
    "C04": "_activate and processing_loop (both engines), CallbacksExecutor.call/async_call",
    "C05": "_activate, _trigger and processing_loop of both engines (`async = sync with awaits`), the wrapper and executor methods of callbacks.py in their sync and async forms",
    "C06": "processing_loop (both engines): the protocol's flags `fixed` (re-check after the release) and `atomic` (no suspension point between the last emptiness test and the release) are computed from the scripts (C06_script_flags)",
    "C08": "CallbackWrapper.call/__call__ (truth value compared with the expected value), CallbacksExecutor.all/async_all (conjunction, left to right, first failing guard stops) and spec_parser.py (the closure bodies of custom_not/and/or and of the comparator, the branches of build_expression, operator_mapping, replacements, parse_boolean_expr: evalLib_not/and/or, chainLib_last, parser_shape)",
    "C11": "_trigger (the __initial__ branch, the stale activation trigger), _activate on the initial pseudo-transition, BaseEngine.start; _get_initial_state (start_value tested with `is not None`) and the constructor (model kept whatever its truth value; engine chosen after registration, started last)",
    "C14": "_activate (result accumulation and the unwrap rule), CallbackWrapper.call/__call__ and CallbacksExecutor.call/async_call",
}

CLAIMS = {
  "C03": dict(
    technique="Lean 4 proof (invariant over the drain loop, lifted through the engine by a relational calculus) + model/implementation correspondence",
    text="Theorem C03_history: for every machine, callback behaviour, engine kind and history of operations, trigger ids along the callback log never decrease (each event's callbacks are one contiguous block, blocks in send order); nested sends return None and only enqueue. The executable model is compared with the real engine on generated scenarios with nested sends in every group, sync/async, rtc on/off; constant stack depth is measured on the implementation.",
    design="7 C03"),
}
CLAIMS.update({
  "C01": dict(
    technique="Lean 4 proof (candidate loop realises the declarative `choose` spec; induction on the candidate list) + model/implementation correspondence + Lean Spec monitor on implementation traces",
    text="Theorems C01_trigger / tryCands_choose / choose_fire_first: for every machine, event (declared or not), guard valuation and validator plan, the engine fires the first transition in declaration order that is bound to the event with all cond truthy and all unless falsy and ends in its target; otherwise state unchanged and TransitionNotAllowed(event,state) or None; a raising validator aborts with the state unchanged. Proved for run-to-completion mode with guards that do not raise, for every processed event of every history (C01_drain_step / C01_every_event: whatever is at the head of the queue at any point of any drain, external or nested, is decided by `choose` on the state and guard values of that moment), and for rtc=False / any nested-send handler when callbacks send no events (C01_trigger_any_handler, C01_send_nonrtc); rtc=False with nested sends and the async engine are tied by the correspondence (same model, handler-parametrised). The `choose` spec is also evaluated (in Lean) on the implementation's own observations.",
    design="7 C01"),
  "C04": dict(
    technique="Lean 4 proof (no assumption on callbacks: case analysis of the two halves of an activation; induction on the drain loop) + systematic fault enumeration against the implementation",
    text="Theorems C04_state (failure in validators/guards/before/exit/on leaves the source, in enter/after the target, never anything else), C04_drain_error / C04_process_error (exception reaches the caller, queue emptied), C04_not_wedged / C04_send_error_usable (lock released; next send processed normally), for arbitrary callback behaviour in RTC mode. Correspondence: every generated scenario is re-run with a raising invocation injected at sampled invocation positions of every phase (first, nested, queued triggers; single and double faults), model vs implementation, plus a Spec monitor on the implementation trace. C04_state_two_values_any / activatePost_cur_any: the same for every handler (rtc=False) when callbacks send no events; C04_nonrtc_propagates: the rtc=False loop hands the exception to the caller unchanged.",
    design="7 C04"),
  "C14": dict(
    technique="Lean 4 proof (result of an executed transition computed in closed form) + model/implementation correspondence + Spec monitor on implementation traces",
    text="Theorems C14_result / activate_fire (an executed transition returns unwrap(applicable before results ++ applicable on results), nothing else contributes), unwrap_cases (None / the value / the list), mem_applicable (event-scoped callbacks filtered by the triggering event), C14_rejected_none, drainLoop_single (the outermost call returns it). Correspondence over 0-3 before x 0-3 on callbacks in all styles/providers with a pool of None/falsy/container return values, internal/self/multi-event transitions, both engines; return values of every callback are compared. C14_result_any: the same rule under every handler (rtc=False) when callbacks send no events; an event used as a before/on callback contributes None under run-to-completion (rtcRet) and the chained event's own result under rtc=False (Act.retSend / Machine.resVal, checked by the chain-scenario correspondence).",
    design="7 C14"),
})
CLAIMS.update({
  "C09": dict(
    technique="Lean 4 proof over an executable model (BFS soundness/completeness with pigeonhole fuel bound; check chain <-> declarative WellFormed) + exhaustive small-scope correspondence with an independent graph oracle",
    text="Proved in Lean for every class definition (any number of states, any transition multiset incl. self-loops, parallel edges, internal flags, from_.any(), loose transitions, strict on/off): the model of the metaclass checks accepts a non-abstract definition iff it is well formed (WellFormed written from the statement, reachability as an inductive closure; the worklist BFS is proved sound and complete), and under strict_states rejects exactly when a trap / no-path-to-final state exists, otherwise warns naming exactly those states. Tied to the code by exhaustive differential execution against the real metaclass and an independent Warshall oracle: all definitions with <=3 states/<=3 transitions every run (105k classes), <=4/<=4 in the thorough tier (6.5M), plus sampled 5-9 states.",
    design="7 C09"),
})
CLAIMS.update({
  "C02": dict(
    technique="Lean 4 proof (graded relational invariants lifted through the engine; no assumption on callbacks) + model/implementation correspondence + Spec monitor on implementation traces",
    text="Theorems C02_phase_order (entries of one activation are ordered validators<=cond<=before<=exit<=on<=assignment<=enter<=after, also when it stops early), C02_entries (every entry is an applicable callback of the right group of this transition, with the triggering event, source and target; nested sends return None), C02_internal_no_exit_enter, C02_event_scoped, C02_view_pre/C02_view_post (callbacks up to `on` see the source, enter/after see the target), C02_initial (initial activation = assignment + enter callbacks under __initial__), for arbitrary callback behaviour in RTC mode. Correspondence with sparsely populated groups, all attachment styles and providers, self/internal/multi-event transitions, both engines; exact callback sets per group are compared with the model. For machines whose callbacks send no events the same theorems hold for every nested-send handler, i.e. also for rtc=False (C02_*_any, via Lemmas/NoSends); an event used as a callback is part of the model (Act.retSend).",
    design="7 C02"),
  "C10": dict(
    technique="Lean 4 proof (invariants over operation histories of a store model) + differential correspondence with the real library + independent Spec oracle",
    text="Lean theorems over an executable model of the model-field store (one cell reached through getattr/setattr, states_map lookup, checked/unchecked writes, events, the repaired constructor) prove for all machines, values (no truthiness assumption), model objects and histories: the field holds the target's value after every executed transition; all readers reflect any declared value written by any route; exactly one state is active or every reader raises InvalidStateValue; invalid checked writes raise without storing; the user's model object is the one used; start_value is used iff the model holds none. The pre-fix code (D1/D2) is refuted by concrete witnesses. Tied to /repo by differential execution over 16 model shapes x 10 value kinds x all write routes plus an independent Spec on the implementation's observations; thorough adds an exhaustive 2-state small scope.",
    design="7 C10"),
  "C18": dict(
    technique="Lean 4 proof (structural induction over state and transition lists) + model/implementation correspondence on the pydot object and the DOT text + independent Spec oracle",
    text="Theorems C18_* about getGraph, a model of DotGraphMachine.get_graph: for every machine of any size the node ids are the pseudo-node i plus the state ids, without duplicates when no state is called i (a counterexample is proved for that case: known finding D18a); edges are one initial edge followed by exactly the external transitions (source->target, events, guards); internal transitions appear in their state's label and contribute no edge; double border iff final; exactly the current state's node highlighted for an instance, none for a class. The model is compared with the real pydot graph item by item and with the graph denoted by the DOT text, on generated classes and instances in every state.",
    design="7 C18"),
})
CLAIMS.update({
  "C11": dict(
    technique="Lean 4 proof (closed-form evaluation of construction/activation on a machine at rest; relational invariants) + model/implementation correspondence + Spec monitor on implementation traces",
    text="Theorems C11_resume (construction over a stored state returns the configuration unchanged: no callback, no write, nothing queued; sync rtc on/off and async), C11_idempotent (activate_initial_state on a machine at rest is the identity), C11_start_fresh / C11_async_defers / C11_async_initial_first (over a fresh model exactly one __initial__ trigger is queued; the async engine defers it and it is ahead of the first event in the FIFO queue), C11_initial_block / C11_initial_stores (that trigger only assigns the start state's value and runs its enter callbacks), C11_state_stays (a stored state never becomes none again, so activation happens once). Correspondence: every state value (and invalid ones) as stored value, start_value, repeated activation/construction at random points, enter callbacks that send events, sync/async, rtc on/off.",
    design="7 C11"),
})
CLAIMS.update({
  "C13": dict(
    technique="Lean 4 proof (allowed_events as order-preserving de-duplication; not-allowed events leave the configuration untouched, for every handler) + model/implementation correspondence over all calling styles and attribute names + Spec monitor",
    text="Theorems C13_allowed_events (no duplicates; e listed iff a transition leaving the state carries it; order of first use), C13_events_all, C13_unknown (for both processing modes: an event bound to no transition of the current state — any undeclared name, incl. the reserved __initial__ once a state is held — changes nothing in the configuration and yields TransitionNotAllowed(event,state) or None). In the model all calling styles are `send` by construction; that the real styles (sm.send, event method, items of sm.events / sm.allowed_events, triggers bound with bind_events_to) coincide is checked by the correspondence, which also sends every attribute name of the machine (dir(StateMachine), state ids, dunders, near-miss spellings).",
    design="7 C13"),
})
CLAIMS.update({
  "C08": dict(
    technique="Lean 4 proof (mutual structural induction over the parsed tree; scanner model of re.sub) + three-way differential correspondence (library, Lean model, CPython eval) with exhaustive small-scope families",
    text="Lean theorems (C08_eval, C08_guard_conj, C08_providers, C08_reject_early, C08_end_to_end) prove for every expression tree of any nesting, every valuation and any comparison semantics: the library's closure tree yields Python's value or failure with Python's left-to-right short-circuit read order; a transition is enabled iff every cond entry is truthy and every unless entry falsy, evaluated up to the first failing entry; unparsable text or a name without a provider is rejected at instantiation and never at event time. The operator-spelling rewrite is proved at token level and at character level for well-spaced renderings (C08_rewrite_chars_partial; CPython's tokenizer is not modelled), with witnesses for the repaired defects D8/D9/D22. Tied to /repo by running real machines on grammar-generated guard lists and diffing fired/not-fired, read order and construction exceptions against both the Lean model and CPython's own eval. Precedence itself is CPython's parser (trusted).",
    design="7 C08"),
})
CLAIMS.update({
  "C05": dict(
    technique="Lean 4 proof (the two engine kinds share every definition; deferred activation = synchronous construction) + twin comparison async vs plain-function machine on the implementation + model correspondence + phase-completion monitor on raw traces",
    text="Theorems C05_ops_kind_irrelevant, C05_async_construct_activate (async construction followed by explicit activation reaches exactly the configuration of the sync constructor, for every machine and callback behaviour), C05_initial_first (the __initial__ trigger is ahead of the first event in the FIFO queue), plus C02/C03 for the shared engine. That the real async engine awaits every started coroutine before the next phase and yields the same states/phases/arguments/results/exceptions is checked by running each generated machine with every subset pattern of coroutine callbacks (all/half/one, yielding 0-3 times, facade and in-loop drivers) against the same machine written with plain functions and against the model, with a phase-completion monitor on the raw trace. Known findings D19 (deferred activation order) and D10 (coroutine operand in a guard expression) are probed and reported.",
    design="7 C05"),
  "C07": dict(
    technique="Lean 4 proof over an executable model of bind_expected -> BoundArguments -> call protocol + exhaustive small-scope and randomized differential correspondence against the real code and CPython",
    text="Machine-checked for every well-formed signature, every number of positional arguments and every keyword set: each parameter of a callback called through the library's adapter receives exactly what the Spec assigns (same-named keyword or built-in, positional argument at its index, default, leftover *args/**kwargs) (C07_receive, full); a TypeError arises only for a required parameter without argument or CPython's own positional-only-by-keyword rejection; the eight built-in names always carry the current event's values whatever the user or a forwarded parent **kwargs passes; the binding is independent of the adapter cache's history. Counterexamples are proved for the pre-fix code (D5, D6). Tied to /repo by exhaustive differential execution for all signatures <=4 (thorough <=5) parameters plus random machines in every callback attachment form.",
    design="7 C07"),
  "C15": dict(
    technique="Lean 4 proof over an executable store model of class-body + metaclass elaboration (rewrite congruence, splice simulation for from_.any()), linked to the engine model by per-event candidate views + differential check of rendered source text vs model vs abstract machine",
    text="Proved for all classes: classes with the same states, event set and per-(state,event) ordered candidates behave identically on every operation history, for all user code and options (C15_behaviour, via tryCands_filter). Proved for all programs and contexts that the to/from_/multi/itself/event=/decorator/States styles elaborate identically (C15_rewrite_anywhere), and that from_.any() equals the explicit from_ over the non-final states under the hypotheses that exclude finding D16 (C15_any_partial); the four D16 shapes have machine-checked negation witnesses. Shared-list, Event(T), placeholder and inheritance equivalences are proved on instances only and exercised by the correspondence (380 machines x ~4.6 source renderings per quick run against the real library and the model).",
    design="7 C15"),
})
CLAIMS.update({
  "C06": dict(
    technique="Lean 4 invariant proofs over an interleaving transition system + CHESS-style bounded schedule enumeration of the real engine with step-sequence refinement check against the model",
    text="Theorems in SMV/Props/C06.lean: for every reachable state of the put/try-acquire/drain/release protocol with any number of senders, nested sends and any interleaving, at most one sender is in the critical section (callback blocks never overlap), processed ++ in-flight ++ queue = history (exactly once, put order, per-sender order), and when all senders have returned the queue is empty — for the repaired thread protocol and the asyncio-atomic variant; a machine-checked witness shows the un-repaired thread protocol strands an event (D15). The model is tied to the real sync/async engines by controlled schedulers (sys.settrace baton per source line; one-handle-per-iteration event loop) that enumerate schedules under a preemption bound, check an independent Spec on each, and validate each realised step sequence and outcome against the model. PARTIAL for the runtime: source-line granularity, atomic Lock/deque operations assumed, failure path excluded. The failure path (a failing callback, or a draining asyncio task cancelled inside one: queue cleared, lock released, no re-check) is added on top of the protocol in Lemmas/ProtocolFail: mutual exclusion, non-overlap of callback sequences and at-most-once-in-order hold for every interleaving with failures (C06_*_failures); the check's cancelled-sender probe looks at the real engine.",
    design="7 C06",
    note="Trusted: Lean kernel (axioms propext/Classical.choice/Quot.sound); the protocol model's correspondence to engines/sync.py and async_.py rests on the schedulers' line-to-step mapping (falls back to Spec + outcome-set comparison if the anchors move); bytecode-level preemption inside one source line, GIL hand-off timing and real event-loop timing are not explored; Lock.acquire(blocking=False)/release and deque.append/popleft are assumed atomic."),
  "C12": dict(
    technique="Lean 4 proof (resolution of names against an ordered provider list into keyed executors: idempotence, no duplicate keys, completeness) + model/implementation correspondence with late and repeated attachment + isolation test with a second instance",
    text="Theorems about the registry model SMV.Reg (specs + ordered providers -> executors by `add`/priority `insort`; it computes every engine scenario's machine inside the driver, so every engine-level correspondence run validates it): C12_reg_keys_nodup (each resolved callback registered exactly once, however often its listener is attached), C12_reg_sorted (call order = priority order), C12_reg_sound / C12_reg_isolated (every entry stems from a declared spec of that group and an attached provider: a listener of another instance is never called), C12_reg_complete(_callable) (all providers of a name are called), C12_reg_reattach (attaching attached listeners again is the identity). Theorems about the name-level resolution model Prov (names -> executor items keyed by (name, provider)): C12_attach_idempotent (attaching the same listeners again, any number of times, leaves every executor unchanged), C12_no_duplicate_keys, C12_all_providers_called (every provider offering a name is in the executor), C12_only_offered, C12_parity (resolution uses providers only through id and attributes: machine, model and listeners are treated alike). Phases/argument injection for provider callbacks are C02/C07 on the shared engine. Correspondence: callbacks (conventions, names, guards, validators) distributed over machine/model/constructor listeners/late listeners, the same name on 1-3 providers (guard conjunction), listeners attached at random points and re-attached, async listener methods, and a second instance of the class driven alongside to check that one instance's listeners are never invoked by another. Known findings D12 (late async listener on a sync machine) and D13 (guard re-evaluated per re-attachment) are probed and reported; multi-provider `unless` names and coroutine guards inside a provider conjunction are not generated (see DESIGN). Guards given as boolean expressions with late listeners: GExpr.constructPasses / C12_late_guards_conj (enabled iff the constructor pass's guards and every late pass's guards hold), checked three-way (implementation, Lean, CPython eval pass by pass).",
    design="7 C12"),
})
CLAIMS.update({
  "C16": dict(
    technique="Lean 4 proof (frame theorem over interleaved operation histories of a world of instances; signature-cache independence; store model of inheritance: a subclass body that creates no transition out of an inherited state leaves the base class's candidates unchanged) + world correspondence: interleaved classes/instances vs each instance alone vs the model",
    text="Theorems C16_frame / C16_interleaving_irrelevant (for every interleaving of operations on any number of instances, instance i's configuration — state, queue, full callback log with arguments — is what its own operations alone produce), C07_local (the adapter used for a callable is independent of every callable cached before, incl. same-named classes/methods, partials, def/async-def twins; counterexample for the pre-fix key, D6), C16_subclass_frame_partial (in the store model of class elaboration, defining a subclass whose body declares no transition out of an inherited state and — after fix 8ac2dc6 — re-expands no any() leaves every base state's outgoing transitions unchanged; witnesses D7 for the excluded shape and D7b for the pre-fix inherit). The model has no process-wide mutable state by construction; that the real library has none is what the correspondence checks: random worlds of 1-3 classes (70% same class name; twins with same callback names, other signatures, def/async-def flipped), subclasses adding convention callbacks, 1-2 instances per class with own model/listeners/options, operations merged in random order (classes defined mid-history, base-first and subclass-first), operations of one machine executed inside callbacks of another, no-loop and in-loop drivers; every instance is compared with the Lean model of it alone and with a solo run. Known finding D7 (subclass transition out of an inherited state mutates the base) is probed and reported.",
    design="7 C16"),
  "C17": dict(
    technique="Lean 4 proof (clone = re-construction over the copied model field; identity on a machine at rest, one queued activation for a not-yet-activated async machine; registry model: registering all providers in one pass = the constructor's registry) + correspondence: clones taken at random points of random histories, diverging interleaved suffixes, vs the model of the original and vs an un-cloned reference run; identity checks",
    text="Theorems C17_clone_equiv / C17_clone_then_ops (a clone of a machine at rest holding a state has exactly the original's configuration, in every mode, hence responds identically to every subsequent operation sequence), C17_clone_unactivated (a not-yet-activated async machine clones into one with exactly one activation trigger queued — D14 repaired), C17_independent (original and clone are two instances of a world: C16_frame), C17_registry_* (the clone's callback registry equals the constructor's for the same providers; witnesses D25a/D25b for the pre-fix __setstate__). Correspondence: random machines (callbacks on machine/model/listeners in all styles, sync/async) cloned by deepcopy and pickle at 1-2 random points incl. before the first event and before async activation, clone of a clone, options rtc/allow/start_value/state_field; original and clones get different interleaved suffixes (with nested sends placed in the suffixes); each clone is compared with the Lean model of `prefix ++ suffix` and with a fresh un-cloned machine, the original with its own model; machine/model/listener objects must be distinct and callbacks must run on the instance's own objects.",
    design="7 C17"),
})
NOT_APPLICABLE = {}

def main():
    props = [json.loads(l)["id"] for l in open(os.path.join(VERIF, "properties.jsonl")) if l.strip()]
    checks = []
    for p in props:
        if p not in CLAIMS:
            continue
        c = dict(CLAIMS[p])
        if p in SRC_TIE:
            c["technique"] += (" + source tie (translator harness/srcgen.py: the statement scripts of " + SRC_TIE[p] +
                               " are regenerated from /repo on every run and decided equal, by the Lean kernel, to the scripts whose "
                               "interpretation is proved to be the engine model)")
            c["text"] += (" Source tie: SMV/Src/Tie*.lean prove that the scripts derived from the library's source (" +
                          SRC_TIE[p] + "), interpreted statement by statement, are exactly the model functions these theorems are about; "
                          "every run re-derives the scripts from the tree under test.")
        checks.append(dict(
            property_id=p, quick_cmd=f"./check {p} --tier quick", thorough_cmd=f"./check {p} --tier thorough",
            evidence_file=f"evidence/{p}.json", replay_cmd_template=f"./check {p} --replay {{path}}",
            engine="lean+harness",
            level_claimed=dict(category="proof", text=c["text"], design_ref="DESIGN.md §" + c["design"]),
            level_note=c.get("note", NOTE), technique=c["technique"]))
    na = [dict(property_id=p, reason=NOT_APPLICABLE.get(p, "check not built yet in this tree (work in progress); no claim is made"))
          for p in props if p not in CLAIMS]
    man = dict(
        version=1,
        setup_cmd="cd lean && lake build SMV SMV.Props.Examples " + " ".join(f"SMV.Props.{p}" for p in props) +
                  " SMV.Src.Tie SMV.Src.TieExpr SMV.Src.TieBind SMV.Src.TieCheck SMV.Src.TieStore SMV.Src.TieReg driver drv_bind drv_expr drv_validate drv_protocol drv_diagram drv_decl drv_store",
        hooks=dict(guard="PYSM_VERIF", enable="no source hooks are used: observation is through the public API, sys.settrace and objects supplied by the harness",
                   baseline_off_cmd=BASE.get("cmd", "cd /repo && /venv/bin/python -m pytest -q"), source_commits=[], add_only=True),
        engines=[dict(name="lean+harness", path="lean/ + harness/", serves_properties=[c["property_id"] for c in checks],
                      kind_free_text="Lean 4 models and theorems (lean/SMV), line-protocol driver (lean/Driver.lean), Python correspondence harness (harness/)")],
        checks=checks, not_applicable=na,
        notes="See DESIGN.md. No hook commits exist. Unguarded `fix:` commits in /repo (each recorded in known_findings.jsonl): " + ", ".join(FIXES) + ". Seeded property-breaking changes used to test the checks: seeded/ (tools/seeded.py).")
    json.dump(man, open(os.path.join(VERIF, "MANIFEST.json"), "w"), indent=1)
    print("checks:", [c["property_id"] for c in checks], "n/a:", len(na))
main()
