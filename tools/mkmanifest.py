#!/usr/bin/env python3
"""Regenerates MANIFEST.json from the table below (kept in one place so it stays valid)."""
import json, os, subprocess
HERE = os.path.dirname(os.path.abspath(__file__)); VERIF = os.path.dirname(HERE)
BASE = json.load(open("/root/.vp/BASELINE.json")) if os.path.exists("/root/.vp/BASELINE.json") else {}
FIXES = [l.split()[0] for l in subprocess.run(["git", "-C", "/repo", "log", "--format=%h %s"], capture_output=True, text=True).stdout.split("\n") if " fix:" in " " + l]

NOTE = ("Trusted: Lean 4.33 kernel; axioms propext/Classical.choice/Quot.sound only (audited each run); the "
        "hand-written model is tied to /repo by differential execution (correspondence) on generated "
        "scenarios, so the proof speaks about the code only as far as the correspondence was exercised; "
        "user callbacks are a universally quantified parameter of the model.")

CLAIMS = {
  "C03": dict(
    technique="Lean 4 proof (invariant over the drain loop, lifted through the engine by a relational calculus) + model/implementation correspondence",
    text="Theorem C03_history: for every machine, callback behaviour, engine kind and history of operations, trigger ids along the callback log never decrease (each event's callbacks are one contiguous block, blocks in send order); nested sends return None and only enqueue. The executable model is compared with the real engine on generated scenarios with nested sends in every group, sync/async, rtc on/off; constant stack depth is measured on the implementation.",
    design="7 C03"),
}
NOT_APPLICABLE = {}

def main():
    props = [json.loads(l)["id"] for l in open(os.path.join(VERIF, "properties.jsonl")) if l.strip()]
    checks = []
    for p in props:
        if p not in CLAIMS:
            continue
        c = CLAIMS[p]
        checks.append(dict(
            property_id=p, quick_cmd=f"./check {p} --tier quick", thorough_cmd=f"./check {p} --tier thorough",
            evidence_file=f"evidence/{p}.json", replay_cmd_template=f"./check {p} --replay {{path}}",
            engine="lean+harness",
            level_claimed=dict(category="proof", text=c["text"], design_ref="DESIGN.md §" + c["design"]),
            level_note=c.get("note", NOTE), technique=c["technique"]))
    na = [dict(property_id=p, reason=NOT_APPLICABLE.get(p, "check not built yet in this tree (work in progress); no claim is made"))
          for p in props if p not in CLAIMS]
    man = dict(
        version=1,
        setup_cmd="cd lean && lake build SMV driver",
        hooks=dict(guard="PYSM_VERIF", enable="no source hooks are used: observation is through the public API, sys.settrace and objects supplied by the harness",
                   baseline_off_cmd=BASE.get("cmd", "cd /repo && /venv/bin/python -m pytest -q"), source_commits=FIXES, add_only=True),
        engines=[dict(name="lean+harness", path="lean/ + harness/", serves_properties=[c["property_id"] for c in checks],
                      kind_free_text="Lean 4 models and theorems (lean/SMV), line-protocol driver (lean/Driver.lean), Python correspondence harness (harness/)")],
        checks=checks, not_applicable=na,
        notes="See DESIGN.md. Fix commits in /repo are listed in hooks.source_commits and known_findings.jsonl.")
    json.dump(man, open(os.path.join(VERIF, "MANIFEST.json"), "w"), indent=1)
    print("checks:", [c["property_id"] for c in checks], "n/a:", len(na))
main()
