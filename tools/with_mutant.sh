#!/bin/sh
# tools/with_mutant.sh <seeded id> <command...>: run a command against a scratch worktree of /repo with the seeded
# change applied (VERIF_REPO, VERIF_SCRATCH set); the worktree and the scratch directory are removed afterwards.
id=$1; shift
wt=$(mktemp -d -u /var/tmp/pysm_wm_XXXXXX)
scr=$(mktemp -d /var/tmp/pysm_wms_XXXXXX)
git -C /repo worktree add -q --detach "$wt" HEAD || exit 2
git -C "$wt" apply --whitespace=nowarn "/verif/seeded/$id/patch.diff" || { git -C /repo worktree remove --force "$wt"; exit 2; }
VERIF_REPO="$wt" VERIF_SCRATCH="$scr" "$@"
rc=$?
git -C /repo worktree remove --force "$wt"
rm -rf "$scr"
exit $rc
