/-! Prototype C09: worklist reachability (`visit_connected_states`) is sound and complete. -/
namespace Bfs

variable (succ : Nat → List Nat)

/-- reachability as the reflexive-transitive closure of `succ` -/
inductive Reach : Nat → Nat → Prop
  | refl (a) : Reach a a
  | step {a b c} : Reach a b → c ∈ succ b → Reach a c

/-- the deque loop; fuel is consumed only when a *new* state is visited -/
def go : Nat → List Nat → List Nat → List Nat
  | _, [], vis => vis
  | fuel, s :: w, vis =>
    if s ∈ vis then go fuel w vis
    else match fuel with
      | 0 => vis
      | f + 1 => go f (w ++ succ s) (s :: vis)
termination_by fuel w => (fuel, w.length)

def visit (n : Nat) (s : Nat) : List Nat := go succ n [s] []


/-- soundness: everything visited is reachable from the root -/
theorem go_sound (root : Nat) (fuel : Nat) (w vis : List Nat)
    (hw : ∀ x ∈ w, Reach succ root x) (hv : ∀ x ∈ vis, Reach succ root x) :
    ∀ x ∈ go succ fuel w vis, Reach succ root x := by
  induction fuel, w, vis using go.induct succ with
  | case1 fuel vis => simpa [go] using hv
  | case2 fuel s w vis hs ih =>
    rw [go.eq_def]; simp only [hs, if_true]
    exact ih (fun x hx => hw x (List.mem_cons_of_mem _ hx)) hv
  | case3 s w vis hs =>
    rw [go.eq_def]; simp only [hs, if_false]; exact hv
  | case4 s w vis hs f ih =>
    rw [go.eq_def]; simp only [hs, if_false]
    apply ih
    · intro x hx
      rcases List.mem_append.mp hx with h | h
      · exact hw x (List.mem_cons_of_mem _ h)
      · exact Reach.step (hw s (List.mem_cons_self)) h
    · intro x hx
      rcases List.mem_cons.mp hx with rfl | h
      · exact hw _ (List.mem_cons_self)
      · exact hv x h

/-- the visited set only grows -/
theorem go_mono (fuel : Nat) (w vis : List Nat) : ∀ x ∈ vis, x ∈ go succ fuel w vis := by
  induction fuel, w, vis using go.induct succ with
  | case1 fuel vis => intro x hx; simpa [go] using hx
  | case2 fuel s w vis hs ih => rw [go.eq_def]; simp only [hs, if_true]; exact ih
  | case3 s w vis hs => rw [go.eq_def]; simp only [hs, if_false]; exact fun x hx => hx
  | case4 s w vis hs f ih =>
    rw [go.eq_def]; simp only [hs, if_false]
    exact fun x hx => ih x (List.mem_cons_of_mem _ hx)

/-- closure: if the fuel never ran out, the result contains the worklist and is closed under `succ`
for everything visited after the start. `Done` = the run did not stop for lack of fuel. -/
def Done : Nat → List Nat → List Nat → Prop
  | _, [], _ => True
  | fuel, s :: w, vis =>
    if s ∈ vis then Done fuel w vis
    else match fuel with
      | 0 => False
      | f + 1 => Done f (w ++ succ s) (s :: vis)
termination_by fuel w => (fuel, w.length)

theorem go_closed (fuel : Nat) (w vis : List Nat) (hd : Done succ fuel w vis)
    (hc : ∀ a ∈ vis, ∀ b ∈ succ a, b ∈ vis ∨ b ∈ w) :
    (∀ x ∈ w, x ∈ go succ fuel w vis) ∧
    (∀ a ∈ go succ fuel w vis, ∀ b ∈ succ a, b ∈ go succ fuel w vis) := by
  induction fuel, w, vis using go.induct succ with
  | case1 fuel vis =>
    simp only [go]
    exact ⟨by simp, fun a ha b hb => by rcases hc a ha b hb with h | h; exact h; cases h⟩
  | case2 fuel s w vis hs ih =>
    rw [Done.eq_def] at hd; simp only [hs, if_true] at hd
    rw [go.eq_def]; simp only [hs, if_true]
    have := ih hd (fun a ha b hb => by
      rcases hc a ha b hb with h | h
      · exact Or.inl h
      · rcases List.mem_cons.mp h with rfl | h'
        · exact Or.inl hs
        · exact Or.inr h')
    refine ⟨fun x hx => ?_, this.2⟩
    rcases List.mem_cons.mp hx with rfl | h
    · exact go_mono succ _ _ _ _ hs
    · exact this.1 x h
  | case3 s w vis hs =>
    rw [Done.eq_def] at hd; simp only [hs, if_false] at hd
  | case4 s w vis hs f ih =>
    rw [Done.eq_def] at hd; simp only [hs, if_false] at hd
    rw [go.eq_def]; simp only [hs, if_false]
    have := ih hd (fun a ha b hb => by
      rcases List.mem_cons.mp ha with rfl | ha'
      · exact Or.inr (List.mem_append_right _ hb)
      · rcases hc a ha' b hb with h | h
        · exact Or.inl (List.mem_cons_of_mem _ h)
        · rcases List.mem_cons.mp h with rfl | h'
          · exact Or.inl (List.mem_cons_self)
          · exact Or.inr (List.mem_append_left _ h'))
    refine ⟨fun x hx => ?_, this.2⟩
    rcases List.mem_cons.mp hx with rfl | h
    · exact go_mono succ _ _ _ _ (List.mem_cons_self)
    · exact this.1 x (List.mem_append_left _ h)

/-- completeness (given enough fuel): every reachable state is visited -/
theorem visit_complete (n s : Nat) (hd : Done succ n [s] []) : ∀ t, Reach succ s t → t ∈ visit succ n s := by
  have hcl := go_closed succ n [s] [] hd (by simp)
  intro t ht
  induction ht with
  | refl => exact hcl.1 s (List.mem_cons_self)
  | step _ hbc ih => exact hcl.2 _ ih _ hbc

theorem visit_sound (n s : Nat) : ∀ t ∈ visit succ n s, Reach succ s t :=
  go_sound succ s n [s] [] (by intro x hx; simp at hx; subst hx; exact Reach.refl _) (by simp)
end Bfs
