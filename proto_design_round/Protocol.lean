/-! Prototype: drain-election protocol of `processing_loop` under arbitrary interleavings. -/
namespace Proto

inductive Pc
  | idle                 -- not inside a send
  | putDone              -- enqueued, about to try-acquire
  | check                -- holds lock, about to test `while queue`
  | processing (e : Nat) -- holds lock, running callbacks of e
  | exiting              -- holds lock, saw empty queue, about to release
  | recheck              -- (fixed protocol) released, about to re-test the queue
deriving DecidableEq, Repr

structure S where
  pc : Nat → Pc
  queue : List Nat
  lock : Bool
  processed : List Nat
  history : List Nat     -- ghost: all puts so far, in put order

def inCS : Pc → Prop
  | .check | .processing _ | .exiting => True
  | _ => False

def set (f : Nat → Pc) (i : Nat) (p : Pc) : Nat → Pc := fun j => if j = i then p else f j

/-- `fixed = true`: re-check after release. `fixed = false`: the code as it is. -/
inductive Step (fixed atomic : Bool) : S → S → Prop
  | put (s i e) (h : s.pc i = .idle) :
      Step fixed atomic s { s with pc := set s.pc i .putDone, queue := s.queue ++ [e], history := s.history ++ [e] }
  | acqOk (s i) (h : s.pc i = .putDone) (hl : s.lock = false) :
      Step fixed atomic s { s with pc := set s.pc i .check, lock := true }
  | acqFail (s i) (h : s.pc i = .putDone) (hl : s.lock = true) :
      Step fixed atomic s { s with pc := set s.pc i .idle }
  | pop (s i e q) (h : s.pc i = .check) (hq : s.queue = e :: q) :
      Step fixed atomic s { s with pc := set s.pc i (.processing e), queue := q }
  | nested (s i e e') (h : s.pc i = .processing e) :   -- callback sends a nested event: put + failed acquire
      Step fixed atomic s { s with queue := s.queue ++ [e'], history := s.history ++ [e'] }
  | done (s i e) (h : s.pc i = .processing e) :
      Step fixed atomic s { s with pc := set s.pc i .check, processed := s.processed ++ [e] }
  | empty (s i) (h : s.pc i = .check) (hq : s.queue = []) (ha : atomic = false) :
      Step fixed atomic s { s with pc := set s.pc i .exiting }
  | emptyRelease (s i) (h : s.pc i = .check) (hq : s.queue = []) (ha : atomic = true) :
      -- asyncio: no `await` between the last emptiness test and `release()`
      Step fixed atomic s { s with pc := set s.pc i .idle, lock := false }
  | release (s i) (h : s.pc i = .exiting) :
      Step fixed atomic s { s with pc := set s.pc i (if fixed then .recheck else .idle), lock := false }
  | recheckEmpty (s i) (h : s.pc i = .recheck) (hq : s.queue = []) :
      Step fixed atomic s { s with pc := set s.pc i .idle }
  | recheckMore (s i) (h : s.pc i = .recheck) (hq : s.queue ≠ []) :
      Step fixed atomic s { s with pc := set s.pc i .putDone }

def init : S := { pc := fun _ => .idle, queue := [], lock := false, processed := [], history := [] }

inductive Reach (fixed atomic : Bool) : S → Prop
  | init : Reach fixed atomic init
  | step {s s'} : Reach fixed atomic s → Step fixed atomic s s' → Reach fixed atomic s'

/-- mutual exclusion + lock/CS agreement -/
def Mutex (s : S) : Prop :=
  (∀ i j, inCS (s.pc i) → inCS (s.pc j) → i = j) ∧ (s.lock = true ↔ ∃ i, inCS (s.pc i))

def willLook : Pc → Prop
  | .putDone | .check | .processing _ | .exiting | .recheck => True
  | .idle => False

/-- nothing stranded: a non-empty queue always has somebody who will look at it again -/
def Live (s : S) : Prop := s.queue ≠ [] → ∃ i, willLook (s.pc i)

theorem mutex_inv {fixed atomic} {s : S} (h : Reach fixed atomic s) : Mutex s := by
  induction h with
  | init => exact ⟨fun i j hi => by simp [init, inCS] at hi, by simp [init, inCS]⟩
  | step hr hs ih =>
    obtain ⟨hme, hlk⟩ := ih
    cases hs <;> constructor <;> simp only [set] <;> grind [inCS]


theorem inCS_willLook (p : Pc) : inCS p → willLook p := by cases p <;> simp [inCS, willLook]

/-- with an atomic test-and-release nobody is ever observed between the test and the release -/
theorem noexit_inv {fixed} {s : S} (h : Reach fixed true s) : ∀ i, s.pc i ≠ .exiting := by
  induction h with
  | init => intro i; simp [init]
  | step hr hs ih => cases hs <;> simp only [set] <;> grind

theorem live_inv {fixed atomic} {s : S} (hfa : fixed = true ∨ atomic = true) (h : Reach fixed atomic s) : Live s := by
  induction h with
  | init => simp [Live, init]
  | @step s_pre s_post hr hs ih =>
    have hm := mutex_inv hr
    obtain ⟨hme, hlk⟩ := hm
    have hne : atomic = true → ∀ i, s_pre.pc i ≠ .exiting := by
      intro ha; subst ha; exact noexit_inv hr
    unfold Live at *
    cases hs <;> simp only [set] <;> grind [inCS, willLook, inCS_willLook]

/-- C06 (no stranded event), fixed protocol: when every sender has returned, the queue is empty. -/
theorem no_stranded {fixed atomic} {s : S} (hfa : fixed = true ∨ atomic = true)
    (h : Reach fixed atomic s) (hq : ∀ i, s.pc i = .idle) : s.queue = [] := by
  have := live_inv hfa h
  unfold Live at this
  by_cases hne : s.queue = []
  · exact hne
  · obtain ⟨i, hi⟩ := this hne
    rw [hq i] at hi
    simp [willLook] at hi

def isProcessing : Pc → Option Nat
  | .processing e => some e
  | _ => none

theorem proc_inCS (p : Pc) : isProcessing p ≠ none → inCS p := by cases p <;> simp [inCS, isProcessing]
theorem proc_eq (p : Pc) (e : Nat) : p = .processing e → isProcessing p = some e := by intro h; subst h; rfl

/-- exactly once, in put order -/
def Fifo (s : S) : Prop :=
  (∀ i e, s.pc i = .processing e → s.processed ++ e :: s.queue = s.history) ∧
  ((∀ i, isProcessing (s.pc i) = none) → s.processed ++ s.queue = s.history)

theorem fifo_inv {fixed atomic} {s : S} (h : Reach fixed atomic s) : Fifo s := by
  induction h with
  | init => simp [Fifo, init]
  | step hr hs ih =>
    have hm := mutex_inv hr
    obtain ⟨hme, hlk⟩ := hm
    obtain ⟨h1, h2⟩ := ih
    cases hs <;> constructor <;> simp only [set] <;> grind [inCS, isProcessing, proc_inCS, proc_eq]

/-- the code as it is: a reachable quiescent state with a stranded event (2 senders) -/
theorem stranded_witness : ∃ s, Reach false false s ∧ (∀ i, s.pc i = .idle) ∧ s.queue ≠ [] := by
  let s0 := init
  let s1 : S := { s0 with pc := set s0.pc 0 .putDone, queue := s0.queue ++ [7], history := s0.history ++ [7] }
  have r1 : Reach false false s1 := .step .init (.put s0 0 7 rfl)
  let s2 : S := { s1 with pc := set s1.pc 0 .check, lock := true }
  have r2 : Reach false false s2 := .step r1 (.acqOk s1 0 (by simp [s1, set]) rfl)
  let s3 : S := { s2 with pc := set s2.pc 0 (.processing 7), queue := [] }
  have r3 : Reach false false s3 := .step r2 (.pop s2 0 7 [] (by simp [s2, set]) (by simp [s2, s1, s0, init]))
  let s4 : S := { s3 with pc := set s3.pc 0 .check, processed := s3.processed ++ [7] }
  have r4 : Reach false false s4 := .step r3 (.done s3 0 7 (by simp [s3, set]))
  let s5 : S := { s4 with pc := set s4.pc 0 .exiting }
  have r5 : Reach false false s5 := .step r4 (.empty s4 0 (by simp [s4, set]) (by simp [s4, s3]) rfl)
  let s6 : S := { s5 with pc := set s5.pc 1 .putDone, queue := s5.queue ++ [8], history := s5.history ++ [8] }
  have r6 : Reach false false s6 := .step r5 (.put s5 1 8 (by simp [s5, s4, s3, s2, s1, s0, set, init]))
  let s7 : S := { s6 with pc := set s6.pc 1 .idle }
  have r7 : Reach false false s7 := .step r6 (.acqFail s6 1 (by simp [s6, set]) (by simp [s6, s5, s4, s3, s2]))
  let s8 : S := { s7 with pc := set s7.pc 0 (if false then .recheck else .idle), lock := false }
  have r8 : Reach false false s8 := .step r7 (.release s7 0 (by simp [s7, s6, s5, set]))
  refine ⟨s8, r8, ?_, ?_⟩
  · intro i
    simp [s8, s7, s6, s5, s4, s3, s2, s1, s0, set, init]
    grind
  · simp [s8, s7, s6, s5, s4, s3]

end Proto
