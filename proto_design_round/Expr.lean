/-! Prototype C08: library closure-tree semantics vs Python semantics on the parsed AST. -/
namespace GExpr

inductive V | none | bool (b : Bool) | int (i : Int) | str (s : String)
deriving DecidableEq, Repr

def truthy : V → Bool
  | .none => false | .bool b => b | .int i => i != 0 | .str s => s != ""

inductive Cmp | eq | ne | lt | le | gt | ge deriving DecidableEq, Repr

/-- abstract comparison: a parameter (Python's rich comparison on arbitrary values) -/
structure Sem where
  cmp : Cmp → V → V → Bool

mutual
inductive E
  | name (n : Nat)
  | const (v : V)
  | not (e : E)
  | and (a b : E)
  | or (a b : E)
  | cmp (first : E) (c : Chain)
inductive Chain
  | last (op : Cmp) (r : E)
  | more (op : Cmp) (r : E) (c : Chain)
end

abbrev Env := Nat → V

structure R where
  val : V
  reads : List (Nat × Bool)   -- (name, isReread)

mutual
/-- library: custom_and / custom_or / custom_not / comparators chained with custom_and -/
def evalLib (S : Sem) (ρ : Env) (re : Bool) : E → R
  | .name n => ⟨ρ n, [(n, re)]⟩
  | .const v => ⟨v, []⟩
  | .not e => let r := evalLib S ρ re e; ⟨.bool (!truthy r.val), r.reads⟩
  | .and a b =>
    let ra := evalLib S ρ re a
    if truthy ra.val then let rb := evalLib S ρ re b; ⟨rb.val, ra.reads ++ rb.reads⟩ else ra
  | .or a b =>
    let ra := evalLib S ρ re a
    if truthy ra.val then ra else let rb := evalLib S ρ re b; ⟨rb.val, ra.reads ++ rb.reads⟩
  | .cmp first c =>
    let rl := evalLib S ρ re first
    let rc := chainLib S ρ re rl.val c
    ⟨rc.val, rl.reads ++ rc.reads⟩
/-- links after the first operand (whose value is `lv`); returns only the reads it adds.
Each link `op(left, right)` evaluates both operands, so the right operand of one link is
evaluated again as the left operand of the next (`re := true`). -/
def chainLib (S : Sem) (ρ : Env) (re : Bool) (lv : V) : Chain → R
  | .last op r =>
    let rr := evalLib S ρ re r
    ⟨.bool (S.cmp op lv rr.val), rr.reads⟩
  | .more op r c =>
    let rr := evalLib S ρ re r
    if S.cmp op lv rr.val then
      let rr2 := evalLib S ρ true r                    -- re-evaluation by the next link
      let rest := chainLib S ρ re rr2.val c
      ⟨rest.val, rr.reads ++ rr2.reads ++ rest.reads⟩
    else ⟨.bool false, rr.reads⟩
end

mutual
/-- Python reference semantics (language reference 6.10–6.12): operands once, left to right -/
def evalPy (S : Sem) (ρ : Env) : E → R
  | .name n => ⟨ρ n, [(n, false)]⟩
  | .const v => ⟨v, []⟩
  | .not e => let r := evalPy S ρ e; ⟨.bool (!truthy r.val), r.reads⟩
  | .and a b =>
    let ra := evalPy S ρ a
    if truthy ra.val then let rb := evalPy S ρ b; ⟨rb.val, ra.reads ++ rb.reads⟩ else ra
  | .or a b =>
    let ra := evalPy S ρ a
    if truthy ra.val then ra else let rb := evalPy S ρ b; ⟨rb.val, ra.reads ++ rb.reads⟩
  | .cmp first c =>
    let rl := evalPy S ρ first
    let rc := chainPy S ρ rl.val c
    ⟨rc.val, rl.reads ++ rc.reads⟩
def chainPy (S : Sem) (ρ : Env) (lv : V) : Chain → R
  | .last op r => let rr := evalPy S ρ r; ⟨.bool (S.cmp op lv rr.val), rr.reads⟩
  | .more op r c =>
    let rr := evalPy S ρ r
    if S.cmp op lv rr.val then
      let rest := chainPy S ρ rr.val c
      ⟨rest.val, rr.reads ++ rest.reads⟩
    else ⟨.bool false, rr.reads⟩
end

def firstReads (l : List (Nat × Bool)) : List Nat := (l.filter (fun x => !x.2)).map (·.1)

end GExpr
