/-! C07 prototype, second take: `Nat` names, structural association lists. -/
namespace Bind
abbrev Val := Nat
abbrev Name := Nat
inductive Kind | po | pk | vp | ko | vk
deriving DecidableEq, Repr

structure Param where
  name : Name
  kind : Kind
  dflt : Bool
deriving DecidableEq, Repr

abbrev KW := List (Name × Val)

def kwGet : KW → Name → Option Val
  | [], _ => none
  | (k, v) :: rest, n => if k = n then some v else kwGet rest n
def kwErase : KW → Name → KW
  | [], _ => []
  | (k, v) :: rest, n => if k = n then kwErase rest n else (k, v) :: kwErase rest n

inductive ArgVal
  | one (v : Val) | tuple (vs : List Val) | dict (kw : KW)
deriving DecidableEq, Repr

abbrev Arguments := List (Name × ArgVal)

def lookup : Arguments → Name → Option ArgVal
  | [], _ => none
  | (k, v) :: rest, n => if k = n then some v else lookup rest n

structure P1 where
  args : Arguments
  kw : KW
  rest : List Param
  vk : Option Param
deriving Repr

/-- the `while True` loop of `bind_expected`; `fixed`: the keyword-only parameter is pushed back -/
def phase1 (fixed : Bool) : List Param → List Val → KW → Arguments → Except String P1
  | [], _, kw, acc => .ok ⟨acc, kw, [], none⟩
  | p :: rest, [], kw, acc =>
    if p.kind = .vp then .ok ⟨acc, kw, rest, none⟩
    else if (kwGet kw p.name).isSome ∧ p.kind = .po then .error "positional only passed as keyword"
    else .ok ⟨acc, kw, p :: rest, none⟩
  | p :: rest, a :: as, kw, acc =>
    match p.kind with
    | .vk => .ok ⟨acc, kw, rest, some p⟩
    | .ko => .ok ⟨acc, kw, if fixed then p :: rest else rest, none⟩
    | .vp => .ok ⟨acc ++ [(p.name, .tuple (a :: as))], kw, rest, none⟩
    | .pk =>
      match kwGet kw p.name with
      | some v => phase1 fixed rest as (kwErase kw p.name) (acc ++ [(p.name, .one v)])
      | none => phase1 fixed rest as kw (acc ++ [(p.name, .one a)])
    | .po => phase1 fixed rest as kw (acc ++ [(p.name, .one a)])

def isPos (p : Param) : Bool := p.kind = .po || p.kind = .pk

/-- closed form: entry of the `i`-th positional parameter when a positional argument reaches it -/
def posEntry (args : List Val) (kw : KW) (i : Nat) (p : Param) : Name × ArgVal :=
  (p.name, .one (match p.kind, kwGet kw p.name with
                 | .pk, some v => v
                 | _, _ => args.getD i 0))

def posEntries (args : List Val) (kw : KW) (i : Nat) : List Param → Arguments
  | [] => []
  | p :: ps => posEntry args kw i p :: posEntries args kw (i + 1) ps

def eraseNames (kw : KW) : List Param → KW
  | [] => kw
  | p :: ps => eraseNames (if p.kind = .pk then kwErase kw p.name else kw) ps

theorem kwGet_erase_ne (kw : KW) (m n : Name) (h : n ≠ m) : kwGet (kwErase kw m) n = kwGet kw n := by
  induction kw with
  | nil => rfl
  | cons e rest ih => obtain ⟨k, v⟩ := e; simp only [kwErase]; grind [kwGet]

theorem kwErase_absent (kw : KW) (m : Name) (h : kwGet kw m = none) : kwErase kw m = kw := by
  induction kw with
  | nil => rfl
  | cons e rest ih => obtain ⟨k, v⟩ := e; simp only [kwGet] at h; simp only [kwErase]; grind

theorem posEntries_kw_irrelevant (args : List Val) (kw : KW) (m : Name) (i : Nat) (ps : List Param)
    (h : ∀ p ∈ ps, p.name ≠ m) :
    posEntries args (kwErase kw m) i ps = posEntries args kw i ps := by
  induction ps generalizing i with
  | nil => rfl
  | cons p ps ih =>
    have hp := h p (List.mem_cons_self)
    simp only [posEntries, posEntry, kwGet_erase_ne kw m p.name hp]
    rw [ih _ (fun q hq => h q (List.mem_cons_of_mem _ hq))]

/-- **Positional prefix.** If the first `pre.length` parameters are positional and that many
positional arguments exist, the loop consumes them pairwise: each parameter receives the same-named
keyword if it is positional-or-keyword and the keyword is present (the keyword is consumed), else the
positional argument at its index. -/
theorem phase1_prefix (fixed : Bool) (pre rest : List Param) (args : List Val) (kw : KW)
    (acc : Arguments) (i : Nat) (all : List Val)
    (hpos : ∀ p ∈ pre, isPos p = true) (hnd : (pre.map (·.name)).Nodup)
    (hlen : pre.length ≤ args.length) (hall : args = all.drop i) :
    phase1 fixed (pre ++ rest) args kw acc =
      phase1 fixed rest (args.drop pre.length) (eraseNames kw pre) (acc ++ posEntries all kw i pre) := by
  induction pre generalizing args kw acc i with
  | nil => simp [posEntries, eraseNames]
  | cons p ps ih =>
    cases args with
    | nil => simp at hlen
    | cons a as =>
      have hp := hpos p (List.mem_cons_self)
      simp only [List.map_cons, List.nodup_cons] at hnd
      have hne : ∀ q ∈ ps, q.name ≠ p.name := fun q hq h => hnd.1 (h ▸ List.mem_map_of_mem hq)
      have ha : all[i]?.getD 0 = a := by
        have : (all.drop i).head? = some a := by rw [← hall]; rfl
        simp [List.head?_drop] at this
        simp [this]
      have hrest : as = all.drop (i + 1) := by
        have : (all.drop i).tail = as := by rw [← hall]; rfl
        rw [← this, List.tail_drop]
      have hlen' : ps.length ≤ as.length := by simpa using hlen
      have hpos' : ∀ q ∈ ps, isPos q = true := fun q hq => hpos q (List.mem_cons_of_mem _ hq)
      simp only [List.cons_append, List.length_cons, List.drop_succ_cons]
      conv => lhs; unfold phase1
      cases hk : p.kind <;> simp [isPos, hk] at hp
      · -- po
        simp only [posEntries, posEntry, eraseNames, hk]
        rw [ih as kw _ (i + 1) hpos' hnd.2 hlen' hrest]
        simp [ha, List.getD]
      · -- pk
        cases hg : kwGet kw p.name with
        | none =>
          simp only [posEntries, posEntry, eraseNames, hk, hg, if_true]
          rw [ih as kw _ (i + 1) hpos' hnd.2 hlen' hrest, kwErase_absent kw p.name hg]
          simp [ha, List.getD]
        | some v =>
          simp only [posEntries, posEntry, eraseNames, hk, hg, if_true]
          rw [ih as _ _ (i + 1) hpos' hnd.2 hlen' hrest, posEntries_kw_irrelevant _ _ _ _ _ hne]
          simp

theorem lookup_append (a b : Arguments) (n : Name) :
    lookup (a ++ b) n = (lookup a n).orElse (fun _ => lookup b n) := by
  induction a with
  | nil => simp [lookup]
  | cons e rest ih => obtain ⟨k, v⟩ := e; simp only [List.cons_append, lookup]; split <;> simp [ih]

theorem posEntries_lookup_none (args : List Val) (kw : KW) (i : Nat) (ps : List Param) (n : Name)
    (h : ∀ p ∈ ps, p.name ≠ n) : lookup (posEntries args kw i ps) n = none := by
  induction ps generalizing i with
  | nil => rfl
  | cons p ps ih =>
    simp only [posEntries, posEntry, lookup, h p (List.mem_cons_self), if_false]
    exact ih _ (fun q hq => h q (List.mem_cons_of_mem _ hq))

/-- closed form for the `j`-th parameter of the positional prefix -/
theorem posEntries_lookup (args : List Val) (kw : KW) (i : Nat) (ps : List Param)
    (hnd : (ps.map (·.name)).Nodup) (j : Nat) (p : Param) (hj : ps[j]? = some p) :
    lookup (posEntries args kw i ps) p.name = some (posEntry args kw (i + j) p).2 := by
  induction ps generalizing i j with
  | nil => simp at hj
  | cons q qs ih =>
    simp only [List.map_cons, List.nodup_cons] at hnd
    cases j with
    | zero =>
      simp at hj; subst hj
      simp [posEntries, lookup, posEntry]
    | succ j =>
      simp at hj
      have hne : q.name ≠ p.name := by
        intro h; apply hnd.1; rw [h]
        exact List.mem_map_of_mem (List.mem_of_getElem? hj)
      simp only [posEntries, lookup, posEntry, hne, if_false]
      have := ih (i + 1) hnd.2 j hj
      simpa [posEntry, Nat.add_assoc, Nat.add_comm 1 j] using this

/-- the `for param in chain(parameters_ex, parameters)` loop -/
def phase2 : List Param → KW → Arguments → Option Param → Arguments × KW × Option Param
  | [], kw, acc, vk => (acc, kw, vk)
  | p :: rest, kw, acc, vk =>
    match p.kind with
    | .vk => phase2 rest kw acc (some p)
    | .vp => phase2 rest kw acc vk
    | _ =>
      match kwGet kw p.name with
      | some v => phase2 rest (kwErase kw p.name) (acc ++ [(p.name, .one v)]) vk
      | none => phase2 rest kw acc vk

def bindExpected (fixed : Bool) (sig : List Param) (args : List Val) (kw : KW) : Except String Arguments :=
  match phase1 fixed sig args kw [] with
  | .error e => .error e
  | .ok r =>
    let (acc, kw', vk) := phase2 r.rest r.kw r.args r.vk
    match vk with
    | some p => if kw'.isEmpty then .ok acc else .ok (acc ++ [(p.name, .dict kw')])
    | none => .ok acc

def named (p : Param) : Bool := p.kind != .vp && p.kind != .vk

/-- entries phase 2 adds -/
def kwEntries : List Param → KW → Arguments
  | [], _ => []
  | p :: rest, kw =>
    if named p then
      match kwGet kw p.name with
      | some v => (p.name, .one v) :: kwEntries rest (kwErase kw p.name)
      | none => kwEntries rest kw
    else kwEntries rest kw

theorem phase2_acc (ps : List Param) (kw : KW) (acc : Arguments) (vk : Option Param) :
    (phase2 ps kw acc vk).1 = acc ++ kwEntries ps kw := by
  induction ps generalizing kw acc vk with
  | nil => simp [phase2, kwEntries]
  | cons p rest ih =>
    unfold phase2 kwEntries
    cases hk : p.kind <;> simp only [named, hk] <;> first
      | (simp; exact ih _ _ _)
      | (cases hg : kwGet kw p.name <;> simp [ih])

theorem kwEntries_lookup_none (ps : List Param) (kw : KW) (n : Name) (h : ∀ p ∈ ps, p.name ≠ n) :
    lookup (kwEntries ps kw) n = none := by
  induction ps generalizing kw with
  | nil => rfl
  | cons p ps ih =>
    have hp := h p (List.mem_cons_self)
    have ih' := fun kw => ih kw (fun q hq => h q (List.mem_cons_of_mem _ hq))
    unfold kwEntries
    split
    · split
      · simp [lookup, hp, ih']
      · exact ih' _
    · exact ih' _

/-- closed form: a parameter handled by the keyword loop receives its same-named keyword, if any -/
theorem kwEntries_lookup (ps : List Param) (kw : KW) (hnd : (ps.map (·.name)).Nodup)
    (p : Param) (hp : p ∈ ps) :
    lookup (kwEntries ps kw) p.name = if named p then (kwGet kw p.name).map .one else none := by
  induction ps generalizing kw with
  | nil => cases hp
  | cons q qs ih =>
    simp only [List.map_cons, List.nodup_cons] at hnd
    have hne : ∀ r ∈ qs, r.name ≠ q.name := fun r hr h => hnd.1 (h ▸ List.mem_map_of_mem hr)
    rcases List.mem_cons.mp hp with rfl | hp'
    · unfold kwEntries
      split
      · rename_i hn
        cases hg : kwGet kw p.name with
        | some v => simp [lookup, hn]
        | none => simp [hn, kwEntries_lookup_none qs kw p.name hne]
      · rename_i hn
        simp [hn, kwEntries_lookup_none qs kw p.name hne]
    · have hpq : p.name ≠ q.name := hne p hp'
      unfold kwEntries
      split
      · cases hg : kwGet kw q.name with
        | some v =>
          simp only [lookup, Ne.symm hpq, if_false]
          rw [ih _ hnd.2 hp', kwGet_erase_ne kw q.name p.name hpq]
        | none => exact ih _ hnd.2 hp'
      · exact ih _ hnd.2 hp'
end Bind
