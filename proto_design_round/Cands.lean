import Proto.Engine
namespace SM

/-- the candidate loop only looks at transitions bound to the event: the order of transitions bound to
*other* events is irrelevant (what makes declaration styles interchangeable, C15) -/
theorem tryCands_filter (m : Machine) (t : Trigger) (l : List Transn) :
    tryCands m t l = tryCands m t (l.filter (fun tr => tr.events.contains t.event)) := by
  induction l with
  | nil => rfl
  | cons tr rest ih =>
    by_cases h : tr.events.contains t.event = true
    · simp only [List.filter_cons, h, if_true]
      unfold tryCands
      simp only [h, if_true]
      congr 1
      funext r
      cases r with
      | none => exact ih
      | some v => rfl
    · simp only [List.filter_cons, h]
      conv => lhs; unfold tryCands
      simp only [h]
      exact ih

/-- C01 core: when no transition is bound to the event nothing runs and nothing fires -/
theorem tryCands_no_match (m : Machine) (t : Trigger) (l : List Transn)
    (h : ∀ tr ∈ l, tr.events.contains t.event = false) (c : Cfg) :
    tryCands m t l c = (c, .ok none) := by
  induction l with
  | nil => rfl
  | cons tr rest ih =>
    unfold tryCands
    simp only [h tr (List.mem_cons_self)]
    exact ih (fun q hq => h q (List.mem_cons_of_mem _ hq))
end SM
