import Proto.Fifo
/-! C02/C04 prototype: the block of one activation is phase-ordered; the model field changes only at `setState`. -/
namespace SM

def Phase.rank : Phase → Nat
  | .validators => 0 | .cond => 1 | .before => 2 | .exit => 3 | .on => 4 | .enter => 6 | .after => 7

def Entry.rank : Entry → Nat
  | .cbBegin _ ph _ _ => ph.rank
  | .cbEnd _ ph _ => ph.rank
  | .setState _ _ => 5

/-- `c'` extends `c` by entries whose ranks lie in `[lo, hi]` and never decrease; the model field is
untouched unless `5 ∈ [lo, hi]` (the only writer is `setState`, rank 5). -/
structure ExtPh (lo hi : Nat) (c c' : Cfg) : Prop where
  log : ∃ es, c'.log = c.log ++ es ∧ (es.map Entry.rank).Pairwise (· ≤ ·) ∧ ∀ e ∈ es, lo ≤ e.rank ∧ e.rank ≤ hi
  cur : (hi < 5 ∨ 5 < lo) → c'.cur = c.cur

def RespPh (lo hi : Nat) {α} (x : EM α) : Prop := ∀ c, ExtPh lo hi c (x c).1

theorem ExtPh.refl (lo hi : Nat) (c : Cfg) : ExtPh lo hi c c :=
  ⟨⟨[], by simp⟩, fun _ => rfl⟩

theorem ExtPh.seq {lo1 hi1 lo2 hi2 : Nat} {a b c : Cfg} (h : hi1 ≤ lo2)
    (h1 : ExtPh lo1 hi1 a b) (h2 : ExtPh lo2 hi2 b c) (hl : lo1 ≤ lo2) (hh : hi1 ≤ hi2) :
    ExtPh lo1 hi2 a c := by
  obtain ⟨⟨es1, hl1, hs1, hb1⟩, hc1⟩ := h1
  obtain ⟨⟨es2, hl2, hs2, hb2⟩, hc2⟩ := h2
  refine ⟨⟨es1 ++ es2, by simp [hl2, hl1], ?_, ?_⟩, ?_⟩
  · rw [List.map_append, List.pairwise_append]
    refine ⟨hs1, hs2, ?_⟩
    intro x hx y hy
    simp only [List.mem_map] at hx hy
    obtain ⟨e, he, rfl⟩ := hx
    obtain ⟨e', he', rfl⟩ := hy
    have := (hb1 e he).2; have := (hb2 e' he').1; omega
  · intro e he
    rcases List.mem_append.mp he with h' | h'
    · have := hb1 e h'; omega
    · have := hb2 e h'; omega
  · intro hcond
    rw [hc2 (by omega), hc1 (by omega)]

theorem phBind {lo1 hi1 lo2 hi2 : Nat} {α β} {x : EM α} {f : α → EM β}
    (h : hi1 ≤ lo2) (hl : lo1 ≤ lo2) (hh : hi1 ≤ hi2)
    (hx : RespPh lo1 hi1 x) (hf : ∀ a, RespPh lo2 hi2 (f a)) : RespPh lo1 hi2 (x >>= f) := by
  intro c
  have h1 := hx c
  show ExtPh lo1 hi2 c ((match x c with | (c', .ok a) => f a c' | (c', .error e) => (c', .error e)) : Cfg × Except Exc β).1
  split
  · rename_i c' a heq; rw [heq] at h1; exact ExtPh.seq h h1 (hf a c') hl hh
  · rename_i c' e heq; rw [heq] at h1
    obtain ⟨⟨es, a, b, d⟩, cc⟩ := h1
    exact ⟨⟨es, a, b, fun e he => ⟨(d e he).1, by have := (d e he).2; omega⟩⟩, fun hc => cc (by omega)⟩

theorem phPure {lo hi : Nat} {α} (a : α) : RespPh lo hi (pure a : EM α) := fun c => ExtPh.refl lo hi c

theorem runCb_ph (m : Machine) (t : Trigger) (ph : Phase) (c : CbId) (hne : ph.rank ≠ 5) :
    RespPh ph.rank ph.rank (runCb m t ph c) := by
  intro cfg
  unfold runCb
  refine ⟨⟨_, rfl, ?_, ?_⟩, fun _ => rfl⟩
  · simp [Entry.rank]
  · intro e he; simp at he; rcases he with h | h <;> simp [h, Entry.rank]

theorem runGroup_ph (m : Machine) (t : Trigger) (ph : Phase) (cs : List CbId) (hne : ph.rank ≠ 5) :
    RespPh ph.rank ph.rank (runGroup m t ph cs) := by
  induction cs with
  | nil => exact phPure _
  | cons c cs ih =>
    unfold runGroup
    exact phBind (Nat.le_refl _) (Nat.le_refl _) (Nat.le_refl _) (runCb_ph m t ph c hne) fun _ =>
      phBind (Nat.le_refl _) (Nat.le_refl _) (Nat.le_refl _) ih fun _ => phPure _

theorem runConds_ph (m : Machine) (t : Trigger) (cs : List (CbId × Bool)) :
    RespPh 1 1 (runConds m t cs) := by
  induction cs with
  | nil => exact phPure _
  | cons c cs ih =>
    obtain ⟨c, ex⟩ := c
    unfold runConds
    refine phBind (Nat.le_refl _) (Nat.le_refl _) (Nat.le_refl _) (runCb_ph m t .cond c (by decide)) fun v => ?_
    split
    · exact ih
    · exact phPure _

theorem setState_ph (t : Trigger) (v : Val) : RespPh 5 5 (setState t v) := by
  intro cfg
  refine ⟨⟨[.setState t.tid v], rfl, by simp, ?_⟩, fun h => by omega⟩
  intro e he; simp at he; simp [he, Entry.rank]

/-- **C02 core**: the entries one activation appends are ordered
validators ≤ cond ≤ before ≤ exit ≤ on ≤ setState ≤ enter ≤ after — also when it stops early
(guards reject, a callback raises). -/
theorem activate_ph (m : Machine) (t : Trigger) (tr : Transn) : RespPh 0 7 (activate m t tr) := by
  unfold activate
  refine phBind (lo2 := 1) (hi2 := 7) (by decide) (by decide) (by decide) (runGroup_ph m t .validators _ (by decide)) fun _ => ?_
  refine phBind (lo2 := 2) (hi2 := 7) (by decide) (by decide) (by decide) (runConds_ph m t _) fun ok => ?_
  split
  · exact phPure _
  refine phBind (lo2 := 3) (hi2 := 7) (by decide) (by decide) (by decide) (runGroup_ph m t .before _ (by decide)) fun _ => ?_
  refine phBind (lo2 := 4) (hi2 := 7) (by decide) (by decide) (by decide) (runGroup_ph m t .exit _ (by decide)) fun _ => ?_
  refine phBind (lo2 := 5) (hi2 := 7) (by decide) (by decide) (by decide) (runGroup_ph m t .on _ (by decide)) fun _ => ?_
  refine phBind (lo2 := 6) (hi2 := 7) (by decide) (by decide) (by decide) (setState_ph t _) fun _ => ?_
  refine phBind (lo2 := 7) (hi2 := 7) (by decide) (by decide) (by decide) (runGroup_ph m t .enter _ (by decide)) fun _ => ?_
  refine phBind (lo2 := 7) (hi2 := 7) (by decide) (by decide) (by decide) (runGroup_ph m t .after _ (by decide)) fun _ => ?_
  exact phPure _

end SM
