import Proto.Expr
namespace GExpr

theorem firstReads_append (a b : List (Nat × Bool)) : firstReads (a ++ b) = firstReads a ++ firstReads b := by
  simp [firstReads]

mutual
/-- a re-evaluation (`re = true`) yields the same value (guards are read, not mutated) and adds no first reads -/
theorem lib_re_val (S : Sem) (ρ : Env) (e : E) :
    (evalLib S ρ true e).val = (evalLib S ρ false e).val ∧ firstReads (evalLib S ρ true e).reads = [] := by
  cases e with
  | name n => simp [evalLib, firstReads]
  | const v => simp [evalLib, firstReads]
  | not a => have := lib_re_val S ρ a; simp [evalLib, this]
  | and a b =>
    have ha := lib_re_val S ρ a; have hb := lib_re_val S ρ b
    simp only [evalLib, ha.1]
    split
    · exact ⟨hb.1, by simp [firstReads_append, ha.2, hb.2]⟩
    · exact ha
  | or a b =>
    have ha := lib_re_val S ρ a; have hb := lib_re_val S ρ b
    simp only [evalLib, ha.1]
    split
    · exact ha
    · exact ⟨hb.1, by simp [firstReads_append, ha.2, hb.2]⟩
  | cmp first c =>
    have hf := lib_re_val S ρ first
    have hc := chain_re_val S ρ c (evalLib S ρ false first).val
    simp only [evalLib, hf.1]
    exact ⟨hc.1, by simp [firstReads_append, hf.2, hc.2]⟩
theorem chain_re_val (S : Sem) (ρ : Env) (c : Chain) (lv : V) :
    (chainLib S ρ true lv c).val = (chainLib S ρ false lv c).val ∧
    firstReads (chainLib S ρ true lv c).reads = [] := by
  cases c with
  | last op r =>
    have h := lib_re_val S ρ r
    simp only [chainLib, h.1]
    exact ⟨trivial, h.2⟩
  | more op r c =>
    have h := lib_re_val S ρ r
    have ih := chain_re_val S ρ c (evalLib S ρ true r).val
    simp only [chainLib, h.1] at ih ⊢
    split
    · exact ⟨ih.1, by simp [firstReads_append, h.2, ih.2]⟩
    · exact ⟨rfl, h.2⟩
end

mutual
/-- C08_eval: same value and same first reads as Python, for any nesting and any environment -/
theorem C08_eval (S : Sem) (ρ : Env) (e : E) :
    (evalLib S ρ false e).val = (evalPy S ρ e).val ∧
    firstReads (evalLib S ρ false e).reads = firstReads (evalPy S ρ e).reads := by
  cases e with
  | name n => simp [evalLib, evalPy]
  | const v => simp [evalLib, evalPy]
  | not a => have := C08_eval S ρ a; simp [evalLib, evalPy, this]
  | and a b =>
    have ha := C08_eval S ρ a; have hb := C08_eval S ρ b
    simp only [evalLib, evalPy, ha.1]
    split
    · exact ⟨hb.1, by simp [firstReads_append, ha.2, hb.2]⟩
    · exact ha
  | or a b =>
    have ha := C08_eval S ρ a; have hb := C08_eval S ρ b
    simp only [evalLib, evalPy, ha.1]
    split
    · exact ha
    · exact ⟨hb.1, by simp [firstReads_append, ha.2, hb.2]⟩
  | cmp first c =>
    have hf := C08_eval S ρ first
    have hc := C08_chain S ρ c (evalPy S ρ first).val
    simp only [evalLib, evalPy, hf.1]
    exact ⟨hc.1, by simp [firstReads_append, hf.2, hc.2]⟩
theorem C08_chain (S : Sem) (ρ : Env) (c : Chain) (lv : V) :
    (chainLib S ρ false lv c).val = (chainPy S ρ lv c).val ∧
    firstReads (chainLib S ρ false lv c).reads = firstReads (chainPy S ρ lv c).reads := by
  cases c with
  | last op r =>
    have h := C08_eval S ρ r
    simp only [chainLib, chainPy, h.1]
    exact ⟨trivial, h.2⟩
  | more op r c =>
    have h := C08_eval S ρ r
    have h2 := lib_re_val S ρ r
    have ih := C08_chain S ρ c (evalPy S ρ r).val
    simp only [chainLib, chainPy, h.1, h2.1]
    split
    · exact ⟨ih.1, by simp [firstReads_append, h.2, h2.2, ih.2]⟩
    · exact ⟨rfl, h.2⟩
end

/-- the guard's truth value (what `bool(value) == expected` looks at) -/
theorem C08_truthy (S : Sem) (ρ : Env) (e : E) :
    truthy (evalLib S ρ false e).val = truthy (evalPy S ρ e).val := by
  rw [(C08_eval S ρ e).1]
end GExpr
