import Proto.Ext
/-! Prototype: one engine definition for both processing modes, parametrised by the handler of
nested sends. RTC: enqueue, return None. Non-RTC: run the event now (recursion on fuel). -/
namespace SMH
open SM

/-- what `sm.send(e)` does when called from inside a callback -/
abbrev Nested := EventId → EM (Option (List Val))

def sendsLoop (h : Nested) : List EventId → EM Unit
  | [] => pure ()
  | e :: es => do let _ ← h e; sendsLoop h es

def runCb (h : Nested) (m : Machine) (t : Trigger) (ph : Phase) (c : CbId) : EM Val := do
  let cfg ← EM.get
  let a := m.behav c cfg.nextInv { state := cfg.cur, event := t.event }
  EM.modify fun cfg => { cfg with log := cfg.log ++ [.cbBegin t.tid ph c cfg.cur], nextInv := cfg.nextInv + 1 }
  sendsLoop h a.sends
  match a.raises with
  | some e => EM.throw e
  | none =>
    EM.modify fun cfg => { cfg with log := cfg.log ++ [.cbEnd t.tid ph c] }
    pure a.ret

def runGroup (h : Nested) (m : Machine) (t : Trigger) (ph : Phase) : List CbId → EM (List Val)
  | [] => pure []
  | c :: cs => do
    let v ← runCb h m t ph c
    let vs ← runGroup h m t ph cs
    pure (v :: vs)

def runConds (h : Nested) (m : Machine) (t : Trigger) : List (CbId × Bool) → EM Bool
  | [] => pure true
  | (c, expected) :: cs => do
    let v ← runCb h m t .cond c
    if m.truthy v == expected then runConds h m t cs else pure false

def activate (h : Nested) (m : Machine) (t : Trigger) (tr : Transn) : EM (Option (List Val)) := do
  let _ ← runGroup h m t .validators tr.validators
  let ok ← runConds h m t tr.conds
  if !ok then return none
  let r1 ← runGroup h m t .before (applicable t tr.before)
  let _ ← runGroup h m t .exit (if tr.internal then [] else (stateDef m tr.source).exit)
  let r2 ← runGroup h m t .on (applicable t tr.on)
  setState t (stateVal m tr.target)
  let _ ← runGroup h m t .enter (if tr.internal then [] else (stateDef m tr.target).enter)
  let _ ← runGroup h m t .after (applicable t tr.after)
  return some (r1 ++ r2)

def tryCands (h : Nested) (m : Machine) (t : Trigger) : List Transn → EM (Option (List Val))
  | [] => pure none
  | tr :: rest =>
    if tr.events.contains t.event then do
      match ← activate h m t tr with
      | none => tryCands h m t rest
      | some r => pure (some r)
    else tryCands h m t rest

def lookupState (m : Machine) (v : Val) : Option StateId := m.states.findIdx? (·.value == v)

def trigger (h : Nested) (m : Machine) (t : Trigger) : EM (Option (List Val)) := do
  let cfg ← EM.get
  match cfg.cur.bind (lookupState m) with
  | none => EM.throw "InvalidStateValue"
  | some s =>
    match ← tryCands h m t (m.out s) with
    | some r => pure (some r)
    | none => if m.allowNoTransition then pure none else EM.throw "TransitionNotAllowed"

/-- RTC: a nested send only enqueues (the lock is held) and returns `None` -/
def nestedRtc : Nested := fun e cfg =>
  ({ cfg with queue := cfg.queue ++ [{ tid := cfg.nextTid, event := e }], nextTid := cfg.nextTid + 1 }, .ok none)

/-- non-RTC: a nested send runs the event now, depth first; recursion on fuel only -/
def triggerNR (m : Machine) : Nat → EventId → EM (Option (List Val))
  | 0, _ => EM.throw "RecursionError"
  | fuel + 1, e => fun cfg =>
    let t : Trigger := { tid := cfg.nextTid, event := e }
    trigger (triggerNR m fuel) m t { cfg with nextTid := cfg.nextTid + 1 }

/-- any relation preserved by the nested-send handler and by the two log primitives is preserved by
the whole engine: the lifting lemma is proved once, for both modes -/
theorem runCb_resp {R : Cfg → Cfg → Prop} (hr : ∀ c, R c c) (ht : ∀ {a b c}, R a b → R b c → R a c)
    (h : Nested) (hh : ∀ e, Resp R (h e))
    (hlog : ∀ (c : Cfg) (es : List Entry) (n : Nat), R c { c with log := c.log ++ es, nextInv := n })
    (m : Machine) (t : Trigger) (ph : Phase) (cb : CbId) : Resp R (runCb h m t ph cb) := by
  have hsends : ∀ es, Resp R (sendsLoop h es) := by
    intro es
    induction es with
    | nil => exact Resp.pure hr _
    | cons e es ih => unfold sendsLoop; exact Resp.bind (R := R) @ht (hh e) fun _ => ih
  unfold runCb
  refine Resp.bind (R := R) @ht (fun c => hr c) fun cfg => ?_
  refine Resp.bind (R := R) @ht (fun c => hlog c _ _) fun _ => ?_
  refine Resp.bind (R := R) @ht (hsends _) fun _ => ?_
  split
  · exact Resp.throw hr _
  · refine Resp.bind (R := R) @ht (fun c => ?_) fun _ => Resp.pure hr _
    have := hlog c [.cbEnd t.tid ph cb] c.nextInv
    simpa [EM.modify] using this
end SMH
