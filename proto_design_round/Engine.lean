/-! Prototype of the engine model (RTC part). No Mathlib. -/
namespace SM

abbrev StateId := Nat
abbrev EventId := String
abbrev CbId := Nat
abbrev Val := String
abbrev Exc := String

inductive Phase | validators | cond | before | exit | on | enter | after
deriving DecidableEq, Repr, Inhabited

structure Trigger where
  tid   : Nat
  event : EventId
deriving Repr, DecidableEq

/-- what the callback can observe -/
structure Obs where
  state : Option Val
  event : EventId
deriving Repr

/-- what a callback does -/
structure Act where
  ret    : Val
  raises : Option Exc
  sends  : List EventId
deriving Repr

inductive Entry
  | cbBegin (tid : Nat) (ph : Phase) (cb : CbId) (seen : Option Val)
  | cbEnd   (tid : Nat) (ph : Phase) (cb : CbId)
  | setState (tid : Nat) (v : Val)
deriving Repr, DecidableEq

def Entry.tid : Entry → Nat
  | .cbBegin t .. => t
  | .cbEnd t .. => t
  | .setState t _ => t

structure CbSpec where
  id   : CbId
  only : Option EventId := none
deriving Repr

structure Transn where
  source : StateId
  target : StateId
  events : List EventId
  internal : Bool
  validators : List CbId
  conds : List (CbId × Bool)
  before : List CbSpec
  on : List CbSpec
  after : List CbSpec
deriving Repr

structure StateDef where
  value : Val
  enter : List CbId
  exit  : List CbId
deriving Repr

structure Machine where
  states : List StateDef
  out    : StateId → List Transn
  behav  : CbId → Nat → Obs → Act
  truthy : Val → Bool
  allowNoTransition : Bool

structure Cfg where
  cur    : Option Val
  queue  : List Trigger
  log    : List Entry      -- oldest first
  nextTid : Nat
  nextInv : Nat
deriving Repr


/-- state + exception monad; state survives an exception (like Python object mutation). -/
def EM (α : Type) := Cfg → Cfg × Except Exc α

instance : Monad EM where
  pure a := fun c => (c, .ok a)
  bind x f := fun c =>
    match x c with
    | (c', .ok a) => f a c'
    | (c', .error e) => (c', .error e)

def EM.get : EM Cfg := fun c => (c, .ok c)
def EM.modify (f : Cfg → Cfg) : EM Unit := fun c => (f c, .ok ())
def EM.throw {α} (e : Exc) : EM α := fun c => (c, .error e)

/-- run one callback in RTC mode: nested sends are only enqueued. -/
def runCb (m : Machine) (t : Trigger) (ph : Phase) (c : CbId) : EM Val := fun cfg =>
  let a := m.behav c cfg.nextInv { state := cfg.cur, event := t.event }
  let newTrigs := (List.range a.sends.length).zipWith (fun i e => ({ tid := cfg.nextTid + i, event := e } : Trigger)) a.sends
  let cfg' : Cfg := { cfg with
    queue := cfg.queue ++ newTrigs
    log := cfg.log ++ [.cbBegin t.tid ph c cfg.cur, .cbEnd t.tid ph c]
    nextTid := cfg.nextTid + a.sends.length
    nextInv := cfg.nextInv + 1 }
  (cfg', match a.raises with
         | some e => .error e
         | none => .ok a.ret)

def runGroup (m : Machine) (t : Trigger) (ph : Phase) : List CbId → EM (List Val)
  | [] => pure []
  | c :: cs => do
    let v ← runCb m t ph c
    let vs ← runGroup m t ph cs
    pure (v :: vs)

def runConds (m : Machine) (t : Trigger) : List (CbId × Bool) → EM Bool
  | [] => pure true
  | (c, expected) :: cs => do
    let v ← runCb m t .cond c
    if m.truthy v == expected then runConds m t cs else pure false

def applicable (t : Trigger) (l : List CbSpec) : List CbId :=
  (l.filter (fun s => match s.only with | none => true | some e => e == t.event)).map (·.id)

def stateDef (m : Machine) (s : StateId) : StateDef := m.states.getD s ⟨"", [], []⟩
def stateVal (m : Machine) (s : StateId) : Val := (stateDef m s).value

def setState (t : Trigger) (v : Val) : EM Unit :=
  EM.modify fun cfg => { cfg with cur := some v, log := cfg.log ++ [.setState t.tid v] }

/-- `_activate`: none = guards rejected; some r = executed with results r -/
def activate (m : Machine) (t : Trigger) (tr : Transn) : EM (Option (List Val)) := do
  let _ ← runGroup m t .validators tr.validators
  let ok ← runConds m t tr.conds
  if !ok then return none
  let r1 ← runGroup m t .before (applicable t tr.before)
  let _ ← runGroup m t .exit (if tr.internal then [] else (stateDef m tr.source).exit)
  let r2 ← runGroup m t .on (applicable t tr.on)
  setState t (stateVal m tr.target)
  let _ ← runGroup m t .enter (if tr.internal then [] else (stateDef m tr.target).enter)
  let _ ← runGroup m t .after (applicable t tr.after)
  return some (r1 ++ r2)

/-- candidate loop of `_trigger` -/
def tryCands (m : Machine) (t : Trigger) : List Transn → EM (Option (List Val))
  | [] => pure none
  | tr :: rest =>
    if tr.events.contains t.event then do
      match ← activate m t tr with
      | none => tryCands m t rest
      | some r => pure (some r)
    else tryCands m t rest

end SM
