import Proto.Engine
namespace SM

/-- `c'` extends `c` while processing trigger `t`: log grows by entries tagged `t`,
queue grows by freshly numbered triggers. -/
structure Ext (t : Nat) (c c' : Cfg) : Prop where
  log : ∃ es, c'.log = c.log ++ es ∧ ∀ e ∈ es, e.tid = t
  queue : ∃ qs, c'.queue = c.queue ++ qs ∧ qs.map (·.tid) = List.range' c.nextTid (c'.nextTid - c.nextTid)
  mono : c.nextTid ≤ c'.nextTid

theorem Ext.refl (t : Nat) (c : Cfg) : Ext t c c :=
  ⟨⟨[], by simp⟩, ⟨[], by simp⟩, Nat.le_refl _⟩

theorem Ext.trans {t : Nat} {a b c : Cfg} (h1 : Ext t a b) (h2 : Ext t b c) : Ext t a c := by
  obtain ⟨⟨es1, hl1, ht1⟩, ⟨qs1, hq1, hr1⟩, m1⟩ := h1
  obtain ⟨⟨es2, hl2, ht2⟩, ⟨qs2, hq2, hr2⟩, m2⟩ := h2
  refine ⟨⟨es1 ++ es2, by simp [hl2, hl1], ?_⟩, ⟨qs1 ++ qs2, by simp [hq2, hq1], ?_⟩, Nat.le_trans m1 m2⟩
  · intro e he
    rcases List.mem_append.mp he with h | h
    · exact ht1 e h
    · exact ht2 e h
  · rw [List.map_append, hr1, hr2]
    have : c.nextTid - a.nextTid = (b.nextTid - a.nextTid) + (c.nextTid - b.nextTid) := by omega
    rw [this, ← List.range'_append_1]
    congr 2
    omega


/-- a computation respects a reflexive-transitive relation on configurations -/
def Resp (R : Cfg → Cfg → Prop) {α} (x : EM α) : Prop := ∀ c, R c (x c).1

section
variable {R : Cfg → Cfg → Prop} (hr : ∀ c, R c c) (ht : ∀ {a b c}, R a b → R b c → R a c)
include hr in
theorem Resp.pure {α} (a : α) : Resp R (pure a : EM α) := fun c => hr c
include hr in
theorem Resp.throw {α} (e : Exc) : Resp R (EM.throw e : EM α) := fun c => hr c
include ht in
theorem Resp.bind {α β} {x : EM α} {f : α → EM β} (hx : Resp R x) (hf : ∀ a, Resp R (f a)) :
    Resp R (x >>= f) := by
  intro c
  have h1 := hx c
  show R c ((match x c with | (c', .ok a) => f a c' | (c', .error e) => (c', .error e)) : Cfg × Except Exc β).1
  split
  · rename_i c' a heq; rw [heq] at h1; exact ht h1 (hf a c')
  · rename_i c' e heq; rw [heq] at h1; exact h1
end

theorem ebind {t : Nat} {α β} {x : EM α} {f : α → EM β} (hx : Resp (Ext t) x)
    (hf : ∀ a, Resp (Ext t) (f a)) : Resp (Ext t) (x >>= f) :=
  Resp.bind (R := Ext t) Ext.trans hx hf
theorem epure {t : Nat} {α} (a : α) : Resp (Ext t) (pure a : EM α) := Resp.pure (Ext.refl t) a

theorem runCb_ext (m : Machine) (t : Trigger) (ph : Phase) (c : CbId) :
    Resp (Ext t.tid) (runCb m t ph c) := by
  intro cfg
  unfold runCb
  refine ⟨⟨_, rfl, ?_⟩, ⟨_, rfl, ?_⟩, by simp⟩
  · intro e he; simp at he; rcases he with h | h <;> simp [h, Entry.tid]
  · simp
    apply List.ext_getElem <;> simp

theorem runGroup_ext (m : Machine) (t : Trigger) (ph : Phase) (cs : List CbId) :
    Resp (Ext t.tid) (runGroup m t ph cs) := by
  induction cs with
  | nil => exact epure _
  | cons c cs ih =>
    unfold runGroup
    exact ebind (runCb_ext _ _ _ _) fun _ => ebind ih fun _ => epure _

theorem runConds_ext (m : Machine) (t : Trigger) (cs : List (CbId × Bool)) :
    Resp (Ext t.tid) (runConds m t cs) := by
  induction cs with
  | nil => exact epure _
  | cons c cs ih =>
    obtain ⟨c, ex⟩ := c
    unfold runConds
    refine ebind (runCb_ext _ _ _ _) fun v => ?_
    split
    · exact ih
    · exact epure _

theorem setState_ext (t : Trigger) (v : Val) : Resp (Ext t.tid) (setState t v) := fun cfg =>
  ⟨⟨_, rfl, by simp [Entry.tid]⟩, ⟨[], by simp [setState, EM.modify]⟩, Nat.le_refl _⟩

theorem activate_ext (m : Machine) (t : Trigger) (tr : Transn) :
    Resp (Ext t.tid) (activate m t tr) := by
  unfold activate
  refine ebind (runGroup_ext _ _ _ _) fun _ => ?_
  refine ebind (runConds_ext _ _ _) fun ok => ?_
  split
  · exact epure _
  refine ebind (runGroup_ext _ _ _ _) fun _ => ?_
  refine ebind (runGroup_ext _ _ _ _) fun _ => ?_
  refine ebind (runGroup_ext _ _ _ _) fun _ => ?_
  refine ebind (setState_ext _ _) fun _ => ?_
  refine ebind (runGroup_ext _ _ _ _) fun _ => ?_
  refine ebind (runGroup_ext _ _ _ _) fun _ => ?_
  exact epure _

theorem tryCands_ext (m : Machine) (t : Trigger) (trs : List Transn) :
    Resp (Ext t.tid) (tryCands m t trs) := by
  induction trs with
  | nil => exact epure _
  | cons tr rest ih =>
    unfold tryCands
    split
    · refine ebind (activate_ext _ _ _) fun r => ?_
      split
      · exact ih
      · exact epure _
    · exact ih
end SM
