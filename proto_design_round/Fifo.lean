import Proto.Ext
namespace SM

def lookupState (m : Machine) (v : Val) : Option StateId := m.states.findIdx? (·.value == v)

def trigger (m : Machine) (t : Trigger) : EM (Option (List Val)) := do
  let cfg ← EM.get
  match cfg.cur.bind (lookupState m) with
  | none => EM.throw "InvalidStateValue"
  | some s =>
    match ← tryCands m t (m.out s) with
    | some r => pure (some r)
    | none => if m.allowNoTransition then pure none else EM.throw "TransitionNotAllowed"

theorem trigger_ext (m : Machine) (t : Trigger) : Resp (Ext t.tid) (trigger m t) := by
  unfold trigger
  refine ebind (fun c => Ext.refl _ _) fun cfg => ?_
  split
  · exact fun c => Ext.refl _ _
  · refine ebind (tryCands_ext _ _ _) fun r => ?_
    split
    · exact epure _
    · split
      · exact epure _
      · exact fun c => Ext.refl _ _

/-- one iteration of the `while self._external_queue:` loop -/
def drainStep (m : Machine) (cfg : Cfg) : Cfg :=
  match cfg.queue with
  | [] => cfg
  | t :: q =>
    match trigger m t { cfg with queue := q } with
    | (cfg', .ok _) => cfg'
    | (cfg', .error _) => { cfg' with queue := [] }

def Inv (c : Cfg) : Prop :=
  (c.log.map Entry.tid).Pairwise (· ≤ ·) ∧
  (c.queue.map Trigger.tid).Pairwise (· < ·) ∧
  (∀ e ∈ c.log, ∀ q ∈ c.queue, e.tid < q.tid) ∧
  (∀ q ∈ c.queue, q.tid < c.nextTid)

theorem inv_of_ext {h : Trigger} {q : List Trigger} {c c' : Cfg}
    (hq : c.queue = h :: q) (hinv : Inv c) (hext : Ext h.tid { c with queue := q } c') : Inv c' := by
  obtain ⟨hlog, hqueue, hlq, hqn⟩ := hinv
  obtain ⟨⟨es, hl, hes⟩, ⟨qs, hq', hqs⟩, hmono⟩ := hext
  simp only at hl hq' hqs hmono
  rw [hq] at hqueue hlq hqn
  simp only [List.map_cons, List.pairwise_cons, List.mem_map, forall_exists_index, and_imp,
    forall_apply_eq_imp_iff₂, List.mem_cons, forall_eq_or_imp] at hqueue hlq hqn
  have hqsmem : ∀ x ∈ qs, c.nextTid ≤ x.tid := by
    intro x hx
    have : x.tid ∈ qs.map (·.tid) := List.mem_map_of_mem hx
    rw [hqs] at this
    exact (List.mem_range'_1.mp this).1
  have hqsmem2 : ∀ x ∈ qs, x.tid < c'.nextTid := by
    intro x hx
    have : x.tid ∈ qs.map (·.tid) := List.mem_map_of_mem hx
    rw [hqs] at this
    have := (List.mem_range'_1.mp this).2
    omega
  refine ⟨?_, ?_, ?_, ?_⟩
  · rw [hl, List.map_append, List.pairwise_append]
    refine ⟨hlog, ?_, ?_⟩
    · rw [List.pairwise_map]
      exact List.pairwise_of_forall_mem_list (fun a ha b hb => by rw [hes a ha, hes b hb]; exact Nat.le_refl _)
    · intro a ha b hb
      simp only [List.mem_map] at ha hb
      obtain ⟨e, he, rfl⟩ := ha
      obtain ⟨e', he', rfl⟩ := hb
      rw [hes e' he']
      exact Nat.le_of_lt (hlq e he).1
  · rw [hq', List.map_append, List.pairwise_append]
    refine ⟨hqueue.2, ?_, ?_⟩
    · rw [hqs]; exact List.pairwise_lt_range'
    · intro a ha b hb
      simp only [List.mem_map] at ha hb
      obtain ⟨x, hx, rfl⟩ := ha
      obtain ⟨y, hy, rfl⟩ := hb
      have := hqn.2 x hx
      have := hqsmem y hy
      omega
  · intro e he x hx
    rw [hl] at he; rw [hq'] at hx
    rcases List.mem_append.mp he with he | he <;> rcases List.mem_append.mp hx with hx | hx
    · exact (hlq e he).2 x hx
    · have := (hlq e he).1; have := hqn.1; have := hqsmem x hx; omega
    · rw [hes e he]; exact hqueue.1 x hx
    · rw [hes e he]; have := hqn.1; have := hqsmem x hx; omega
  · intro x hx
    rw [hq'] at hx
    rcases List.mem_append.mp hx with hx | hx
    · have := hqn.2 x hx; omega
    · exact hqsmem2 x hx

theorem drainStep_inv (m : Machine) (c : Cfg) (h : Inv c) : Inv (drainStep m c) := by
  unfold drainStep
  split
  · exact h
  · rename_i t q hq
    have hext := trigger_ext m t { c with queue := q }
    have := inv_of_ext hq h hext
    split
    · rename_i cfg' _ heq; rw [heq] at this; exact this
    · rename_i cfg' _ heq; rw [heq] at this
      obtain ⟨a, _, _, _⟩ := this
      exact ⟨a, by simp, by simp, by simp⟩

/-- external send: enqueue with a fresh id -/
def enqueue (e : EventId) (c : Cfg) : Cfg :=
  { c with queue := c.queue ++ [{ tid := c.nextTid, event := e }], nextTid := c.nextTid + 1 }

def iter (f : Cfg → Cfg) : Nat → Cfg → Cfg
  | 0, c => c
  | n+1, c => iter f n (f c)

/-- Every event's callbacks form one contiguous block and blocks appear in send order:
the trigger ids along the log never decrease, after any number of loop iterations. -/
theorem C03_fifo_no_interleave (m : Machine) (c : Cfg) (h : Inv c) (n : Nat) :
    ((iter (drainStep m) n c).log.map Entry.tid).Pairwise (· ≤ ·) := by
  have : Inv (iter (drainStep m) n c) := by
    induction n generalizing c with
    | zero => exact h
    | succ n ih => exact ih _ (drainStep_inv m c h)
  exact this.1
end SM
