import SMV.Props.C01
import SMV.Model.Registry
/-!
# Line-protocol driver

Reads scenarios from stdin, runs the executable model, prints the model's observation.
One scenario = lines between `scn <kind> <name>` and `end`. All ids are numbers; values are opaque
tokens printed through the `tok` table (Python `repr` with blanks removed).
-/
open SMV

namespace Drv

def splitWs (s : String) : List String :=
  (s.splitOn " ").filter (· ≠ "")

def kvs (toks : List String) : List (String × String) :=
  toks.filterMap fun t =>
    match t.splitOn "=" with
    | k :: v :: rest => some (k, "=".intercalate (v :: rest))
    | _ => none

def look (kv : List (String × String)) (k : String) : String :=
  match kv.find? (·.1 == k) with
  | some (_, v) => v
  | none => "-"

def natOf (s : String) : Nat := s.toNat?.getD 0
def optNat (s : String) : Option Nat := if s == "-" then none else s.toNat?
def natList (s : String) : List Nat :=
  if s == "-" || s == "" then [] else (s.splitOn ",").filterMap String.toNat?
def boolOf (s : String) : Bool := s == "1"

/-- `7:1,8:0` -/
def condList (s : String) : List (CbId × Bool) :=
  if s == "-" || s == "" then [] else
  (s.splitOn ",").filterMap fun t =>
    match t.splitOn ":" with
    | [a, b] => some (natOf a, boolOf b)
    | _ => none

/-- `7,8@1` -/
def specList (s : String) : List CbSpec :=
  if s == "-" || s == "" then [] else
  (s.splitOn ",").filterMap fun t =>
    match t.splitOn "@" with
    | [a] => some { id := natOf a }
    | [a, b] => some { id := natOf a, only := some (natOf b) }
    | _ => none

structure ActRow where
  cb : Nat
  lo : Nat
  hi : Nat
  act : Act
deriving Inhabited

inductive Op
  | construct
  | send (e : EventId)
  | activate
  | reconstruct           -- a new machine over the same model (restart)
  | allowed               -- observe sm.allowed_events
  | events                -- observe sm.events
  | swap (k : Nat)        -- the callback lists change (a listener was attached): use machine variant k
  | write (v : Val)       -- somebody assigns the model field directly (`setattr(model, state_field, v)`)
  | fresh (start : Option Val)  -- another instance of the class over a fresh model, with this start_value
  | setAllow (b : Bool)   -- `sm.allow_event_without_transition = b`
deriving Repr

structure Scn where
  kind : String := ""
  name : String := ""
  states : Array StateDef := #[]
  variants : Array (Array StateDef) := #[]
  toks : List (Nat × Bool × String) := []     -- id, falsy, repr
  acts : Array ActRow := #[]
  opts : Opts := {}
  allow : Bool := false
  startValue : Option Val := none
  cur0 : Option Val := none
  actByState : Bool := false                  -- `act` rows are keyed by the state value the callback sees, not by trigger id
  fuel : Nat := 100000
  ops : Array Op := #[]
  raw : Array (List String) := #[]            -- lines for other kinds
  -- registry form: declared specs + providers; the callback lists are computed by `SMV.Reg.buildStates`
  provs : List Prov.Provider := []
  ctor : List Nat := []                       -- provider ids attached at construction, in order
  late : List (List Nat) := []                -- one entry per later `add_listener` call
  sdecls : Array Reg.StateDecl := #[]
  tdecls : Array Reg.TransDecl := #[]
deriving Inhabited

def Scn.behav (s : Scn) : CbId → Nat → Obs → Act := fun cb _ o =>
  let key := if s.actByState then o.state.getD 999 else o.tid
  match s.acts.find? (fun r => r.cb == cb && r.lo ≤ key && key ≤ r.hi) with
  | some r => r.act
  | none => { ret := 0 }

def Scn.truthy (s : Scn) : Val → Bool := fun v =>
  match s.toks.find? (·.1 == v) with
  | some (_, falsy, _) => !falsy
  | none => true

/-- Cantor pairing; list values (an event's list result handed back by an event used as a callback) are encoded
injectively as tokens `≥ 1000`: `1000 + enc vs`, `enc [] = 0`, `enc (v :: vs) = pair v (enc vs) + 1` -/
def pair (a b : Nat) : Nat := (a + b) * (a + b + 1) / 2 + b
def unpair (z : Nat) : Nat × Nat :=
  let w := (Nat.sqrt (8 * z + 1) - 1) / 2
  let t := w * (w + 1) / 2
  (w - (z - t), z - t)
def encList : List Nat → Nat
  | [] => 0
  | v :: vs => pair v (encList vs) + 1
partial def decList (n : Nat) : List Nat :=
  if n == 0 then [] else
    let (v, r) := unpair (n - 1)
    v :: decList r

/-- the token whose Python value is `None` -/
def Scn.noneTok (s : Scn) : Val :=
  match s.toks.find? (fun t => t.2.2 == "None") with
  | some (v, _, _) => v
  | none => 0

def Scn.resVal (s : Scn) : Res → Val
  | .none => s.noneTok
  | .one v => v
  | .many vs => 1000 + encList vs

def Scn.machine (s : Scn) : Machine :=
  { states := s.states.toList, behav := s.behav, truthy := s.truthy, allow := s.allow,
    startValue := s.startValue, resVal := s.resVal }

partial def Scn.reprV (s : Scn) (v : Val) : String :=
  match s.toks.find? (·.1 == v) with
  | some (_, _, r) => r
  | none =>
    if v ≥ 1000 then "[" ++ ",".intercalate ((decList (v - 1000)).map s.reprV) ++ "]"
    else s!"v{v}"

def groupOf (g : String) : Reg.Group :=
  match g with
  | "validators" => .validators | "cond" => .cond | "before" => .before | "on" => .on
  | "after" => .after | "enter" => .enter | _ => .exit

/-- spec tokens `group/n<id> or c<cb>/prio/only-or-dash/expected` separated by `;` (written without the closing sequence) -/
def specsOf (s : String) : List Reg.Spec :=
  if s == "-" || s == "" then [] else
  (s.splitOn ";").filterMap fun t =>
    match t.splitOn "/" with
    | [g, r, p, o, e] =>
      let ref : Reg.Ref := if r.startsWith "n" then .name (natOf (r.drop 1).toString) else .callable (natOf (r.drop 1).toString)
      some { group := groupOf g, ref := ref, prio := natOf p, only := optNat o, expected := boolOf e }
    | _ => none

/-- `7:12,8:13` = attribute name 7 is callback 12 … -/
def attrsOf (s : String) : List (Nat × Nat) :=
  if s == "-" || s == "" then [] else
  (s.splitOn ",").filterMap fun t =>
    match t.splitOn ":" with
    | [a, b] => some (natOf a, natOf b)
    | _ => none

def addLine (s : Scn) (toks : List String) : Scn :=
  match toks with
  | "prov" :: pid :: attrs :: _ => { s with provs := s.provs ++ [{ id := natOf pid, attrs := attrsOf attrs }] }
  | "ctor" :: ids :: _ => { s with ctor := natList ids }
  | "late" :: ids :: _ => { s with late := s.late ++ [natList ids] }
  | "sdecl" :: rest =>
    let kv := kvs rest
    let d : Reg.StateDecl :=
      { value := natOf (look kv "val"), initial := boolOf (look kv "init"), final := boolOf (look kv "final"),
        specs := specsOf (look kv "specs") }
    { s with sdecls := s.sdecls.push d }
  | "tdecl" :: rest =>
    let kv := kvs rest
    let d : Reg.TransDecl :=
      { source := natOf (look kv "src"), target := natOf (look kv "tgt"), events := natList (look kv "ev"),
        internal := boolOf (look kv "int"), specs := specsOf (look kv "specs") }
    { s with tdecls := s.tdecls.push d }
  | "opt" :: rest =>
    let kv := kvs rest
    { s with
      opts := { rtc := boolOf (look kv "rtc"), kind := if boolOf (look kv "async") then .async else .sync }
      allow := boolOf (look kv "allow")
      startValue := optNat (look kv "start")
      cur0 := optNat (look kv "cur")
      actByState := look kv "actkey" == "state"
      fuel := if look kv "fuel" == "-" then s.fuel else natOf (look kv "fuel") }
  | "tok" :: id :: falsy :: r :: _ => { s with toks := s.toks ++ [(natOf id, boolOf falsy, r)] }
  | "state" :: rest =>
    let kv := kvs rest
    let sd : StateDef :=
      { value := natOf (look kv "val"), initial := boolOf (look kv "init"), final := boolOf (look kv "final"),
        enter := natList (look kv "enter"), exit := natList (look kv "exit") }
    { s with states := s.states.push sd }
  | "trans" :: rest =>
    let kv := kvs rest
    let src := natOf (look kv "src")
    let tr : Transn :=
      { source := src, target := natOf (look kv "tgt"), events := natList (look kv "ev"),
        internal := boolOf (look kv "int"), validators := natList (look kv "val"),
        conds := condList (look kv "cond"), before := specList (look kv "before"),
        on := specList (look kv "on"), after := specList (look kv "after") }
    { s with states := s.states.modify src fun sd => { sd with trans := sd.trans ++ [tr] } }
  | "act" :: rest =>
    let kv := kvs rest
    let row : ActRow :=
      { cb := natOf (look kv "cb"), lo := natOf (look kv "lo"), hi := natOf (look kv "hi"),
        act := { ret := natOf (look kv "ret"), raises := optNat (look kv "raise"),
                 sends := natList (look kv "sends"), retSend := boolOf (look kv "retsend") } }
    { s with acts := s.acts.push row }
  | "variant" :: _ => { s with variants := s.variants.push s.states, states := #[] }
  | "op" :: "allowed" :: _ => { s with ops := s.ops.push .allowed }
  | "op" :: "events" :: _ => { s with ops := s.ops.push .events }
  | "op" :: "swap" :: k :: _ => { s with ops := s.ops.push (.swap (natOf k)) }
  | "op" :: "write" :: v :: _ => { s with ops := s.ops.push (.write (natOf v)) }
  | "op" :: "fresh" :: v :: _ => { s with ops := s.ops.push (.fresh (optNat v)) }
  | "op" :: "set_allow" :: v :: _ => { s with ops := s.ops.push (.setAllow (boolOf v)) }
  | "op" :: "construct" :: _ => { s with ops := s.ops.push .construct }
  | "op" :: "reconstruct" :: _ => { s with ops := s.ops.push .reconstruct }
  | "op" :: "activate" :: _ => { s with ops := s.ops.push .activate }
  | "op" :: "send" :: e :: _ => { s with ops := s.ops.push (.send (natOf e)) }
  | _ => { s with raw := s.raw.push toks }

def phaseName : Phase → String
  | .validators => "validators" | .cond => "cond" | .before => "before" | .exit => "exit"
  | .on => "on" | .enter => "enter" | .after => "after"

def optS (f : Nat → String) : Option Nat → String
  | none => "-"
  | some v => f v

def resS (s : Scn) : Res → String
  | .none => "None"
  | .one v => s.reprV v
  | .many vs => "[" ++ ",".intercalate (vs.map s.reprV) ++ "]"

def excS : Exc → String
  | .user t => s!"user:{t}"
  | .notAllowed e st => s!"notallowed:{e}:{st}"
  | .invalidState => "invalidstate"
  | .invalidDef => "invaliddef"
  | .fuel => "fuel"

/-- the `state` keyword a callback receives: source up to `on`, target from `enter` on -/
def stKw (s : Scn) (ph : Phase) (src : Option StateId) (tgt : StateId) : String :=
  let sv := fun (i : StateId) => s.reprV ((s.states.toList.getD i { value := 0 }).value)
  match ph with
  | .enter | .after => sv tgt
  | _ => match src with
    | some i => sv i
    | none => "-"

def entryS (s : Scn) : Entry → String
  | .cbBegin t ph cb seen ev src tgt =>
    s!"B {t} {phaseName ph} {cb} seen={optS s.reprV seen} st={stKw s ph src tgt} ev={ev} src={optS toString src} tgt={tgt}"
  | .sendRet t ph cb r => s!"S {t} {phaseName ph} {cb} {resS s r}"
  | .cbEnd t ph cb v => s!"E {t} {phaseName ph} {cb} {s.reprV v}"
  | .setState t v => s!"T {t} {s.reprV v}"

def sortNat (l : List Nat) : List Nat := (l.toArray.qsort (· < ·)).toList

/-- registry form: variant k = the machine after the first k late `add_listener` calls -/
def Scn.regVariants (s : Scn) : Array (Array StateDef) :=
  let pick := fun (ids : List Nat) => ids.filterMap fun i => s.provs.find? (·.id == i)
  ((List.range (s.late.length + 1)).map fun k =>
    (Reg.buildStates s.sdecls.toList s.tdecls.toList (pick s.ctor) ((s.late.take k).map pick)).toArray).toArray

def runEngine (s0 : Scn) : List String := Id.run do
  let allv := if s0.sdecls.isEmpty then s0.variants.push s0.states else s0.regVariants
  let s : Scn := { s0 with states := allv[0]! }
  let mut m := s.machine
  let mut cfg : Cfg := { cur := s.cur0 }
  let mut out : List String := []
  let mut i := 0
  let mut dead := false
  for op in s.ops do
    if dead then
      out := out ++ [s!"R {i} skipped"]
    else
      let before := cfg.log.length
      let before_tid := cfg.nextTid
      match op with
      | .allowed =>
        let line := match cfg.cur.bind (lookupState m) with
          | some st => "A " ++ toString i ++ " " ++ (if (allowedEvents m st).isEmpty then "-" else ",".intercalate ((allowedEvents m st).map toString))
          | none => "A " ++ toString i ++ " err invalidstate"
        out := out ++ [line]
        i := i + 1
        continue
      | .events =>
        out := out ++ ["V " ++ toString i ++ " " ++ ",".intercalate ((sortNat (allEvents m)).map toString)]
        i := i + 1
        continue
      | .write v =>
        cfg := { cfg with cur := some v }
        out := out ++ [s!"T 0 {s.reprV v}", s!"R {i} ok None cur={optS s.reprV cfg.cur} tid=-"]
        i := i + 1
        continue
      | .setAllow b =>
        m := { m with allow := b }
        out := out ++ [s!"R {i} ok None cur={optS s.reprV cfg.cur} tid=-"]
        i := i + 1
        continue
      | .fresh sv =>
        m := { m with startValue := sv }
        cfg := { cfg with cur := none, queue := [], locked := false }
      | .swap k =>
        m := { m with states := allv[k]!.toList }     -- (options set meanwhile, e.g. `allow`, stay)
        out := out ++ [s!"R {i} ok None cur={optS s.reprV cfg.cur} tid=-"]
        i := i + 1
        continue
      | _ => pure ()
      let pickP := fun (ids : List Nat) => ids.filterMap fun i => s.provs.find? (·.id == i)
      let constructible := s.sdecls.isEmpty || Reg.checkDecls s.sdecls.toList s.tdecls.toList (pickP s.ctor)
      let (cfg', r) : Cfg × Except Exc Res := match op with
        | .construct => if !constructible then (cfg, .error .invalidDef) else match construct m s.opts s.fuel cfg with
          | (c, .ok _) => (c, .ok .none)
          | (c, .error e) => (c, .error e)
        | .fresh _ =>
          if !constructible then (cfg, .error .invalidDef) else
          match construct m s.opts s.fuel cfg with
          | (c, .ok _) => (c, .ok .none)
          | (c, .error e) => (c, .error e)
        | .reconstruct =>
          if !constructible then (cfg, .error .invalidDef) else
          match construct m s.opts s.fuel { cfg with queue := [], locked := false } with
          | (c, .ok _) => (c, .ok .none)
          | (c, .error e) => (c, .error e)
        | .send e => send m s.opts s.fuel e cfg
        | .activate => activateOp m s.opts s.fuel cfg
        | _ => (cfg, .ok .none)
      cfg := cfg'
      out := out ++ (cfg.log.drop before).map (entryS s)
      let rs := match r with
        | .ok v => "ok " ++ resS s v
        | .error e => "err " ++ excS e
      let tidS := match op with
        | .send _ => toString before_tid
        | _ => "-"
      out := out ++ [s!"R {i} {rs} cur={optS s.reprV cfg.cur} tid={tidS}"]
      match op, r with
      | .construct, .error _ => dead := true
      | .reconstruct, .error _ => dead := true
      | .fresh _, .error _ => dead := true
      | _, _ => pure ()
    i := i + 1
  return out

/-- C01 Spec monitor on implementation observations: `mon i=<op> tid=<n> pre=<tok|-> ev=<e> out=<ok|err:exc> post=<tok|->` -/
def runC01Mon (s0 : Scn) : List String :=
  -- registry form: variant k = the machine after the first k late `add_listener` calls (`var=<k>` on the line)
  let allv := if s0.sdecls.isEmpty then s0.variants.push s0.states else s0.regVariants
  s0.raw.toList.filterMap fun toks =>
    match toks with
    | "mon" :: rest =>
      let kv := kvs rest
      let k := natOf (look kv "var")
      let s : Scn := { s0 with states := allv[min k (allv.size - 1)]! }
      let m := s.machine
      let tid := natOf (look kv "tid")
      let ev := natOf (look kv "ev")
      let pre := optNat (look kv "pre")
      let post := optNat (look kv "post")
      let outS := look kv "out"
      let act : CbId → Act := fun cb => s.behav cb 0 { tid := tid, state := none, event := ev }
      match pre.bind (lookupState m) with
      | none => some s!"mon {look kv "i"} skip no-state"
      | some st =>
        if (out m st).any (fun tr => tr.conds.any fun p => (act p.1).raises.isSome) then
          some s!"mon {look kv "i"} skip guard-raises"
        else
        let verdict : Bool × String := match choose m act ev (out m st) with
          | .abort x => (outS == s!"err:user:{x}" && post == pre, s!"abort user:{x} state-unchanged")
          | .notAllowed =>
            if s.allow then (outS.startsWith "ok" && post == pre, "ignored state-unchanged")
            else (outS == s!"err:notallowed:{ev}:{st}" && post == pre, s!"notallowed:{ev}:{st} state-unchanged")
          | .fire tr =>
            let tgt := some (stateVal m tr.target)
            -- an action callback may raise (C04): then the state is source or target
            ((outS.startsWith "ok" && post == tgt) ||
             (outS.startsWith "err:user" && (post == tgt || post == pre)), s!"fire target={tr.target}")
        some (if verdict.1 then s!"mon {look kv "i"} ok" else
          s!"mon {look kv "i"} FAIL expected {verdict.2} observed out={outS} post={look kv "post"}")
    | _ => none

def runScn (s : Scn) : List String :=
  match s.kind with
  | "engine" => runEngine s
  | "c01mon" => runC01Mon s
  | k => [s!"unknown-kind {k}"]

partial def loop (h : IO.FS.Stream) (cur : Option Scn) : IO Unit := do
  let line ← h.getLine
  if line.isEmpty then return ()
  let toks := splitWs (line.trimAscii.toString)
  match toks, cur with
  | "scn" :: kind :: name :: _, _ => loop h (some { kind := kind, name := name })
  | ["end"], some s =>
    IO.println s!"scn {s.name}"
    for l in runScn s do IO.println l
    IO.println "end"
    loop h none
  | [], c => loop h c
  | t, some s => loop h (some (addLine s t))
  | _, none => loop h none

end Drv

def main : IO Unit := do
  Drv.loop (← IO.getStdin) none
