import SMV.Model.Decl
/-!
# Line-protocol driver for the declaration model (C15)

```
scn decl <name>
class                      -- starts a class; each further `class` line is a subclass of the previous one
<statement>                -- one per line, prefix token notation, all names are numbers
end
```
statements:
`state <sdecl>` | `sdict <n> <sdecl>*` | `senum <n> (<name> <value>)* <initial> <list finals>` |
`assign <attr> <texpr>` | `bare <texpr>` | `eventof <attr> <texpr>` | `ph <attr>` |
`deco <fname> <cb> <texpr>`
sdecl  = `<name> <value|-> <initial> <final> <list enter> <list exit>`; list = `<n> x1 … xn`
texpr  = `to <s> <list> <kw>` | `from <t> <list> <kw>` | `toit <s> <kw>` | `fromit <s> <kw>` |
         `any <t> <kw>` | `or <texpr> <texpr>` | `ref <attr>`
kw     = `kw <n> <item>* <internal> <validators> <cond> <unless> <before> <on> <after>` (six lists)
item   = `s <list>` | `o <id>` | `p <var>`

Output: the elaborated class in canonical form (`err`, `state`, `t` lines per registered state in
store order, `events`, `allowed`).
-/
open SMV SMV.Decl

namespace DrvDecl

abbrev P := StateM (List String)

def tok : P String := do
  match (← get) with
  | [] => pure ""
  | t :: ts => set ts; pure t

def nat : P Nat := do pure ((← tok).toNat?.getD 0)
def optNat : P (Option Nat) := do pure (← tok).toNat?
def bool : P Bool := do pure ((← tok) == "1")

def rep {α} (p : P α) : Nat → P (List α)
  | 0 => pure []
  | n + 1 => do
    let a ← p
    let as ← rep p n
    pure (a :: as)

def list : P (List Nat) := do rep nat (← nat)

def item : P EvItem := do
  match (← tok) with
  | "s" => pure (.str (← list))
  | "o" => pure (.obj (← nat))
  | _ => pure (.ph (← nat))

def kw : P Kw := do
  let _ ← tok
  let items ← rep item (← nat)
  let internal ← bool
  let validators ← list
  let cond ← list
  let unless_ ← list
  let before ← list
  let on ← list
  let after ← list
  pure { event := items, internal, validators, cond, unless_, before, on, after }

partial def texpr : P TExpr := do
  match (← tok) with
  | "to" => do let s ← nat; let ts ← list; pure (.to s ts (← kw))
  | "from" => do let t ← nat; let ss ← list; pure (.from_ t ss (← kw))
  | "toit" => do let s ← nat; pure (.toItself s (← kw))
  | "fromit" => do let s ← nat; pure (.fromItself s (← kw))
  | "any" => do let t ← nat; pure (.fromAny t (← kw))
  | "or" => do let a ← texpr; let b ← texpr; pure (.or a b)
  | _ => do pure (.ref (← nat))

def sdecl : P SDecl := do
  let name ← nat
  let value ← optNat
  let initial ← bool
  let final ← bool
  let enter ← list
  let exit ← list
  pure { name, value, initial, final, enter, exit }

def member : P (Name × Val) := do
  let n ← nat
  let v ← nat
  pure (n, v)

def stmt : P (Option Stmt) := do
  match (← tok) with
  | "state" => do pure (some (.state (← sdecl)))
  | "sdict" => do pure (some (.statesDict (← rep sdecl (← nat))))
  | "senum" => do
    let ms ← rep member (← nat)
    let i ← nat
    pure (some (.statesEnum ms i (← list)))
  | "assign" => do let a ← nat; pure (some (.assign a (← texpr)))
  | "bare" => do pure (some (.bare (← texpr)))
  | "eventof" => do let a ← nat; pure (some (.eventOf a (← texpr)))
  | "ph" => do pure (some (.placeholder (← nat)))
  | "deco" => do let f ← nat; let cb ← nat; pure (some (.decorated (← texpr) f cb))
  | _ => pure none

def insertSorted (a : Nat) : List Nat → List Nat
  | [] => [a]
  | b :: l => if a ≤ b then a :: b :: l else b :: insertSorted a l

def sortN (l : List Nat) : List Nat := l.foldr insertSorted []

def showL (l : List Nat) : String :=
  if l.isEmpty then "-" else ",".intercalate ((sortN l).map toString)

def showC (l : List (CbId × Bool)) : String :=
  showL (l.map fun (c, b) => 2 * c + (if b then 1 else 0))

def b01 (b : Bool) : String := if b then "1" else "0"

def render (c : Cls) : List String :=
  if c.err then ["err 1"] else
  ["err 0"] ++
  c.states.map (fun s =>
    let v := match s.value with | some v => toString v | none => "-"
    s!"state {s.name} {v} {b01 s.initial} {b01 s.final} en={showL s.enter} ex={showL s.exit}") ++
  c.states.flatMap (fun s => (outOf c s.name).map fun t =>
    s!"t {s.name} {t.target} {b01 t.internal} ev={showL (finalEvents t)} v={showL t.validators} c={showC t.conds} b={showL t.before} o={showL t.on} a={showL t.after}") ++
  [s!"events {showL c.events}"] ++
  c.states.map (fun s => s!"allowed {s.name} {showL (allowed c s.name)}")

structure Scn where
  name : String
  classes : List (List Stmt) := []   -- reversed, statements reversed
deriving Inhabited

def addLine (s : Scn) (toks : List String) : Scn :=
  match toks with
  | ["class"] => { s with classes := [] :: s.classes }
  | _ =>
    match (stmt.run toks).1, s.classes with
    | some st, cur :: rest => { s with classes := (st :: cur) :: rest }
    | _, _ => s

def splitWs (s : String) : List String := (s.splitOn " ").filter (· ≠ "")

partial def loop (h : IO.FS.Stream) (cur : Option Scn) : IO Unit := do
  let line ← h.getLine
  if line.isEmpty then return ()
  let toks := splitWs (line.trimAscii.toString)
  match toks, cur with
  | "scn" :: _ :: name :: _, _ => loop h (some { name := name })
  | ["end"], some s =>
    IO.println s!"scn {s.name}"
    let prog := (s.classes.map List.reverse).reverse
    for l in render (elabProg prog) do IO.println l
    IO.println "end"
    loop h none
  | [], c => loop h c
  | t, some s => loop h (some (addLine s t))
  | _, none => loop h none

end DrvDecl

def main : IO Unit := do
  DrvDecl.loop (← IO.getStdin) none
