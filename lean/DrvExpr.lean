import SMV.Model.Expr
import SMV.Model.Lexer
/-!
# Line-protocol driver for the guard-expression model (C08), exe `drv_expr`

```
scn guard <name>
text <hex>                      -- a guard text: answer `prep …` (fast path / rewritten text), as-is and fixed
prov <name id> <slot,slot,…|->  -- providers of a name, in provider order
entry <c|u> X                   -- cond / unless entry whose text CPython cannot parse
entry <c|u> P <tree>            -- … parsed; tree in prefix form: n<id> | k<val> | ! e | & a b | | a b | c<k> e op e … op e
rho <slot>=<val> …              -- one event: the current values of the provider slots
end
```
values: `N` `T` `F` `i<int>` `f<twice>` `s<hex>` `l<len>` `o<id>:<0|1>`.

Output per scenario: `prep` lines, `construct ok|InvalidDefinition`, and per `rho` line
`send <enabled|notenabled|raised|dead> lib=<slot[*],…> py=<slot,…> spec=<…>` where `lib` are the reads of the
library model (`*` = re-read inside a chained comparison), `py`/`spec` the reads and verdict of the
specification side (`allPy` over the declared entries in the provider-conjunction environment,
reads expanded to provider slots — the right-hand side of theorem `C08_end_to_end`).
-/
open SMV.GExpr

namespace DrvE

def splitWs (s : String) : List String := (s.splitOn " ").filter (· ≠ "")

def hexVal (c : Char) : Nat :=
  if c.isDigit then c.toNat - '0'.toNat
  else if 'a' ≤ c ∧ c ≤ 'f' then c.toNat - 'a'.toNat + 10
  else 0

def unhex : List Char → List Char
  | a :: b :: rest => Char.ofNat (hexVal a * 16 + hexVal b) :: unhex rest
  | _ => []

def hexDigit (n : Nat) : Char :=
  if n < 10 then Char.ofNat ('0'.toNat + n) else Char.ofNat ('a'.toNat + n - 10)

def hex (cs : List Char) : String :=
  String.ofList (cs.flatMap fun c => [hexDigit (c.toNat / 16 % 16), hexDigit (c.toNat % 16)])

def intOf (s : String) : Int :=
  if s.startsWith "-" then - (Int.ofNat ((s.drop 1).toNat?.getD 0)) else Int.ofNat (s.toNat?.getD 0)

def valOf (t : String) : V :=
  let body := (t.drop 1).toString
  match t.front with
  | 'N' => .none
  | 'T' => .bool true
  | 'F' => .bool false
  | 'i' => .int (intOf body)
  | 'f' => .flt (intOf body)
  | 'n' => .nan
  | 's' => .str (String.ofList (unhex body.toList))
  | 'l' => .list (body.toNat?.getD 0)
  | 'o' => match body.splitOn ":" with
    | [a, b] => .obj (a.toNat?.getD 0) (b == "1")
    | _ => .none
  | _ => .none

def cmpOf : String → Cmp
  | "eq" => .eq | "ne" => .ne | "lt" => .lt | "le" => .le | "gt" => .gt | _ => .ge

mutual
partial def parseE : List String → Option (E × List String)
  | [] => none
  | t :: rest =>
    match t.front with
    | 'n' => some (.name ((t.drop 1).toString.toNat?.getD 0), rest)
    | 'k' => some (.const (valOf (t.drop 1).toString), rest)
    | '!' => (parseE rest).map fun (e, r) => (.not e, r)
    | '&' => do
      let (a, r1) ← parseE rest
      let (b, r2) ← parseE r1
      pure (.and a b, r2)
    | '|' => do
      let (a, r1) ← parseE rest
      let (b, r2) ← parseE r1
      pure (.or a b, r2)
    | 'c' => do
      let k := (t.drop 1).toString.toNat?.getD 1
      let (f, r1) ← parseE rest
      let (c, r2) ← parseChain k r1
      pure (.cmp f c, r2)
    | _ => none
partial def parseChain (k : Nat) : List String → Option (Chain × List String)
  | op :: rest => do
    let (e, r1) ← parseE rest
    if k ≤ 1 then pure (.last (cmpOf op) e, r1)
    else
      let (c, r2) ← parseChain (k - 1) r1
      pure (.more (cmpOf op) e c, r2)
  | [] => none
end

structure Scn where
  name : String := ""
  provs : List (Nat × List Nat) := []
  entries : List (Src × Bool) := []      -- reversed while reading
  byName : List Bool := []               -- parallel to `entries`: given by name (text) / by object reference
  lprovs : List (Nat × Nat × List Nat) := []   -- (late pass, name, slots)
  npasses : Nat := 0
  out : Array String := #[]
  constructed : Option Verdict := none
deriving Inhabited

def Scn.prov (s : Scn) : Nat → List Nat := fun n =>
  match s.provs.find? (·.1 == n) with
  | some (_, l) => l
  | none => []

def Scn.lprov (s : Scn) (k : Nat) : Nat → List Nat := fun n =>
  match s.lprovs.find? (fun x => x.1 == k && x.2.1 == n) with
  | some (_, _, l) => l
  | none => []

def Scn.entries3 (s : Scn) : List (Src × Bool × Bool) :=
  (s.entries.reverse.zip s.byName.reverse).map fun (en, b) => (en.1, en.2, b)

def natList (s : String) : List Nat :=
  if s == "-" || s == "" then [] else (s.splitOn ",").filterMap String.toNat?

def prepS : Prep → String
  | .syntaxError => "syntaxError"
  | .name s => "name " ++ hex s
  | .parse s => "parse " ++ hex s

def readsLib (l : List (Nat × Bool)) : String :=
  ",".intercalate (l.map fun (n, re) => toString n ++ (if re then "*" else ""))

def readsPy (l : List Nat) : String := ",".intercalate (l.map toString)

def verdictS : Option Bool → String
  | some true => "enabled"
  | some false => "notenabled"
  | none => "raised"

def Scn.ensureConstructed (s : Scn) : Scn :=
  match s.constructed with
  | some _ => s
  | none =>
    let v := constructPasses s.prov ((List.range s.npasses).map s.lprov) s.entries3
    let line := match v with
      | .ok _ => "construct ok"
      | .invalidDefinition => "construct InvalidDefinition"
    { s with constructed := some v, out := s.out.push line }

def envOfLine (toks : List String) : Env :=
  let tbl : List (Nat × V) := toks.filterMap fun t =>
    match t.splitOn "=" with
    | [a, b] => some (a.toNat?.getD 0, valOf b)
    | _ => none
  fun n => match tbl.find? (·.1 == n) with
    | some (_, v) => v
    | none => .none

def Scn.step (s : Scn) (toks : List String) : Scn :=
  match toks with
  | "text" :: rest =>
    let cs := unhex ((rest.headD "").toList)
    { s with out := s.out.push ("prep " ++ prepS (prepare true cs) ++ " asis " ++ prepS (prepare false cs)) }
  | ["prov", n, l] => { s with provs := (n.toNat?.getD 0, natList l) :: s.provs }
  | ["lprov", k, n, l] =>
    let k := k.toNat?.getD 0
    { s with lprovs := (k, n.toNat?.getD 0, natList l) :: s.lprovs, npasses := max s.npasses (k + 1) }
  | "entry" :: g :: "X" :: _ => { s with entries := (.unparsable, g == "c") :: s.entries, byName := true :: s.byName }
  | "entry" :: g :: "P" :: tree =>
    match parseE tree with
    | some (e, _) => { s with entries := (.parsed e, g == "c") :: s.entries, byName := true :: s.byName }
    | none => { s with out := s.out.push "error bad-tree" }
  | "entry" :: g :: "O" :: tree =>      -- given as an object (function, property): not resolved again by `add_listener`
    match parseE tree with
    | some (e, _) => { s with entries := (.parsed e, g == "c") :: s.entries, byName := false :: s.byName }
    | none => { s with out := s.out.push "error bad-tree" }
  | "rho" :: rest =>
    let s := s.ensureConstructed
    match s.constructed with
    | some (.ok gs) =>
      let ρ := envOfLine rest
      let r := allLib pySem ρ gs
      let src := sourceGuards s.entries.reverse
      let ρ' := envOf s.prov ρ
      let p0 := allPy pySem ρ' src
      -- specification with late attachment passes: the entries given by name whose names a pass provides must hold
      -- in that pass's environment too, pass after pass (evaluation stops at the first guard that does not hold)
      -- (an entry whose key — the expression resolved over the pass's providers, and the expected value — was seen
      -- before is not registered again: `addNew`)
      let seen0 : List Guard := s.entries3.filterMap fun en =>
        match en.1 with
        | .parsed e => some ⟨subst s.prov e, en.2.1⟩
        | _ => none
      let p3 : Option Bool × List Nat × List Guard :=
        (List.range s.npasses).foldl (fun (acc : Option Bool × List Nat × List Guard) k =>
            let pv := s.lprov k
            let cand : List (Guard × Guard) := s.entries3.filterMap fun en =>
              match en.1, en.2.2 with
              | .parsed e, true => if (unknowns pv e).isEmpty then some (⟨e, en.2.1⟩, ⟨subst pv e, en.2.1⟩) else none
              | _, _ => none
            let fresh := cand.foldl (fun (a : List (Guard × Guard) × List Guard) c =>
              if a.2.contains c.2 then a else (a.1 ++ [c], a.2 ++ [c.2])) (([] : List (Guard × Guard)), acc.2.2)
            if acc.1 != some true then (acc.1, acc.2.1, fresh.2) else
              let pk := allPy pySem (envOf pv ρ) (fresh.1.map (·.1))
              (pk.val, acc.2.1 ++ pk.reads.flatMap fun n => provReads ρ (pv n), fresh.2))
          (p0.val, p0.reads.flatMap fun n => provReads ρ (s.prov n), seen0)
      let p : Option Bool × List Nat := (p3.1, p3.2.1)
      let line := s!"send {verdictS r.val} lib={readsLib r.reads} py={readsPy p.2} spec={verdictS p.1}"
      { s with out := s.out.push line }
    | _ => { s with out := s.out.push "send dead" }
  | _ => s

partial def loop (h : IO.FS.Stream) (out : IO.FS.Stream) (cur : Option Scn) : IO Unit := do
  let line ← h.getLine
  if line.isEmpty then return
  let toks := splitWs (line.trimAsciiEnd).toString
  match toks, cur with
  | "scn" :: _ :: name :: _, _ => loop h out (some { name := name })
  | ["end"], some s =>
    let s := s.ensureConstructed
    out.putStrLn ("scn " ++ s.name)
    for l in s.out do out.putStrLn l
    out.putStrLn "end"
    loop h out none
  | _, some s => loop h out (some (s.step toks))
  | _, none => loop h out none

end DrvE

def main : IO Unit := do
  let stdin ← IO.getStdin
  let stdout ← IO.getStdout
  DrvE.loop stdin stdout none
