-- Root of the `SMV` library: models, lemmas, specs and property theorems.
import SMV.Model.Core
import SMV.Model.Engine
