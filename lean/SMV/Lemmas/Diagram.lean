import SMV.Model.Diagram
/-!
# Lemmas about the diagram model (used by `SMV.Props.C18`)

Closed forms of the node list and the edge list of `stateItems` (structural induction over the
state list and over each state's transition list), the success conditions of `getGraph`, and facts
about `lookupValue`.
-/

namespace SMV.Diagram

/-! ## Closed forms of the two loops -/

theorem nodes_cons_node (n : Node) (l : List Item) :
    (Item.node n :: l).filterMap Item.node? = n :: l.filterMap Item.node? := by
  rfl

theorem nodes_cons_edge (e : Edge) (l : List Item) :
    (Item.edge e :: l).filterMap Item.node? = l.filterMap Item.node? := by
  rfl

theorem edges_cons_node (n : Node) (l : List Item) :
    (Item.node n :: l).filterMap Item.edge? = l.filterMap Item.edge? := by
  rfl

theorem edges_cons_edge (e : Edge) (l : List Item) :
    (Item.edge e :: l).filterMap Item.edge? = e :: l.filterMap Item.edge? := by
  rfl

theorem transItems_nodes (s : StateDef) (ts : List TransDef) :
    (transItems s ts).filterMap Item.node? = [] := by
  induction ts with
  | nil => rfl
  | cons t ts ih =>
    unfold transItems
    split
    · exact ih
    · rw [nodes_cons_edge]; exact ih

theorem transItems_edges (s : StateDef) (ts : List TransDef) :
    (transItems s ts).filterMap Item.edge? = (ts.filter (fun t => !t.internal)).map (transEdge s) := by
  induction ts with
  | nil => rfl
  | cons t ts ih =>
    unfold transItems
    split
    · rename_i h; simp [h, ih]
    · rename_i h; rw [edges_cons_edge, ih]; simp [h]

theorem stateItems_nodes (cur : Option StateDef) (ss : List StateDef) :
    (stateItems cur ss).filterMap Item.node? = ss.map (stateNode cur) := by
  induction ss with
  | nil => rfl
  | cons s ss ih =>
    rw [stateItems, nodes_cons_node, List.filterMap_append, transItems_nodes, ih]
    rfl

/-- the edges one state contributes: one per transition that is not internal, in order -/
def stateEdges (s : StateDef) : List Edge :=
  (s.trans.filter (fun t => !t.internal)).map (transEdge s)

theorem stateItems_edges (cur : Option StateDef) (ss : List StateDef) :
    (stateItems cur ss).filterMap Item.edge? = ss.flatMap stateEdges := by
  induction ss with
  | nil => rfl
  | cons s ss ih =>
    rw [stateItems, edges_cons_node, List.filterMap_append, transItems_edges, ih,
      List.flatMap_cons]
    rfl

theorem build_nodes (m : Machine) (ini : StateDef) (cur : Option StateDef) :
    (build m ini cur).nodes = initNode :: m.states.map (stateNode cur) := by
  rw [Graph.nodes, build, nodes_cons_node, nodes_cons_edge, stateItems_nodes]

theorem build_edges (m : Machine) (ini : StateDef) (cur : Option StateDef) :
    (build m ini cur).edges = initEdge ini :: m.states.flatMap stateEdges := by
  rw [Graph.edges, build, edges_cons_node, edges_cons_edge, stateItems_edges]

/-! ## When `getGraph` succeeds, and with what -/

/-- the current state `getGraph` uses for a subject -/
def currentOf (m : Machine) : Subject → Option StateDef
  | .cls => none
  | .inst v => lookupValue m.states v
  | .unset => none

theorem getGraph_ok {m : Machine} {sub : Subject} {g : Graph} (h : getGraph m sub = .ok g) :
    ∃ ini, initialState m = some ini ∧ g = build m ini (currentOf m sub) ∧
      (∀ v, sub = .inst v → ∃ c, lookupValue m.states v = some c) := by
  unfold getGraph at h
  split at h
  · cases h
  · rename_i ini hini
    refine ⟨ini, hini, ?_⟩
    cases sub with
    | cls =>
      simp only [Except.ok.injEq] at h
      exact ⟨by simp [currentOf, ← h], by intro v hv; cases hv⟩
    | inst v =>
      simp only at h
      split at h
      · cases h
      · rename_i c hc
        simp only [Except.ok.injEq] at h
        refine ⟨by simp [currentOf, hc, ← h], ?_⟩
        intro v' hv'
        cases hv'
        exact ⟨c, hc⟩
    | unset =>
      simp only [Except.ok.injEq] at h
      exact ⟨by simp [currentOf, ← h], by intro v hv; cases hv⟩

theorem lookupValue_some {ss : List StateDef} {v : String} {c : StateDef}
    (h : lookupValue ss v = some c) : c ∈ ss ∧ c.value = v := by
  induction ss with
  | nil => simp [lookupValue] at h
  | cons s ss ih =>
    unfold lookupValue at h
    split at h
    · rename_i r hr
      cases h
      exact ⟨List.mem_cons_of_mem _ (ih hr).1, (ih hr).2⟩
    · split at h
      · cases h
        exact ⟨List.mem_cons_self, by assumption⟩
      · cases h

theorem lookupValue_none {ss : List StateDef} {v : String}
    (h : lookupValue ss v = none) : ∀ s ∈ ss, s.value ≠ v := by
  induction ss with
  | nil => simp
  | cons s ss ih =>
    unfold lookupValue at h
    split at h
    · cases h
    · rename_i hr
      split at h
      · cases h
      · intro x hx
        cases hx with
        | head => assumption
        | tail _ hx => exact ih hr x hx

theorem lookupValue_isSome_of_mem {ss : List StateDef} {v : String} {s : StateDef}
    (hs : s ∈ ss) (hv : s.value = v) : ∃ c, lookupValue ss v = some c := by
  cases h : lookupValue ss v with
  | some c => exact ⟨c, rfl⟩
  | none => exact absurd hv (lookupValue_none h s hs)

theorem initialState_some {m : Machine} {ini : StateDef} (h : initialState m = some ini) :
    ini ∈ m.states ∧ ini.initial = true := by
  unfold initialState at h
  exact ⟨List.mem_of_find?_eq_some h, by simpa using List.find?_some h⟩

theorem initialState_isSome_of_mem {m : Machine} {s : StateDef} (hs : s ∈ m.states)
    (hi : s.initial = true) : ∃ ini, initialState m = some ini := by
  unfold initialState
  cases h : m.states.find? (·.initial) with
  | some c => exact ⟨c, rfl⟩
  | none =>
    have := List.find?_eq_none.mp h s hs
    simp [hi] at this

/-! ## Distinct keys -/

/-- when the keys `f s` of the states are pairwise distinct, a state is determined by its key -/
theorem eq_of_key_eq (f : StateDef → String) {ss : List StateDef} (hd : (ss.map f).Nodup)
    {a b : StateDef} (ha : a ∈ ss) (hb : b ∈ ss) (h : f a = f b) : a = b := by
  induction ss with
  | nil => cases ha
  | cons s ss ih =>
    simp only [List.map_cons, List.nodup_cons, List.mem_map, not_exists, not_and] at hd
    cases ha with
    | head =>
      cases hb with
      | head => rfl
      | tail _ hb => exact absurd h.symm (hd.1 b hb)
    | tail _ ha =>
      cases hb with
      | head => exact absurd h (hd.1 a ha)
      | tail _ hb => exact ih hd.2 ha hb

/-- when state ids are pairwise distinct, a state is determined by its id -/
theorem eq_of_id_eq {ss : List StateDef} (hd : (ss.map (·.id)).Nodup) {a b : StateDef}
    (ha : a ∈ ss) (hb : b ∈ ss) (h : a.id = b.id) : a = b :=
  eq_of_key_eq (·.id) hd ha hb h

end SMV.Diagram
