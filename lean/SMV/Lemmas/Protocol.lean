import SMV.Model.Protocol
/-!
# Invariants of the drain-election protocol (`SMV.Model.Protocol`)

Every invariant is proved by induction on `Reach`, i.e. for every reachable state under every
interleaving of any number of senders; each step case closes with one `grind` call.
-/
namespace SMV.Protocol

/-! ## `step?` is exactly `Step` -/

theorem step?_sound {fixed atomic : Bool} {s s' : S} {l : Label}
    (h : step? fixed atomic s l = some s') : Step fixed atomic s s' := by
  cases l <;> simp only [step?] at h <;> split at h <;> simp at h <;> subst h
  · exact .put _ _ _ (by assumption)
  · exact .acqOk _ _ (by assumption) (by assumption)
  · exact .acqFail _ _ (by assumption) (by assumption)
  · exact .pop _ _ _ _ (by assumption) (by assumption)
  · exact .nested _ _ _ _ (by assumption)
  · exact .done _ _ _ (by assumption)
  · exact .empty _ _ (by assumption) (by assumption) rfl
  · exact .emptyRelease _ _ (by assumption) (by assumption) rfl
  · exact .release _ _ (by assumption)
  · exact .recheckEmpty _ _ (by assumption) (by assumption)
  · exact .recheckMore _ _ (by assumption) (by simp_all)

theorem step?_complete {fixed atomic : Bool} {s s' : S} (h : Step fixed atomic s s') :
    ∃ l, step? fixed atomic s l = some s' := by
  cases h with
  | put i id h => exact ⟨.put i id, by simp [step?, h]⟩
  | acqOk i h hl => exact ⟨.acqOk i, by simp [step?, h, hl]⟩
  | acqFail i h hl => exact ⟨.acqFail i, by simp [step?, h, hl]⟩
  | pop i e q h hq => exact ⟨.pop i, by simp [step?, h, hq]⟩
  | nested i e id h => exact ⟨.nested i id, by simp [step?, h]⟩
  | done i e h => exact ⟨.done i, by simp [step?, h]⟩
  | empty i h hq ha => exact ⟨.empty i, by simp [step?, h, hq, ha]⟩
  | emptyRelease i h hq ha => exact ⟨.emptyRelease i, by simp [step?, h, hq, ha]⟩
  | release i h => exact ⟨.release i, by simp [step?, h]⟩
  | recheckEmpty i h hq => exact ⟨.recheckEmpty i, by simp [step?, h, hq]⟩
  | recheckMore i h hq =>
    refine ⟨.recheckMore i, ?_⟩
    cases hq' : s.queue with
    | nil => exact absurd hq' hq
    | cons a q => simp [step?, h, hq']

theorem reach_run {fixed atomic : Bool} {s : S} (hs : Reach fixed atomic s) :
    ∀ {ls : List Label} {s' : S}, run? fixed atomic s ls = some s' → Reach fixed atomic s' := by
  intro ls
  induction ls generalizing s with
  | nil => intro s' h; simp [run?] at h; subst h; exact hs
  | cons l ls ih =>
    intro s' h
    simp only [run?] at h
    split at h
    · rename_i s1 h1
      exact ih (.step hs (step?_sound h1)) h
    · simp at h

/-! ## Mutual exclusion -/

/-- at most one sender is in the critical section, and the lock is held iff somebody is -/
def Mutex (s : S) : Prop :=
  (∀ i j, inCS (s.pc i) → inCS (s.pc j) → i = j) ∧ (s.lock = true ↔ ∃ i, inCS (s.pc i))

theorem mutex_inv {fixed atomic} {s : S} (h : Reach fixed atomic s) : Mutex s := by
  induction h with
  | init => exact ⟨fun i j hi => by simp [init, inCS] at hi, by simp [init, inCS]⟩
  | step hr hs ih =>
    obtain ⟨hme, hlk⟩ := ih
    cases hs <;> constructor <;> simp only [set] <;> grind [inCS]

/-! ## Exactly once, FIFO -/

def isProcessing : Pc → Option Ev
  | .processing e => some e
  | _ => none

theorem proc_inCS (p : Pc) : isProcessing p ≠ none → inCS p := by
  cases p <;> simp [inCS, isProcessing]
theorem proc_eq (p : Pc) (e : Ev) : p = .processing e → isProcessing p = some e := by
  intro h; subst h; rfl

/-- `cur` is the event of the (unique) sender that is `processing`; and
`processed ++ in-flight ++ queue = history` -/
def Fifo (s : S) : Prop :=
  (∀ i e, s.pc i = .processing e → s.cur = some e) ∧
  ((∀ i, isProcessing (s.pc i) = none) → s.cur = none) ∧
  s.processed ++ s.cur.toList ++ s.queue = s.history

theorem fifo_inv {fixed atomic} {s : S} (h : Reach fixed atomic s) : Fifo s := by
  induction h with
  | init => simp [Fifo, init]
  | step hr hs ih =>
    have hm := mutex_inv hr
    obtain ⟨hme, hlk⟩ := hm
    obtain ⟨h1, h2, h3⟩ := ih
    cases hs <;> refine ⟨?_, ?_, ?_⟩ <;> simp only [set] <;>
      grind [inCS, isProcessing, proc_inCS, proc_eq, Option.toList]

/-! ## The begin/end log is serial -/

def block (e : Ev) : List Mark := [.beg e, .fin e]

def openBlock : Option Ev → List Mark
  | some e => [.beg e]
  | none => []

/-- the log of begin/end marks is the concatenation of the complete blocks of the processed events,
in processing order, followed by the begin mark of the event in flight (if any) -/
def Serial (s : S) : Prop := s.log = s.processed.flatMap block ++ openBlock s.cur

set_option linter.unusedSimpArgs false in
theorem serial_inv {fixed atomic} {s : S} (h : Reach fixed atomic s) : Serial s := by
  induction h with
  | init => simp [Serial, init, openBlock]
  | step hr hs ih =>
    have hm := mutex_inv hr
    obtain ⟨hme, hlk⟩ := hm
    obtain ⟨h1, h2, h3⟩ := fifo_inv hr
    unfold Serial at *
    cases hs <;> simp only [set] <;>
      grind [inCS, isProcessing, proc_inCS, proc_eq, openBlock, block]

/-! ## Nothing stranded -/

/-- the sender will look at the queue again before it returns -/
def willLook : Pc → Prop
  | .putDone | .check | .processing _ | .exiting | .recheck => True
  | .idle => False

/-- a non-empty queue always has somebody who will look at it again -/
def Live (s : S) : Prop := s.queue ≠ [] → ∃ i, willLook (s.pc i)

theorem inCS_willLook (p : Pc) : inCS p → willLook p := by cases p <;> simp [inCS, willLook]

/-- with an atomic test-and-release nobody is ever observed between the test and the release -/
theorem noexit_inv {fixed} {s : S} (h : Reach fixed true s) : ∀ i, s.pc i ≠ .exiting := by
  induction h with
  | init => intro i; simp [init]
  | step hr hs ih => cases hs <;> simp only [set] <;> grind

/-- without the re-check nobody is ever at `recheck` -/
theorem norecheck_inv {atomic} {s : S} (h : Reach false atomic s) : ∀ i, s.pc i ≠ .recheck := by
  induction h with
  | init => intro i; simp [init]
  | step hr hs ih => cases hs <;> simp only [set] <;> grind

/-- a sender that saw the queue empty and has not released yet is the only reason the queue can be
non-empty with nobody else about to look; with the re-check (or atomicity) that sender looks again -/
theorem live_inv {fixed atomic} {s : S} (hfa : fixed = true ∨ atomic = true)
    (h : Reach fixed atomic s) : Live s := by
  induction h with
  | init => simp [Live, init]
  | @step s_pre s_post hr hs ih =>
    have hm := mutex_inv hr
    obtain ⟨hme, hlk⟩ := hm
    have hne : atomic = true → ∀ i, s_pre.pc i ≠ .exiting := by
      intro ha; subst ha; exact noexit_inv hr
    unfold Live at *
    cases hs <;> simp only [set] <;> grind [inCS, willLook, inCS_willLook]

end SMV.Protocol
