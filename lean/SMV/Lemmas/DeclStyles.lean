import SMV.Model.Decl
/-!
# Style rewrites that are *equalities* of elaboration, and their congruence

Two transition expressions are interchangeable (`TExpr.Eqv`) when they do the same to every class
under construction and return the same list; two statement sequences are interchangeable
(`Stmts.Eqv`) when they do the same to every class under construction. Both relations are
congruences for every context (`|` on either side, any statement kind, any surrounding statements,
any position in a chain of classes), so a rewrite proved here may be applied anywhere in a program.
-/
namespace SMV.Decl

def TExpr.Eqv (a b : TExpr) : Prop := ∀ c, evalT c a = evalT c b

def Stmts.Eqv (s s' : List Stmt) : Prop := ∀ c, elabBody c s = elabBody c s'

theorem TExpr.Eqv.refl (a : TExpr) : TExpr.Eqv a a := fun _ => rfl
theorem TExpr.Eqv.symm {a b : TExpr} (h : TExpr.Eqv a b) : TExpr.Eqv b a := fun c => (h c).symm
theorem TExpr.Eqv.trans {a b c : TExpr} (h1 : TExpr.Eqv a b) (h2 : TExpr.Eqv b c) : TExpr.Eqv a c :=
  fun x => (h1 x).trans (h2 x)

theorem TExpr.Eqv.or {a a' b b' : TExpr} (ha : TExpr.Eqv a a') (hb : TExpr.Eqv b b') :
    TExpr.Eqv (.or a b) (.or a' b') := by
  intro c
  simp only [evalT, ha c, hb (evalT c a').1]

/-- a transition expression with a hole: the hole is anywhere under `|` -/
inductive TCtx
  | hole
  | orL (c : TCtx) (b : TExpr)
  | orR (a : TExpr) (c : TCtx)

def TCtx.fill : TCtx → TExpr → TExpr
  | .hole, e => e
  | .orL c b, e => .or (c.fill e) b
  | .orR a c, e => .or a (c.fill e)

theorem TCtx.congr (C : TCtx) {e e' : TExpr} (h : TExpr.Eqv e e') : TExpr.Eqv (C.fill e) (C.fill e') := by
  induction C with
  | hole => exact h
  | orL c b ih => exact ih.or (TExpr.Eqv.refl b)
  | orR a c ih => exact (TExpr.Eqv.refl a).or ih

/-- a statement with a hole for a transition expression -/
inductive SCtx
  | assign (attr : Name) (C : TCtx)
  | bare (C : TCtx)
  | eventOf (attr : Name) (C : TCtx)
  | decorated (C : TCtx) (fname : Name) (cb : CbId)

def SCtx.fill : SCtx → TExpr → Stmt
  | .assign a C, e => .assign a (C.fill e)
  | .bare C, e => .bare (C.fill e)
  | .eventOf a C, e => .eventOf a (C.fill e)
  | .decorated C f cb, e => .decorated (C.fill e) f cb

theorem SCtx.congr (S : SCtx) {e e' : TExpr} (h : TExpr.Eqv e e') : Stmts.Eqv [S.fill e] [S.fill e'] := by
  intro c
  cases S <;> simp only [SCtx.fill, elabBody, List.foldl, elabStmt, TCtx.congr _ h c]

theorem Stmts.Eqv.refl (s : List Stmt) : Stmts.Eqv s s := fun _ => rfl
theorem Stmts.Eqv.symm {a b : List Stmt} (h : Stmts.Eqv a b) : Stmts.Eqv b a := fun c => (h c).symm
theorem Stmts.Eqv.trans {a b c : List Stmt} (h1 : Stmts.Eqv a b) (h2 : Stmts.Eqv b c) : Stmts.Eqv a c :=
  fun x => (h1 x).trans (h2 x)

theorem elabBody_append (c : Cls) (p q : List Stmt) : elabBody c (p ++ q) = elabBody (elabBody c p) q := by
  simp [elabBody, List.foldl_append]

/-- interchangeable statements may be exchanged between any surrounding statements -/
theorem Stmts.Eqv.context {s s' : List Stmt} (h : Stmts.Eqv s s') (p q : List Stmt) :
    Stmts.Eqv (p ++ s ++ q) (p ++ s' ++ q) := by
  intro c
  simp only [elabBody_append]
  rw [h (elabBody c p)]

theorem elabClass_congr {p p' : List Stmt} (h : Stmts.Eqv p p') (base : Cls) :
    elabClass base p = elabClass base p' := by
  simp only [elabClass, h (startClass base)]

/-- … in any class of an inheritance chain -/
theorem elabProg_congr {p p' : List Stmt} (h : Stmts.Eqv p p') (pre post : List (List Stmt)) :
    elabProg (pre ++ [p] ++ post) = elabProg (pre ++ [p'] ++ post) := by
  simp only [elabProg, List.foldl_append, List.foldl_cons, List.foldl_nil, elabClass_congr h]

/-! ## (a) `a.to(b, kw)` ↔ `b.from_(a, kw)` -/

theorem to_eq_from (a b : Name) (kw : Kw) : TExpr.Eqv (.to a [b] kw) (.from_ b [a] kw) := fun _ => rfl

/-! ## (b) multi-target / multi-source calls ↔ `|` of single calls -/

theorem push_append (c : Cls) (l₁ l₂ : List TDef) :
    push c (l₁ ++ l₂) = ((push (push c l₁).1 l₂).1, (push c l₁).2 ++ (push (push c l₁).1 l₂).2) := by
  simp only [push, List.append_assoc, List.any_append, Bool.or_assoc, List.length_append,
    List.range'_append_1]

theorem to_split (s : Name) (ts₁ ts₂ : List Name) (kw : Kw) :
    TExpr.Eqv (.to s (ts₁ ++ ts₂) kw) (.or (.to s ts₁ kw) (.to s ts₂ kw)) := by
  intro c
  simp only [evalT, List.map_append, push_append]

theorem from_split (t : Name) (ss₁ ss₂ : List Name) (kw : Kw) :
    TExpr.Eqv (.from_ t (ss₁ ++ ss₂) kw) (.or (.from_ t ss₁ kw) (.from_ t ss₂ kw)) := by
  intro c
  simp only [evalT, List.map_append, push_append]

/-- `a.to(b, c, kw)` ↔ `a.to(b, kw) | a.to(c, kw)` -/
theorem to_two (a b c : Name) (kw : Kw) :
    TExpr.Eqv (.to a [b, c] kw) (.or (.to a [b] kw) (.to a [c] kw)) := to_split a [b] [c] kw

/-- `c.from_(a, b, kw)` ↔ `c.from_(a, kw) | c.from_(b, kw)` -/
theorem from_two (a b c : Name) (kw : Kw) :
    TExpr.Eqv (.from_ c [a, b] kw) (.or (.from_ c [a] kw) (.from_ c [b] kw)) := from_split c [a] [b] kw

/-! ## (c) `to.itself` / `from_.itself` -/

theorem toItself_eq (a : Name) (kw : Kw) : TExpr.Eqv (.toItself a kw) (.to a [a] kw) := fun _ => rfl
theorem fromItself_eq (a : Name) (kw : Kw) : TExpr.Eqv (.fromItself a kw) (.from_ a [a] kw) := fun _ => rfl

/-! ## (d) spellings of `event=` -/

/-- the transition built from a keyword set depends on `event=` only through the de-duplicated
sequence of ids it denotes -/
theorem mkT_event (src : Src) (tgt : Name) (kw : Kw) (items : List EvItem)
    (h : kwEvents kw.event = kwEvents items) : mkT src tgt kw = mkT src tgt { kw with event := items } := by
  simp only [mkT, h]

/-- replacing the `event=` argument of a call -/
def TExpr.withEvent : TExpr → List EvItem → TExpr
  | .to s ts kw, it => .to s ts { kw with event := it }
  | .from_ t ss kw, it => .from_ t ss { kw with event := it }
  | .toItself s kw, it => .toItself s { kw with event := it }
  | .fromItself s kw, it => .fromItself s { kw with event := it }
  | .fromAny t kw, it => .fromAny t { kw with event := it }
  | e, _ => e

def TExpr.kwEvent : TExpr → List EvItem
  | .to _ _ kw => kw.event
  | .from_ _ _ kw => kw.event
  | .toItself _ kw => kw.event
  | .fromItself _ kw => kw.event
  | .fromAny _ kw => kw.event
  | _ => []

theorem event_spelling (e : TExpr) (items : List EvItem) (h : kwEvents e.kwEvent = kwEvents items) :
    TExpr.Eqv e (e.withEvent items) := by
  intro c
  cases e <;> simp only [TExpr.withEvent, TExpr.kwEvent] at h ⊢ <;>
    simp only [evalT, ← mkT_event _ _ _ items h]

/-- `event="e1 e2"` ↔ `event=["e1", "e2"]` (any split point, any following items) -/
theorem spaced_eq_list (as bs : List Name) (rest : List EvItem) :
    kwEvents (.str (as ++ bs) :: rest) = kwEvents (.str as :: .str bs :: rest) := by
  simp [kwEvents, evItemRefs, List.flatMap_cons]

/-- `"e1"` ↔ `Event("e1")` -/
theorem str_eq_obj (a : Name) (rest : List EvItem) :
    kwEvents (.str [a] :: rest) = kwEvents (.obj a :: rest) := rfl

/-- an id named twice is kept once -/
theorem dup_event (a : Name) : kwEvents [.str [a, a]] = kwEvents [.str [a]] := by
  simp [kwEvents, evItemRefs, addEv, EvRef.same]

/-! ## (g) `States({...})`, `States.from_enum(...)` ↔ individual `State` attributes -/

theorem addAttrs_addAttrs (c : Cls) (a b : List (Name × AttrVal)) :
    addAttrs (addAttrs c a) b = addAttrs c (a ++ b) := by
  simp [addAttrs]

theorem states_individually (c : Cls) (ss : List SDecl) :
    elabBody c (ss.map .state) = addAttrs c (stateAttrs ss) := by
  induction ss generalizing c with
  | nil => simp [elabBody, addAttrs, stateAttrs]
  | cons s ss ih =>
    simp only [List.map_cons, elabBody, List.foldl_cons] at ih ⊢
    rw [ih]
    simp [elabStmt, addAttrs_addAttrs, stateAttrs]

theorem statesDict_eq (ss : List SDecl) : Stmts.Eqv [.statesDict ss] (ss.map .state) := by
  intro c
  rw [states_individually]
  rfl

theorem statesEnum_eq (ms : List (Name × Val)) (i : Name) (fs : List Name) :
    Stmts.Eqv [.statesEnum ms i fs] ((enumStates ms i fs).map .state) := by
  intro c
  rw [states_individually]
  rfl

end SMV.Decl
