import SMV.Lemmas.DeclInv
import SMV.Lemmas.DeclEquiv
/-!
# `allowed_events` is determined by the candidate lists; a decidable check that implies `≈`
-/
namespace SMV.Decl

theorem EvRef.same_refl (x : EvRef) : x.same x = true := by
  cases x <;> simp [EvRef.same]

theorem same_real {y : EvRef} {k : Name} {tl : Option (List Nat)} (h : y.same (.real k tl) = true) :
    ∃ tl', y = .real k tl' := by
  cases y with
  | ph v => simp [EvRef.same] at h
  | real a tl' => simp [EvRef.same] at h; exact ⟨tl', by rw [h]⟩

theorem addEv_mono {l : List EvRef} {e y : EvRef} (h : y ∈ l) : y ∈ addEv l e := by
  unfold addEv; split
  · exact h
  · exact List.mem_append_left _ h

theorem addEv_has (l : List EvRef) (e : EvRef) : ∃ y ∈ addEv l e, y.same e = true := by
  unfold addEv
  split
  · rename_i h
    simpa [List.any_eq_true] using h
  · exact ⟨e, by simp, EvRef.same_refl e⟩

theorem foldl_addEv_mono (L : List EvRef) (acc : List EvRef) {y : EvRef} (h : y ∈ acc) :
    y ∈ L.foldl addEv acc := by
  induction L generalizing acc with
  | nil => exact h
  | cons a L ih => exact ih _ (addEv_mono h)

theorem foldl_addEv_has (L : List EvRef) (acc : List EvRef) {x : EvRef} (h : x ∈ L) :
    ∃ y ∈ L.foldl addEv acc, y.same x = true := by
  induction L generalizing acc with
  | nil => simp at h
  | cons a L ih =>
    simp only [List.mem_cons] at h
    rcases h with h | h
    · subst h
      obtain ⟨y, hy, hs⟩ := addEv_has acc x
      exact ⟨y, foldl_addEv_mono L _ hy, hs⟩
    · exact ih _ h

theorem mem_finalEvents {t : TDef} {e : Name} : e ∈ finalEvents t ↔ ∃ tl, EvRef.real e tl ∈ t.events := by
  simp only [finalEvents, List.mem_filterMap]
  constructor
  · rintro ⟨x, hx, h⟩
    cases x with
    | ph v => simp at h
    | real k tl => simp at h; exact ⟨tl, h ▸ hx⟩
  · rintro ⟨tl, h⟩
    exact ⟨_, h, rfl⟩

/-- an event is allowed in a state iff the state has a candidate for it -/
theorem mem_allowed (c : Cls) (s e : Name) : e ∈ allowed c s ↔ cands c s e ≠ [] := by
  have hc : cands c s e ≠ [] ↔ ∃ t ∈ outOf c s, e ∈ finalEvents t := by
    simp only [cands, ne_eq, List.map_eq_nil_iff, List.filter_eq_nil_iff]
    constructor
    · intro h
      apply Classical.byContradiction
      intro hn
      apply h
      intro t ht hc
      exact hn ⟨t, ht, by simpa using hc⟩
    · rintro ⟨t, ht, h⟩ hn
      exact hn t ht (by simpa using h)
  rw [hc]
  simp only [allowed, List.mem_filterMap]
  constructor
  · rintro ⟨y, hy, h⟩
    cases y with
    | ph v => simp at h
    | real k tl =>
      simp at h
      subst h
      obtain ⟨t, ht, hx⟩ := mem_uniqueEvents hy
      exact ⟨t, ht, mem_finalEvents.mpr ⟨tl, hx⟩⟩
  · rintro ⟨t, ht, h⟩
    obtain ⟨tl, hx⟩ := mem_finalEvents.mp h
    have hm : EvRef.real e tl ∈ (outOf c s).flatMap (·.events) := List.mem_flatMap.mpr ⟨t, ht, hx⟩
    obtain ⟨y, hy, hs⟩ := foldl_addEv_has _ [] hm
    obtain ⟨tl', rfl⟩ := same_real hs
    exact ⟨_, hy, rfl⟩

/-- `≈` classes allow the same events in every state -/
theorem Equiv.allowed {c₁ c₂ : Cls} (E : Equiv c₁ c₂) (s : SDecl) (hs : s ∈ c₁.states) (e : Name) :
    e ∈ allowed c₁ s.name ↔ e ∈ allowed c₂ s.name := by
  rw [mem_allowed, mem_allowed, E.cands s hs e]

/-! ## a decidable sufficient condition for `≈` -/

def evUniverse (c : Cls) : List Name := c.trans.flatMap finalEvents

theorem cands_nil_of_not_mem (c : Cls) (s e : Name) (h : e ∉ evUniverse c) : cands c s e = [] := by
  simp only [cands, List.map_eq_nil_iff, List.filter_eq_nil_iff]
  intro t ht
  simp only [evUniverse, List.mem_flatMap, not_exists, not_and] at h
  simpa using h t (List.mem_filter.mp ht).1

def equivB (c₁ c₂ : Cls) : Bool :=
  decide (c₁.states = c₂.states) && c₁.events.all (c₂.events.contains ·) && c₂.events.all (c₁.events.contains ·) &&
  decide (c₁.err = c₂.err) &&
  c₁.states.all fun s => (evUniverse c₁ ++ evUniverse c₂).all fun e =>
    decide (cands c₁ s.name e = cands c₂ s.name e)

theorem equivB_sound {c₁ c₂ : Cls} (h : equivB c₁ c₂ = true) : Equiv c₁ c₂ := by
  simp only [equivB, Bool.and_eq_true, decide_eq_true_eq, List.all_eq_true, List.contains_iff_mem,
    List.mem_append] at h
  obtain ⟨⟨⟨⟨h1, h2⟩, h3⟩, h4⟩, h5⟩ := h
  refine ⟨h1, fun e => ⟨h2 e, h3 e⟩, ?_, h4⟩
  intro s hs e
  by_cases he : e ∈ evUniverse c₁ ∨ e ∈ evUniverse c₂
  · exact h5 s hs e he
  · rw [cands_nil_of_not_mem c₁ s.name e (fun h => he (Or.inl h)),
      cands_nil_of_not_mem c₂ s.name e (fun h => he (Or.inr h))]

end SMV.Decl
