import SMV.Model.Registry
/-!
# Helper lemmas about the callback registry model `SMV.Reg`

* `insort`: a permutation of `e :: ex` (`insort_perm`), keeps a priority-sorted list sorted
  (`insort_sorted`);
* `add`: membership (`mem_add`), `seen` is monotone and the added key is seen afterwards
  (`seen_add_mono`, `seen_add_self`), adding a seen key is the identity (`add_of_seen`);
* `buildSpec`: what its entries are (`mem_buildSpec_name`, `mem_buildSpec_callable`);
* `resolveInto` / `executor`: an induction principle over the individual `add` calls
  (`resolveInto_induct`, `executor_induct`) with the provenance `Src` of every added entry,
  monotonicity of `seen`, "what was built is seen" and "resolving when everything is seen is the
  identity" (`resolveInto_saturated`).

The main theorems built from these are in `SMV/Props/C12.lean`.
-/
namespace SMV.Reg

open SMV.Prov

/-! ## `seen` -/

theorem seen_iff (ex : Exec) (k : Key × Bool) : seen ex k = true ↔ ∃ x ∈ ex, x.dk = k := by
  simp [seen, List.any_eq_true]

theorem seen_iff_mem_keys (ex : Exec) (k : Key × Bool) : seen ex k = true ↔ k ∈ ex.map (·.dk) := by
  simp [seen_iff]

/-! ## `insort` -/

theorem insort_perm (e : Entry) (ex : Exec) : (insort e ex).Perm (e :: ex) := by
  induction ex with
  | nil => exact List.Perm.refl _
  | cons y ys ih =>
    unfold insort
    split
    · exact List.Perm.refl _
    · exact (List.Perm.cons y ih).trans (List.Perm.swap e y ys)

theorem mem_insort (e x : Entry) (ex : Exec) : x ∈ insort e ex ↔ x = e ∨ x ∈ ex := by
  rw [(insort_perm e ex).mem_iff, List.mem_cons]

theorem insort_keys_perm (e : Entry) (ex : Exec) :
    ((insort e ex).map (·.dk)).Perm (e.dk :: ex.map (·.dk)) :=
  (insort_perm e ex).map _

/-- `insort` into a priority-sorted executor keeps it sorted -/
theorem insort_sorted (e : Entry) (ex : Exec) (h : (ex.map (·.prio)).Pairwise (· ≤ ·)) :
    ((insort e ex).map (·.prio)).Pairwise (· ≤ ·) := by
  induction ex with
  | nil => simp [insort]
  | cons y ys ih =>
    simp only [List.map_cons, List.pairwise_cons] at h
    unfold insort
    split
    · rename_i hlt
      simp only [List.map_cons, List.pairwise_cons]
      refine ⟨?_, h.1, h.2⟩
      intro a ha
      rcases List.mem_cons.mp ha with rfl | ha'
      · exact Nat.le_of_lt hlt
      · exact Nat.le_trans (Nat.le_of_lt hlt) (h.1 a ha')
    · rename_i hge
      simp only [List.map_cons, List.pairwise_cons]
      refine ⟨?_, ih h.2⟩
      intro a ha
      simp only [List.mem_map] at ha
      obtain ⟨x, hx, rfl⟩ := ha
      rcases (mem_insort e x ys).mp hx with rfl | hx'
      · exact Nat.le_of_not_lt hge
      · exact h.1 _ (List.mem_map.mpr ⟨x, hx', rfl⟩)

/-! ## `add` -/

theorem add_of_seen (ex : Exec) (e : Entry) (h : seen ex e.dk = true) : add ex e = ex := by
  simp [add, h]

theorem mem_add (ex : Exec) (e x : Entry) (h : x ∈ add ex e) : x = e ∨ x ∈ ex := by
  unfold add at h
  split at h
  · exact Or.inr h
  · exact (mem_insort e x ex).mp h

theorem seen_add_mono (ex : Exec) (e : Entry) (k : Key × Bool) (h : seen ex k = true) :
    seen (add ex e) k = true := by
  unfold add
  split
  · exact h
  · obtain ⟨x, hx, hk⟩ := (seen_iff ex k).mp h
    exact (seen_iff _ k).mpr ⟨x, (mem_insort e x ex).mpr (Or.inr hx), hk⟩

theorem seen_add_self (ex : Exec) (e : Entry) : seen (add ex e) e.dk = true := by
  unfold add
  split
  · assumption
  · exact (seen_iff _ _).mpr ⟨e, (mem_insort e e ex).mpr (Or.inl rfl), rfl⟩

theorem add_keys_nodup (ex : Exec) (e : Entry) (h : (ex.map (·.dk)).Nodup) :
    ((add ex e).map (·.dk)).Nodup := by
  unfold add
  split
  · exact h
  · rename_i hs
    rw [(insort_keys_perm e ex).nodup_iff, List.nodup_cons]
    exact ⟨fun hm => hs ((seen_iff_mem_keys ex e.dk).mpr hm), h⟩

theorem add_sorted (ex : Exec) (e : Entry) (h : (ex.map (·.prio)).Pairwise (· ≤ ·)) :
    ((add ex e).map (·.prio)).Pairwise (· ≤ ·) := by
  unfold add
  split
  · exact h
  · exact insort_sorted e ex h

/-! ## folding `add` over a list of entries -/

theorem seen_foldl_add_mono (es : List Entry) (ex : Exec) (k : Key × Bool) (h : seen ex k = true) :
    seen (es.foldl add ex) k = true := by
  induction es generalizing ex with
  | nil => exact h
  | cons e es ih => exact ih _ (seen_add_mono ex e k h)

theorem seen_foldl_add_mem (es : List Entry) (ex : Exec) (e : Entry) (he : e ∈ es) :
    seen (es.foldl add ex) e.dk = true := by
  induction es generalizing ex with
  | nil => cases he
  | cons a es ih =>
    rcases List.mem_cons.mp he with rfl | he'
    · exact seen_foldl_add_mono es _ _ (seen_add_self ex e)
    · exact ih _ he'

theorem foldl_add_saturated (es : List Entry) (ex : Exec) (h : ∀ e ∈ es, seen ex e.dk = true) :
    es.foldl add ex = ex := by
  induction es with
  | nil => rfl
  | cons e es ih =>
    rw [List.foldl_cons, add_of_seen ex e (h e (by simp))]
    exact ih fun e' he' => h e' (by simp [he'])

theorem foldl_add_induct (P : Exec → Prop) (Q : Entry → Prop)
    (hadd : ∀ ex e, P ex → Q e → P (add ex e)) (es : List Entry) (hQ : ∀ e ∈ es, Q e)
    (ex : Exec) (h : P ex) : P (es.foldl add ex) := by
  induction es generalizing ex with
  | nil => exact h
  | cons e es ih =>
    exact ih (fun e' he' => hQ e' (by simp [he'])) _ (hadd ex e h (hQ e (by simp)))

/-! ## `buildSpec` -/

theorem mem_buildSpec_name (ps : List Provider) (s : Spec) (n : Name) (hs : s.ref = .name n) (e : Entry) :
    e ∈ buildSpec ps s ↔ ∃ p ∈ ps, ∃ cb, offers p n = some cb ∧
      e = { key := .named n p.id, cb := cb, prio := s.prio, only := s.only, expected := s.expected } := by
  unfold buildSpec
  rw [hs]
  simp only [List.mem_filterMap, Option.map_eq_some_iff]
  constructor
  · rintro ⟨p, hp, cb, ho, rfl⟩
    exact ⟨p, hp, cb, ho, rfl⟩
  · rintro ⟨p, hp, cb, ho, rfl⟩
    exact ⟨p, hp, cb, ho, rfl⟩

theorem mem_buildSpec_callable (ps : List Provider) (s : Spec) (cb : CbId) (hs : s.ref = .callable cb)
    (e : Entry) :
    e ∈ buildSpec ps s ↔
      e = { key := .callable cb, cb := cb, prio := s.prio, only := s.only, expected := s.expected } := by
  unfold buildSpec
  rw [hs]
  simp

/-! ## `resolveInto` -/

/-- the body of the fold of `resolveInto` -/
def stepSpec (safe : Bool) (ps : List Provider) (g : Group) (ex : Exec) (s : Spec) : Exec :=
  if s.group != g then ex
  else match s.ref, safe with
    | .callable _, true => ex
    | _, _ => (buildSpec ps s).foldl add ex

theorem resolveInto_eq (safe : Bool) (ps : List Provider) (g : Group) (ex : Exec) (specs : List Spec) :
    resolveInto safe ps g ex specs = specs.foldl (stepSpec safe ps g) ex := rfl

/-- a spec is resolved by a pass when it belongs to the group and is not a callable in a safe pass -/
def Active (safe : Bool) (g : Group) (s : Spec) : Prop :=
  s.group = g ∧ (safe = false ∨ ∃ n, s.ref = .name n)

theorem stepSpec_cases (safe : Bool) (ps : List Provider) (g : Group) (ex : Exec) (s : Spec) :
    (¬ Active safe g s ∧ stepSpec safe ps g ex s = ex) ∨
    (Active safe g s ∧ stepSpec safe ps g ex s = (buildSpec ps s).foldl add ex) := by
  unfold stepSpec Active
  by_cases hg : s.group = g
  · cases safe <;> cases hr : s.ref <;> simp [hg]
  · simp [hg]

theorem resolveInto_induct (P : Exec → Prop) (Q : Entry → Prop)
    (hadd : ∀ ex e, P ex → Q e → P (add ex e))
    (safe : Bool) (ps : List Provider) (g : Group) (specs : List Spec)
    (hQ : ∀ s ∈ specs, Active safe g s → ∀ e ∈ buildSpec ps s, Q e)
    (ex : Exec) (h : P ex) : P (resolveInto safe ps g ex specs) := by
  rw [resolveInto_eq]
  induction specs generalizing ex with
  | nil => exact h
  | cons s specs ih =>
    rw [List.foldl_cons]
    apply ih (fun s' hs' => hQ s' (by simp [hs']))
    rcases stepSpec_cases safe ps g ex s with ⟨_, he⟩ | ⟨ha, he⟩
    · rw [he]; exact h
    · rw [he]; exact foldl_add_induct P Q hadd _ (hQ s (by simp) ha) ex h

theorem seen_resolveInto_mono (safe : Bool) (ps : List Provider) (g : Group) (specs : List Spec)
    (ex : Exec) (k : Key × Bool) (h : seen ex k = true) : seen (resolveInto safe ps g ex specs) k = true :=
  resolveInto_induct (fun ex => seen ex k = true) (fun _ => True)
    (fun ex e h _ => seen_add_mono ex e k h) safe ps g specs (fun _ _ _ _ _ => trivial) ex h

/-- whatever an active spec builds is keyed after the pass -/
theorem seen_resolveInto_mem (safe : Bool) (ps : List Provider) (g : Group) (specs : List Spec)
    (ex : Exec) (s : Spec) (hs : s ∈ specs) (ha : Active safe g s) (e : Entry) (he : e ∈ buildSpec ps s) :
    seen (resolveInto safe ps g ex specs) e.dk = true := by
  rw [resolveInto_eq]
  induction specs generalizing ex with
  | nil => cases hs
  | cons a specs ih =>
    rw [List.foldl_cons]
    rcases List.mem_cons.mp hs with rfl | hs'
    · rcases stepSpec_cases safe ps g ex s with ⟨hn, _⟩ | ⟨_, heq⟩
      · exact absurd ha hn
      · rw [heq, ← resolveInto_eq]
        exact seen_resolveInto_mono safe ps g specs _ _ (seen_foldl_add_mem _ ex e he)
    · exact ih _ hs'

/-- a pass in which every entry that would be built is already keyed is the identity -/
theorem resolveInto_saturated (safe : Bool) (ps : List Provider) (g : Group) (specs : List Spec)
    (ex : Exec) (h : ∀ s ∈ specs, Active safe g s → ∀ e ∈ buildSpec ps s, seen ex e.dk = true) :
    resolveInto safe ps g ex specs = ex := by
  rw [resolveInto_eq]
  induction specs with
  | nil => rfl
  | cons s specs ih =>
    rw [List.foldl_cons]
    have : stepSpec safe ps g ex s = ex := by
      rcases stepSpec_cases safe ps g ex s with ⟨_, he⟩ | ⟨ha, he⟩
      · exact he
      · rw [he]; exact foldl_add_saturated _ ex (h s (by simp) ha)
    rw [this]
    exact ih fun s' hs' => h s' (by simp [hs'])

/-! ## `executor` -/

/-- the fold over the late `add_listener` calls -/
def lateFold (specs : List Spec) (g : Group) (late : List (List Provider)) (ex : Exec) : Exec :=
  late.foldl (fun ex ls => resolveInto true ls g ex specs) ex

theorem executor_eq (specs : List Spec) (ctor : List Provider) (late : List (List Provider)) (g : Group) :
    executor specs ctor late g = lateFold specs g late (resolveInto false ctor g [] specs) := rfl

theorem executor_snoc (specs : List Spec) (ctor : List Provider) (late : List (List Provider))
    (ls : List Provider) (g : Group) :
    executor specs ctor (late ++ [ls]) g = resolveInto true ls g (executor specs ctor late g) specs := by
  simp [executor, List.foldl_append]

/-- where an entry handed to `add` comes from: a spec of the group, built against the constructor's
providers, or a name spec built against the providers of one later `add_listener` call -/
def Src (specs : List Spec) (ctor : List Provider) (late : List (List Provider)) (g : Group) (e : Entry) : Prop :=
  ∃ s ∈ specs, s.group = g ∧
    (e ∈ buildSpec ctor s ∨ ∃ ls ∈ late, (∃ n, s.ref = .name n) ∧ e ∈ buildSpec ls s)

/-- induction over the individual `add` calls that build an executor -/
theorem executor_induct (P : Exec → Prop) (specs : List Spec) (ctor : List Provider)
    (late : List (List Provider)) (g : Group) (h0 : P [])
    (hadd : ∀ ex e, P ex → Src specs ctor late g e → P (add ex e)) :
    P (executor specs ctor late g) := by
  rw [executor_eq]
  have hctor : P (resolveInto false ctor g [] specs) :=
    resolveInto_induct P (Src specs ctor late g) hadd false ctor g specs
      (fun s hs ha e he => ⟨s, hs, ha.1, Or.inl he⟩) [] h0
  have : ∀ (l : List (List Provider)), (∀ ls ∈ l, ls ∈ late) → ∀ ex, P ex → P (lateFold specs g l ex) := by
    intro l
    induction l with
    | nil => intro _ ex h; exact h
    | cons ls l ih =>
      intro hsub ex h
      unfold lateFold
      rw [List.foldl_cons]
      apply ih (fun ls' h' => hsub ls' (by simp [h']))
      apply resolveInto_induct P (Src specs ctor late g) hadd true ls g specs _ ex h
      intro s hs ha e he
      rcases ha with ⟨hg, hf | hn⟩
      · cases hf
      · exact ⟨s, hs, hg, Or.inr ⟨ls, hsub ls (by simp), hn, he⟩⟩
  exact this late (fun _ h => h) _ hctor

theorem seen_lateFold_mono (specs : List Spec) (g : Group) (late : List (List Provider)) (ex : Exec)
    (k : Key × Bool) (h : seen ex k = true) : seen (lateFold specs g late ex) k = true := by
  induction late generalizing ex with
  | nil => exact h
  | cons ls late ih =>
    unfold lateFold
    rw [List.foldl_cons]
    exact ih _ (seen_resolveInto_mono true ls g specs ex k h)

/-- a name spec of the group built against the providers of one late call is keyed afterwards -/
theorem seen_lateFold_mem (specs : List Spec) (g : Group) (late : List (List Provider)) (ex : Exec)
    (ls : List Provider) (hls : ls ∈ late) (s : Spec) (hs : s ∈ specs) (ha : Active true g s)
    (e : Entry) (he : e ∈ buildSpec ls s) : seen (lateFold specs g late ex) e.dk = true := by
  induction late generalizing ex with
  | nil => cases hls
  | cons a late ih =>
    unfold lateFold
    rw [List.foldl_cons]
    rcases List.mem_cons.mp hls with rfl | hls'
    · exact seen_lateFold_mono specs g late _ _ (seen_resolveInto_mem true ls g specs ex s hs ha e he)
    · exact ih _ hls'

end SMV.Reg
