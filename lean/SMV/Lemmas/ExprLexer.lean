import SMV.Model.Lexer
/-!
# Lemmas for C08: the character-level scanner `repl` on rendered token lists
-/
namespace SMV.GExpr

/-! ## characters -/

theorem beq_false_of_isWord {c d : Char} (h : isWord c = true) (hd : isWord d = false) :
    (c == d) = false := by
  cases hcd : c == d with
  | false => rfl
  | true => have := eq_of_beq hcd; subst this; rw [h] at hd; cases hd

theorem isWord_special (c : Char) (h : isWord c = true) :
    isQuote c = false ∧ (c == '!') = false ∧ (c == '^') = false := by
  refine ⟨?_, beq_false_of_isWord h (by decide), beq_false_of_isWord h (by decide)⟩
  simp [isQuote, beq_false_of_isWord h (show isWord '"' = false by decide),
    beq_false_of_isWord h (show isWord '\'' = false by decide)]

/-- blanks that may separate tokens -/
def isSep (c : Char) : Bool := c == ' ' || c == '\t'

theorem isSep_cases {c : Char} (h : isSep c = true) : c = ' ' ∨ c = '\t' := by
  simp only [isSep, Bool.or_eq_true, beq_iff_eq] at h; exact h

/-- a character the scanner copies, whatever the context -/
theorem repl_plain (pw : Bool) (c : Char) (cs : List Char)
    (hq : isQuote c = false) (hb : (c == '!') = false) (hc : (c == '^') = false)
    (hv : (c == 'v') = false ∨ pw = true ∨ nextIsWord cs = true) :
    repl true (.code pw) (c :: cs) = c :: repl true (.code (isWord c)) cs := by
  simp only [repl, hq, hb, hc]
  rcases hv with h | h | h <;> simp [h]

/-! ## runs of word characters -/

/-- inside a word (previous character is a word character) everything is copied -/
theorem repl_word_tail (w rest : List Char) (hw : w.all isWord = true) :
    repl true (.code true) (w ++ rest) = w ++ repl true (.code true) rest := by
  induction w with
  | nil => rfl
  | cons c w ih =>
    simp only [List.all_cons, Bool.and_eq_true] at hw
    obtain ⟨hq, hb, hc⟩ := isWord_special c hw.1
    simp only [List.cons_append]
    rw [repl_plain true c (w ++ rest) hq hb hc (Or.inr (Or.inl rfl)), hw.1, ih hw.2]

theorem nextIsWord_append_cons (c : Char) (w rest : List Char) :
    nextIsWord ((c :: w) ++ rest) = isWord c := rfl

/-- a whole word that starts at a word boundary and ends at one: copied, unless it is exactly `v` -/
theorem repl_word (w rest : List Char) (hne : w ≠ []) (hw : w.all isWord = true)
    (hnext : nextIsWord rest = false) :
    repl true (.code false) (w ++ rest) =
      (if w = ['v'] then " or ".toList else w) ++ repl true (.code true) rest := by
  cases w with
  | nil => exact absurd rfl hne
  | cons c w =>
    simp only [List.all_cons, Bool.and_eq_true] at hw
    obtain ⟨hq, hb, hc⟩ := isWord_special c hw.1
    by_cases hv : c = 'v'
    · subst hv
      cases w with
      | nil =>
        simp only [List.cons_append, List.nil_append, if_true]
        simp [repl, hnext, isQuote]
      | cons d w =>
        have hd : isWord d = true := by
          simp only [List.all_cons, Bool.and_eq_true] at hw; exact hw.2.1
        have : ('v' :: d :: w) ≠ ['v'] := by simp
        simp only [this, if_false, List.cons_append]
        rw [repl_plain false 'v' (d :: (w ++ rest)) hq hb hc (Or.inr (Or.inr hd))]
        have := repl_word_tail (d :: w) rest hw.2
        simp only [List.cons_append] at this
        rw [show isWord 'v' = true by decide, this]
    · have hcv : (c == 'v') = false := by simpa using hv
      have hne' : (c :: w) ≠ ['v'] := by
        intro h; simp only [List.cons.injEq] at h; exact hv h.1
      simp only [hne', if_false, List.cons_append]
      rw [repl_plain false c (w ++ rest) hq hb hc (Or.inl hcv), hw.1, repl_word_tail w rest hw.2]

/-! ## separators -/

theorem repl_sep_char (pw : Bool) (c : Char) (cs : List Char) (h : isSep c = true) :
    repl true (.code pw) (c :: cs) = c :: repl true (.code false) cs := by
  rcases isSep_cases h with rfl | rfl <;> simp [repl, isQuote, isWord]

theorem repl_sep (pw : Bool) (s rest : List Char) (hs : s.all isSep = true) :
    repl true (.code pw) (s ++ rest) = s ++ repl true (.code (if s = [] then pw else false)) rest := by
  cases s with
  | nil => rfl
  | cons c s =>
    simp only [List.all_cons, Bool.and_eq_true] at hs
    simp only [List.cons_append, reduceCtorEq, if_false]
    rw [repl_sep_char pw c _ hs.1]
    congr 1
    have hs2 := hs.2
    clear hs
    induction s with
    | nil => rfl
    | cons d s ih =>
      simp only [List.all_cons, Bool.and_eq_true] at hs2
      simp only [List.cons_append]
      rw [repl_sep_char false d _ hs2.1, ih hs2.2]

theorem nextIsWord_sep (s rest : List Char) (hs : s.all isSep = true) (hne : s ≠ []) :
    nextIsWord (s ++ rest) = false := by
  cases s with
  | nil => exact absurd rfl hne
  | cons c s =>
    simp only [List.all_cons, Bool.and_eq_true] at hs
    rcases isSep_cases hs.1 with rfl | rfl <;> simp [nextIsWord, isWord]

theorem nextIsEq_sep (s rest : List Char) (hs : s.all isSep = true) (hne : s ≠ []) :
    nextIsEq (s ++ rest) = false := by
  cases s with
  | nil => exact absurd rfl hne
  | cons c s =>
    simp only [List.all_cons, Bool.and_eq_true] at hs
    rcases isSep_cases hs.1 with rfl | rfl <;> simp [nextIsEq]

/-! ## string literals -/

/-- `w` = the text after an opening quote `q`: a body without an unescaped `q`, then `q`, then nothing -/
def strOk (q : Char) : Bool → List Char → Bool
  | _, [] => false
  | esc, c :: cs =>
    if esc then c != '\n' && strOk q false cs
    else if c == q then cs.isEmpty
    else if c == '\\' then strOk q true cs
    else strOk q false cs

/-- a well-formed single-line string literal: quote, body, the same quote -/
def wfStr : List Char → Bool
  | [] => false
  | q :: w => isQuote q && strOk q false w

theorem closes_of_strOk (q : Char) (w rest : List Char) :
    ∀ esc, strOk q esc w = true → closes q esc (w ++ rest) = true := by
  induction w with
  | nil => intro esc h; simp [strOk] at h
  | cons c w ih =>
    intro esc h
    simp only [strOk] at h
    simp only [List.cons_append, closes]
    cases esc with
    | true =>
      simp only [if_true, Bool.and_eq_true, bne_iff_ne, ne_eq] at h
      have hc : (c == '\n') = false := by simpa using h.1
      simp [hc, ih false h.2]
    | false =>
      simp only [Bool.false_eq_true, if_false] at h ⊢
      by_cases hq : (c == q) = true
      · simp [hq]
      · have hq' : (c == q) = false := by simpa using hq
        simp only [hq', Bool.false_eq_true, if_false] at h ⊢
        by_cases hb : (c == '\\') = true
        · simp only [hb, if_true] at h ⊢; exact ih true h
        · have hb' : (c == '\\') = false := by simpa using hb
          simp only [hb', Bool.false_eq_true, if_false] at h ⊢; exact ih false h

theorem repl_str (q : Char) (w rest : List Char) :
    ∀ esc, strOk q esc w = true →
      repl true (.str q esc) (w ++ rest) = w ++ repl true (.code false) rest := by
  induction w with
  | nil => intro esc h; simp [strOk] at h
  | cons c w ih =>
    intro esc h
    simp only [strOk] at h
    simp only [List.cons_append, repl]
    cases esc with
    | true =>
      simp only [if_true, Bool.and_eq_true] at h
      simp [ih false h.2]
    | false =>
      simp only [Bool.false_eq_true, if_false] at h ⊢
      by_cases hq : (c == q) = true
      · simp only [hq, if_true, List.isEmpty_iff] at h ⊢
        subst h; rfl
      · have hq' : (c == q) = false := by simpa using hq
        simp only [hq', Bool.false_eq_true, if_false] at h ⊢
        by_cases hb : (c == '\\') = true
        · simp only [hb, if_true] at h ⊢; rw [ih true h]
        · have hb' : (c == '\\') = false := by simpa using hb
          simp only [hb', Bool.false_eq_true, if_false] at h ⊢; rw [ih false h]

/-- a well-formed string literal is copied verbatim, whatever it contains -/
theorem repl_strLit (pw : Bool) (b rest : List Char) (h : wfStr b = true) :
    repl true (.code pw) (b ++ rest) = b ++ repl true (.code false) rest := by
  cases b with
  | nil => simp [wfStr] at h
  | cons q w =>
    simp only [wfStr, Bool.and_eq_true] at h
    simp only [List.cons_append, repl, h.1, closes_of_strOk q w rest false h.2, Bool.and_self,
      if_true]
    rw [repl_str q w rest false h.2]

/-! ## tokens -/

/-- word-like tokens: two of them need a blank in between -/
def wordy : Tok → Bool
  | .ident _ | .kwNot | .kwAnd | .kwOr | .num _ => true
  | _ => false

def isCmpTok : Tok → Bool
  | .cmp _ => true
  | _ => false

/-- lexical well-formedness of one token -/
def wfTok : Tok → Bool
  | .ident s => !s.toList.isEmpty && s.toList.all isWord
  | .num d => !d.toList.isEmpty && d.toList.all Char.isDigit
  | .strLit b => wfStr b.toList
  | _ => true

theorem isWord_of_isDigit (c : Char) (h : c.isDigit = true) : isWord c = true := by
  simp [isWord, Char.isAlphanum, h]

theorem all_isWord_of_all_isDigit (l : List Char) (h : l.all Char.isDigit = true) :
    l.all isWord = true := by
  simp only [List.all_eq_true] at h ⊢
  exact fun c hc => isWord_of_isDigit c (h c hc)

/-- the first character of a non-word-like token is not a word character and not `=`… except `==` -/
theorem nextIsWord_tok (t : Tok) (rest : List Char) (hwf : wfTok t = true) (hw : wordy t = false) :
    nextIsWord (tokText t ++ rest) = false := by
  cases t with
  | ident s => simp [wordy] at hw
  | kwNot => simp [wordy] at hw
  | kwAnd => simp [wordy] at hw
  | kwOr => simp [wordy] at hw
  | num d => simp [wordy] at hw
  | bang => simp [tokText, nextIsWord, isWord]
  | caret => simp [tokText, nextIsWord, isWord]
  | lpar => simp [tokText, nextIsWord, isWord]
  | rpar => simp [tokText, nextIsWord, isWord]
  | cmp c => cases c <;> simp [tokText, cmpText, nextIsWord, isWord]
  | strLit b =>
    simp only [wfTok] at hwf
    simp only [tokText]
    cases hb : b.toList with
    | nil => rw [hb] at hwf; simp [wfStr] at hwf
    | cons q w =>
      rw [hb] at hwf
      simp only [wfStr, Bool.and_eq_true, isQuote, Bool.or_eq_true, beq_iff_eq] at hwf
      rcases hwf.1 with rfl | rfl <;> simp [nextIsWord, isWord]

theorem nextIsEq_tok (t : Tok) (rest : List Char) (hwf : wfTok t = true) (hc : isCmpTok t = false) :
    nextIsEq (tokText t ++ rest) = false := by
  cases t with
  | cmp c => simp [isCmpTok] at hc
  | bang => simp [tokText, nextIsEq]
  | caret => simp [tokText, nextIsEq]
  | lpar => simp [tokText, nextIsEq]
  | rpar => simp [tokText, nextIsEq]
  | kwNot => simp [tokText, nextIsEq]
  | kwAnd => simp [tokText, nextIsEq]
  | kwOr => simp [tokText, nextIsEq]
  | ident s =>
    simp only [wfTok, Bool.and_eq_true] at hwf
    simp only [tokText]
    cases hs : s.toList with
    | nil => rw [hs] at hwf; simp at hwf
    | cons c w =>
      rw [hs] at hwf
      simp only [List.all_cons, Bool.and_eq_true] at hwf
      exact beq_false_of_isWord hwf.2.1 (by decide)
  | num d =>
    simp only [wfTok, Bool.and_eq_true] at hwf
    simp only [tokText]
    cases hs : d.toList with
    | nil => rw [hs] at hwf; simp at hwf
    | cons c w =>
      rw [hs] at hwf
      simp only [List.all_cons, Bool.and_eq_true] at hwf
      exact beq_false_of_isWord (isWord_of_isDigit c hwf.2.1) (by decide)
  | strLit b =>
    simp only [wfTok] at hwf
    simp only [tokText]
    cases hb : b.toList with
    | nil => rw [hb] at hwf; simp [wfStr] at hwf
    | cons q w =>
      rw [hb] at hwf
      simp only [wfStr, Bool.and_eq_true, isQuote, Bool.or_eq_true, beq_iff_eq] at hwf
      rcases hwf.1 with rfl | rfl <;> simp [nextIsEq]

theorem string_toList_eq_v (s : String) : s.toList = ['v'] ↔ s = "v" := by
  constructor
  · intro h
    have : String.ofList s.toList = String.ofList ['v'] := by rw [h]
    simpa using this
  · rintro rfl; rfl

/-- one token: what the scanner writes for it and the state it leaves -/
theorem repl_tok (t : Tok) (pw : Bool) (rest : List Char) (hwf : wfTok t = true)
    (hpw : wordy t = true → pw = false)
    (hnw : wordy t = true → nextIsWord rest = false)
    (hne : t = .bang → nextIsEq rest = false) :
    repl true (.code pw) (tokText t ++ rest) = tokTextR t ++ repl true (.code (wordy t)) rest := by
  cases t with
  | ident s =>
    simp only [wfTok, Bool.and_eq_true, Bool.not_eq_true', List.isEmpty_eq_false_iff] at hwf
    have := repl_word s.toList rest hwf.1 hwf.2 (hnw rfl)
    rw [hpw rfl]
    simp only [tokText, tokTextR, wordy]
    rw [this]
    by_cases hv : s = "v"
    · subst hv; rfl
    · have : ¬ s.toList = ['v'] := fun h => hv ((string_toList_eq_v s).mp h)
      simp [hv, this]
  | num d =>
    simp only [wfTok, Bool.and_eq_true, Bool.not_eq_true', List.isEmpty_eq_false_iff] at hwf
    have hw := all_isWord_of_all_isDigit _ hwf.2
    have := repl_word d.toList rest hwf.1 hw (hnw rfl)
    rw [hpw rfl]
    simp only [tokText, tokTextR, wordy]
    rw [this]
    have : ¬ d.toList = ['v'] := by
      intro h; rw [h] at hwf; simp at hwf
    simp [this]
  | kwNot =>
    rw [hpw rfl]
    have := repl_word "not".toList rest (by decide) (by decide) (hnw rfl)
    simpa [tokText, tokTextR, wordy] using this
  | kwAnd =>
    rw [hpw rfl]
    have := repl_word "and".toList rest (by decide) (by decide) (hnw rfl)
    simpa [tokText, tokTextR, wordy] using this
  | kwOr =>
    rw [hpw rfl]
    have := repl_word "or".toList rest (by decide) (by decide) (hnw rfl)
    simpa [tokText, tokTextR, wordy] using this
  | bang => simp [tokText, tokTextR, wordy, repl, isQuote, hne rfl]
  | caret => simp [tokText, tokTextR, wordy, repl, isQuote]
  | lpar => simp [tokText, tokTextR, wordy, repl, isQuote, isWord]
  | rpar => simp [tokText, tokTextR, wordy, repl, isQuote, isWord]
  | cmp c => cases c <;> simp [tokText, tokTextR, cmpText, wordy, repl, isQuote, isWord, nextIsEq]
  | strLit b =>
    simp only [wfTok] at hwf
    simp only [tokText, tokTextR, wordy]
    exact repl_strLit pw b.toList rest hwf

end SMV.GExpr
