import SMV.Lemmas.Rtc
/-!
# Callbacks that send no events: the nested-send handler is never consulted

`NoSends m`: no callback invocation of `m` calls `send`. Then every engine function is the same for every
handler — run-to-completion, depth-first (`rtc=False`), anything — so each theorem proved for `nestedRtc`
transfers verbatim to the other processing mode for such machines.
-/
namespace SMV

def NoSends (m : Machine) : Prop := ∀ cb inv obs, (m.behav cb inv obs).sends = []

section
variable {m : Machine} (hs : NoSends m)
include hs

theorem runCb_any (h : Nested) (x : Ctx) (ph : Phase) (cb : CbId) :
    runCb h m x ph cb = runCb nestedRtc m x ph cb := by
  funext c
  simp only [runCb, EM.bind_apply, EM.get, EM.modify, hs cb, sendsLoop]

theorem runGroup_any (h : Nested) (x : Ctx) (ph : Phase) (cs : List CbId) :
    runGroup h m x ph cs = runGroup nestedRtc m x ph cs := by
  induction cs with
  | nil => rfl
  | cons cb cs ih => simp only [runGroup, runCb_any hs h, ih]

theorem runConds_any (h : Nested) (x : Ctx) (cs : List (CbId × Bool)) :
    runConds h m x cs = runConds nestedRtc m x cs := by
  induction cs with
  | nil => rfl
  | cons p cs ih =>
    obtain ⟨cb, ex⟩ := p
    simp only [runConds, runCb_any hs h, ih]

theorem activatePre_any (h : Nested) (t : Trigger) (tr : Transn) :
    activatePre h m t tr = activatePre nestedRtc m t tr := by
  simp only [activatePre, runGroup_any hs h, runConds_any hs h]

theorem activatePost_any (h : Nested) (t : Trigger) (tr : Transn) :
    activatePost h m t tr = activatePost nestedRtc m t tr := by
  simp only [activatePost, runGroup_any hs h]

theorem activate_any (h : Nested) (t : Trigger) (tr : Transn) :
    activate h m t tr = activate nestedRtc m t tr := by
  simp only [activate, activatePre_any hs h, activatePost_any hs h]

theorem tryCands_any (h : Nested) (t : Trigger) (trs : List Transn) :
    tryCands h m t trs = tryCands nestedRtc m t trs := by
  induction trs with
  | nil => rfl
  | cons tr rest ih => simp only [tryCands, activate_any hs h, ih]

theorem activateInitial_any (h : Nested) (t : Trigger) :
    activateInitial h m t = activateInitial nestedRtc m t := by
  simp only [activateInitial, runGroup_any hs h]

theorem trigger_any (h : Nested) (t : Trigger) : trigger h m t = trigger nestedRtc m t := by
  funext c
  simp only [trigger, tryCands_any hs h, activateInitial_any hs h]
end

end SMV
