import SMV.Lemmas.DeclSrc
import SMV.Lemmas.DeclStyles
/-!
# `any_partial_q`: (f) with final states declared after the event
-/
namespace SMV.Decl

theorem elabMeta_addAttrs_states (c : Cls) (k : Name) (v : AttrVal) (fs : List SDecl) :
    elabMeta (addAttrs (addAttr c k v) (stateAttrs fs)) =
      updateRefs (fs.foldl addState (processAttr (c.attrs.foldl processAttr { c with attrs := [] }) (k, v))) := by
  simp only [elabMeta, addAttrs, addAttr, List.foldl_append, List.foldl_cons, List.foldl_nil, stateAttrs,
    List.append_assoc]
  congr 1
  generalize processAttr (List.foldl processAttr _ c.attrs) (k, v) = c'
  induction fs generalizing c' with
  | nil => rfl
  | cons f fs ih => simp only [List.map_cons, List.foldl_cons, ih]; rfl

theorem elabBody_states_after (c : Cls) (p : List Stmt) (s : Stmt) (fs : List SDecl) :
    elabBody c (p ++ [s] ++ fs.map .state) = addAttrs (elabStmt (elabBody c p) s) (stateAttrs fs) := by
  rw [elabBody_append, elabBody_snoc, states_individually]

theorem FinRel.foldl_addState {e : Name} (fs : List SDecl) {c₁ c₂ : Cls} (h : FinRel e c₁ c₂)
    (h1 : ∀ f ∈ fs, AllSrc (fun src => src ≠ .st f.name) c₁)
    (h2 : ∀ f ∈ fs, AllSrc (fun src => src ≠ .st f.name) c₂) :
    FinRel e (fs.foldl SMV.Decl.addState c₁) (fs.foldl SMV.Decl.addState c₂) := by
  induction fs generalizing c₁ c₂ with
  | nil => exact h
  | cons f fs ih =>
    simp only [List.foldl_cons]
    have o1 := (h1 f List.mem_cons_self).outOf_nil
    have o2 := (h2 f List.mem_cons_self).outOf_nil
    apply ih (h.addState f o1 o2)
    · intro g hg
      rw [addState_of_outOf_nil c₁ f o1]
      exact h1 g (List.mem_cons_of_mem _ hg)
    · intro g hg
      rw [addState_of_outOf_nil c₂ f o2]
      exact h2 g (List.mem_cons_of_mem _ hg)

/-- **(f)** with states declared after the event: harmless as long as they are final (and new, and no
transition of the body leaves them). -/
theorem any_partial_q (p : List Stmt) (fs : List SDecl) (e t : Name) (kw : Kw)
    (hev : kw.event = []) (hint : kw.internal = false)
    (hfresh : e ∉ (elabBody {} p).attrs.map (·.1))
    (hfinal : ∀ f ∈ fs, f.final = true)
    (hnew : ∀ f ∈ fs, f.name ∉ (declared (elabBody {} p).attrs).map (·.name) ∧
      ∀ t' ∈ (elabBody {} p).trans, t'.source ≠ .st f.name) :
    Equiv (elabClass {} (p ++ [.assign e (.fromAny t kw)] ++ fs.map .state))
      (elabClass {} (p ++ [.assign e (.from_ t
        (((declared (elabBody {} p).attrs ++ fs).filter (!·.final)).map (·.name)) kw)] ++ fs.map .state)) := by
  have hfilter : (declared (elabBody {} p).attrs ++ fs).filter (!·.final) =
      (declared (elabBody {} p).attrs).filter (!·.final) := by
    rw [List.filter_append]
    have : fs.filter (!·.final) = [] := by
      simp only [List.filter_eq_nil_iff]
      intro f hf
      simp [hfinal f hf]
    rw [this, List.append_nil]
  rw [hfilter]
  obtain ⟨hb, hu⟩ := elabBody_spec p {} BodyInv.empty
  generalize hcb : elabBody {} p = cb at hb hu hfresh hnew
  let n := cb.trans.length
  let tA := mkT .any t kw
  let names := cb.attrs.map (·.1)
  let ss := ((declared cb.attrs).filter (!·.final)).map (·.name)
  let X₀ : List TDef := ss.map (fun s => mkT (.st s) t kw)
  let start₁ : Cls := { (push cb [tA]).1 with attrs := [] }
  have hA : tA.source = .any := rfl
  have hAe : tA.events = [] := by simp [tA, mkT, hev, kwEvents]
  have hX : ∀ x ∈ X₀, x.events = [] := by
    intro x hx
    simp only [X₀, List.mem_map] at hx
    obtain ⟨s, _, rfl⟩ := hx
    simp [mkT, hev, kwEvents]
  have hInv : Inv n tA names start₁ := by
    refine ⟨by simp [start₁, push, n], ?_, ?_⟩
    · intro t' ht' ev hev'
      have hp : plainEv ev := by
        simp only [start₁, push, List.mem_append, List.mem_singleton] at ht'
        rcases ht' with h | h
        · exact hb.plain t' h ev hev'
        · subst h; rw [hAe] at hev'; simp at hev'
      cases ev with
      | ph v => trivial
      | real k tl => cases tl with
        | none => trivial
        | some idxs => exact hp.elim
    · intro t' ht'
      simp [start₁, push, n] at ht'
  have hattrs : ∀ a ∈ cb.attrs, okAttr n names a := hb.idx
  have hstart₂ : ({ (push cb X₀).1 with attrs := [] } : Cls) = spl n X₀ start₁ := by
    have e1 : X₀.any badInternal = false := by
      simp only [List.any_eq_false]
      intro x hx
      simp only [X₀, List.mem_map] at hx
      obtain ⟨s, _, rfl⟩ := hx
      simp [badInternal_mkT _ _ _ hint]
    simp [spl, splice, start₁, push, n, e1, badInternal_mkT _ _ _ hint, tA]
  obtain ⟨hfold, hInvc⟩ := foldl_processAttr_spl (X := X₀) hA hX cb.attrs start₁ hInv hattrs
  have hstates : (cb.attrs.foldl processAttr start₁).states = declared cb.attrs := by
    rw [foldl_processAttr_states]
    simp [start₁, push, hu.states]
  have hXeq : (((cb.attrs.foldl processAttr start₁).states.filter (!·.final)).map
      (fun s => ({ tA with source := .st s.name } : TDef))) = X₀ := by
    rw [hstates]
    simp only [X₀, ss, List.map_map]
    rfl
  have hstep := estep hInvc hA hAe (by simp [tA, mkT, hint]) e hfresh
  simp only [hXeq] at hstep
  have hlen : X₀.length = ss.length := by simp [X₀]
  -- sources: nothing in either store leaves a state of `fs`
  have hdecl : ∀ f ∈ fs, ∀ s ∈ declared cb.attrs, Src.st s.name ≠ .st f.name := by
    intro f hf s hs heq
    simp only [Src.st.injEq] at heq
    exact (hnew f hf).1 (List.mem_map.mpr ⟨s, hs, heq⟩)
  have hsrc₁ : ∀ f ∈ fs, AllSrc (fun src => src ≠ .st f.name)
      (processAttr (cb.attrs.foldl processAttr start₁) (e, .tl [n])) := by
    intro f hf
    have h0 : AllSrc (fun src => src ≠ .st f.name) start₁ := by
      intro t' ht'
      simp only [start₁, push, List.mem_append, List.mem_singleton] at ht'
      rcases ht' with h | h
      · exact (hnew f hf).2 t' h
      · subst h; simp [tA, mkT]
    have := AllSrc.foldl_processAttr (cb.attrs ++ [(e, .tl [n])]) h0
      (by simp [start₁, push, hu.states])
      (by
        intro s hs
        have : declared (cb.attrs ++ [(e, AttrVal.tl [n])]) = declared cb.attrs := by
          simp [declared, List.filterMap_append]
        rw [this] at hs
        exact hdecl f hf s hs)
    simpa [List.foldl_append] using this
  have hsrc₂ : ∀ f ∈ fs, AllSrc (fun src => src ≠ .st f.name)
      (processAttr (spl n X₀ (cb.attrs.foldl processAttr start₁)) (e, .tl (List.range' n X₀.length))) := by
    intro f hf
    have h0 : AllSrc (fun src => src ≠ .st f.name) (spl n X₀ start₁) := by
      rw [← hstart₂]
      intro t' ht'
      simp only [push, List.mem_append] at ht'
      rcases ht' with h | h
      · exact (hnew f hf).2 t' h
      · simp only [X₀, ss, List.mem_map] at h
        obtain ⟨nm, ⟨s, hs, rfl⟩, rfl⟩ := h
        exact hdecl f hf s (List.mem_filter.mp hs).1
    have := AllSrc.foldl_processAttr (cb.attrs ++ [(e, .tl (List.range' n X₀.length))]) h0
      (by simp [start₁, push, hu.states])
      (by
        intro s hs
        have : declared (cb.attrs ++ [(e, AttrVal.tl (List.range' n X₀.length))]) = declared cb.attrs := by
          simp [declared, List.filterMap_append]
        rw [this] at hs
        exact hdecl f hf s hs)
    rw [List.foldl_append, hfold] at this
    simpa using this
  rw [elabClass_empty, elabClass_empty, elabBody_states_after, elabBody_states_after, hcb]
  show Equiv (elabMeta (addAttrs (addAttr (push cb [tA]).1 e (.tl (List.range' n 1))) (stateAttrs fs)))
    (elabMeta (addAttrs (addAttr (push cb X₀).1 e
      (.tl (List.range' n (ss.map (fun s => mkT (.st s) t kw)).length))) (stateAttrs fs)))
  rw [elabMeta_addAttrs_states, elabMeta_addAttrs_states]
  have hl1 : List.range' n 1 = [n] := rfl
  have ha1 : (push cb [tA]).1.attrs = cb.attrs := rfl
  have ha2 : (push cb X₀).1.attrs = cb.attrs := rfl
  rw [hl1, ha1, ha2, hstart₂, hfold]
  simp only [List.length_map] at hlen ⊢
  rw [← hlen] at *
  exact (FinRel.updateRefs (FinRel.foldl_addState fs hstep hsrc₁ hsrc₂)).equiv

end SMV.Decl
