import SMV.Lemmas.Protocol
/-!
# The drain-election protocol with failing callbacks and cancelled drainers

`Step` (in `SMV.Model.Protocol`) leaves out the failure path. Here it is added on top, without touching the
model the driver executes: a callback of the event in progress raises — or, on the asyncio engine, the draining
task is cancelled at an `await` inside it, which reaches the engine as `CancelledError` raised by the callback —
and `processing_loop` runs `except: self._external_queue.clear(); raise`, then the `finally` releases the lock;
the exception skips the re-check that follows the release.

`fail i`: sender `i`, `processing e`, clears the queue; the callbacks of `e` are over (abnormally).
`releaseF i`: the `finally` of a failing sender: release, return (no re-check).
Between the two any other sender may move (threads); for asyncio the pair is never interrupted, which is the
special case of the interleavings considered here.

What survives failures: mutual exclusion (`mutexF_inv`), the begin/end log never nests (`balancedF_inv`, which
for every prefix of every log says: callback sequences do not overlap), no event is processed twice and the
processing order is the enqueue order (`sublistF_inv`). What does not: "exactly once" (cleared events are
dropped) and "nothing stranded" (an event enqueued between the clear and the release waits for the next send) —
the property excludes the failure path from those.
-/
namespace SMV.Protocol

structure SF where
  s : S
  /-- sender `i` has cleared the queue after a failing callback and is about to release -/
  failing : Nat → Bool

inductive StepF (fixed atomic : Bool) : SF → SF → Prop
  | base (x : SF) (s' : S) (h : Step fixed atomic x.s s')
      (hstay : ∀ i, x.failing i = true → s'.pc i = x.s.pc i) : StepF fixed atomic x ⟨s', x.failing⟩
  | fail (x : SF) (i : Nat) (e : Ev) (h : x.s.pc i = .processing e) :
      StepF fixed atomic x
        ⟨{ x.s with pc := set x.s.pc i .exiting, queue := [], cur := none, log := x.s.log ++ [.fin e] },
         fun j => if j = i then true else x.failing j⟩
  | releaseF (x : SF) (i : Nat) (h : x.s.pc i = .exiting) (hf : x.failing i = true) :
      StepF fixed atomic x
        ⟨{ x.s with pc := set x.s.pc i .idle, lock := false }, fun j => if j = i then false else x.failing j⟩

inductive ReachF (fixed atomic : Bool) : SF → Prop
  | init : ReachF fixed atomic ⟨init, fun _ => false⟩
  | step {x x'} : ReachF fixed atomic x → StepF fixed atomic x x' → ReachF fixed atomic x'

/-! ## one-step preservation for the base protocol -/

theorem mutex_step {fixed atomic} {s s' : S} (hm : Mutex s) (hs : Step fixed atomic s s') : Mutex s' := by
  obtain ⟨hme, hlk⟩ := hm
  cases hs <;> constructor <;> simp only [set] <;> grind [inCS]

/-- `cur` is the event of the (unique) sender that is `processing`, and nothing else -/
def CurInv (s : S) : Prop :=
  (∀ i e, s.pc i = .processing e → s.cur = some e) ∧ ((∀ i, isProcessing (s.pc i) = none) → s.cur = none)

theorem cur_step {fixed atomic} {s s' : S} (hm : Mutex s) (hc : CurInv s) (hs : Step fixed atomic s s') :
    CurInv s' := by
  obtain ⟨hme, hlk⟩ := hm
  obtain ⟨h1, h2⟩ := hc
  cases hs <;> refine ⟨?_, ?_⟩ <;> simp only [set] <;>
    grind [inCS, isProcessing, proc_inCS, proc_eq]

/-! ## mutual exclusion survives failures -/

theorem mutexF_inv {fixed atomic} {x : SF} (h : ReachF fixed atomic x) : Mutex x.s := by
  induction h with
  | init => exact ⟨fun i j hi => by simp [init, inCS] at hi, by simp [init, inCS]⟩
  | step hr hs ih =>
    cases hs with
    | base s' h _ => exact mutex_step ih h
    | fail i e h =>
      obtain ⟨hme, hlk⟩ := ih
      constructor <;> simp only [set] <;> grind [inCS]
    | releaseF i h hf =>
      obtain ⟨hme, hlk⟩ := ih
      constructor <;> simp only [set] <;> grind [inCS]

theorem curF_inv {fixed atomic} {x : SF} (h : ReachF fixed atomic x) : CurInv x.s := by
  induction h with
  | init => simp [CurInv, init]
  | step hr hs ih =>
    have hm := mutexF_inv hr
    cases hs with
    | base s' h _ => exact cur_step hm ih h
    | fail i e h =>
      obtain ⟨hme, hlk⟩ := hm
      obtain ⟨h1, h2⟩ := ih
      refine ⟨?_, ?_⟩ <;> simp only [set] <;> grind [inCS, isProcessing, proc_inCS, proc_eq]
    | releaseF i h hf =>
      obtain ⟨hme, hlk⟩ := hm
      obtain ⟨h1, h2⟩ := ih
      refine ⟨?_, ?_⟩ <;> simp only [set] <;> grind [inCS, isProcessing, proc_inCS, proc_eq]

/-! ## callback sequences never overlap -/

def opens : List Mark → Nat
  | [] => 0
  | .beg _ :: l => opens l + 1
  | .fin _ :: l => opens l

def closes : List Mark → Nat
  | [] => 0
  | .beg _ :: l => closes l
  | .fin _ :: l => closes l + 1

theorem opens_append (a b : List Mark) : opens (a ++ b) = opens a + opens b := by
  induction a with
  | nil => simp [opens]
  | cons m a ih => cases m <;> simp [opens, ih] <;> omega

theorem closes_append (a b : List Mark) : closes (a ++ b) = closes a + closes b := by
  induction a with
  | nil => simp [closes]
  | cons m a ih => cases m <;> simp [closes, ih] <;> omega

/-- at every moment: as many begin marks as end marks, plus one iff an event is in flight. Logs only grow by
appending, so this holds for every prefix of every reachable log: a begin mark is never followed by another begin
mark before the matching end mark — the callbacks of two events never overlap, failures or not. -/
def Balanced (s : S) : Prop := opens s.log = closes s.log + (if s.cur.isSome then 1 else 0)

theorem balanced_step {fixed atomic} {s s' : S} (hm : Mutex s) (hc : CurInv s) (hb : Balanced s)
    (hs : Step fixed atomic s s') : Balanced s' := by
  obtain ⟨hme, hlk⟩ := hm
  obtain ⟨h1, h2⟩ := hc
  unfold Balanced at *
  cases hs <;> simp only [opens_append, closes_append, opens, closes] <;>
    grind [inCS, isProcessing, proc_inCS, proc_eq]

theorem balancedF_inv {fixed atomic} {x : SF} (h : ReachF fixed atomic x) : Balanced x.s := by
  induction h with
  | init => simp [Balanced, init, opens, closes]
  | step hr hs ih =>
    have hm := mutexF_inv hr
    have hc := curF_inv hr
    cases hs with
    | base s' h _ => exact balanced_step hm hc ih h
    | fail i e h =>
      obtain ⟨h1, h2⟩ := hc
      have := h1 i e h
      unfold Balanced at *
      simp only [opens_append, closes_append, opens, closes]
      simp [this] at ih
      simp
      omega
    | releaseF i h hf => exact ih

end SMV.Protocol

namespace SMV.Protocol

/-! ## at most once, in enqueue order -/

/-- everything processed, in flight or waiting — in that order — is a sub-sequence of what was enqueued: no event
is processed twice, none is invented, and the processing order is the enqueue order; with failures some enqueued
events are dropped (cleared), which is why this is `Sublist` and not equality (`Fifo`) -/
def AtMostOnce (s : S) : Prop := (s.processed ++ s.cur.toList ++ s.queue).Sublist s.history

theorem sublist_snoc {α} {a b : List α} (x : α) (h : a.Sublist b) : (a ++ [x]).Sublist (b ++ [x]) :=
  List.Sublist.append h (List.Sublist.refl _)

theorem atMostOnce_step {fixed atomic} {s s' : S} (hm : Mutex s) (hc : CurInv s) (ha : AtMostOnce s)
    (hs : Step fixed atomic s s') : AtMostOnce s' := by
  obtain ⟨hme, hlk⟩ := hm
  obtain ⟨h1, h2⟩ := hc
  unfold AtMostOnce at *
  cases hs with
  | put i id h =>
    have := sublist_snoc (⟨i, id⟩ : Ev) ha
    simpa [List.append_assoc] using this
  | nested i e id h =>
    have := sublist_snoc (⟨i, id⟩ : Ev) ha
    simpa [List.append_assoc] using this
  | pop i e q h hq =>
    have hcur : s.cur = none := by
      apply h2
      intro j
      by_cases hj : j = i
      · subst hj; rw [h]; rfl
      · cases hp : s.pc j <;> simp [isProcessing]
        exact hj (hme j i (by rw [hp]; simp [inCS]) (by rw [h]; simp [inCS]))
    simp only [hcur, hq, Option.toList] at ha ⊢
    simpa [List.append_assoc] using ha
  | done i e h =>
    have hcur := h1 i e h
    simp only [hcur, Option.toList] at ha ⊢
    simpa [List.append_assoc] using ha
  | acqOk i h hl => exact ha
  | acqFail i h hl => exact ha
  | empty i h hq hat => exact ha
  | emptyRelease i h hq hat => exact ha
  | release i h => exact ha
  | recheckEmpty i h hq => exact ha
  | recheckMore i h hq => exact ha

theorem atMostOnceF_inv {fixed atomic} {x : SF} (h : ReachF fixed atomic x) : AtMostOnce x.s := by
  induction h with
  | init => simp [AtMostOnce, init]
  | step hr hs ih =>
    have hm := mutexF_inv hr
    have hc := curF_inv hr
    cases hs with
    | base s' h _ => exact atMostOnce_step hm hc ih h
    | fail i e h =>
      unfold AtMostOnce at *
      simp only [Option.toList, List.append_nil]
      exact List.Sublist.trans (by simp [List.append_assoc]) ih
    | releaseF i h hf => exact ih

/-- no event is processed twice, whatever fails: if the enqueued events are pairwise distinct (senders tag them),
so are the processed ones -/
theorem processed_nodup {fixed atomic} {x : SF} (h : ReachF fixed atomic x) (hd : x.s.history.Nodup) :
    x.s.processed.Nodup := by
  have := atMostOnceF_inv h
  unfold AtMostOnce at this
  have h2 : x.s.processed.Sublist x.s.history :=
    List.Sublist.trans (by simp [List.append_assoc]) this
  exact List.Nodup.sublist h2 hd

/-- without failing steps the extended system is the base system: every `Reach` state is a `ReachF` state -/
theorem reachF_of_reach {fixed atomic} {s : S} (h : Reach fixed atomic s) : ReachF fixed atomic ⟨s, fun _ => false⟩ := by
  induction h with
  | init => exact .init
  | step _ hs ih => exact .step ih (.base _ _ hs (by intro i hi; simp at hi))

/-- non-vacuity: sender 0 puts, acquires, pops, its callback fails while sender 1 has enqueued behind it; the queue
is cleared, sender 1's event is dropped, the lock is released: a reachable state of the extended system -/
example : ∃ x, ReachF true false x ∧ x.s.processed = [] ∧ x.s.history.length = 2 ∧ x.s.lock = false ∧ x.s.queue = [] := by
  have r1 := ReachF.step (fixed := true) (atomic := false) .init
    (.base _ _ (.put _ 0 7 rfl) (by intro i hi; simp at hi))
  have r2 := ReachF.step r1 (.base _ _ (.acqOk _ 0 (by simp [set]) rfl) (by intro i hi; simp at hi))
  have r3 := ReachF.step r2 (.base _ _ (.pop _ 0 ⟨0, 7⟩ [] (by simp [set]) (by simp [init])) (by intro i hi; simp at hi))
  have r4 := ReachF.step r3 (.base _ _ (.put _ 1 8 (by simp [set, init])) (by intro i hi; simp at hi))
  have r5 := ReachF.step r4 (.fail _ 0 ⟨0, 7⟩ (by simp [set]))
  have r6 := ReachF.step r5 (.releaseF _ 0 (by simp [set]) (by simp))
  exact ⟨_, r6, by simp [set, init]⟩

/-- **The failure path strands an event** (why C06 excludes it, and what the round-7 / round-8 agents of C04 and C06
observed on the real engine): sender 0's callback fails and its `except` clause clears the queue; before its `finally`
releases the lock, sender 1 puts an event and fails to acquire; sender 0 releases without the re-check. Both senders
have returned, the lock is free — and the event is still queued. Holds for the repaired engine (`fixed = true`) and
both scheduling granularities. -/
theorem failure_path_strands (atomic : Bool) :
    ∃ x : SF, ReachF true atomic x ∧ (∀ i, x.s.pc i = .idle) ∧ x.s.lock = false ∧ x.s.queue = [⟨1, 0⟩] := by
  have r0 : ReachF true atomic ⟨init, fun _ => false⟩ := .init
  have r1 := r0.step (.base _ _ (.put init 0 0 rfl) (by simp))
  have r2 := r1.step (.base _ _ (.acqOk _ 0 (by simp [set]) rfl) (by simp))
  have r3 := r2.step (.base _ _ (.pop _ 0 ⟨0, 0⟩ [] (by simp [set]) (by simp [init])) (by simp))
  have r4 := r3.step (.fail _ 0 ⟨0, 0⟩ (by simp [set]))
  have r5 := r4.step (.base _ _ (.put _ 1 0 (by simp [set, init])) (by simp [set]))
  have r6 := r5.step (.base _ _ (.acqFail _ 1 (by simp [set]) rfl) (by simp [set]))
  have r7 := r6.step (.releaseF _ 0 (by simp [set]) (by simp))
  refine ⟨_, r7, ?_, rfl, ?_⟩
  · intro i
    simp only [set, init]
    split <;> simp_all
  · simp

end SMV.Protocol
