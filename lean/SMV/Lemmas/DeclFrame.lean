import SMV.Lemmas.DeclBody
/-!
# Frame lemmas for `class Sub(Base): body` (C16, known finding D7)

A base class and its subclasses share the `State` objects, hence (in the store model) the store.
`Frame b P c`: the store of `c` is `b` (untouched) followed by entries that all satisfy `P`.
With `b` = the base's store and `P t` = "the source of `t` is neither `AnyState` nor a state of the
base, and every transition list carried by an event on `t` lists positions beyond `b`", the frame is
kept by every step of the subclass's elaboration:

* the body (`elabBody`) only appends (`push`) and modifies positions listed by its own attributes;
* `inherit` registers the base's states with `addStateInh` (events by id only: store untouched);
* `elabMeta` runs `_on_event_defined` for lists that point beyond `b` only; no listed entry is
  `AnyState`-sourced, so nothing is expanded;
* `_update_event_references` rewrites entries that hold a placeholder; those of `b` hold none.

Imports `DeclBody` only (not the `DeclAny*` chain, which pulls in `DeclEngine` and clashes with
`SMV.Props.C01` in modules that import both C01 and C16); the three small lemmas needed from that
chain are re-proved here as `private`.
-/
namespace SMV.Decl

private theorem expandAny_noop' (ev : EvRef) (sts : List SDecl) (idxs : List Nat) (c : Cls)
    (h : ∀ i ∈ idxs, ∀ t, c.trans[i]? = some t → t.source ≠ .any) :
    idxs.foldl (expandAny ev sts) c = c := by
  induction idxs with
  | nil => rfl
  | cons i is ih =>
    simp only [List.foldl_cons]
    have h1 : expandAny ev sts c i = c := by
      unfold expandAny
      cases hi : c.trans[i]? with
      | none => rfl
      | some t =>
        have := h i List.mem_cons_self t hi
        simp [this]
    rw [h1]
    exact ih (fun j hj => h j (List.mem_cons_of_mem _ hj))

private theorem addEvent_some' (c : Cls) (id : Name) (idxs : List Nat) :
    addEvent c (.real id (some idxs)) =
      (if (onEventDefined c id idxs).events.contains id then onEventDefined c id idxs
       else { onEventDefined c id idxs with events := (onEventDefined c id idxs).events ++ [id] }) := by
  cases hE : idxs.isEmpty
  · simp only [addEvent, hE, Bool.false_eq_true, ↓reduceIte]
  · have : idxs = [] := List.isEmpty_iff.mp hE
    subst this
    rfl

private theorem map_noPh' (g : TDef → TDef) (l : List TDef) (hg : ∀ t ∈ l, g t = t) : l.map g = l := by
  induction l with
  | nil => rfl
  | cons a l ih =>
    simp only [List.map_cons, hg a List.mem_cons_self, ih (fun t ht => hg t (List.mem_cons_of_mem _ ht))]

/-- the sources of the `Transition` objects an expression creates -/
def TExpr.srcs : TExpr → List Src
  | .to s _ _ => [.st s]
  | .from_ _ ss _ => ss.map .st
  | .toItself s _ => [.st s]
  | .fromItself s _ => [.st s]
  | .fromAny _ _ => [.any]
  | .or a b => a.srcs ++ b.srcs
  | .ref _ => []

/-- the sources of the `Transition` objects a statement creates -/
def Stmt.srcs : Stmt → List Src
  | .assign _ e => e.srcs
  | .bare e => e.srcs
  | .eventOf _ e => e.srcs
  | .decorated e _ _ => e.srcs
  | .state _ => []
  | .statesDict _ => []
  | .statesEnum _ _ _ => []
  | .placeholder _ => []

/-- the states a statement declares -/
def Stmt.decls : Stmt → List SDecl
  | .state s => [s]
  | .statesDict ss => ss
  | .statesEnum ms i fs => enumStates ms i fs
  | _ => []

/-- the base class as its instances see it after `class Sub(base): p` was executed: its own
registry, the shared store as the subclass left it -/
def baseAfter (base : Cls) (p : List Stmt) : Cls := { base with trans := (elabClass base p).trans }

/-- the store is `b`, untouched, followed by entries satisfying `P` -/
def Frame (b : List TDef) (P : TDef → Prop) (c : Cls) : Prop :=
  ∃ new, c.trans = b ++ new ∧ ∀ t ∈ new, P t

/-- every transition list carried by the event reference lists positions `≥ n` only -/
def hiEv (n : Nat) : EvRef → Prop
  | .real _ (some idxs) => ∀ i ∈ idxs, n ≤ i
  | _ => True

/-- the new entries: good source, events with high lists only -/
def newOk (n : Nat) (G : Src → Prop) (t : TDef) : Prop := G t.source ∧ ∀ e ∈ t.events, hiEv n e

/-- attributes of the subclass namespace: lists are high, declared states are fresh for `b` -/
def hiAttr (b : List TDef) : Name × AttrVal → Prop
  | (_, .state s) => ∀ t ∈ b, t.source ≠ .st s.name
  | (_, .tl idxs) => ∀ i ∈ idxs, b.length ≤ i
  | (_, .event (some idxs)) => ∀ i ∈ idxs, b.length ≤ i
  | (_, .event none) => True

section
variable {b : List TDef} {P Q : TDef → Prop} {G : Src → Prop}

theorem Frame.mono {c : Cls} (h : Frame b P c) (hPQ : ∀ t, P t → Q t) : Frame b Q c := by
  obtain ⟨new, h1, h2⟩ := h
  exact ⟨new, h1, fun t ht => hPQ t (h2 t ht)⟩

theorem Frame.of_trans {c c' : Cls} (h : Frame b P c) (e : c'.trans = c.trans) : Frame b P c' := by
  obtain ⟨new, h1, h2⟩ := h
  exact ⟨new, e ▸ h1, h2⟩

theorem plainEv.hi {n : Nat} {e : EvRef} (h : plainEv e) : hiEv n e := by
  cases e with
  | ph v => trivial
  | real id tl => cases tl with
    | none => trivial
    | some idxs => exact h.elim

/-! ### store surgery beyond the prefix -/

theorem modify_append_right (f : TDef → TDef) (b l : List TDef) (i : Nat) (h : b.length ≤ i) :
    (b ++ l).modify i f = b ++ l.modify (i - b.length) f := by
  induction b generalizing i with
  | nil => simp
  | cons a b ih =>
    cases i with
    | zero => simp at h
    | succ i =>
      simp only [List.length_cons, Nat.add_le_add_iff_right] at h
      simp only [List.cons_append, List.modify_succ_cons, List.length_cons, Nat.add_sub_add_right, ih i h]

theorem foldl_modify_append (f : TDef → TDef) (idxs : List Nat) (b l : List TDef)
    (h : ∀ i ∈ idxs, b.length ≤ i) :
    idxs.foldl (modifyAt f) (b ++ l) = b ++ (idxs.map (· - b.length)).foldl (modifyAt f) l := by
  induction idxs generalizing l with
  | nil => rfl
  | cons i is ih =>
    simp only [List.foldl_cons, List.map_cons]
    rw [show modifyAt f (b ++ l) i = b ++ modifyAt f l (i - b.length) from
      modify_append_right f b l i (h i List.mem_cons_self)]
    exact ih _ (fun j hj => h j (List.mem_cons_of_mem _ hj))

theorem Frame.modify {c : Cls} (h : Frame b P c) (f : TDef → TDef) (hf : ∀ t, P t → P (f t))
    (idxs : List Nat) (hi : ∀ i ∈ idxs, b.length ≤ i) :
    Frame b P { c with trans := idxs.foldl (modifyAt f) c.trans } := by
  obtain ⟨new, h1, h2⟩ := h
  refine ⟨(idxs.map (· - b.length)).foldl (modifyAt f) new, ?_, ?_⟩
  · show idxs.foldl (modifyAt f) c.trans = _
    rw [h1, foldl_modify_append f idxs b new hi]
  · exact foldl_modify_all P f hf _ new h2

theorem Frame.push {c : Cls} (h : Frame b P c) (ts : List TDef) (hts : ∀ t ∈ ts, P t) :
    Frame b P (push c ts).1 ∧ ∀ i ∈ (push c ts).2, b.length ≤ i := by
  obtain ⟨new, h1, h2⟩ := h
  refine ⟨⟨new ++ ts, ?_, ?_⟩, ?_⟩
  · simp only [SMV.Decl.push, h1, List.append_assoc]
  · intro t ht
    rcases List.mem_append.mp ht with h3 | h3
    · exact h2 t h3
    · exact hts t h3
  · intro i hi
    simp only [SMV.Decl.push, List.mem_range'_1, h1, List.length_append] at hi
    omega

theorem Frame.getElem? {c : Cls} (h : Frame b P c) {i : Nat} {t : TDef} (hi : b.length ≤ i)
    (ht : c.trans[i]? = some t) : P t := by
  obtain ⟨new, h1, h2⟩ := h
  rw [h1, List.getElem?_append_right hi] at ht
  exact h2 t (List.mem_of_getElem? ht)

/-! ### the class body -/

theorem mkT_newOk (src : Src) (tgt : Name) (kw : Kw) (h : G src) : newOk b.length G (mkT src tgt kw) :=
  ⟨h, fun e he => (mkT_plain src tgt kw e he).hi⟩

theorem lookupTL_hi (attrs : List (Name × AttrVal)) (h : ∀ a ∈ attrs, hiAttr b a) (a : Name) :
    ∀ i ∈ lookupTL attrs a, b.length ≤ i := by
  induction attrs with
  | nil => intro i hi; simp [lookupTL] at hi
  | cons kv rest ih =>
    obtain ⟨k, v⟩ := kv
    have hrest := ih (fun a ha => h a (List.mem_cons_of_mem _ ha))
    have hkv := h (k, v) List.mem_cons_self
    unfold lookupTL
    split
    · cases v with
      | tl idxs => exact hkv
      | state s => intro i hi; simp at hi
      | event tl => intro i hi; simp at hi
    · exact hrest

theorem evalT_frame (e : TExpr) : ∀ (c : Cls), Frame b (newOk b.length G) c →
    (∀ a ∈ c.attrs, hiAttr b a) → (∀ x ∈ e.srcs, G x) →
    Frame b (newOk b.length G) (evalT c e).1 ∧ (∀ i ∈ (evalT c e).2, b.length ≤ i) ∧
      (evalT c e).1.attrs = c.attrs := by
  induction e with
  | to s ts kw =>
    intro c h _ hs
    have := h.push (ts.map (mkT (.st s) · kw)) (by
      intro t ht
      obtain ⟨x, _, rfl⟩ := List.mem_map.mp ht
      exact mkT_newOk _ _ _ (hs _ (by simp [TExpr.srcs])))
    exact ⟨this.1, this.2, rfl⟩
  | from_ t ss kw =>
    intro c h _ hs
    have := h.push (ss.map (fun s => mkT (.st s) t kw)) (by
      intro t' ht
      obtain ⟨x, hx, rfl⟩ := List.mem_map.mp ht
      exact mkT_newOk _ _ _ (hs _ (by simp [TExpr.srcs, hx])))
    exact ⟨this.1, this.2, rfl⟩
  | toItself s kw =>
    intro c h _ hs
    have := h.push [mkT (.st s) s kw] (by
      intro t ht
      rw [List.mem_singleton.mp ht]
      exact mkT_newOk _ _ _ (hs _ (by simp [TExpr.srcs])))
    exact ⟨this.1, this.2, rfl⟩
  | fromItself s kw =>
    intro c h _ hs
    have := h.push [mkT (.st s) s kw] (by
      intro t ht
      rw [List.mem_singleton.mp ht]
      exact mkT_newOk _ _ _ (hs _ (by simp [TExpr.srcs])))
    exact ⟨this.1, this.2, rfl⟩
  | fromAny t kw =>
    intro c h _ hs
    have := h.push [mkT .any t kw] (by
      intro t ht
      rw [List.mem_singleton.mp ht]
      exact mkT_newOk _ _ _ (hs _ (by simp [TExpr.srcs])))
    exact ⟨this.1, this.2, rfl⟩
  | or x y ihx ihy =>
    intro c h ha hs
    have hx := ihx c h ha (fun z hz => hs z (by simp [TExpr.srcs, hz]))
    have hy := ihy (evalT c x).1 hx.1 (hx.2.2 ▸ ha) (fun z hz => hs z (by simp [TExpr.srcs, hz]))
    refine ⟨hy.1, ?_, hy.2.2.trans hx.2.2⟩
    intro i hi
    simp only [evalT, List.mem_append] at hi
    rcases hi with h1 | h1
    · exact hx.2.1 i h1
    · exact hy.2.1 i h1
  | ref a =>
    intro c h ha _
    exact ⟨h, lookupTL_hi c.attrs ha a, rfl⟩

theorem addOn_frame {c : Cls} (h : Frame b (newOk b.length G) c) (idxs : List Nat) (cb : CbId)
    (hi : ∀ i ∈ idxs, b.length ≤ i) : Frame b (newOk b.length G) (addOn c idxs cb) := by
  unfold addOn
  apply h.modify _ _ idxs hi
  intro t ht
  split
  · exact ht
  · exact ht

theorem hiAttr_stateAttrs (ss : List SDecl) (h : ∀ s ∈ ss, ∀ t ∈ b, t.source ≠ .st s.name) :
    ∀ a ∈ stateAttrs ss, hiAttr b a := by
  intro a ha
  obtain ⟨s, hs, rfl⟩ := List.mem_map.mp ha
  exact h s hs

theorem elabStmt_frame (c : Cls) (st : Stmt) (h : Frame b (newOk b.length G) c)
    (ha : ∀ a ∈ c.attrs, hiAttr b a) (hs : ∀ x ∈ st.srcs, G x)
    (hd : ∀ s ∈ st.decls, ∀ t ∈ b, t.source ≠ .st s.name) :
    Frame b (newOk b.length G) (elabStmt c st) ∧ ∀ a ∈ (elabStmt c st).attrs, hiAttr b a := by
  have hadd : ∀ kvs : List (Name × AttrVal), (∀ a ∈ kvs, hiAttr b a) →
      Frame b (newOk b.length G) (addAttrs c kvs) ∧ ∀ a ∈ (addAttrs c kvs).attrs, hiAttr b a := by
    intro kvs hk
    refine ⟨h.of_trans rfl, ?_⟩
    intro a ha'
    rcases List.mem_append.mp ha' with h1 | h1
    · exact ha a h1
    · exact hk a h1
  cases st with
  | state s => exact hadd _ (hiAttr_stateAttrs [s] hd)
  | statesDict ss => exact hadd _ (hiAttr_stateAttrs ss hd)
  | statesEnum ms i fs => exact hadd _ (hiAttr_stateAttrs _ hd)
  | placeholder a =>
    refine ⟨h.of_trans rfl, ?_⟩
    intro x hx
    rcases List.mem_append.mp hx with h1 | h1
    · exact ha x h1
    · rw [List.mem_singleton.mp h1]; trivial
  | assign a e =>
    obtain ⟨h1, h2, h3⟩ := evalT_frame e c h ha hs
    refine ⟨h1.of_trans rfl, ?_⟩
    intro x hx
    rcases List.mem_append.mp hx with h4 | h4
    · exact ha x (h3 ▸ h4)
    · rw [List.mem_singleton.mp h4]; exact h2
  | bare e =>
    obtain ⟨h1, _, h3⟩ := evalT_frame e c h ha hs
    exact ⟨h1, fun x hx => ha x (h3 ▸ hx)⟩
  | eventOf a e =>
    obtain ⟨h1, h2, h3⟩ := evalT_frame e c h ha hs
    refine ⟨h1.of_trans rfl, ?_⟩
    intro x hx
    rcases List.mem_append.mp hx with h4 | h4
    · exact ha x (h3 ▸ h4)
    · rw [List.mem_singleton.mp h4]; exact h2
  | decorated e f cb =>
    obtain ⟨h1, h2, h3⟩ := evalT_frame e c h ha hs
    refine ⟨(addOn_frame h1 _ cb h2).of_trans rfl, ?_⟩
    intro x hx
    rcases List.mem_append.mp hx with h4 | h4
    · exact ha x (h3 ▸ h4)
    · rw [List.mem_singleton.mp h4]; exact h2

theorem elabBody_frame (p : List Stmt) : ∀ (c : Cls), Frame b (newOk b.length G) c →
    (∀ a ∈ c.attrs, hiAttr b a) → (∀ st ∈ p, ∀ x ∈ st.srcs, G x) →
    (∀ st ∈ p, ∀ s ∈ st.decls, ∀ t ∈ b, t.source ≠ .st s.name) →
    Frame b (newOk b.length G) (elabBody c p) ∧ ∀ a ∈ (elabBody c p).attrs, hiAttr b a := by
  induction p with
  | nil => intro c h ha _ _; exact ⟨h, ha⟩
  | cons st p ih =>
    intro c h ha hs hd
    obtain ⟨h1, h2⟩ := elabStmt_frame c st h ha (hs st List.mem_cons_self) (hd st List.mem_cons_self)
    exact ih _ h1 h2 (fun s hs' => hs s (List.mem_cons_of_mem _ hs'))
      (fun s hs' => hd s (List.mem_cons_of_mem _ hs'))

/-! ### inheritance: the store is not touched -/

theorem addEvent_dropTl_trans (c : Cls) (e : EvRef) :
    (addEvent c (dropTl e)).trans = c.trans ∧ (addEvent c (dropTl e)).attrs = c.attrs := by
  cases e with
  | ph v => simp only [dropTl, addEvent]; split <;> exact ⟨rfl, rfl⟩
  | real id tl => simp only [dropTl, addEvent]; split <;> exact ⟨rfl, rfl⟩

theorem foldl_addEvent_dropTl (evs : List EvRef) (c : Cls) :
    (evs.foldl (fun c e => addEvent c (dropTl e)) c).trans = c.trans ∧
    (evs.foldl (fun c e => addEvent c (dropTl e)) c).attrs = c.attrs := by
  induction evs generalizing c with
  | nil => exact ⟨rfl, rfl⟩
  | cons e es ih =>
    simp only [List.foldl_cons]
    have := addEvent_dropTl_trans c e
    exact ⟨(ih _).1.trans this.1, (ih _).2.trans this.2⟩

theorem addStateInh_trans (c : Cls) (s : SDecl) :
    (addStateInh c s).trans = c.trans ∧ (addStateInh c s).attrs = c.attrs := by
  unfold addStateInh
  exact foldl_addEvent_dropTl _ _

theorem inherit_trans (base c : Cls) :
    (inherit base c).trans = c.trans ∧ (inherit base c).attrs = c.attrs := by
  unfold inherit inheritV
  simp only [↓reduceIte]
  have h1 : ∀ (ss : List SDecl) (c : Cls), (ss.foldl addStateInh c).trans = c.trans ∧
      (ss.foldl addStateInh c).attrs = c.attrs := by
    intro ss
    induction ss with
    | nil => intro c; exact ⟨rfl, rfl⟩
    | cons s ss ih =>
      intro c
      simp only [List.foldl_cons]
      exact ⟨(ih _).1.trans (addStateInh_trans c s).1, (ih _).2.trans (addStateInh_trans c s).2⟩
  have h2 : ∀ (es : List Name) (c : Cls), (es.foldl (fun c e => addEvent c (.real e none)) c).trans = c.trans ∧
      (es.foldl (fun c e => addEvent c (.real e none)) c).attrs = c.attrs := by
    intro es
    induction es with
    | nil => intro c; exact ⟨rfl, rfl⟩
    | cons e es ih =>
      intro c
      simp only [List.foldl_cons]
      have := addEvent_dropTl_trans c (.real e none)
      exact ⟨(ih _).1.trans this.1, (ih _).2.trans this.2⟩
  exact ⟨(h2 _ _).1.trans (h1 _ _).1, (h2 _ _).2.trans (h1 _ _).2⟩

/-! ### the metaclass -/

theorem hiEv_addEv {n : Nat} {l : List EvRef} {e : EvRef} (hl : ∀ x ∈ l, hiEv n x) (he : hiEv n e) :
    ∀ x ∈ addEv l e, hiEv n x := by
  intro x hx
  rcases mem_addEv hx with h | h
  · exact hl x h
  · exact h ▸ he

theorem onEventDefined_frame {c : Cls} (h : Frame b (newOk b.length G) c) (hG : ∀ x, G x → x ≠ .any)
    (id : Name) (idxs : List Nat) (hi : ∀ i ∈ idxs, b.length ≤ i) :
    Frame b (newOk b.length G) (onEventDefined c id idxs) := by
  unfold onEventDefined
  have h1 : Frame b (newOk b.length G)
      { c with trans := idxs.foldl (modifyAt fun t => { t with events := addEv t.events (.real id (some idxs)) }) c.trans } :=
    h.modify (fun t => { t with events := addEv t.events (.real id (some idxs)) })
      (fun t ht => ⟨ht.1, hiEv_addEv (e := .real id (some idxs)) ht.2 hi⟩) idxs hi
  simp only
  rw [expandAny_noop']
  · exact h1
  · intro i hi' t ht
    exact hG _ (h1.getElem? (hi i hi') ht).1

theorem addEvent_frame {c : Cls} (h : Frame b (newOk b.length G) c) (hG : ∀ x, G x → x ≠ .any)
    (ev : EvRef) (hev : hiEv b.length ev) : Frame b (newOk b.length G) (addEvent c ev) := by
  cases ev with
  | ph v => simp only [addEvent]; split <;> exact h
  | real id tl =>
    cases tl with
    | none => simp only [addEvent]; split <;> exact h.of_trans rfl
    | some idxs =>
      rw [addEvent_some']
      have := onEventDefined_frame h hG id idxs hev
      split
      · exact this
      · exact this.of_trans rfl

theorem foldl_addEvent_frame (evs : List EvRef) {c : Cls} (h : Frame b (newOk b.length G) c)
    (hG : ∀ x, G x → x ≠ .any) (hev : ∀ ev ∈ evs, hiEv b.length ev) :
    Frame b (newOk b.length G) (evs.foldl addEvent c) := by
  induction evs generalizing c with
  | nil => exact h
  | cons e es ih =>
    exact ih (addEvent_frame h hG e (hev e List.mem_cons_self))
      (fun ev hev' => hev ev (List.mem_cons_of_mem _ hev'))

theorem addState_frame {c : Cls} (h : Frame b (newOk b.length G) c) (hG : ∀ x, G x → x ≠ .any)
    (s : SDecl) (hs : ∀ t ∈ b, t.source ≠ .st s.name) :
    Frame b (newOk b.length G) (addState c s) := by
  unfold addState
  refine foldl_addEvent_frame (c := { c with states := c.states ++ [s] }) _ (h.of_trans rfl) hG ?_
  intro ev hev
  obtain ⟨t, ht, hte⟩ := mem_uniqueEvents hev
  obtain ⟨new, h1, h2⟩ := h
  simp only [outOf, h1, List.filter_append, List.mem_append, List.mem_filter] at ht
  rcases ht with ⟨h3, h4⟩ | ⟨h3, _⟩
  · exact absurd (by simpa using h4) (hs t h3)
  · exact (h2 t h3).2 ev hte

theorem processAttr_frame {c : Cls} (h : Frame b (newOk b.length G) c) (hG : ∀ x, G x → x ≠ .any)
    (a : Name × AttrVal) (ha : hiAttr b a) : Frame b (newOk b.length G) (processAttr c a) := by
  obtain ⟨k, v⟩ := a
  cases v with
  | state s => exact addState_frame h hG s ha
  | tl idxs => exact addEvent_frame h hG _ ha
  | event tl =>
    refine (addEvent_frame h hG (.real k (normTl tl)) ?_).of_trans rfl
    cases tl with
    | none => trivial
    | some idxs =>
      cases idxs with
      | nil => trivial
      | cons i is => exact ha

theorem foldl_processAttr_frame (attrs : List (Name × AttrVal)) {c : Cls}
    (h : Frame b (newOk b.length G) c) (hG : ∀ x, G x → x ≠ .any) (ha : ∀ a ∈ attrs, hiAttr b a) :
    Frame b (newOk b.length G) (attrs.foldl processAttr c) := by
  induction attrs generalizing c with
  | nil => exact h
  | cons a as ih =>
    exact ih (processAttr_frame h hG a (ha a List.mem_cons_self))
      (fun x hx => ha x (List.mem_cons_of_mem _ hx))

/-! ### `_update_event_references` -/

theorem noPh_of_real {t : TDef} (h : ∀ e ∈ t.events, ∃ id tl, e = .real id tl) :
    ∀ v, holdsPh t v = false := by
  intro v
  simp only [holdsPh, List.any_eq_false]
  intro e he
  obtain ⟨id, tl, rfl⟩ := h e he
  simp [EvRef.same]

theorem updateRef_frame {c : Cls} (hb : ∀ t ∈ b, ∀ v, holdsPh t v = false) (h : Frame b (fun t => G t.source) c)
    (pe : Name × Option EvRef) : Frame b (fun t => G t.source) (updateRef c pe) := by
  obtain ⟨v, oe⟩ := pe
  cases oe with
  | none => simp only [updateRef]; split <;> exact h.of_trans rfl
  | some e =>
    obtain ⟨new, h1, h2⟩ := h
    simp only [updateRef]
    refine ⟨new.map (fun t => if registered c t && holdsPh t v then
        { t with events := t.events.filter (fun x => !x.same (.ph v)) ++ [e] } else t), ?_, ?_⟩
    · show c.trans.map _ = _
      rw [h1, List.map_append, map_noPh' _ b (fun t ht => by simp [hb t ht v])]
    · intro t ht
      obtain ⟨t0, ht0, rfl⟩ := List.mem_map.mp ht
      split
      · exact h2 t0 ht0
      · exact h2 t0 ht0

theorem updateRefs_frame {c : Cls} (hb : ∀ t ∈ b, ∀ v, holdsPh t v = false) (h : Frame b (fun t => G t.source) c) :
    Frame b (fun t => G t.source) (updateRefs c) := by
  unfold updateRefs
  have : ∀ (ps : List (Name × Option EvRef)) (c : Cls), Frame b (fun t => G t.source) c →
      Frame b (fun t => G t.source) (ps.foldl updateRef c) := by
    intro ps
    induction ps with
    | nil => intro c h; exact h
    | cons p ps ih => intro c h; exact ih _ (updateRef_frame hb h p)
  exact (this _ _ h).of_trans rfl

/-! ### the whole `class Sub(base): p` statement -/

theorem elabClass_frame (base : Cls) (p : List Stmt) (hG : ∀ x, G x → x ≠ .any)
    (hsrc : ∀ st ∈ p, ∀ x ∈ st.srcs, G x)
    (hph : ∀ t ∈ base.trans, ∀ e ∈ t.events, ∃ id tl, e = .real id tl)
    (hfresh : ∀ st ∈ p, ∀ d ∈ st.decls, outOf base d.name = []) :
    Frame base.trans (fun t => G t.source) (elabClass base p) := by
  have h0 : Frame base.trans (newOk base.trans.length G) (startClass base) :=
    ⟨[], by simp [startClass], by simp⟩
  have hd : ∀ st ∈ p, ∀ s ∈ st.decls, ∀ t ∈ base.trans, t.source ≠ .st s.name := by
    intro st hst s hs t ht e
    have := hfresh st hst s hs
    simp only [outOf, List.filter_eq_nil_iff] at this
    exact this t ht (by simp [e])
  obtain ⟨h1, h2⟩ := elabBody_frame p (startClass base) h0 (by simp [startClass]) hsrc hd
  obtain ⟨i1, i2⟩ := inherit_trans base (elabBody (startClass base) p)
  have h3 : Frame base.trans (newOk base.trans.length G) (inherit base (elabBody (startClass base) p)) :=
    h1.of_trans i1
  unfold elabClass elabMeta
  apply updateRefs_frame (fun t ht => noPh_of_real (hph t ht))
  apply Frame.mono (P := newOk base.trans.length G) _ (fun t ht => ht.1)
  refine foldl_processAttr_frame (c := { inherit base (elabBody (startClass base) p) with attrs := [] }) _
    (h3.of_trans rfl) hG ?_
  rw [i2]
  exact h2

/-- decidable form of "the store holds no placeholder event" -/
def EvRef.isReal : EvRef → Bool
  | .real _ _ => true
  | .ph _ => false

theorem real_of_isReal {l : List TDef} (h : ∀ t ∈ l, ∀ e ∈ t.events, e.isReal = true) :
    ∀ t ∈ l, ∀ e ∈ t.events, ∃ id tl, e = EvRef.real id tl := by
  intro t ht e he
  have := h t ht e he
  cases e with
  | real id tl => exact ⟨id, tl, rfl⟩
  | ph v => cases this

/-- what the frame gives for `state.transitions` -/
theorem Frame.outOf {c : Cls} (h : Frame b (fun t => G t.source) c) (s : Name) (hs : ¬ G (.st s)) :
    outOf c s = b.filter (·.source == .st s) := by
  obtain ⟨new, h1, h2⟩ := h
  simp only [SMV.Decl.outOf, h1, List.filter_append]
  have : new.filter (·.source == .st s) = [] := by
    simp only [List.filter_eq_nil_iff]
    intro t ht e
    exact hs ((by simpa using e : t.source = .st s) ▸ h2 t ht)
  rw [this, List.append_nil]

end

end SMV.Decl
