import SMV.Model.Decl
import SMV.Lemmas.DeclEngine
/-!
# From declaration equivalence (`Decl.Equiv`) to engine equivalence (`MEquiv`)
-/
namespace SMV.Decl

theorem applicable_append (e : EventId) (a b : List CbSpec) :
    applicable e (a ++ b) = applicable e a ++ applicable e b := by
  simp [applicable, List.filter_append]

theorem applicable_plain (e : EventId) (l : List CbId) : applicable e (plain l) = l := by
  induction l with
  | nil => rfl
  | cons c cs ih =>
    simp only [plain, List.map_cons] at ih ⊢
    simp only [applicable, List.filter_cons, List.map_cons, if_true] at ih ⊢
    rw [ih]

theorem applicable_only (e e' : EventId) (l : List CbId) :
    applicable e (l.map fun c => ({ id := c, only := some e' } : CbSpec)) = if e' == e then l else [] := by
  induction l with
  | nil => simp [applicable]
  | cons c cs ih =>
    simp only [applicable, List.map_cons, List.filter_cons] at ih ⊢
    by_cases h : (e' == e) = true
    · simp only [h, if_true, List.map_cons] at ih ⊢
      rw [ih]
    · simp only [h] at ih ⊢
      exact ih

theorem applicable_convAux (conv : Name → List CbId) (e : EventId) (l seen : List Name) :
    applicable e (convAux conv l seen) = if e ∈ l ∧ e ∉ seen then conv e else [] := by
  induction l generalizing seen with
  | nil => simp [convAux, applicable]
  | cons a l ih =>
    unfold convAux
    by_cases hs : a ∈ seen
    · have hc : seen.contains a = true := by simpa using hs
      simp only [hc, if_true, ih]
      by_cases hae : e = a
      · subst hae; simp [hs]
      · simp [hae]
    · have hc : seen.contains a = false := by simpa using hs
      simp only [hc, Bool.false_eq_true, ↓reduceIte, applicable_append, applicable_only, ih]
      by_cases hae : e = a
      · subst hae; simp [hs]
      · have h1 : (a == e) = false := by simp; exact fun h => hae h.symm
        simp [hae, h1]

theorem applicable_conv (conv : Name → List CbId) (e : EventId) (l : List CbId) (evs : List Name)
    (h : e ∈ evs) : applicable e (plain l ++ convOf conv evs) = l ++ conv e := by
  simp [applicable_append, applicable_plain, convOf, applicable_convAux, h]

/-- how the engine sees candidate `k` of the state named `n` for event `e` (depends on the class only
through its list of states) -/
def viewOfCand (env : Env) (c : Cls) (n : Name) (e : EventId) (k : Cand) : View :=
  ⟨stateIdx c n, stateIdx c k.target, k.internal, k.validators, k.conds,
   env.genBefore ++ k.before ++ env.convBefore e, env.genOn ++ k.on ++ env.convOn e,
   env.genAfter ++ k.after ++ env.convAfter e⟩

theorem view_toTransn (env : Env) (c : Cls) (n : Name) (e : EventId) (t : TDef)
    (h : e ∈ finalEvents t) :
    view e (toTransn env c n t) = viewOfCand env c n e (cand t) := by
  simp only [view, toTransn, viewOfCand, cand, applicable_conv _ e _ _ h]

theorem viewOfCand_states (env : Env) {c₁ c₂ : Cls} (h : c₁.states = c₂.states) (n : Name) (e : EventId) :
    viewOfCand env c₁ n e = viewOfCand env c₂ n e := by
  funext k
  simp [viewOfCand, stateIdx, h]

theorem candViews_toMachine (env : Env) (c : Cls) (i : StateId) (e : EventId) :
    candViews (toMachine env c) i e =
      match c.states[i]? with
      | none => []
      | some sd => (cands c sd.name e).map (viewOfCand env c sd.name e) := by
  unfold candViews out stateDef toMachine
  simp only [List.getD_eq_getElem?_getD, List.getElem?_map]
  cases hi : c.states[i]? with
  | none => simp
  | some sd =>
    simp only [Option.map_some, Option.getD_some, toStateDef, cands]
    generalize outOf c sd.name = l
    induction l with
    | nil => rfl
    | cons t l ih =>
      simp only [List.map_cons, List.filter_cons]
      have hm : matchesEv (toTransn env c sd.name t) e = (finalEvents t).contains e := rfl
      rw [hm]
      by_cases h : (finalEvents t).contains e = true
      · simp only [h, if_true, List.map_cons, ih, view_toTransn env c sd.name e t (by simpa using h)]
      · simp only [h]
        exact ih

theorem cores_toMachine (env : Env) (c : Cls) :
    (toMachine env c).states.map stateCore =
      c.states.map fun s => ⟨valOf s, s.initial, s.final, s.enter ++ env.convEnter s.name,
        s.exit ++ env.convExit s.name⟩ := by
  simp [toMachine, toStateDef, stateCore, Function.comp_def]

/-- `≈` classes denote engine-equivalent machines, whatever the user code and options are -/
theorem Equiv.toMachine (env : Env) {c₁ c₂ : Cls} (E : Equiv c₁ c₂) :
    MEquiv (toMachine env c₁) (toMachine env c₂) where
  behav := ⟨rfl, rfl⟩
  truthy := rfl
  allow := rfl
  startValue := rfl
  cores := by rw [cores_toMachine, cores_toMachine, E.states]
  cands := by
    intro i e
    rw [candViews_toMachine, candViews_toMachine, ← E.states]
    cases hi : c₁.states[i]? with
    | none => rfl
    | some sd =>
      simp only
      rw [E.cands sd (List.mem_of_getElem? hi) e, viewOfCand_states env E.states]

theorem Equiv.refl (c : Cls) : Equiv c c := ⟨rfl, fun _ => Iff.rfl, fun _ _ _ => rfl, rfl⟩

theorem Equiv.symm {a b : Cls} (h : Equiv a b) : Equiv b a :=
  ⟨h.states.symm, fun e => (h.events e).symm, fun s hs e => (h.cands s (h.states ▸ hs) e).symm, h.err.symm⟩

theorem Equiv.trans {a b c : Cls} (h1 : Equiv a b) (h2 : Equiv b c) : Equiv a c :=
  ⟨h1.states.trans h2.states, fun e => (h1.events e).trans (h2.events e),
   fun s hs e => (h1.cands s hs e).trans (h2.cands s (h1.states ▸ hs) e), h1.err.trans h2.err⟩

end SMV.Decl
