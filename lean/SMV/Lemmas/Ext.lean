import SMV.Lemmas.Resp
/-!
# `Ext t`: what processing trigger `t` in run-to-completion mode does to the configuration

The log grows by entries tagged `t`, the queue grows at the end by freshly numbered triggers,
the lock is untouched.
-/
namespace SMV

structure Ext (t : Nat) (c c' : Cfg) : Prop where
  log : ∃ es, c'.log = c.log ++ es ∧ ∀ e ∈ es, e.tid = t
  queue : ∃ qs, c'.queue = c.queue ++ qs ∧
            qs.map (·.tid) = List.range' c.nextTid (c'.nextTid - c.nextTid)
  mono : c.nextTid ≤ c'.nextTid
  locked : c'.locked = c.locked

theorem Ext.refl (t : Nat) (c : Cfg) : Ext t c c :=
  ⟨⟨[], by simp⟩, ⟨[], by simp⟩, Nat.le_refl _, rfl⟩

theorem Ext.trans {t : Nat} {a b c : Cfg} (h1 : Ext t a b) (h2 : Ext t b c) : Ext t a c := by
  obtain ⟨⟨es1, hl1, ht1⟩, ⟨qs1, hq1, hr1⟩, m1, k1⟩ := h1
  obtain ⟨⟨es2, hl2, ht2⟩, ⟨qs2, hq2, hr2⟩, m2, k2⟩ := h2
  refine ⟨⟨es1 ++ es2, by simp [hl2, hl1], ?_⟩, ⟨qs1 ++ qs2, by simp [hq2, hq1], ?_⟩,
    Nat.le_trans m1 m2, by rw [k2, k1]⟩
  · intro e he
    rcases List.mem_append.mp he with h | h
    · exact ht1 e h
    · exact ht2 e h
  · rw [List.map_append, hr1, hr2]
    have : c.nextTid - a.nextTid = (b.nextTid - a.nextTid) + (c.nextTid - b.nextTid) := by omega
    rw [this, ← List.range'_append_1]
    congr 2
    omega

theorem enqueue_ext (t : Nat) (e : EventId) : Resp (Ext t) (enqueue e) := fun c =>
  ⟨⟨[], by simp [enqueue, EM.modify]⟩, ⟨[{ tid := c.nextTid, event := e }], by simp [enqueue, EM.modify]⟩,
    by simp [enqueue, EM.modify], rfl⟩

theorem Ext.lift (t : Nat) : Lift (Ext t) (fun _ e => e.tid = t) (fun r => r = .none) nestedRtc where
  refl := Ext.refl t
  trans := fun _ _ _ => Ext.trans
  log := fun c es n h => ⟨⟨es, rfl, h⟩, ⟨[], by simp⟩, Nat.le_refl _, rfl⟩
  handler := fun e c => ⟨enqueue_ext t e c, fun r hr => by
    simp [nestedRtc, EM.bind_apply, enqueue, EM.modify] at hr; exact hr.symm⟩

theorem setState_ext (t : Trigger) (v : Val) : Resp (Ext t.tid) (setState t v) := fun c =>
  ⟨⟨[.setState t.tid v], rfl, by simp [Entry.tid]⟩, ⟨[], by simp [setState, EM.modify]⟩, Nat.le_refl _, rfl⟩

theorem entryOk_tid (HR : Res → Prop) (x : Ctx) (ph : Phase) (cb : CbId) :
    EntryOk (fun _ e => e.tid = x.t.tid) HR x ph cb :=
  fun _ => ⟨rfl, fun _ _ => rfl, fun _ => rfl⟩

/-- processing trigger `t` in run-to-completion mode extends the configuration as `Ext t.tid` says -/
theorem trigger_ext (m : Machine) (t : Trigger) : Resp (Ext t.tid) (trigger nestedRtc m t) :=
  trigger_lift (Ext.lift t.tid) m t
    (fun _ _ _ => ⟨fun cb _ => entryOk_tid _ _ _ cb, setState_ext t _⟩)
    (fun _ tr _ _ => ⟨fun ph cb _ => entryOk_tid _ (actCtx t tr) ph cb, setState_ext t _⟩)

end SMV
