import SMV.Model.Validate
/-!
# Worklist reachability (`visit_connected_states`) — generic lemmas

`goW succ fuel work visited` is the deque loop of `statemachine/graph.py` transcribed statement by
statement (well-founded recursion on `(fuel, work.length)`); `go_eq_goW` shows the model's
structurally recursive `go` computes the same list. Proved here, for an arbitrary successor
function: soundness, monotonicity, closure/completeness when the fuel does not run out (`Done`),
and the pigeonhole argument that the fuel cannot run out when it is at least the size of a finite
universe closed under `succ` (`goW_done`). Core Lean only.
-/
namespace SMV.Validate

variable (succ : Nat → List Nat)

/-- reachability as the reflexive-transitive closure of `succ` -/
inductive ReachS : Nat → Nat → Prop
  | refl (a) : ReachS a a
  | step {a b c} : ReachS a b → c ∈ succ b → ReachS a c

/-- the deque loop, one iteration per recursive call -/
def goW : Nat → List Nat → List Nat → List Nat
  | _, [], vis => vis
  | fuel, s :: w, vis =>
    if s ∈ vis then goW fuel w vis
    else match fuel with
      | 0 => vis
      | f + 1 => goW f (w ++ succ s) (s :: vis)
termination_by fuel w => (fuel, w.length)

/-- the model's `go` (pop the visited prefix with `dropWhile`) is the literal loop -/
theorem go_eq_goW (fuel : Nat) (w vis : List Nat) : go succ fuel w vis = goW succ fuel w vis := by
  induction fuel, w, vis using goW.induct succ with
  | case1 fuel vis => rw [goW.eq_def]; cases fuel <;> simp [go]
  | case2 fuel s w vis hs ih =>
    rw [goW.eq_def]; simp only [hs, if_true]; rw [← ih]
    cases fuel with
    | zero => simp [go]
    | succ f => simp [go, hs]
  | case3 s w vis hs => rw [goW.eq_def]; simp [hs, go]
  | case4 s w vis hs f ih =>
    rw [goW.eq_def]; simp only [hs, if_false]; rw [← ih]
    simp [go, hs]

/-- soundness: everything visited is reachable from the root -/
theorem goW_sound (root : Nat) (fuel : Nat) (w vis : List Nat)
    (hw : ∀ x ∈ w, ReachS succ root x) (hv : ∀ x ∈ vis, ReachS succ root x) :
    ∀ x ∈ goW succ fuel w vis, ReachS succ root x := by
  induction fuel, w, vis using goW.induct succ with
  | case1 fuel vis => simpa [goW] using hv
  | case2 fuel s w vis hs ih =>
    rw [goW.eq_def]; simp only [hs, if_true]
    exact ih (fun x hx => hw x (List.mem_cons_of_mem _ hx)) hv
  | case3 s w vis hs =>
    rw [goW.eq_def]; simp only [hs, if_false]; exact hv
  | case4 s w vis hs f ih =>
    rw [goW.eq_def]; simp only [hs, if_false]
    apply ih
    · intro x hx
      rcases List.mem_append.mp hx with h | h
      · exact hw x (List.mem_cons_of_mem _ h)
      · exact ReachS.step (hw s (List.mem_cons_self)) h
    · intro x hx
      rcases List.mem_cons.mp hx with rfl | h
      · exact hw _ (List.mem_cons_self)
      · exact hv x h

/-- the visited set only grows -/
theorem goW_mono (fuel : Nat) (w vis : List Nat) : ∀ x ∈ vis, x ∈ goW succ fuel w vis := by
  induction fuel, w, vis using goW.induct succ with
  | case1 fuel vis => intro x hx; simpa [goW] using hx
  | case2 fuel s w vis hs ih => rw [goW.eq_def]; simp only [hs, if_true]; exact ih
  | case3 s w vis hs => rw [goW.eq_def]; simp only [hs, if_false]; exact fun x hx => hx
  | case4 s w vis hs f ih =>
    rw [goW.eq_def]; simp only [hs, if_false]
    exact fun x hx => ih x (List.mem_cons_of_mem _ hx)

/-- closure: if the fuel never ran out, the result contains the worklist and is closed under `succ`
for everything visited after the start. `Done` = the run did not stop for lack of fuel. -/
def Done : Nat → List Nat → List Nat → Prop
  | _, [], _ => True
  | fuel, s :: w, vis =>
    if s ∈ vis then Done fuel w vis
    else match fuel with
      | 0 => False
      | f + 1 => Done f (w ++ succ s) (s :: vis)
termination_by fuel w => (fuel, w.length)

theorem goW_closed (fuel : Nat) (w vis : List Nat) (hd : Done succ fuel w vis)
    (hc : ∀ a ∈ vis, ∀ b ∈ succ a, b ∈ vis ∨ b ∈ w) :
    (∀ x ∈ w, x ∈ goW succ fuel w vis) ∧
    (∀ a ∈ goW succ fuel w vis, ∀ b ∈ succ a, b ∈ goW succ fuel w vis) := by
  induction fuel, w, vis using goW.induct succ with
  | case1 fuel vis =>
    simp only [goW]
    exact ⟨by simp, fun a ha b hb => by rcases hc a ha b hb with h | h; exact h; cases h⟩
  | case2 fuel s w vis hs ih =>
    rw [Done.eq_def] at hd; simp only [hs, if_true] at hd
    rw [goW.eq_def]; simp only [hs, if_true]
    have := ih hd (fun a ha b hb => by
      rcases hc a ha b hb with h | h
      · exact Or.inl h
      · rcases List.mem_cons.mp h with rfl | h'
        · exact Or.inl hs
        · exact Or.inr h')
    refine ⟨fun x hx => ?_, this.2⟩
    rcases List.mem_cons.mp hx with rfl | h
    · exact goW_mono succ _ _ _ _ hs
    · exact this.1 x h
  | case3 s w vis hs =>
    rw [Done.eq_def] at hd; simp only [hs, if_false] at hd
  | case4 s w vis hs f ih =>
    rw [Done.eq_def] at hd; simp only [hs, if_false] at hd
    rw [goW.eq_def]; simp only [hs, if_false]
    have := ih hd (fun a ha b hb => by
      rcases List.mem_cons.mp ha with rfl | ha'
      · exact Or.inr (List.mem_append_right _ hb)
      · rcases hc a ha' b hb with h | h
        · exact Or.inl (List.mem_cons_of_mem _ h)
        · rcases List.mem_cons.mp h with rfl | h'
          · exact Or.inl (List.mem_cons_self)
          · exact Or.inr (List.mem_append_left _ h'))
    refine ⟨fun x hx => ?_, this.2⟩
    rcases List.mem_cons.mp hx with rfl | h
    · exact goW_mono succ _ _ _ _ (List.mem_cons_self)
    · exact this.1 x (List.mem_append_left _ h)


/-- pigeonhole: inside a finite universe `U` that contains the worklist, the visited set and all
successors, the visited list is duplicate-free, hence never longer than `U`; so a fuel of
`U.length - visited.length` new visits is never exhausted. -/
theorem goW_done (U : List Nat) (hU : ∀ a, ∀ b ∈ succ a, b ∈ U) (fuel : Nat) (w vis : List Nat)
    (hnd : vis.Nodup) (hv : ∀ x ∈ vis, x ∈ U) (hw : ∀ x ∈ w, x ∈ U)
    (hlen : U.length ≤ fuel + vis.length) : Done succ fuel w vis := by
  induction fuel, w, vis using goW.induct succ with
  | case1 fuel vis => simp [Done]
  | case2 fuel s w vis hs ih =>
    rw [Done.eq_def]; simp only [hs, if_true]
    exact ih hnd hv (fun x hx => hw x (List.mem_cons_of_mem _ hx)) hlen
  | case3 s w vis hs =>
    exfalso
    have hnd' : (s :: vis).Nodup := List.nodup_cons.mpr ⟨hs, hnd⟩
    have hsub : (s :: vis) ⊆ U := by
      intro x hx
      rcases List.mem_cons.mp hx with rfl | h
      · exact hw _ List.mem_cons_self
      · exact hv x h
    have := hnd'.length_le_of_subset hsub
    simp only [List.length_cons] at this
    omega
  | case4 s w vis hs f ih =>
    rw [Done.eq_def]; simp only [hs, if_false]
    apply ih
    · exact List.nodup_cons.mpr ⟨hs, hnd⟩
    · intro x hx
      rcases List.mem_cons.mp hx with rfl | h
      · exact hw _ List.mem_cons_self
      · exact hv x h
    · intro x hx
      rcases List.mem_append.mp hx with h | h
      · exact hw x (List.mem_cons_of_mem _ h)
      · exact hU s x h
    · simp only [List.length_cons]; omega

/-- the worklist loop started at `s` with enough fuel computes exactly the states reachable
from `s` -/
theorem go_sound_complete (U : List Nat) (hU : ∀ a, ∀ b ∈ succ a, b ∈ U) (s : Nat) (hs : s ∈ U)
    (fuel : Nat) (hf : U.length ≤ fuel) (t : Nat) :
    t ∈ go succ fuel [s] [] ↔ ReachS succ s t := by
  rw [go_eq_goW]
  constructor
  · exact goW_sound succ s fuel [s] []
      (by intro x hx; simp at hx; subst hx; exact ReachS.refl _) (by simp) t
  · have hd : Done succ fuel [s] [] :=
      goW_done succ U hU fuel [s] [] List.nodup_nil (by simp) (by simpa using hs) (by simpa using hf)
    have hcl := goW_closed succ fuel [s] [] hd (by simp)
    intro ht
    induction ht with
    | refl => exact hcl.1 s List.mem_cons_self
    | step _ hbc ih => exact hcl.2 _ ih _ hbc

end SMV.Validate
