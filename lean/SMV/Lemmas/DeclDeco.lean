import SMV.Lemmas.DeclStyles
import SMV.Lemmas.DeclAny2
/-!
# (e) decorator-declared event: `@T def f(self): body` ↔ `f = T'`, `T'` = `T` with `on=[…, body]`
-/
namespace SMV.Decl

/-- what the decorator does to one transition -/
def onAdd (cb : CbId) (t : TDef) : TDef := if t.on.contains cb then t else { t with on := t.on ++ [cb] }

def Kw.withOn (kw : Kw) (cb : CbId) : Kw := { kw with on := kw.on ++ [cb] }

/-- the expression with `cb` appended to the `on=` argument of every call -/
def TExpr.withOn : TExpr → CbId → TExpr
  | .to s ts kw, cb => .to s ts (kw.withOn cb)
  | .from_ t ss kw, cb => .from_ t ss (kw.withOn cb)
  | .toItself s kw, cb => .toItself s (kw.withOn cb)
  | .fromItself s kw, cb => .fromItself s (kw.withOn cb)
  | .fromAny t kw, cb => .fromAny t (kw.withOn cb)
  | .or a b, cb => .or (a.withOn cb) (b.withOn cb)
  | .ref a, _ => .ref a

/-- the expression creates all its transitions itself (no reference to an earlier list) and none of
its calls already names `cb` in `on=` -/
def TExpr.fresh (cb : CbId) : TExpr → Prop
  | .to _ _ kw => cb ∉ kw.on
  | .from_ _ _ kw => cb ∉ kw.on
  | .toItself _ kw => cb ∉ kw.on
  | .fromItself _ kw => cb ∉ kw.on
  | .fromAny _ kw => cb ∉ kw.on
  | .or a b => a.fresh cb ∧ b.fresh cb
  | .ref _ => False

theorem addOn_eq (c : Cls) (idxs : List Nat) (cb : CbId) :
    addOn c idxs cb = { c with trans := idxs.foldl (modifyAt (onAdd cb)) c.trans } := rfl

theorem onAdd_mkT (src : Src) (tgt : Name) (kw : Kw) (cb : CbId) (h : cb ∉ kw.on) :
    onAdd cb (mkT src tgt kw) = mkT src tgt (kw.withOn cb) := by
  simp [onAdd, mkT, Kw.withOn, h]

theorem badInternal_onAdd (cb : CbId) (t : TDef) : badInternal (onAdd cb t) = badInternal t := by
  unfold onAdd; split <;> rfl

/-- decorating freshly created transitions = creating them with the callback -/
theorem push_addOn (c : Cls) (ts : List TDef) (cb : CbId) :
    addOn (push c ts).1 (push c ts).2 cb = (push c (ts.map (onAdd cb))).1 := by
  have h := foldl_modify_block (onAdd cb) ts c.trans []
  simp only [List.append_nil] at h
  have hb : (badInternal ∘ onAdd cb) = badInternal := by
    funext t; simp [badInternal_onAdd]
  simp only [addOn_eq, push, h, List.any_map, hb]

theorem modify_append_left' (f : TDef → TDef) : ∀ (l ts : List TDef) (i : Nat), i < l.length →
    (l ++ ts).modify i f = l.modify i f ++ ts
  | [], _, _, h => by simp at h
  | a :: l, ts, 0, _ => by simp
  | a :: l, ts, i + 1, h => by
    simp [modify_append_left' f l ts i (by simpa using h)]

theorem foldl_modify_append (f : TDef → TDef) (idxs : List Nat) (l ts : List TDef)
    (h : ∀ i ∈ idxs, i < l.length) :
    idxs.foldl (modifyAt f) (l ++ ts) = idxs.foldl (modifyAt f) l ++ ts := by
  induction idxs generalizing l with
  | nil => rfl
  | cons i is ih =>
    simp only [List.foldl_cons, modifyAt]
    have hi := h i List.mem_cons_self
    rw [modify_append_left' f l ts i hi]
    exact ih _ (fun j hj => by simpa using h j (List.mem_cons_of_mem _ hj))

/-- decorating earlier transitions commutes with creating new ones -/
theorem push_after_addOn (c : Cls) (idxs : List Nat) (cb : CbId) (ts : List TDef)
    (h : ∀ i ∈ idxs, i < c.trans.length) :
    push (addOn c idxs cb) ts = (addOn (push c ts).1 idxs cb, (push c ts).2) := by
  simp only [addOn_eq, push, foldl_modify_length, foldl_modify_append _ _ _ _ h]

theorem evalT_length_mono (e : TExpr) (c : Cls) : c.trans.length ≤ (evalT c e).1.trans.length := by
  induction e generalizing c with
  | or a b iha ihb => exact Nat.le_trans (iha c) (ihb _)
  | ref k => exact Nat.le_refl _
  | _ => simp [evalT, push]

theorem evalT_after_addOn (e : TExpr) (cb : CbId) (he : e.fresh cb) : ∀ (c : Cls) (idxs : List Nat) (cb' : CbId),
    (∀ i ∈ idxs, i < c.trans.length) →
    evalT (addOn c idxs cb') e = (addOn (evalT c e).1 idxs cb', (evalT c e).2) := by
  induction e with
  | or a b iha ihb =>
    intro c idxs cb' h
    simp only [evalT]
    rw [iha he.1 c idxs cb' h]
    simp only
    rw [ihb he.2 _ idxs cb' (fun i hi => Nat.lt_of_lt_of_le (h i hi) (evalT_length_mono a c))]
  | ref k => exact he.elim
  | _ => intro c idxs cb' h; exact push_after_addOn c idxs cb' _ h

theorem evalT_idx_lt (e : TExpr) (cb : CbId) (he : e.fresh cb) (c : Cls) :
    ∀ i ∈ (evalT c e).2, i < (evalT c e).1.trans.length := by
  induction e generalizing c with
  | or a b iha ihb =>
    intro i hi
    simp only [evalT, List.mem_append] at hi ⊢
    rcases hi with h | h
    · exact Nat.lt_of_lt_of_le (iha he.1 c i h) (evalT_length_mono b _)
    · exact ihb he.2 _ i h
  | ref k => exact he.elim
  | _ => exact push_idx c _

theorem addOn_append (c : Cls) (i1 i2 : List Nat) (cb : CbId) :
    addOn c (i1 ++ i2) cb = addOn (addOn c i1 cb) i2 cb := by
  simp [addOn_eq, List.foldl_append]

theorem addOn_comm_length (c : Cls) (idxs : List Nat) (cb : CbId) :
    (addOn c idxs cb).trans.length = c.trans.length := by
  simp [addOn_eq, foldl_modify_length]

theorem evalT_withOn (e : TExpr) (cb : CbId) (he : e.fresh cb) : ∀ (c : Cls),
    evalT c (e.withOn cb) = (addOn (evalT c e).1 (evalT c e).2 cb, (evalT c e).2) := by
  induction e with
  | to s ts kw =>
    intro c
    simp only [TExpr.withOn, evalT, push_addOn, List.map_map]
    have : (fun x => mkT (.st s) x (kw.withOn cb)) = (onAdd cb ∘ fun x => mkT (.st s) x kw) := by
      funext x; exact (onAdd_mkT _ _ _ _ he).symm
    simp [this, push]
  | from_ t ss kw =>
    intro c
    simp only [TExpr.withOn, evalT, push_addOn, List.map_map]
    have : (fun s => mkT (.st s) t (kw.withOn cb)) = (onAdd cb ∘ fun s => mkT (.st s) t kw) := by
      funext x; exact (onAdd_mkT _ _ _ _ he).symm
    simp [this, push]
  | toItself s kw =>
    intro c
    simp only [TExpr.withOn, evalT, push_addOn, List.map_cons, List.map_nil, onAdd_mkT _ _ _ _ he]
    simp [push]
  | fromItself s kw =>
    intro c
    simp only [TExpr.withOn, evalT, push_addOn, List.map_cons, List.map_nil, onAdd_mkT _ _ _ _ he]
    simp [push]
  | fromAny t kw =>
    intro c
    simp only [TExpr.withOn, evalT, push_addOn, List.map_cons, List.map_nil, onAdd_mkT _ _ _ _ he]
    simp [push]
  | ref k => exact he.elim
  | or a b iha ihb =>
    intro c
    simp only [TExpr.withOn, evalT]
    rw [iha he.1 c]
    simp only
    rw [ihb he.2, evalT_after_addOn b cb he.2 _ _ cb (evalT_idx_lt a cb he.1 c)]
    simp only [addOn_append]

/-- **(e, decorator)** `@T` / `def f(self): body` ↔ `f = T'` where every call of `T'` names `body` last in
`on=` — in any context (`T` must create its transitions itself and not already name the callback) -/
theorem decorated_eq (e : TExpr) (f : Name) (cb : CbId) (he : e.fresh cb) :
    Stmts.Eqv [.decorated e f cb] [.assign f (e.withOn cb)] := by
  intro c
  simp only [elabBody, List.foldl_cons, List.foldl_nil, elabStmt, evalT_withOn e cb he c]

end SMV.Decl
