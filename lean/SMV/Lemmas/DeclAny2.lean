import SMV.Lemmas.DeclAny
/-!
# The step that defines the event, and the theorem `any_partial`
-/
namespace SMV.Decl

theorem modify_at_length (S B : List TDef) (a : TDef) (f : TDef → TDef) :
    (S ++ a :: B).modify S.length f = S ++ f a :: B := by
  apply List.ext_getElem?
  intro j
  grind

theorem foldl_modify_block (f : TDef → TDef) (X : List TDef) : ∀ (S B : List TDef),
    (List.range' S.length X.length).foldl (modifyAt f) (S ++ X ++ B) = S ++ X.map f ++ B := by
  induction X with
  | nil => intro S B; rfl
  | cons x X ih =>
    intro S B
    simp only [List.length_cons, List.range'_succ, List.foldl_cons, modifyAt, List.map_cons]
    have h1 : (S ++ x :: X ++ B).modify S.length f = (S ++ [f x]) ++ X ++ B := by
      have := modify_at_length S (X ++ B) x f
      simp only [List.append_assoc, List.cons_append, List.nil_append] at this ⊢
      exact this
    rw [h1]
    have := ih (S ++ [f x]) B
    simp only [List.length_append, List.length_cons, List.length_nil] at this
    rw [this]
    simp [List.append_assoc]

theorem foldl_expandAny_noop (ev : EvRef) (sts : List SDecl) (idxs : List Nat) (c : Cls)
    (h : ∀ i ∈ idxs, ∀ t, c.trans[i]? = some t → t.source ≠ .any) :
    idxs.foldl (expandAny ev sts) c = c := by
  induction idxs with
  | nil => rfl
  | cons i is ih =>
    simp only [List.foldl_cons]
    have h1 : expandAny ev sts c i = c := by
      unfold expandAny
      cases hi : c.trans[i]? with
      | none => rfl
      | some t =>
        have := h i List.mem_cons_self t hi
        simp [this]
    rw [h1]
    exact ih (fun j hj => h j (List.mem_cons_of_mem _ hj))

/-- registering the id in `cls._events` -/
def regEv (c : Cls) (id : Name) : Cls :=
  if c.events.contains id then c else { c with events := c.events ++ [id] }

theorem addEvent_some (c : Cls) (id : Name) (idxs : List Nat) :
    addEvent c (.real id (some idxs)) = regEv (onEventDefined c id idxs) id := by
  cases hE : idxs.isEmpty
  · simp only [addEvent, hE, Bool.false_eq_true, ↓reduceIte, regEv]
  · have : idxs = [] := List.isEmpty_iff.mp hE
    subst this
    rfl

theorem holdsPh_single (t : TDef) (k : Name) (tl : Option (List Nat)) (h : t.events = [.real k tl]) :
    noPh t := by
  intro v
  simp [holdsPh, h, EvRef.same]

section
variable {n : Nat} {tA : TDef} {names : List Name}

theorem estep {c : Cls} (hInv : Inv n tA names c) (hA : tA.source = .any) (hAe : tA.events = [])
    (hAi : tA.internal = false) (e : Name) (he : e ∉ names) :
    let X := (c.states.filter (!·.final)).map (fun s => ({ tA with source := .st s.name } : TDef))
    FinRel e (processAttr c (e, .tl [n])) (processAttr (spl n X c) (e, .tl (List.range' n X.length))) := by
  intro X
  have hs := split_at hInv.atn
  have hlen : (c.trans.take n).length = n := by
    have := hInv.lt
    simp; omega
  generalize hS : c.trans.take n = S at hs hlen
  generalize hB : c.trans.drop (n + 1) = B at hs
  subst hlen
  let ev₁ : EvRef := .real e (some [S.length])
  let ev₂ : EvRef := .real e (some (List.range' S.length X.length))
  let tA' : TDef := { tA with events := [ev₁] }
  let C : List TDef := (c.states.filter (!·.final)).map (fun s => copyFor tA' s.name ev₁)
  let X' : List TDef := X.map (fun t => { t with events := addEv t.events ev₂ })
  -- left: the `AnyState` transition gets the event and is expanded at the end of the store
  have hL : onEventDefined c e [S.length] =
      { c with trans := S ++ tA' :: (B ++ C), err := c.err || C.any badInternal } := by
    unfold onEventDefined
    simp only [List.foldl_cons, List.foldl_nil, modifyAt]
    rw [hs, modify_at_length]
    unfold expandAny
    have hg : (S ++ { tA with events := addEv tA.events ev₁ } :: B)[S.length]? =
        some { tA with events := addEv tA.events ev₁ } := by simp
    simp only [hg, hA, beq_self_eq_true, ↓reduceIte, push, hAe, addEv, List.any_nil, Bool.false_eq_true,
      List.nil_append]
    simp [C, tA', ev₁, List.append_assoc, hA, copyFor]
  have hCerr : C.any badInternal = false := by
    simp [C, badInternal, copyFor, tA', hAi]
  -- right: the explicit transitions get the event in place
  have hsp : (spl S.length X c).trans = S ++ X ++ B := by
    simp only [spl_trans, splice, hS, hB]
  have hXsrc : ∀ t ∈ X', t.source ≠ .any := by
    intro t ht
    simp only [X', X, List.mem_map] at ht
    obtain ⟨x, ⟨s, _, rfl⟩, rfl⟩ := ht
    simp
  have hR : onEventDefined (spl S.length X c) e (List.range' S.length X.length) =
      { spl S.length X c with trans := S ++ X' ++ B } := by
    unfold onEventDefined
    simp only [hsp, foldl_modify_block]
    apply foldl_expandAny_noop
    intro i hi t ht
    simp only [List.mem_range'_1] at hi
    have hm : t ∈ X' := by
      simp only [List.append_assoc] at ht
      rw [List.getElem?_append_right hi.1,
        List.getElem?_append_left (by simp [X']; omega)] at ht
      exact List.mem_of_getElem? ht
    exact hXsrc t hm
  have hBprop : ∀ t ∈ B, noPh t ∧ e ∉ finalEvents t := by
    intro t ht
    have htail := hInv.tail t (hB ▸ ht)
    obtain ⟨⟨k, idxs, hk⟩, _⟩ := htail
    refine ⟨holdsPh_single t k _ hk, ?_⟩
    have hmem : t ∈ c.trans := by rw [hs]; simp [ht]
    have hok := hInv.ok t hmem (.real k (some idxs)) (by simp [hk])
    simp only [finalEvents, hk, List.filterMap_cons, List.filterMap_nil, List.mem_singleton]
    intro h
    exact he (h ▸ hok.1)
  have hCprop : ∀ t ∈ C, noPh t ∧ finalEvents t = [e] := by
    intro t ht
    simp only [C, List.mem_map] at ht
    obtain ⟨s, _, rfl⟩ := ht
    exact ⟨holdsPh_single _ e _ rfl, rfl⟩
  have hXprop : ∀ t ∈ X', noPh t ∧ finalEvents t = [e] := by
    intro t ht
    simp only [X', X, List.mem_map] at ht
    obtain ⟨x, ⟨s, _, rfl⟩, rfl⟩ := ht
    have : addEv tA.events ev₂ = [ev₂] := by simp [hAe, addEv]
    exact ⟨holdsPh_single _ e _ this, by simp [finalEvents, this, ev₂]⟩
  have hmap : C.map srcCand = X'.map srcCand := by
    simp only [C, X', X, List.map_map]
    rfl
  have hApᵢ : noPh tA' := holdsPh_single tA' e _ rfl
  show FinRel e (addEvent c (.real e (some [S.length])))
    (addEvent (spl S.length X c) (.real e (some (List.range' S.length X.length))))
  rw [addEvent_some, addEvent_some, hL, hR, hCerr, Bool.or_false]
  have hshape : ∀ (ev1 ev2 : List Name),
      FinRel e { c with trans := S ++ tA' :: (B ++ C), events := ev1 }
        { spl S.length X c with trans := S ++ X' ++ B, events := ev1 } := by
    intro ev1 _
    exact ⟨rfl, rfl, rfl, rfl, ⟨S, tA', B, C, X', rfl, by simp [List.append_assoc], hA, hApᵢ, hBprop, hCprop,
      hXprop, hmap⟩⟩
  unfold regEv
  simp only [spl_events]
  by_cases hc : c.events.contains e = true
  · simp only [hc, if_true]
    exact hshape c.events c.events
  · simp only [hc]
    exact hshape (c.events ++ [e]) c.events

end
end SMV.Decl
