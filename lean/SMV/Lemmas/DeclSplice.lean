import SMV.Model.Decl
/-!
# Two classes under construction whose stores differ at one position

`spl n X c`: the class `c` with store entry `n` replaced by the block `X`. Metaclass steps that only
touch indices below `n` commute with `spl` (used for `from_.any()` versus explicit `from_(…)`:
entry `n` is the `AnyState` transition, `X` the explicit transitions).
-/
namespace SMV.Decl

def splice (n : Nat) (X : List TDef) (l : List TDef) : List TDef := l.take n ++ X ++ l.drop (n + 1)

def spl (n : Nat) (X : List TDef) (c : Cls) : Cls := { c with trans := splice n X c.trans }

section
variable {n : Nat} {X : List TDef}

theorem splice_getElem? (l : List TDef) (i : Nat) (hi : i < n) (hn : n < l.length) :
    (splice n X l)[i]? = l[i]? := by
  unfold splice
  grind

theorem splice_modify (l : List TDef) (i : Nat) (f : TDef → TDef) (hi : i < n) (hn : n < l.length) :
    splice n X (l.modify i f) = (splice n X l).modify i f := by
  apply List.ext_getElem?
  intro j
  unfold splice
  grind

theorem splice_append (l ts : List TDef) (hn : n < l.length) :
    splice n X (l ++ ts) = splice n X l ++ ts := by
  unfold splice
  grind

theorem splice_length (l : List TDef) (hn : n < l.length) :
    (splice n X l).length + 1 = l.length + X.length := by
  unfold splice
  grind

@[simp] theorem spl_states (c : Cls) : (spl n X c).states = c.states := rfl
@[simp] theorem spl_events (c : Cls) : (spl n X c).events = c.events := rfl
@[simp] theorem spl_pending (c : Cls) : (spl n X c).pending = c.pending := rfl
@[simp] theorem spl_err (c : Cls) : (spl n X c).err = c.err := rfl
@[simp] theorem spl_attrs (c : Cls) : (spl n X c).attrs = c.attrs := rfl
@[simp] theorem spl_trans (c : Cls) : (spl n X c).trans = splice n X c.trans := rfl

theorem foldl_modify_length (f : TDef → TDef) (idxs : List Nat) (l : List TDef) :
    (idxs.foldl (modifyAt f) l).length = l.length := by
  induction idxs generalizing l with
  | nil => rfl
  | cons i is ih => simp [List.foldl_cons, modifyAt, ih]

theorem foldl_modify_splice (f : TDef → TDef) (idxs : List Nat) (l : List TDef)
    (hi : ∀ i ∈ idxs, i < n) (hn : n < l.length) :
    splice n X (idxs.foldl (modifyAt f) l) = idxs.foldl (modifyAt f) (splice n X l) := by
  induction idxs generalizing l with
  | nil => rfl
  | cons i is ih =>
    simp only [List.foldl_cons, modifyAt]
    rw [ih _ (fun j hj => hi j (List.mem_cons_of_mem _ hj)) (by simpa using hn),
      splice_modify _ _ _ (hi i List.mem_cons_self) hn]

theorem push_length (c : Cls) (ts : List TDef) : (push c ts).1.trans.length = c.trans.length + ts.length := by
  simp [push]

theorem expandAny_length (ev : EvRef) (sts : List SDecl) (c : Cls) (i : Nat) :
    c.trans.length ≤ (expandAny ev sts c i).trans.length := by
  unfold expandAny
  split
  · split
    · simp [push]
    · exact Nat.le_refl _
  · exact Nat.le_refl _

theorem foldl_expandAny_length (ev : EvRef) (sts : List SDecl) (idxs : List Nat) (c : Cls) :
    c.trans.length ≤ (idxs.foldl (expandAny ev sts) c).trans.length := by
  induction idxs generalizing c with
  | nil => exact Nat.le_refl _
  | cons i is ih => exact Nat.le_trans (expandAny_length ev sts c i) (ih _)

theorem expandAny_spl (ev : EvRef) (sts : List SDecl) (c : Cls) (i : Nat) (hi : i < n)
    (hn : n < c.trans.length) :
    expandAny ev sts (spl n X c) i = spl n X (expandAny ev sts c i) := by
  unfold expandAny
  rw [spl_trans, splice_getElem? _ _ hi hn]
  cases h : c.trans[i]? with
  | none => rfl
  | some t =>
    simp only
    split
    · simp only [push, spl, splice_append _ _ hn]
    · rfl

theorem foldl_expandAny_spl (ev : EvRef) (sts : List SDecl) (idxs : List Nat) (c : Cls)
    (hi : ∀ i ∈ idxs, i < n) (hn : n < c.trans.length) :
    idxs.foldl (expandAny ev sts) (spl n X c) = spl n X (idxs.foldl (expandAny ev sts) c) := by
  induction idxs generalizing c with
  | nil => rfl
  | cons i is ih =>
    simp only [List.foldl_cons]
    rw [expandAny_spl ev sts c i (hi i List.mem_cons_self) hn]
    exact ih _ (fun j hj => hi j (List.mem_cons_of_mem _ hj))
      (Nat.lt_of_lt_of_le hn (expandAny_length ev sts c i))

theorem onEventDefined_length (c : Cls) (id : Name) (idxs : List Nat) :
    c.trans.length ≤ (onEventDefined c id idxs).trans.length := by
  unfold onEventDefined
  refine Nat.le_trans ?_ (foldl_expandAny_length _ _ _ _)
  simp [foldl_modify_length]

theorem onEventDefined_spl (c : Cls) (id : Name) (idxs : List Nat) (hi : ∀ i ∈ idxs, i < n)
    (hn : n < c.trans.length) :
    onEventDefined (spl n X c) id idxs = spl n X (onEventDefined c id idxs) := by
  unfold onEventDefined
  simp only [spl_states, spl_trans]
  rw [← foldl_expandAny_spl _ _ _ _ hi (by simpa [foldl_modify_length] using hn)]
  congr 1
  simp only [spl, foldl_modify_splice _ _ _ hi hn]

/-- an event reference whose transition list (if it carries one) lies below `n` -/
def lowEv (n : Nat) : EvRef → Prop
  | .real _ (some idxs) => ∀ i ∈ idxs, i < n
  | _ => True

theorem addEvent_length (c : Cls) (ev : EvRef) : c.trans.length ≤ (addEvent c ev).trans.length := by
  cases ev with
  | ph v => simp only [addEvent]; split <;> exact Nat.le_refl _
  | real id tl =>
    cases tl with
    | none => simp only [addEvent]; split <;> exact Nat.le_refl _
    | some idxs =>
      cases hE : idxs.isEmpty
      · simp only [addEvent, hE, Bool.false_eq_true, ↓reduceIte]
        split <;> exact onEventDefined_length _ _ _
      · simp only [addEvent, hE, ↓reduceIte]
        split <;> exact Nat.le_refl _

theorem addEvent_spl (c : Cls) (ev : EvRef) (hl : lowEv n ev) (hn : n < c.trans.length) :
    addEvent (spl n X c) ev = spl n X (addEvent c ev) := by
  cases ev with
  | ph v =>
    simp only [addEvent, spl_pending]
    by_cases h : (c.pending.any fun x => x.fst == v) = true <;> simp only [h] <;> rfl
  | real id tl =>
    cases tl with
    | none =>
      simp only [addEvent, spl_events]
      by_cases h : c.events.contains id = true <;> simp only [h] <;> rfl
    | some idxs =>
      cases hE : idxs.isEmpty
      · simp only [addEvent, hE, Bool.false_eq_true, ↓reduceIte]
        rw [onEventDefined_spl c id idxs hl hn]
        simp only [spl_events]
        by_cases h : (onEventDefined c id idxs).events.contains id = true <;> simp only [h] <;> rfl
      · simp only [addEvent, hE, ↓reduceIte, spl_events]
        by_cases h : c.events.contains id = true <;> simp only [h] <;> rfl

theorem foldl_addEvent_length (evs : List EvRef) (c : Cls) :
    c.trans.length ≤ (evs.foldl addEvent c).trans.length := by
  induction evs generalizing c with
  | nil => exact Nat.le_refl _
  | cons e es ih => exact Nat.le_trans (addEvent_length c e) (ih _)

theorem foldl_addEvent_spl (evs : List EvRef) (c : Cls) (hl : ∀ ev ∈ evs, lowEv n ev)
    (hn : n < c.trans.length) :
    evs.foldl addEvent (spl n X c) = spl n X (evs.foldl addEvent c) := by
  induction evs generalizing c with
  | nil => rfl
  | cons e es ih =>
    simp only [List.foldl_cons]
    rw [addEvent_spl c e (hl e List.mem_cons_self) hn]
    exact ih _ (fun ev h => hl ev (List.mem_cons_of_mem _ h)) (Nat.lt_of_lt_of_le hn (addEvent_length c e))

end
end SMV.Decl
