import SMV.Lemmas.Binder
/-!
# The positional-only-by-keyword corner of the binder (C07)

A keyword names a positional-only parameter that no positional argument reaches. `bind_expected` raises
if that parameter is the first unreached one; otherwise its second loop pops the keyword into
`arguments`, `BoundArguments.kwargs` passes it by name, and CPython either rejects the call or delivers
it to `**kwargs`. Here: the round trip for that situation (`rt2X`: keywords `X` travelling towards
`**kwargs`), the call computed (`invoke_corner`), and the result parameter by parameter
(`receive_corner`): if the call goes through, every parameter holds what the Spec says, `**kwargs`
compared as a dict.
-/
namespace SMV.Bind

set_option linter.unusedSimpArgs false

/-! ## 8. The corner: a positional-only parameter handled by the keyword loop -/

theorem kwErase_append (a b : KW) (n : Name) : kwErase (a ++ b) n = kwErase a n ++ kwErase b n := by
  induction a with
  | nil => rfl
  | cons e rest ih => obtain ⟨k, v⟩ := e; simp only [List.cons_append, kwErase]; split <;> simp [ih]

/-- keywords that `ba.kwargs` carries for positional-only parameters (they reach `**kwargs`) -/
def poItems (A : Arguments) : List Param → KW
  | [] => []
  | p :: ps =>
    (if p.kind = .po then
      (match lookup A p.name with
       | some a => a.items p.name
       | none => [])
     else []) ++ poItems A ps

/-- what `p` finds once `ba.kwargs` has started; `X` = the keywords travelling to `**kwargs` -/
def recvK (A : Arguments) (X : KW) (p : Param) : Option ArgVal :=
  match p.kind with
  | .po => dfltOr p
  | .vp => some (.tuple [])
  | .vk => some (.dict (X ++ match lookup A p.name with | some a => a.items p.name | none => []))
  | _ => match lookup A p.name with
    | some (.one v) => some (.one v)
    | _ => dfltOr p

/-- result of the call in keyword mode -/
def resK (A : Arguments) (X : KW) (ps : List Param) : Option Frame :=
  if ps.all (fun p => p.kind != .vk) ∧ (X ++ poItems A ps).isEmpty = false then none
  else collect (ps.map fun p => (p.name, recvK A (X ++ poItems A ps) p))

theorem absent_none (p : Param) : absent p none = none := by
  unfold absent; split <;> rfl

theorem consO_ite (c : Prop) [Decidable c] (e : Name × ArgVal) (r : Option Frame) :
    consO e (if c then none else r) = if c then none else consO e r := by
  split <;> rfl

theorem absent_ite (c : Prop) [Decidable c] (p : Param) (r : Option Frame) :
    absent p (if c then none else r) = if c then none else absent p r := by
  split <;> simp [absent_none]

/-- the keywords a positional-only parameter sends on -/
def poItem (A : Arguments) (p : Param) : KW :=
  if p.kind = .po then
    (match lookup A p.name with
     | some a => a.items p.name
     | none => [])
  else []

theorem poItems_cons (A : Arguments) (p : Param) (ps : List Param) :
    poItems A (p :: ps) = poItem A p ++ poItems A ps := rfl

theorem resK_nil (A : Arguments) (X : KW) : resK A X [] = if X.isEmpty then some [] else none := by
  cases X <;> simp [resK, poItems, collect]

theorem resK_cons (A : Arguments) (X : KW) (p : Param) (ps : List Param) (hk : p.kind ≠ .vk) :
    resK A X (p :: ps) =
      match recvK A (X ++ poItems A (p :: ps)) p with
      | some v => consO (p.name, v) (resK A (X ++ poItem A p) ps)
      | none => none := by
  have hk' : (p.kind != .vk) = true := by simp [hk]
  simp only [resK, List.all_cons, hk', Bool.true_and, poItems_cons, List.map_cons, ← List.append_assoc]
  cases recvK A (X ++ poItem A p ++ poItems A ps) p with
  | none => simp [collect]
  | some v => simp only [collect, consO_ite]

theorem rt2X (A : Arguments) (ps : List Param) (X : KW) (hnd : (ps.map (·.name)).Nodup) (hs : Sorted ps)
    (hty : ∀ p ∈ ps, Typed A p) (hd : DictClean A ps)
    (hX : ∀ q ∈ ps, (q.kind = .pk ∨ q.kind = .ko) → kwGet X q.name = none)
    (habs : ∀ q ∈ ps, q.kind = .vp → lookup A q.name = none) :
    pyCall ps [] (X ++ baKwargs ps A true) = resK A X ps := by
  induction ps generalizing X with
  | nil => simp [pyCall, baKwargs, resK_nil]
  | cons p ps ih =>
    simp only [List.map_cons, List.nodup_cons] at hnd
    have hty' : ∀ q ∈ ps, Typed A q := fun q hq => hty q (List.mem_cons_of_mem _ hq)
    have hd' : DictClean A ps := fun q hq hk d hl r hr hrk =>
      hd q (List.mem_cons_of_mem _ hq) hk d hl r (List.mem_cons_of_mem _ hr) hrk
    have habs' : ∀ q ∈ ps, q.kind = .vp → lookup A q.name = none :=
      fun q hq => habs q (List.mem_cons_of_mem _ hq)
    have hX' : ∀ q ∈ ps, (q.kind = .pk ∨ q.kind = .ko) → kwGet X q.name = none :=
      fun q hq => hX q (List.mem_cons_of_mem _ hq)
    have hne : ∀ q ∈ ps, q.name ≠ p.name := fun q hq h => hnd.1 (h ▸ List.mem_map_of_mem hq)
    have hk1 : (p.kind = .pk ∨ p.kind = .ko) → kwGet (baKwargs ps A true) p.name = none := fun hpk =>
      baKwargs_get_none ps A true p.name hty' hne
        (fun q hq hk d hl => hd q (List.mem_cons_of_mem _ hq) hk d hl p List.mem_cons_self hpk)
    have htp := hty p List.mem_cons_self
    have ih' := fun X hX => ih X hnd.2 (sorted_tail hs) hty' hd' hX habs'
    cases hk : p.kind with
    | po =>
      rw [resK_cons A X p ps (by simp [hk])]
      cases hl : lookup A p.name with
      | none =>
        simp only [pyCall, baKwargs, hk, hl, recvK, poItem, List.append_nil, List.nil_append, true_or, if_true]
        rw [ih' X hX']
        unfold dfltOr absent
        split <;> simp
      | some a =>
        have := htp a hl
        simp only [hk] at this
        obtain ⟨v, rfl⟩ := this
        have hX2 : ∀ q ∈ ps, (q.kind = .pk ∨ q.kind = .ko) → kwGet (X ++ [(p.name, v)]) q.name = none := by
          intro q hq hqk
          simp [kwGet_append, hX' q hq hqk, kwGet, (hne q hq).symm]
        simp only [pyCall, baKwargs, hk, hl, recvK, poItem, ArgVal.items, true_or, if_true]
        rw [show X ++ ([(p.name, v)] ++ baKwargs ps A true) = (X ++ [(p.name, v)]) ++ baKwargs ps A true by simp,
          ih' _ hX2]
        unfold dfltOr absent
        split <;> simp
    | vp =>
      have hl := habs p List.mem_cons_self hk
      rw [resK_cons A X p ps (by simp [hk])]
      simp only [pyCall, baKwargs, hk, hl, recvK, poItem, List.append_nil, List.nil_append, true_or, if_true]
      rw [ih' X hX']
      simp
    | pk =>
      have hXp : kwGet X p.name = none := hX p List.mem_cons_self (Or.inl hk)
      have hR := hk1 (Or.inl hk)
      rw [resK_cons A X p ps (by simp [hk])]
      cases hl : lookup A p.name with
      | none =>
        simp only [pyCall, baKwargs, hk, hl, recvK, poItem, List.append_nil, List.nil_append, true_or, or_true, if_true,
          byKeyword, kwGet_append, hXp, hR, Option.orElse]
        simp only [reduceCtorEq, if_false, List.append_nil]
        rw [ih' X hX']
        unfold dfltOr absent
        split <;> simp
      | some a =>
        have := htp a hl
        simp only [hk] at this
        obtain ⟨v, rfl⟩ := this
        have hg : kwGet (X ++ ([(p.name, v)] ++ baKwargs ps A true)) p.name = some v := by
          simp [kwGet_append, hXp, kwGet]
        have he : kwErase (X ++ ([(p.name, v)] ++ baKwargs ps A true)) p.name = X ++ baKwargs ps A true := by
          simp [kwErase_append, kwErase_absent _ _ hXp, kwErase_absent _ _ hR, kwErase]
        simp only [pyCall, baKwargs, hk, hl, recvK, poItem, ArgVal.items, true_or, or_true, if_true, byKeyword, hg, he]
        simp only [reduceCtorEq, if_false, List.append_nil]
        rw [ih' X hX']
    | ko =>
      have hXp : kwGet X p.name = none := hX p List.mem_cons_self (Or.inr hk)
      have hR := hk1 (Or.inr hk)
      rw [resK_cons A X p ps (by simp [hk])]
      cases hl : lookup A p.name with
      | none =>
        simp only [pyCall, baKwargs, hk, hl, recvK, poItem, List.append_nil, List.nil_append, true_or, or_true, if_true,
          byKeyword, kwGet_append, hXp, hR, Option.orElse]
        simp only [reduceCtorEq, if_false, List.append_nil]
        rw [ih' X hX']
        unfold dfltOr absent
        split <;> simp
      | some a =>
        have := htp a hl
        simp only [hk] at this
        obtain ⟨v, rfl⟩ := this
        have hg : kwGet (X ++ ([(p.name, v)] ++ baKwargs ps A true)) p.name = some v := by
          simp [kwGet_append, hXp, kwGet]
        have he : kwErase (X ++ ([(p.name, v)] ++ baKwargs ps A true)) p.name = X ++ baKwargs ps A true := by
          simp [kwErase_append, kwErase_absent _ _ hXp, kwErase_absent _ _ hR, kwErase]
        simp only [pyCall, baKwargs, hk, hl, recvK, poItem, ArgVal.items, true_or, or_true, if_true, byKeyword, hg, he]
        simp only [reduceCtorEq, if_false, List.append_nil]
        rw [ih' X hX']
    | vk =>
      have hps : ps = [] := by
        cases ps with
        | nil => rfl
        | cons q qs =>
          have := sorted_head hs q List.mem_cons_self
          simp [hk, kindOk] at this
      subst hps
      simp only [resK, List.all_cons, hk, poItems, poItem, List.map_cons, List.map_nil, recvK, collect, pyCall, baKwargs]
      cases hl : lookup A p.name <;> simp [consO]

def prependO (es : Frame) : Option Frame → Option Frame
  | none => none
  | some f => some (es ++ f)

theorem consO_prependO (e : Name × ArgVal) (es : Frame) (o : Option Frame) :
    consO e (prependO es o) = prependO (e :: es) o := by
  cases o <;> rfl

/-- the entry of a parameter, as a value -/
def entryOf (A : Arguments) (p : Param) : ArgVal := (lookup A p.name).getD .dflt

/-- positional parameters that all have an entry are passed positionally, one by one -/
theorem rt_prefix (A : Arguments) (pre r : List Param) (hnd : ((pre ++ r).map (·.name)).Nodup)
    (hty : ∀ p ∈ pre ++ r, Typed A p) (hd : DictClean A (pre ++ r)) (hpos : ∀ p ∈ pre, isPos p = true)
    (hin : ∀ p ∈ pre, lookup A p.name ≠ none) :
    pyCall (pre ++ r) (baArgs (pre ++ r) A) (baKwargs (pre ++ r) A false) =
      prependO (pre.map fun p => (p.name, entryOf A p)) (pyCall r (baArgs r A) (baKwargs r A false)) := by
  induction pre with
  | nil =>
    simp only [List.nil_append, List.map_nil]
    cases pyCall r (baArgs r A) (baKwargs r A false) <;> rfl
  | cons p ps ih =>
    simp only [List.cons_append, List.map_cons, List.nodup_cons] at hnd
    have hty' : ∀ q ∈ ps ++ r, Typed A q := fun q hq => hty q (List.mem_cons_of_mem _ hq)
    have hd' : DictClean A (ps ++ r) := fun q hq hk d hl x hx hxk =>
      hd q (List.mem_cons_of_mem _ hq) hk d hl x (List.mem_cons_of_mem _ hx) hxk
    have ih' := ih hnd.2 hty' hd' (fun q hq => hpos q (List.mem_cons_of_mem _ hq))
      (fun q hq => hin q (List.mem_cons_of_mem _ hq))
    have hne : ∀ q ∈ ps ++ r, q.name ≠ p.name := fun q hq h => hnd.1 (h ▸ List.mem_map_of_mem hq)
    have hk1 : (p.kind = .pk ∨ p.kind = .ko) → kwGet (baKwargs (ps ++ r) A false) p.name = none := fun hpk =>
      baKwargs_get_none (ps ++ r) A false p.name hty' hne
        (fun q hq hk d hl => hd q (List.mem_cons_of_mem _ hq) hk d hl p List.mem_cons_self hpk)
    have hp := hpos p List.mem_cons_self
    have htp := hty p List.mem_cons_self
    obtain ⟨a, hl⟩ : ∃ a, lookup A p.name = some a := by
      cases h : lookup A p.name with
      | none => exact absurd h (hin p List.mem_cons_self)
      | some a => exact ⟨a, rfl⟩
    have := htp a hl
    cases hk : p.kind <;> simp [isPos, hk] at hp <;> simp only [hk] at this <;> obtain ⟨v, rfl⟩ := this
    · simp only [List.cons_append, List.map_cons, pyCall, baArgs, baKwargs, hk, hl, ArgVal.vals]
      simp only [reduceCtorEq, or_self, if_false, Option.isSome_some, if_true, List.cons_append, List.nil_append]
      rw [ih', consO_prependO]
      simp [entryOf, hl]
    · simp only [List.cons_append, List.map_cons, pyCall, baArgs, baKwargs, hk, hl, ArgVal.vals]
      simp only [reduceCtorEq, or_self, if_false, Option.isSome_some, if_true, List.cons_append, List.nil_append,
        hk1 (Or.inl hk), Option.isSome_none, Bool.false_eq_true]
      rw [ih', consO_prependO]
      simp [entryOf, hl]

theorem kwGet_filter_of_none (kw : KW) (P : Name × Val → Bool) (n : Name) (h : kwGet kw n = none) :
    kwGet (kw.filter P) n = none := by
  induction kw with
  | nil => rfl
  | cons e rest ih =>
    obtain ⟨k, v⟩ := e
    simp only [kwGet] at h
    split at h
    · cases h
    · rename_i hk
      simp only [List.filter_cons]
      split
      · simp only [kwGet, hk, if_false]; exact ih h
      · exact ih h

/-- `dict_closed` without the no-corner hypothesis: the keywords of unreached positional-only parameters
are taken out as well (they travel separately, see `poItems`) -/
theorem dict_general (kw : KW) (pre rest : List Param) (hpos : ∀ p ∈ pre, isPos p = true) :
    eraseNamed (eraseNames kw pre) rest =
      kw.filter (fun e => !consumed (pre ++ rest) e.1 && !(rest.any fun q => q.kind == .po && q.name == e.1)) := by
  rw [eraseNamed_eq_filter, eraseNames_eq_filter, List.filter_filter]
  apply List.filter_congr
  intro e _
  rw [Bool.eq_iff_iff]
  simp only [consumed, List.any_append, Bool.and_eq_true, Bool.not_eq_true', List.any_eq_false, Bool.or_eq_false_iff,
    beq_iff_eq, Bool.or_eq_true, not_or, not_and]
  constructor
  · rintro ⟨h1, h2⟩
    refine ⟨⟨fun x hx hn => ?_, fun x hx hn => ?_⟩, fun x hx hk hn => ?_⟩
    · have := hpos x hx
      have := h2 x hx
      cases hk : x.kind <;> simp_all [isPos]
    · have := h1 x hx
      cases hk : x.kind <;> simp_all [named]
    · exact h1 x hx (by simp [named, hk]) hn
  · rintro ⟨⟨h1, h2⟩, h3⟩
    refine ⟨fun x hx hn hne => ?_, fun x hx hk hne => (h1 x hx hne).1 hk⟩
    have := h2 x hx hne
    have := h3 x hx
    cases hk : x.kind <;> simp_all [named]

theorem cornerFrom_true (args : List Val) (kw : KW) (i : Nat) (ps : List Param)
    (h : cornerFrom args kw i ps = true) :
    ∃ j q, ps[j]? = some q ∧ q.kind = .po ∧ args.length ≤ i + j ∧ (kwGet kw q.name).isSome = true := by
  induction ps generalizing i with
  | nil => simp [cornerFrom] at h
  | cons p ps ih =>
    simp only [cornerFrom, Bool.or_eq_true, Bool.and_eq_true, beq_iff_eq, decide_eq_true_eq] at h
    rcases h with ⟨⟨h1, h2⟩, h3⟩ | h
    · exact ⟨0, p, by simp, h1, by simpa using h2, h3⟩
    · obtain ⟨j, q, hj, h1, h2, h3⟩ := ih (i + 1) h
      exact ⟨j + 1, q, by simpa using hj, h1, by omega, h3⟩

theorem lookup_map_none (ps : List Param) (f : Param → ArgVal) (n : Name) (h : ∀ q ∈ ps, q.name ≠ n) :
    lookup (ps.map fun q => (q.name, f q)) n = none := by
  apply lookup_none_of_not_mem
  simp only [List.map_map, List.mem_map, Function.comp, not_exists, not_and]
  exact fun q hq => h q hq

theorem lookup_map_entry (ps : List Param) (f : Param → ArgVal) (hnd : (ps.map (·.name)).Nodup) (p : Param)
    (hp : p ∈ ps) : lookup (ps.map fun q => (q.name, f q)) p.name = some (f p) := by
  induction ps with
  | nil => cases hp
  | cons q qs ih =>
    simp only [List.map_cons, List.nodup_cons] at hnd
    rcases List.mem_cons.mp hp with rfl | hp'
    · simp [lookup]
    · have hne : q.name ≠ p.name := fun h => hnd.1 (h ▸ List.mem_map_of_mem hp')
      simp only [List.map_cons, lookup, hne, if_false]
      exact ih hnd.2 hp'

theorem collect_map_lookup (ps : List Param) (f : Param → Option ArgVal) (fr : Frame)
    (hnd : (ps.map (·.name)).Nodup) (h : collect (ps.map fun q => (q.name, f q)) = some fr) (p : Param)
    (hp : p ∈ ps) : ∃ v, f p = some v ∧ lookup fr p.name = some v := by
  induction ps generalizing fr with
  | nil => cases hp
  | cons q qs ih =>
    simp only [List.map_cons, List.nodup_cons] at hnd
    simp only [List.map_cons] at h
    cases hq : f q with
    | none => simp [hq, collect] at h
    | some v =>
      simp only [hq, collect] at h
      cases hc : collect (qs.map fun q => (q.name, f q)) with
      | none => simp [hc, consO] at h
      | some fr' =>
        simp [hc, consO] at h
        subst h
        rcases List.mem_cons.mp hp with rfl | hp'
        · exact ⟨v, hq, by simp [lookup]⟩
        · have hne : q.name ≠ p.name := fun he => hnd.1 (he ▸ List.mem_map_of_mem hp')
          obtain ⟨w, hw1, hw2⟩ := ih fr' hnd.2 hc hp'
          exact ⟨w, hw1, by simp [lookup, hne, hw2]⟩

theorem kwGet_poItems_none (A : Arguments) (ps : List Param) (n : Name) (hty : ∀ p ∈ ps, Typed A p)
    (h : ∀ q ∈ ps, q.kind = .po → q.name = n → lookup A q.name = none) : kwGet (poItems A ps) n = none := by
  induction ps with
  | nil => rfl
  | cons p ps ih =>
    rw [poItems_cons, kwGet_append,
      ih (fun q hq => hty q (List.mem_cons_of_mem _ hq)) (fun q hq => h q (List.mem_cons_of_mem _ hq))]
    unfold poItem
    split
    · rename_i hk
      cases hl : lookup A p.name with
      | none => simp [kwGet]
      | some a =>
        have := hty p List.mem_cons_self a hl
        simp only [hk] at this
        obtain ⟨v, rfl⟩ := this
        by_cases hn : p.name = n
        · have := h p List.mem_cons_self hk hn
          simp [hl] at this
        · simp [ArgVal.items, kwGet, hn]
    · simp [kwGet]

theorem kwGet_poItems_some (A : Arguments) (ps : List Param) (hnd : (ps.map (·.name)).Nodup)
    (hty : ∀ p ∈ ps, Typed A p) (q : Param) (hq : q ∈ ps) (hk : q.kind = .po) (v : Val)
    (hl : lookup A q.name = some (.one v)) : kwGet (poItems A ps) q.name = some v := by
  induction ps with
  | nil => cases hq
  | cons p ps ih =>
    simp only [List.map_cons, List.nodup_cons] at hnd
    rw [poItems_cons, kwGet_append]
    rcases List.mem_cons.mp hq with rfl | hq'
    · simp [poItem, hk, hl, ArgVal.items, kwGet]
    · have hne : p.name ≠ q.name := fun h => hnd.1 (h ▸ List.mem_map_of_mem hq')
      have h0 : kwGet (poItem A p) q.name = none := by
        unfold poItem
        split
        · rename_i hkp
          cases hlp : lookup A p.name with
          | none => simp [kwGet]
          | some a =>
            have := hty p List.mem_cons_self a hlp
            simp only [hkp] at this
            obtain ⟨w, rfl⟩ := this
            simp [ArgVal.items, kwGet, hne]
        · simp [kwGet]
      rw [h0, ih hnd.2 (fun r hr => hty r (List.mem_cons_of_mem _ hr)) hq']
      rfl

/-- equality of what a parameter holds, dicts compared as dicts (by lookup) -/
def valEquiv : ArgVal → ArgVal → Prop
  | .dict d, .dict d' => ∀ n, kwGet d n = kwGet d' n
  | a, b => a = b

theorem valEquiv_refl (a : ArgVal) : valEquiv a a := by
  cases a <;> simp [valEquiv]

theorem kwGet_filter_key (kw : KW) (P : Name × Val → Bool) (n : Name) (h : ∀ v, P (n, v) = true) :
    kwGet (kw.filter P) n = kwGet kw n := by
  induction kw with
  | nil => rfl
  | cons e rest ih =>
    obtain ⟨k, v⟩ := e
    simp only [List.filter_cons]
    split
    · simp only [kwGet, ih]
    · rename_i hP
      simp only [kwGet]
      split
      · rename_i hk; subst hk; simp [h v] at hP
      · exact ih

theorem kwGet_filter_congr_key (kw : KW) (P Q : Name × Val → Bool) (n : Name)
    (h : ∀ v, P (n, v) = Q (n, v)) : kwGet (kw.filter P) n = kwGet (kw.filter Q) n := by
  induction kw with
  | nil => rfl
  | cons e rest ih =>
    obtain ⟨k, v⟩ := e
    by_cases hk : k = n
    · subst hk
      simp only [List.filter_cons, h v]
      split
      · simp [kwGet]
      · exact ih
    · simp only [List.filter_cons]
      split <;> split <;> simp [kwGet, hk, ih]

section corner
variable {sig : List Param} {args : List Val} {kw : KW} {pre rest : List Param}

theorem bound_clean' (hsp : Split sig args.length pre rest) (hnd : (sig.map (·.name)).Nodup) (hs : Sorted sig) :
    DictClean (boundArgs pre rest args kw) sig := by
  intro p hp hk d hl q hq hqk
  rw [hsp.eq] at hp
  rcases List.mem_append.mp hp with hp | hp
  · have := hsp.pos p hp
    simp [isPos, hk] at this
  · rw [entry_vk hsp hnd hs p hp hk, dict_general kw pre rest hsp.pos, ← hsp.eq] at hl
    split at hl
    · cases hl
    · cases hl
      apply kwGet_filter_none
      intro v
      have : consumed sig q.name = true := by
        simp only [consumed, List.any_eq_true]
        exact ⟨q, hq, by rcases hqk with h | h <;> simp [h]⟩
      simp [this]

/-- **The call in the corner, computed.** `sig = pre ++ q₀ :: rest'`: the arguments reach exactly `pre`;
`q₀` is positional-only and not named by a keyword (otherwise `bind_expected` raises). The parameters of
`pre` get their entries positionally, `q₀` its default, the rest is passed by keyword. -/
theorem invoke_corner (q0 : Param) (rest' : List Param) (hsp : Split sig args.length pre (q0 :: rest'))
    (hnd : (sig.map (·.name)).Nodup) (hs : Sorted sig) (hq0 : q0.kind = .po) (hun : kwGet kw q0.name = none) :
    invoke true sig args kw =
      prependO (pre.map fun p => (p.name, entryOf (boundArgs pre (q0 :: rest') args kw) p))
        (absent q0 (resK (boundArgs pre (q0 :: rest') args kw) [] rest')) := by
  obtain ⟨hn1, hn2, hn3⟩ := split_nodup hsp hnd
  have hq0m : q0 ∈ q0 :: rest' := List.mem_cons_self
  have hlen := rest_pos_exhausted hsp hs q0 hq0m (by simp [isPos, hq0])
  have has : args.drop pre.length = [] := by simp [hlen]
  have hb : blocked (q0 :: rest') (args.drop pre.length) (eraseNames kw pre) = false := by
    rw [has]
    simp [blocked, hq0, kwGet_eraseNames_ne kw pre q0.name (fun q hq => hn3 q hq q0 hq0m), hun]
  have hty := bound_typed (kw := kw) hsp hnd hs
  have hcl := bound_clean' (kw := kw) hsp hnd hs
  have hsr := split_sorted hsp hs
  unfold invoke invokeWith
  rw [bind_closed sig args kw pre (q0 :: rest') hsp hnd, hb]
  simp only [Bool.false_eq_true, if_false]
  generalize hA : boundArgs pre (q0 :: rest') args kw = A at *
  have hin : ∀ p ∈ pre, lookup A p.name ≠ none := by
    intro p hp
    obtain ⟨j, hj⟩ := List.getElem?_of_mem hp
    rw [← hA, entry_pre hsp hnd j p hj]
    simp
  have hl0 : lookup A q0.name = none := by
    rw [← hA, entry_named hsp hnd q0 hq0m (by simp [named, hq0]), hun]; rfl
  rw [hsp.eq] at hnd hty hcl ⊢
  rw [rt_prefix A pre (q0 :: rest') hnd hty hcl hsp.pos hin]
  congr 1
  simp only [baArgs, baKwargs, hq0, hl0, pyCall]
  simp only [reduceCtorEq, or_self, if_false, Option.isSome_none, Bool.false_eq_true]
  congr 1
  have := rt2X A rest' [] (by simpa using (List.nodup_cons.mp (by simpa using hn2)).2) (sorted_tail hsr)
    (fun p hp => hty p (List.mem_append_right _ (List.mem_cons_of_mem _ hp)))
    (fun p hp hk d hl q hq hqk => hcl p (List.mem_append_right _ (List.mem_cons_of_mem _ hp)) hk d hl q
      (List.mem_append_right _ (List.mem_cons_of_mem _ hq)) hqk)
    (fun _ _ _ => rfl)
    (fun q hq hk => by
      rw [← hA, entry_vp hsp (by rw [hsp.eq]; exact hnd) q (List.mem_cons_of_mem _ hq) hk, has]
      rfl)
  simpa using this

/-- in the corner `**kwargs` holds, as a dict, exactly the unconsumed keywords -/
theorem corner_dict (q0 : Param) (rest' : List Param) (hsp : Split sig args.length pre (q0 :: rest'))
    (hnd : (sig.map (·.name)).Nodup) (hs : Sorted sig) (hun : kwGet kw q0.name = none) (n : Name) :
    kwGet (poItems (boundArgs pre (q0 :: rest') args kw) rest' ++
        eraseNamed (eraseNames kw pre) (q0 :: rest')) n =
      kwGet (kw.filter fun e => !consumed sig e.1) n := by
  obtain ⟨hn1, hn2, hn3⟩ := split_nodup hsp hnd
  have hty := bound_typed (kw := kw) hsp hnd hs
  have hty' : ∀ p ∈ rest', Typed (boundArgs pre (q0 :: rest') args kw) p := fun p hp =>
    hty p (by rw [hsp.eq]; exact List.mem_append_right _ (List.mem_cons_of_mem _ hp))
  have hn2' : (rest'.map (·.name)).Nodup := (List.nodup_cons.mp (by simpa using hn2)).2
  have hent : ∀ x ∈ rest', x.kind = .po →
      lookup (boundArgs pre (q0 :: rest') args kw) x.name = (kwGet kw x.name).map .one := fun x hx hk =>
    entry_named hsp hnd x (List.mem_cons_of_mem _ hx) (by simp [named, hk])
  rw [kwGet_append, dict_general kw pre (q0 :: rest') hsp.pos, ← hsp.eq]
  by_cases hex : ∃ x ∈ rest', x.kind = .po ∧ x.name = n ∧ (kwGet kw n).isSome = true
  · obtain ⟨x, hx, hxk, hxn, hsome⟩ := hex
    obtain ⟨v, hv⟩ := Option.isSome_iff_exists.mp hsome
    have hl := hent x hx hxk
    rw [hxn, hv] at hl
    have h1 := kwGet_poItems_some _ rest' hn2' hty' x hx hxk v (by rw [hxn]; exact hl)
    rw [hxn] at h1
    rw [h1]
    have hcons : consumed sig n = false := by
      cases hcn : consumed sig n with
      | false => rfl
      | true =>
        simp only [consumed, List.any_eq_true, Bool.and_eq_true, beq_iff_eq, Bool.or_eq_true] at hcn
        obtain ⟨y, hy, hyn, hyk⟩ := hcn
        have hxs : x ∈ sig := by rw [hsp.eq]; exact List.mem_append_right _ (List.mem_cons_of_mem _ hx)
        have := eq_of_name_eq sig hnd y x hy hxs (hyn.trans hxn.symm)
        subst this
        rcases hyk with h | h <;> simp [hxk] at h
    have hR : kwGet (kw.filter fun e => !consumed sig e.1) n = some v := by
      rw [kwGet_filter_key kw (fun e => !consumed sig e.1) n (fun w => by simp [hcons]), hv]
    rw [hR]
    rfl
  · have hnone : kwGet (poItems (boundArgs pre (q0 :: rest') args kw) rest') n = none := by
      apply kwGet_poItems_none _ _ _ hty'
      intro x hx hxk hxn
      rw [hent x hx hxk, hxn]
      cases hg : kwGet kw n with
      | none => rfl
      | some v => exact absurd ⟨x, hx, hxk, hxn, by simp [hg]⟩ hex
    rw [hnone]
    show kwGet _ n = _
    by_cases hpo : ∃ x ∈ q0 :: rest', x.kind = .po ∧ x.name = n
    · obtain ⟨x, hx, hxk, hxn⟩ := hpo
      have hkn : kwGet kw n = none := by
        rcases List.mem_cons.mp hx with rfl | hx'
        · rw [← hxn]; exact hun
        · cases hg : kwGet kw n with
          | none => rfl
          | some v => exact absurd ⟨x, hx', hxk, hxn, by simp [hg]⟩ hex
      rw [kwGet_filter_of_none _ _ _ hkn, kwGet_filter_of_none _ _ _ hkn]
    · apply kwGet_filter_congr_key
      intro v
      have : ((q0 :: rest').any fun q => q.kind == .po && q.name == n) = false := by
        rw [List.any_eq_false]
        intro x hx
        simp only [Bool.and_eq_true, beq_iff_eq, not_and]
        exact fun hk hn => hpo ⟨x, hx, hk, hn⟩
      simp [this]

/-- **The corner, parameter by parameter.** If the call goes through although a keyword names an
unreached positional-only parameter, every parameter still holds what the Spec says — `**kwargs` as a
dict (the keyword of the positional-only parameter arrives there in a different position). -/
theorem receive_corner (hnd : (sig.map (·.name)).Nodup) (hs : Sorted sig) (hc : corner sig args kw = true)
    (fr : Frame) (h : invoke true sig args kw = some fr) (i : Nat) (p : Param) (hi : sig[i]? = some p) :
    ∃ v w, specParam sig args kw i p = some v ∧ lookup fr p.name = some w ∧ valEquiv w v := by
  obtain ⟨pre, rest, hsp⟩ := exists_split sig args.length
  obtain ⟨j, q, hj, hqk, hjl, hqn⟩ := cornerFrom_true args kw 0 sig hc
  have hjp : pre.length ≤ j := by have := hsp.len; omega
  have hqr : rest[j - pre.length]? = some q := by
    rw [hsp.eq, List.getElem?_append_right hjp] at hj; exact hj
  have hqm : q ∈ rest := List.mem_of_getElem? hqr
  obtain ⟨q0, rest', hr⟩ : ∃ q0 rest', rest = q0 :: rest' := by
    cases rest with
    | nil => cases hqm
    | cons a b => exact ⟨a, b, rfl⟩
  subst hr
  have hsr := split_sorted hsp hs
  have hq0 : q0.kind = .po := by
    rcases List.mem_cons.mp hqm with rfl | hm
    · exact hqk
    · have := sorted_head hsr q hm
      cases hk : q0.kind <;> simp [hk, hqk, kindOk] at this ⊢
  have hlen := rest_pos_exhausted hsp hs q0 List.mem_cons_self (by simp [isPos, hq0])
  obtain ⟨hn1, hn2, hn3⟩ := split_nodup hsp hnd
  have hn2c : q0.name ∉ rest'.map (·.name) ∧ (rest'.map (·.name)).Nodup := by
    simpa only [List.map_cons, List.nodup_cons] using hn2
  cases hun : kwGet kw q0.name with
  | some v =>
    exfalso
    have hb : blocked (q0 :: rest') (args.drop pre.length) (eraseNames kw pre) = true := by
      have : args.drop pre.length = [] := by simp [hlen]
      rw [this]
      simp [blocked, hq0, kwGet_eraseNames_ne kw pre q0.name (fun x hx => hn3 x hx q0 List.mem_cons_self), hun]
    unfold invoke invokeWith at h
    rw [bind_closed sig args kw pre (q0 :: rest') hsp hnd, hb] at h
    simp at h
  | none =>
    rw [invoke_corner q0 rest' hsp hnd hs hq0 hun] at h
    have hdict := corner_dict (kw := kw) q0 rest' hsp hnd hs hun
    have hentn := fun x hx hn => entry_named (kw := kw) hsp hnd x hx hn
    have hentv := fun x hx hk => entry_vk (kw := kw) hsp hnd hs x hx hk
    have hentp := fun j x hj => entry_pre (kw := kw) hsp hnd j x hj
    have hrecvp := fun j x hj => recv_pre (kw := kw) hsp hnd j x hj
    generalize boundArgs pre (q0 :: rest') args kw = A at h hdict hentn hentv hentp hrecvp
    -- take the frame apart
    cases hR : resK A [] rest' with
    | none => simp [hR, absent_none, prependO] at h
    | some fr2 =>
      have hd0 : q0.dflt = true := by
        cases hd : q0.dflt with
        | true => rfl
        | false => simp [hR, absent, hd, prependO] at h
      simp only [hR, absent, hd0, if_true, consO, prependO, Option.some.injEq] at h
      subst h
      simp only [resK, List.nil_append] at hR
      split at hR
      · cases hR
      · have hcm := collect_map_lookup rest' _ fr2 hn2c.2 hR
        by_cases h1 : i < pre.length
        · -- a reached positional parameter
          have hpi : pre[i]? = some p := by
            rw [hsp.eq, List.getElem?_append_left h1] at hi; exact hi
          have hpm : p ∈ pre := List.mem_of_getElem? hpi
          have hl := hentp i p hpi
          have hr := hrecvp i p hpi
          have hpos := hsp.pos p hpm
          refine ⟨entryOf A p, entryOf A p, ?_, ?_, valEquiv_refl _⟩
          · rw [← hr]
            cases hk : p.kind <;> simp [isPos, hk] at hpos <;> simp [recv, hk, hl, entryOf, posEntry]
          · rw [lookup_append, lookup_map_entry pre (entryOf A) hn1 p hpm]
            rfl
        · by_cases h2 : i = pre.length
          · -- the first unreached parameter: its default
            have hpq : p = q0 := by
              rw [hsp.eq, List.getElem?_append_right (by omega), h2] at hi
              simpa using hi.symm
            subst hpq
            refine ⟨.dflt, .dflt, ?_, ?_, rfl⟩
            · have : args[i]? = none := by simp; omega
              simp [specParam, hq0, this, dfltOr, hd0]
            · rw [lookup_append, lookup_map_none pre (entryOf A) p.name
                (fun x hx => hn3 x hx p List.mem_cons_self)]
              simp [lookup]
          · -- a parameter passed by keyword
            have hpi : rest'[i - pre.length - 1]? = some p := by
              rw [hsp.eq, List.getElem?_append_right (by omega)] at hi
              have : i - pre.length = (i - pre.length - 1) + 1 := by omega
              rw [this] at hi
              simpa using hi
            have hpm : p ∈ rest' := List.mem_of_getElem? hpi
            have hpm' : p ∈ q0 :: rest' := List.mem_cons_of_mem _ hpm
            obtain ⟨w, hw1, hw2⟩ := hcm p hpm
            have hne0 : q0.name ≠ p.name := fun he => hn2c.1 (he ▸ List.mem_map_of_mem hpm)
            have hlk : lookup ((pre.map fun x => (x.name, entryOf A x)) ++ (q0.name, ArgVal.dflt) :: fr2) p.name =
                some w := by
              rw [lookup_append, lookup_map_none pre (entryOf A) p.name (fun x hx => hn3 x hx p hpm')]
              simp [lookup, hne0, hw2]
            have hnoarg : args[i]? = none := by simp; omega
            cases hk : p.kind with
            | po =>
              refine ⟨w, w, ?_, hlk, valEquiv_refl _⟩
              rw [← hw1]; simp [specParam, recvK, hk, hnoarg]
            | pk =>
              refine ⟨w, w, ?_, hlk, valEquiv_refl _⟩
              rw [← hw1]
              simp only [specParam, recvK, hk, hentn p hpm' (by simp [named, hk]), hnoarg]
              cases kwGet kw p.name <;> rfl
            | ko =>
              refine ⟨w, w, ?_, hlk, valEquiv_refl _⟩
              rw [← hw1]
              simp only [specParam, recvK, hk, hentn p hpm' (by simp [named, hk])]
              cases kwGet kw p.name <;> rfl
            | vp =>
              refine ⟨w, w, ?_, hlk, valEquiv_refl _⟩
              have : args.drop i = [] := by simp; omega
              rw [← hw1]; simp [specParam, recvK, hk, this]
            | vk =>
              simp only [recvK, hk, hentv p hpm' hk] at hw1
              refine ⟨.dict (kw.filter fun e => !consumed sig e.1), w, by simp [specParam, hk], hlk, ?_⟩
              generalize eraseNamed (eraseNames kw pre) (q0 :: rest') = d at hw1 hdict
              by_cases he : d.isEmpty = true
              · simp only [he, if_true] at hw1
                rw [← Option.some.inj hw1]
                intro n
                rw [← hdict n, List.isEmpty_iff.mp he]
              · simp only [he, Bool.false_eq_true, if_false, ArgVal.items] at hw1
                rw [← Option.some.inj hw1]
                intro n
                rw [← hdict n]

end corner

/-! ## 9. `ba.kwargs` never inserts a key twice (so list append is dict insertion) -/

theorem keys_filter_nodup (kw : KW) (P : Name × Val → Bool) (h : (keys kw).Nodup) : (keys (kw.filter P)).Nodup := by
  unfold keys at *
  exact List.Nodup.sublist (List.Sublist.map _ List.filter_sublist) h

theorem baKwargs_keys_nodup (ps : List Param) (A : Arguments) (st : Bool) (hnd : (ps.map (·.name)).Nodup)
    (hs : Sorted ps) (hty : ∀ p ∈ ps, Typed A p)
    (hd : ∀ p ∈ ps, p.kind = .vk → ∀ d, lookup A p.name = some (.dict d) →
      (keys d).Nodup ∧ ∀ q ∈ ps, named q = true → kwGet d q.name = none) :
    (keys (baKwargs ps A st)).Nodup := by
  induction ps generalizing st with
  | nil => simp [baKwargs, keys]
  | cons p ps ih =>
    simp only [List.map_cons, List.nodup_cons] at hnd
    have hty' : ∀ q ∈ ps, Typed A q := fun q hq => hty q (List.mem_cons_of_mem _ hq)
    have hd' : ∀ q ∈ ps, q.kind = .vk → ∀ d, lookup A q.name = some (.dict d) →
        (keys d).Nodup ∧ ∀ r ∈ ps, named r = true → kwGet d r.name = none := fun q hq hk d hl =>
      ⟨(hd q (List.mem_cons_of_mem _ hq) hk d hl).1,
       fun r hr hn => (hd q (List.mem_cons_of_mem _ hq) hk d hl).2 r (List.mem_cons_of_mem _ hr) hn⟩
    have ih' := fun st => ih st hnd.2 (sorted_tail hs) hty' hd'
    have hne : ∀ q ∈ ps, q.name ≠ p.name := fun q hq h => hnd.1 (h ▸ List.mem_map_of_mem hq)
    have hfresh : named p = true → p.name ∉ keys (baKwargs ps A true) := fun hn => by
      rw [← kwGet_none_iff]
      exact baKwargs_get_none ps A true p.name hty' hne
        (fun q hq hk d hl => (hd q (List.mem_cons_of_mem _ hq) hk d hl).2 p List.mem_cons_self hn)
    have htp := hty p List.mem_cons_self
    unfold baKwargs
    split
    · cases hl : lookup A p.name with
      | none => simpa using ih' true
      | some a =>
        have := htp a hl
        cases hk : p.kind <;> simp only [hk] at this <;> obtain ⟨x, rfl⟩ := this
        · have := hfresh (by simp [named, hk])
          simp only [ArgVal.items, keys, List.map_append, List.map_cons, List.map_nil, List.singleton_append,
            List.nodup_cons] at this ⊢
          exact ⟨this, ih' true⟩
        · have := hfresh (by simp [named, hk])
          simp only [ArgVal.items, keys, List.map_append, List.map_cons, List.map_nil, List.singleton_append,
            List.nodup_cons] at this ⊢
          exact ⟨this, ih' true⟩
        · simpa [ArgVal.items] using ih' true
        · have := hfresh (by simp [named, hk])
          simp only [ArgVal.items, keys, List.map_append, List.map_cons, List.map_nil, List.singleton_append,
            List.nodup_cons] at this ⊢
          exact ⟨this, ih' true⟩
        · have hps : ps = [] := by
            cases ps with
            | nil => rfl
            | cons q qs =>
              have := sorted_head hs q List.mem_cons_self
              simp [hk, kindOk] at this
          subst hps
          simpa [ArgVal.items, baKwargs] using (hd p List.mem_cons_self hk x hl).1
    · split <;> exact ih' _

theorem baKwargs_prefix (A : Arguments) (pre r : List Param) (hpos : ∀ p ∈ pre, isPos p = true)
    (hin : ∀ p ∈ pre, lookup A p.name ≠ none) : baKwargs (pre ++ r) A false = baKwargs r A false := by
  induction pre with
  | nil => rfl
  | cons p ps ih =>
    have hp := hpos p List.mem_cons_self
    have hl := hin p List.mem_cons_self
    have ih' := ih (fun q hq => hpos q (List.mem_cons_of_mem _ hq)) (fun q hq => hin q (List.mem_cons_of_mem _ hq))
    cases hk : p.kind <;> simp [isPos, hk] at hp
    · cases h : lookup A p.name with
      | none => exact absurd h hl
      | some a => simp [baKwargs, hk, h, ih']
    · cases h : lookup A p.name with
      | none => exact absurd h hl
      | some a => simp [baKwargs, hk, h, ih']

/-- **`ba.kwargs` is a dict built without overwriting.** For the `arguments` that `bind_expected`
produces from keywords with distinct keys, no key is inserted twice. -/
theorem baKwargs_nodup (sig : List Param) (args : List Val) (kw : KW) (hnd : (sig.map (·.name)).Nodup)
    (hs : Sorted sig) (hkw : (keys kw).Nodup) (A : Arguments) (h : bindExpected true sig args kw = some A) :
    (keys (baKwargs sig A false)).Nodup := by
  obtain ⟨pre, rest, hsp⟩ := exists_split sig args.length
  rw [bind_closed sig args kw pre rest hsp hnd] at h
  split at h
  · cases h
  · cases h
    obtain ⟨hn1, hn2, hn3⟩ := split_nodup hsp hnd
    have hty := bound_typed (kw := kw) hsp hnd hs
    have hin : ∀ p ∈ pre, lookup (boundArgs pre rest args kw) p.name ≠ none := by
      intro p hp
      obtain ⟨j, hj⟩ := List.getElem?_of_mem hp
      rw [entry_pre hsp hnd j p hj]
      simp
    rw [hsp.eq, baKwargs_prefix _ pre rest hsp.pos hin]
    apply baKwargs_keys_nodup rest _ false hn2 (split_sorted hsp hs)
      (fun p hp => hty p (by rw [hsp.eq]; exact List.mem_append_right _ hp))
    intro p hp hk d hl
    rw [entry_vk hsp hnd hs p hp hk] at hl
    split at hl
    · cases hl
    · cases hl
      rw [eraseNamed_eq_filter]
      refine ⟨keys_filter_nodup _ _ (by rw [eraseNames_eq_filter]; exact keys_filter_nodup _ _ hkw), ?_⟩
      intro q hq hn
      apply kwGet_filter_none
      intro v
      have : (rest.any fun p => named p && p.name == q.name) = true := by
        rw [List.any_eq_true]
        exact ⟨q, hq, by simp [hn]⟩
      simp [this]

end SMV.Bind
