import SMV.Lemmas.DeclBody
import SMV.Lemmas.DeclEquiv
/-!
# `t.from_.any(kw)` versus `t.from_(s₁, …, sₖ, kw)` (rewrite (f) of C15)

`FinRel e c₁ c₂`: the two classes after the event `e` has been defined — same registration data; the
stores agree on a common part `S`, `B` and differ in that `c₁` holds the `AnyState` transition and,
at the end, its expansions `C`, where `c₂` holds the explicit transitions `X'` in place.
-/
namespace SMV.Decl

/-- what `≈` compares of a transition, with its source -/
def srcCand (t : TDef) : Src × Cand := (t.source, cand t)

def noPh (t : TDef) : Prop := ∀ v, holdsPh t v = false

structure FinRel (e : Name) (c₁ c₂ : Cls) : Prop where
  states : c₁.states = c₂.states
  events : c₁.events = c₂.events
  pending : c₁.pending = c₂.pending
  err : c₁.err = c₂.err
  shape : ∃ S tA' B C X', c₁.trans = S ++ tA' :: (B ++ C) ∧ c₂.trans = S ++ (X' ++ B) ∧
    tA'.source = .any ∧ noPh tA' ∧
    (∀ t ∈ B, noPh t ∧ e ∉ finalEvents t) ∧
    (∀ t ∈ C, noPh t ∧ finalEvents t = [e]) ∧
    (∀ t ∈ X', noPh t ∧ finalEvents t = [e]) ∧
    C.map srcCand = X'.map srcCand

theorem map_noPh (g : TDef → TDef) (hg : ∀ t, noPh t → g t = t) (l : List TDef) (hl : ∀ t ∈ l, noPh t) :
    l.map g = l := by
  induction l with
  | nil => rfl
  | cons a l ih =>
    simp only [List.map_cons, hg a (hl a List.mem_cons_self),
      ih (fun t ht => hl t (List.mem_cons_of_mem _ ht))]

theorem registered_states {c₁ c₂ : Cls} (h : c₁.states = c₂.states) (t : TDef) :
    registered c₁ t = registered c₂ t := by
  simp only [registered, h]

theorem FinRel.updateRef {e : Name} {c₁ c₂ : Cls} (h : FinRel e c₁ c₂) (p : Name × Option EvRef) :
    FinRel e (updateRef c₁ p) (updateRef c₂ p) := by
  obtain ⟨S, tA', B, C, X', h1, h2, hA, hAp, hB, hC, hX, hm⟩ := h.shape
  obtain ⟨v, x⟩ := p
  have hr : ∀ t, registered c₁ t = registered c₂ t := registered_states h.states
  cases x with
  | none =>
    have key : (c₁.trans.any fun t => registered c₁ t && holdsPh t v) =
        (c₂.trans.any fun t => registered c₂ t && holdsPh t v) := by
      have z : ∀ (l : List TDef), (∀ t ∈ l, noPh t) →
          (l.any fun t => registered c₂ t && holdsPh t v) = false := by
        intro l hl
        simp only [List.any_eq_false, Bool.and_eq_true, not_and]
        intro t ht _
        simp [hl t ht v]
      rw [h1, h2]
      simp only [hr, List.any_append, List.any_cons, hAp v, Bool.and_false, Bool.false_or,
        z B (fun t ht => (hB t ht).1), z C (fun t ht => (hC t ht).1), z X' (fun t ht => (hX t ht).1),
        Bool.or_false]
    simp only [SMV.Decl.updateRef, key]
    split
    · exact ⟨h.states, h.events, h.pending, rfl, ⟨S, tA', B, C, X', h1, h2, hA, hAp, hB, hC, hX, hm⟩⟩
    · exact h
  | some x =>
    simp only [SMV.Decl.updateRef]
    refine ⟨h.states, h.events, h.pending, h.err, ?_⟩
    let g : TDef → TDef := fun t =>
      if registered c₂ t && holdsPh t v then
        { t with events := t.events.filter (fun y => !y.same (.ph v)) ++ [x] } else t
    have hg : ∀ t, noPh t → g t = t := by
      intro t ht
      simp only [g, ht v, Bool.and_false, Bool.false_eq_true, ↓reduceIte]
    refine ⟨S.map g, tA', B, C, X', ?_, ?_, hA, hAp, hB, hC, hX, hm⟩
    · rw [h1]
      have hgA := hg tA' hAp
      simp only [g] at hgA
      simp only [hr, List.map_append, List.map_cons, hgA]
      rw [show (fun t => if (registered c₂ t && holdsPh t v) = true then
            { t with events := t.events.filter (fun y => !y.same (.ph v)) ++ [x] } else t) = g from rfl,
        map_noPh g hg B (fun t ht => (hB t ht).1), map_noPh g hg C (fun t ht => (hC t ht).1)]
    · rw [h2]
      simp only [List.map_append]
      rw [show (fun t => if (registered c₂ t && holdsPh t v) = true then
            { t with events := t.events.filter (fun y => !y.same (.ph v)) ++ [x] } else t) = g from rfl,
        map_noPh g hg B (fun t ht => (hB t ht).1), map_noPh g hg X' (fun t ht => (hX t ht).1)]

theorem FinRel.foldl_updateRef {e : Name} (ps : List (Name × Option EvRef)) {c₁ c₂ : Cls}
    (h : FinRel e c₁ c₂) : FinRel e (ps.foldl SMV.Decl.updateRef c₁) (ps.foldl SMV.Decl.updateRef c₂) := by
  induction ps generalizing c₁ c₂ with
  | nil => exact h
  | cons p ps ih => exact ih (h.updateRef p)

theorem filter_map_congr {α β γ : Type} (f : α → β) (p : β → Bool) (g : β → γ) :
    ∀ (l₁ l₂ : List α), l₁.map f = l₂.map f →
      (l₁.filter (fun a => p (f a))).map (fun a => g (f a)) = (l₂.filter (fun a => p (f a))).map (fun a => g (f a))
  | [], [], _ => rfl
  | [], _ :: _, h => by simp at h
  | _ :: _, [], h => by simp at h
  | a :: l₁, b :: l₂, h => by
    simp only [List.map_cons, List.cons.injEq] at h
    have ih := filter_map_congr f p g l₁ l₂ h.2
    simp only [List.filter_cons, h.1]
    split <;> simp [ih, h.1]

/-- the candidates of a store for (state, event) -/
def candsOf (l : List TDef) (s e : Name) : List Cand :=
  ((l.filter (·.source == .st s)).filter (fun t => (finalEvents t).contains e)).map cand

theorem candsOf_append (l₁ l₂ : List TDef) (s e : Name) :
    candsOf (l₁ ++ l₂) s e = candsOf l₁ s e ++ candsOf l₂ s e := by
  simp [candsOf, List.filter_append]

theorem candsOf_nil_of {l : List TDef} {s x : Name} (h : ∀ t ∈ l, x ∉ finalEvents t) : candsOf l s x = [] := by
  simp only [candsOf, List.map_eq_nil_iff, List.filter_eq_nil_iff, List.mem_filter]
  intro t ht
  simpa using h t ht.1

theorem FinRel.cands {e : Name} {c₁ c₂ : Cls} (h : FinRel e c₁ c₂) (s x : Name) :
    cands c₁ s x = cands c₂ s x := by
  obtain ⟨S, tA', B, C, X', h1, h2, hA, _, hB, hC, hX, hm⟩ := h.shape
  show candsOf c₁.trans s x = candsOf c₂.trans s x
  rw [h1, h2]
  have hAny : candsOf [tA'] s x = [] := by simp [candsOf, hA]
  rw [show S ++ tA' :: (B ++ C) = S ++ ([tA'] ++ (B ++ C)) from rfl]
  simp only [candsOf_append, hAny, List.nil_append]
  congr 1
  by_cases hx : x = e
  · subst hx
    rw [candsOf_nil_of (fun t ht => (hB t ht).2), List.nil_append, List.append_nil]
    have := filter_map_congr srcCand (fun q => q.1 == Src.st s) (fun q => q) C X' hm
    have h3 : ∀ (l : List TDef), (∀ t ∈ l, finalEvents t = [x]) → candsOf l s x =
        ((l.filter (fun a => (srcCand a).1 == Src.st s)).map (fun a => srcCand a)).map (·.2) := by
      intro l hl
      simp only [candsOf, List.map_map]
      rw [List.filter_eq_self.mpr]
      · rfl
      · intro t ht
        simp [hl t (List.mem_filter.mp ht).1]
    rw [h3 C (fun t ht => (hC t ht).2), h3 X' (fun t ht => (hX t ht).2), this]
  · have hne : ∀ (l : List TDef), (∀ t ∈ l, finalEvents t = [e]) → candsOf l s x = [] := by
      intro l hl
      apply candsOf_nil_of
      intro t ht
      rw [hl t ht]
      simpa using hx
    rw [hne C (fun t ht => (hC t ht).2), hne X' (fun t ht => (hX t ht).2)]
    simp

theorem FinRel.equiv {e : Name} {c₁ c₂ : Cls} (h : FinRel e c₁ c₂) : Equiv c₁ c₂ :=
  ⟨h.states, fun x => by rw [h.events], fun s _ x => h.cands s.name x, h.err⟩

end SMV.Decl
