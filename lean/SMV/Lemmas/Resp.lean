import SMV.Model.Engine
/-!
# Relational invariants lifted through the engine

`Resp R x`: running `x` from any configuration `c` ends in a configuration related to `c` by `R`.

`Lift R A HR h` packages what is needed to push a reflexive–transitive relation `R` through the
engine, for *any* nested-send handler `h` (so: for both processing modes):
* `R` is preserved by appending log entries allowed by `A` (which may look at the configuration
  at append time, e.g. "the `seen` field equals the model field"),
* `R` is preserved by the handler, whose results satisfy `HR`.
The lemmas `runCb_lift … trigger_lift` then need only that the entries each callback produces are
allowed (`EntryOk`).
-/
namespace SMV

def Resp (R : Cfg → Cfg → Prop) {α} (x : EM α) : Prop := ∀ c, R c (x c).1

theorem Resp.bind' {R : Cfg → Cfg → Prop} (ht : ∀ a b c, R a b → R b c → R a c) {α β} {x : EM α}
    {f : α → EM β} (hx : Resp R x) (hf : ∀ a, Resp R (f a)) : Resp R (x >>= f) := by
  intro c
  have h1 := hx c
  rw [EM.bind_apply]
  split
  · rename_i c' a heq; rw [heq] at h1; exact ht _ _ _ h1 (hf a c')
  · rename_i c' e heq; rw [heq] at h1; exact h1

/-- `x` preserves the invariant `P` -/
def Pres (P : Cfg → Prop) {α} (x : EM α) : Prop := ∀ c, P c → P (x c).1

theorem Pres.bind {P : Cfg → Prop} {α β} {x : EM α} {f : α → EM β}
    (hx : Pres P x) (hf : ∀ a, Pres P (f a)) : Pres P (x >>= f) := by
  intro c hc
  have h1 := hx c hc
  rw [EM.bind_apply]
  split
  · rename_i c' a heq; rw [heq] at h1; exact hf a c' h1
  · rename_i c' e heq; rw [heq] at h1; exact h1
theorem Pres.pure {P : Cfg → Prop} {α} (a : α) : Pres P (pure a : EM α) := fun _ h => h
theorem Pres.throw {P : Cfg → Prop} {α} (e : Exc) : Pres P (EM.throw e : EM α) := fun _ h => h
theorem Pres.get {P : Cfg → Prop} : Pres P EM.get := fun _ h => h

structure Lift (R : Cfg → Cfg → Prop) (A : Cfg → Entry → Prop) (HR : Res → Prop) (h : Nested) : Prop where
  refl  : ∀ c, R c c
  trans : ∀ a b c, R a b → R b c → R a c
  /-- appending allowed entries (and bumping the invocation counter) -/
  log   : ∀ (c : Cfg) (es : List Entry) (n : Nat), (∀ e ∈ es, A c e) →
            R c { c with log := c.log ++ es, nextInv := n }
  /-- the nested-send handler -/
  handler : ∀ e c, R c (h e c).1 ∧ ∀ r, (h e c).2 = .ok r → HR r

section
variable {R : Cfg → Cfg → Prop} {A : Cfg → Entry → Prop} {HR : Res → Prop} {h : Nested}

theorem Lift.bind (L : Lift R A HR h) {α β} {x : EM α} {f : α → EM β}
    (hx : Resp R x) (hf : ∀ a, Resp R (f a)) : Resp R (x >>= f) := Resp.bind' L.trans hx hf
theorem Lift.pure (L : Lift R A HR h) {α} (a : α) : Resp R (pure a : EM α) := fun c => L.refl c
theorem Lift.throw (L : Lift R A HR h) {α} (e : Exc) : Resp R (EM.throw e : EM α) := fun c => L.refl c
theorem Lift.get (L : Lift R A HR h) : Resp R EM.get := fun c => L.refl c

/-- the entries one invocation of callback `cb` in phase `ph` may append are all allowed -/
def EntryOk (A : Cfg → Entry → Prop) (HR : Res → Prop) (x : Ctx) (ph : Phase) (cb : CbId) : Prop :=
  ∀ c, A c (.cbBegin x.t.tid ph cb c.cur x.t.event x.src x.tgt) ∧
       (∀ r, HR r → A c (.sendRet x.t.tid ph cb r)) ∧ ∀ v, A c (.cbEnd x.t.tid ph cb v)

theorem sendsLoop_lift (L : Lift R A HR h) (x : Ctx) (ph : Phase) (cb : CbId) (ok : EntryOk A HR x ph cb)
    (es : List EventId) (last : Option Res) : Resp R (sendsLoop h x ph cb last es) := by
  induction es generalizing last with
  | nil => exact L.pure _
  | cons e es ih =>
    unfold sendsLoop
    intro c
    rw [EM.bind_apply]
    have hh := L.handler e c
    split
    · rename_i c1 r heq
      rw [heq] at hh
      refine L.trans _ _ _ hh.1 ?_
      refine L.bind (fun c => ?_) (fun _ => ih _) c1
      have := L.log c [.sendRet x.t.tid ph cb r] c.nextInv
        (by intro e he; simp at he; subst he; exact (ok c).2.1 r (hh.2 r rfl))
      simpa [logAppend, EM.modify] using this
    · rename_i c1 e' heq
      rw [heq] at hh
      exact hh.1

theorem runCb_lift (L : Lift R A HR h) (m : Machine) (x : Ctx) (ph : Phase) (cb : CbId)
    (ok : EntryOk A HR x ph cb) : Resp R (runCb h m x ph cb) := by
  unfold runCb
  refine L.bind L.get fun cfg => ?_
  refine L.bind (fun c => ?_) fun _ => ?_
  · have := L.log c [.cbBegin x.t.tid ph cb c.cur x.t.event x.src x.tgt] (c.nextInv + 1)
      (by intro e he; simp at he; subst he; exact (ok c).1)
    simpa [EM.modify] using this
  refine L.bind (sendsLoop_lift L x ph cb ok _ _) fun last => ?_
  split
  · exact L.throw _
  · refine L.bind (fun c => ?_) fun _ => L.pure _
    have := L.log c [.cbEnd x.t.tid ph cb
        (retOf m (m.behav cb cfg.nextInv { tid := x.t.tid, state := cfg.cur, event := x.t.event }) last)] c.nextInv
      (by intro e he; simp at he; subst he; exact (ok c).2.2 _)
    simpa [logAppend, EM.modify] using this

theorem runGroup_lift (L : Lift R A HR h) (m : Machine) (x : Ctx) (ph : Phase) (cs : List CbId)
    (ok : ∀ cb ∈ cs, EntryOk A HR x ph cb) : Resp R (runGroup h m x ph cs) := by
  induction cs with
  | nil => exact L.pure _
  | cons c cs ih =>
    unfold runGroup
    exact L.bind (runCb_lift L m x ph c (ok c (by simp))) fun _ =>
      L.bind (ih fun cb hcb => ok cb (by simp [hcb])) fun _ => L.pure _

theorem runConds_lift (L : Lift R A HR h) (m : Machine) (x : Ctx) (cs : List (CbId × Bool))
    (ok : ∀ p ∈ cs, EntryOk A HR x .cond p.1) : Resp R (runConds h m x cs) := by
  induction cs with
  | nil => exact L.pure _
  | cons c cs ih =>
    obtain ⟨c, ex⟩ := c
    unfold runConds
    refine L.bind (runCb_lift L m x .cond c (ok (c, ex) (by simp))) fun v => ?_
    split
    · exact ih fun p hp => ok p (by simp [hp])
    · exact L.pure _

/-- the callbacks of each group of an activation of `tr` under event `ev` -/
def groupCbs (m : Machine) (ev : EventId) (tr : Transn) : Phase → List CbId
  | .validators => tr.validators
  | .cond => tr.conds.map (·.1)
  | .before => applicable ev tr.before
  | .exit => if tr.internal then [] else (stateDef m tr.source).exit
  | .on => applicable ev tr.on
  | .enter => if tr.internal then [] else (stateDef m tr.target).enter
  | .after => applicable ev tr.after

def actCtx (t : Trigger) (tr : Transn) : Ctx := { t := t, src := some tr.source, tgt := tr.target }

theorem activatePre_lift (L : Lift R A HR h) (m : Machine) (t : Trigger) (tr : Transn)
    (ok : ∀ ph, ph ≠ .enter → ph ≠ .after → ∀ cb ∈ groupCbs m t.event tr ph, EntryOk A HR (actCtx t tr) ph cb) :
    Resp R (activatePre h m t tr) := by
  unfold activatePre
  refine L.bind (runGroup_lift L m _ _ _ (ok .validators (by decide) (by decide))) fun _ => ?_
  refine L.bind (runConds_lift L m _ _ fun p hp =>
    ok .cond (by decide) (by decide) p.1 (List.mem_map_of_mem hp)) fun okc => ?_
  split
  · exact L.pure _
  refine L.bind (runGroup_lift L m _ _ _ (ok .before (by decide) (by decide))) fun _ => ?_
  refine L.bind (runGroup_lift L m _ _ _ (ok .exit (by decide) (by decide))) fun _ => ?_
  refine L.bind (runGroup_lift L m _ _ _ (ok .on (by decide) (by decide))) fun _ => ?_
  exact L.pure _

theorem activatePost_lift (L : Lift R A HR h) (m : Machine) (t : Trigger) (tr : Transn)
    (ok : ∀ ph, (ph = .enter ∨ ph = .after) → ∀ cb ∈ groupCbs m t.event tr ph, EntryOk A HR (actCtx t tr) ph cb)
    (hset : Resp R (setState t (stateVal m tr.target))) : Resp R (activatePost h m t tr) := by
  unfold activatePost
  refine L.bind hset fun _ => ?_
  refine L.bind (runGroup_lift L m _ _ _ (ok .enter (Or.inl rfl))) fun _ => ?_
  refine L.bind (runGroup_lift L m _ _ _ (ok .after (Or.inr rfl))) fun _ => ?_
  exact L.pure _

/-- `activate` preserves `R` when the entries of its groups are allowed and so is the assignment -/
theorem activate_lift (L : Lift R A HR h) (m : Machine) (t : Trigger) (tr : Transn)
    (ok : ∀ ph, ∀ cb ∈ groupCbs m t.event tr ph, EntryOk A HR (actCtx t tr) ph cb)
    (hset : Resp R (setState t (stateVal m tr.target))) : Resp R (activate h m t tr) := by
  unfold activate
  refine L.bind (activatePre_lift L m t tr fun ph _ _ => ok ph) fun r => ?_
  split
  · exact L.pure _
  · exact L.bind (activatePost_lift L m t tr (fun ph _ => ok ph) hset) fun _ => L.pure _

theorem tryCands_lift (L : Lift R A HR h) (m : Machine) (t : Trigger) (trs : List Transn)
    (ok : ∀ tr ∈ trs, matchesEv tr t.event = true →
      (∀ ph, ∀ cb ∈ groupCbs m t.event tr ph, EntryOk A HR (actCtx t tr) ph cb) ∧
      Resp R (setState t (stateVal m tr.target))) :
    Resp R (tryCands h m t trs) := by
  induction trs with
  | nil => exact L.pure _
  | cons tr rest ih =>
    have ih' := ih fun tr' h' => ok tr' (by simp [h'])
    unfold tryCands
    split
    · rename_i hm
      have := ok tr (by simp) hm
      refine L.bind (activate_lift L m t tr this.1 this.2) fun r => ?_
      split
      · exact ih'
      · exact L.pure _
    · exact ih'

theorem activateInitial_lift (L : Lift R A HR h) (m : Machine) (t : Trigger)
    (ok : ∀ s, initialTarget m = .ok s →
      (∀ cb ∈ (stateDef m s).enter, EntryOk A HR { t := t, src := none, tgt := s } .enter cb) ∧
      Resp R (setState t (stateVal m s))) :
    Resp R (activateInitial h m t) := by
  unfold activateInitial
  split
  · exact L.throw _
  · rename_i s hs
    have := ok s hs
    refine L.bind this.2 fun _ => ?_
    refine L.bind (runGroup_lift L m _ _ _ this.1) fun _ => L.pure _

theorem trigger_lift (L : Lift R A HR h) (m : Machine) (t : Trigger)
    (okI : t.event = initialEv → ∀ s, initialTarget m = .ok s →
      (∀ cb ∈ (stateDef m s).enter, EntryOk A HR { t := t, src := none, tgt := s } .enter cb) ∧
      Resp R (setState t (stateVal m s)))
    (ok : ∀ s, ∀ tr ∈ out m s, matchesEv tr t.event = true →
      (∀ ph, ∀ cb ∈ groupCbs m t.event tr ph, EntryOk A HR (actCtx t tr) ph cb) ∧
      Resp R (setState t (stateVal m tr.target))) :
    Resp R (trigger h m t) := by
  unfold trigger
  refine L.bind L.get fun cfg => ?_
  split
  · rename_i he
    have he' : t.event = initialEv := by
      simp only [Bool.and_eq_true, beq_iff_eq] at he; exact he.1
    exact L.bind (activateInitial_lift L m t (okI he')) fun _ => L.pure _
  · split
    · exact L.pure _
    · split
      · exact L.throw _
      · rename_i s _
        refine L.bind (tryCands_lift L m t _ (ok s)) fun r => ?_
        split
        · exact L.pure _
        · split
          · exact L.pure _
          · exact L.throw _
end

end SMV
