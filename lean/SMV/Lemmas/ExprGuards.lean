import SMV.Lemmas.ExprEval
/-!
# Lemmas for C08: provider conjunction, name substitution, guard lists, instantiation
-/
namespace SMV.GExpr

/-! ## provider conjunction -/

/-- continuation of `s₁ and … and s_k` once the value so far is `v` -/
def andTail (ρ : Env) (v : V) : List Nat → V
  | [] => v
  | t :: ss => if truthy v then andTail ρ (ρ t) ss else v

def readsTail (ρ : Env) (v : V) : List Nat → List Nat
  | [] => []
  | t :: ss => if truthy v then t :: readsTail ρ (ρ t) ss else []

theorem andTail_falsy (ρ : Env) (v : V) (h : truthy v = false) (ss : List Nat) :
    andTail ρ v ss = v := by
  cases ss <;> simp [andTail, h]

theorem readsTail_falsy (ρ : Env) (v : V) (h : truthy v = false) (ss : List Nat) :
    readsTail ρ v ss = [] := by
  cases ss <;> simp [readsTail, h]

theorem andAll_cons (ρ : Env) (s : Nat) (ss : List Nat) : andAll ρ (s :: ss) = andTail ρ (ρ s) ss := by
  induction ss generalizing s with
  | nil => rfl
  | cons t ss ih =>
    simp only [andAll, andTail]
    split
    · exact ih t
    · rfl

theorem provReads_cons (ρ : Env) (s : Nat) (ss : List Nat) :
    provReads ρ (s :: ss) = s :: readsTail ρ (ρ s) ss := by
  induction ss generalizing s with
  | nil => rfl
  | cons t ss ih =>
    simp only [provReads, readsTail]
    split
    · rw [ih t]
    · rfl

theorem evalLib_foldl_and (S : Sem) (ρ : Env) (re : Bool) (ss : List Nat) :
    ∀ (a : E) (va : V), (evalLib S ρ re a).val = some va →
      (evalLib S ρ re (ss.foldl (fun acc t => .and acc (.name t)) a)).val = some (andTail ρ va ss) ∧
      (evalLib S ρ re (ss.foldl (fun acc t => .and acc (.name t)) a)).reads =
        (evalLib S ρ re a).reads ++ (readsTail ρ va ss).map (·, re) := by
  induction ss with
  | nil => intro a va h; simp [andTail, readsTail, h]
  | cons t ss ih =>
    intro a va h
    simp only [List.foldl_cons]
    by_cases ht : truthy va = true
    · have h' : (evalLib S ρ re (.and a (.name t))).val = some (ρ t) := by
        simp [evalLib, h, ht]
      have hr : (evalLib S ρ re (.and a (.name t))).reads = (evalLib S ρ re a).reads ++ [(t, re)] := by
        simp [evalLib, h, ht]
      have := ih (.and a (.name t)) (ρ t) h'
      rw [this.1, this.2, hr]
      simp [andTail, readsTail, ht]
    · have hf : truthy va = false := by simpa using ht
      have h' : (evalLib S ρ re (.and a (.name t))).val = some va := by
        simp [evalLib, h, hf]
      have hr : (evalLib S ρ re (.and a (.name t))).reads = (evalLib S ρ re a).reads := by
        simp [evalLib, h, hf]
      have := ih (.and a (.name t)) va h'
      rw [this.1, this.2, hr]
      simp [andTail, readsTail, hf, andTail_falsy, readsTail_falsy]

/-- `reduce(custom_and, providers)`: value and reads of the conjunction over a name's providers -/
theorem evalLib_provExpr (S : Sem) (ρ : Env) (re : Bool) (ps : List Nat) :
    (evalLib S ρ re (provExpr ps)).val = some (andAll ρ ps) ∧
    (evalLib S ρ re (provExpr ps)).reads = (provReads ρ ps).map (·, re) := by
  cases ps with
  | nil => simp [provExpr, evalLib, andAll, provReads]
  | cons s ss =>
    have := evalLib_foldl_and S ρ re ss (.name s) (ρ s) (by simp [evalLib])
    simp only [provExpr]
    rw [this.1, this.2, andAll_cons, provReads_cons]
    simp [evalLib]

/-! ## substitution of names by their providers -/

/-- a read of name `n` becomes the reads of its providers' slots -/
def expand (prov : Nat → List Nat) (ρ : Env) (l : List (Nat × Bool)) : List (Nat × Bool) :=
  l.flatMap (fun x => (provReads ρ (prov x.1)).map (·, x.2))

theorem expand_append (prov : Nat → List Nat) (ρ : Env) (a b : List (Nat × Bool)) :
    expand prov ρ (a ++ b) = expand prov ρ a ++ expand prov ρ b := by
  simp [expand]

@[simp] theorem expand_nil (prov : Nat → List Nat) (ρ : Env) : expand prov ρ [] = [] := rfl

theorem firstReads_map_true (l : List Nat) : firstReads (l.map (·, true)) = [] := by
  induction l <;> simp_all [firstReads]

theorem firstReads_map_false (l : List Nat) : firstReads (l.map (·, false)) = l := by
  induction l <;> simp_all [firstReads]

theorem firstReads_expand (prov : Nat → List Nat) (ρ : Env) (l : List (Nat × Bool)) :
    firstReads (expand prov ρ l) = (firstReads l).flatMap (fun n => provReads ρ (prov n)) := by
  induction l with
  | nil => rfl
  | cons x l ih =>
    have : expand prov ρ (x :: l) = (provReads ρ (prov x.1)).map (·, x.2) ++ expand prov ρ l := by
      simp [expand]
    rw [this, firstReads_append, ih]
    obtain ⟨n, b⟩ := x
    cases b
    · show firstReads ((provReads ρ (prov n)).map (·, false)) ++ _ = _
      rw [firstReads_map_false]; simp [firstReads]
    · show firstReads ((provReads ρ (prov n)).map (·, true)) ++ _ = _
      rw [firstReads_map_true]; simp [firstReads]

mutual
theorem evalLib_subst (S : Sem) (prov : Nat → List Nat) (ρ : Env) (re : Bool) (e : E) :
    (evalLib S ρ re (subst prov e)).val = (evalLib S (envOf prov ρ) re e).val ∧
    (evalLib S ρ re (subst prov e)).reads = expand prov ρ (evalLib S (envOf prov ρ) re e).reads := by
  cases e with
  | name n =>
    have := evalLib_provExpr S ρ re (prov n)
    simp [subst, evalLib, this, envOf, expand]
  | const v => simp [subst, evalLib]
  | not a =>
    have := evalLib_subst S prov ρ re a
    simp [subst, evalLib, this]
  | and a b =>
    have ha := evalLib_subst S prov ρ re a; have hb := evalLib_subst S prov ρ re b
    simp only [subst, evalLib]
    rw [ha.1]
    cases hv : (evalLib S (envOf prov ρ) re a).val with
    | none => simp only []; exact ⟨by rw [ha.1, hv], ha.2⟩
    | some va =>
      simp only []
      split
      · exact ⟨hb.1, by simp [expand_append, ha.2, hb.2]⟩
      · exact ⟨by rw [ha.1, hv], ha.2⟩
  | or a b =>
    have ha := evalLib_subst S prov ρ re a; have hb := evalLib_subst S prov ρ re b
    simp only [subst, evalLib]
    rw [ha.1]
    cases hv : (evalLib S (envOf prov ρ) re a).val with
    | none => simp only []; exact ⟨by rw [ha.1, hv], ha.2⟩
    | some va =>
      simp only []
      split
      · exact ⟨by rw [ha.1, hv], ha.2⟩
      · exact ⟨hb.1, by simp [expand_append, ha.2, hb.2]⟩
  | cmp first c =>
    have hf := evalLib_subst S prov ρ re first
    simp only [subst, evalLib]
    rw [hf.1]
    cases hv : (evalLib S (envOf prov ρ) re first).val with
    | none => simp only []; exact ⟨by rw [hf.1, hv], hf.2⟩
    | some lv =>
      have hc := chainLib_subst S prov ρ re c lv
      simp only []
      exact ⟨hc.1, by simp [expand_append, hf.2, hc.2]⟩
theorem chainLib_subst (S : Sem) (prov : Nat → List Nat) (ρ : Env) (re : Bool) (c : Chain) (lv : V) :
    (chainLib S ρ re lv (substChain prov c)).val = (chainLib S (envOf prov ρ) re lv c).val ∧
    (chainLib S ρ re lv (substChain prov c)).reads =
      expand prov ρ (chainLib S (envOf prov ρ) re lv c).reads := by
  cases c with
  | last op r =>
    have h := evalLib_subst S prov ρ re r
    simp only [substChain, chainLib]
    rw [h.1]
    cases hv : (evalLib S (envOf prov ρ) re r).val with
    | none => simp only []; exact ⟨by rw [h.1, hv], h.2⟩
    | some rv => simp only []; exact ⟨trivial, h.2⟩
  | more op r c =>
    have h := evalLib_subst S prov ρ re r
    have h2 := evalLib_subst S prov ρ true r
    simp only [substChain, chainLib]
    rw [h.1]
    cases hv : (evalLib S (envOf prov ρ) re r).val with
    | none => simp only []; exact ⟨by rw [h.1, hv], h.2⟩
    | some rv =>
      simp only []
      cases hc : S.cmp op lv rv with
      | none => simp only []; exact ⟨trivial, h.2⟩
      | some b =>
        cases b with
        | false => simp only []; exact ⟨trivial, h.2⟩
        | true =>
          simp only []
          rw [h2.1]
          cases hv2 : (evalLib S (envOf prov ρ) true r).val with
          | none => simp only []; exact ⟨trivial, by simp [expand_append, h.2, h2.2]⟩
          | some rv2 =>
            have ih := chainLib_subst S prov ρ re c rv2
            simp only []
            exact ⟨ih.1, by simp [expand_append, h.2, h2.2, ih.2]⟩
end

/-! ## guard lists -/

theorem all_lib_py (S : Sem) (ρ : Env) (gs : List Guard) :
    (allLib S ρ gs).val = (allPy S ρ gs).val ∧
    firstReads (allLib S ρ gs).reads = (allPy S ρ gs).reads := by
  induction gs with
  | nil => simp [allLib, allPy]
  | cons g gs ih =>
    have h := eval_lib_py S ρ g.e
    simp only [allLib, allPy]
    rw [← h.1]
    cases hv : (evalLib S ρ false g.e).val with
    | none => simp only []; exact ⟨trivial, h.2⟩
    | some v =>
      simp only []
      split
      · exact ⟨ih.1, by simp [firstReads_append, h.2, ih.2]⟩
      · exact ⟨rfl, h.2⟩

theorem allPy_true_iff (S : Sem) (ρ : Env) (gs : List Guard) :
    (allPy S ρ gs).val = some true ↔ ∀ g ∈ gs, passes S ρ g = true := by
  induction gs with
  | nil => simp [allPy]
  | cons g gs ih =>
    simp only [allPy, List.mem_cons, forall_eq_or_imp]
    cases hv : (evalPy S ρ g.e).val with
    | none => simp [passes, hv]
    | some v =>
      simp only []
      by_cases hp : truthy v = g.expected
      · simp [hp, passes, hv, ih]
      · simp [hp, passes, hv]

theorem allPy_reads (S : Sem) (ρ : Env) (gs : List Guard) :
    (allPy S ρ gs).reads = (untilFail S ρ gs).flatMap (fun g => (evalPy S ρ g.e).reads) := by
  induction gs with
  | nil => simp [allPy, untilFail]
  | cons g gs ih =>
    simp only [allPy, untilFail]
    cases hv : (evalPy S ρ g.e).val with
    | none => simp [passes, hv]
    | some v =>
      simp only []
      by_cases hp : truthy v = g.expected
      · simp [hp, passes, hv, ih]
      · simp [hp, passes, hv]

/-- not enabled (without an exception) iff some entry evaluates to the wrong truth value and all
entries before it pass -/
theorem allPy_false_iff (S : Sem) (ρ : Env) (gs : List Guard) :
    (allPy S ρ gs).val = some false ↔
      ∃ pre g post, gs = pre ++ g :: post ∧ (∀ p ∈ pre, passes S ρ p = true) ∧
        (evalPy S ρ g.e).val.map truthy = some (!g.expected) := by
  induction gs with
  | nil => simp [allPy]
  | cons g gs ih =>
    simp only [allPy]
    cases hv : (evalPy S ρ g.e).val with
    | none =>
      simp only []
      constructor
      · intro h; cases h
      · rintro ⟨pre, g', post, heq, hpre, hg'⟩
        cases pre with
        | nil =>
          simp only [List.nil_append, List.cons.injEq] at heq
          rw [← heq.1, hv] at hg'; cases hg'
        | cons p pre =>
          simp only [List.cons_append, List.cons.injEq] at heq
          have := hpre p (by simp)
          rw [← heq.1] at this
          simp [passes, hv] at this
    | some v =>
      simp only []
      by_cases hp : truthy v = g.expected
      · simp only [hp, beq_self_eq_true, if_true]
        rw [ih]
        constructor
        · rintro ⟨pre, g', post, heq, hpre, hg'⟩
          refine ⟨g :: pre, g', post, by simp [heq], ?_, hg'⟩
          intro p hp'
          rcases List.mem_cons.mp hp' with rfl | h
          · simp [passes, hv, hp]
          · exact hpre p h
        · rintro ⟨pre, g', post, heq, hpre, hg'⟩
          cases pre with
          | nil =>
            simp only [List.nil_append, List.cons.injEq] at heq
            rw [← heq.1, hv] at hg'
            simp only [Option.map_some, Option.some.injEq] at hg'
            rw [hp] at hg'
            cases hx : g.expected <;> simp [hx] at hg'
          | cons p pre =>
            simp only [List.cons_append, List.cons.injEq] at heq
            exact ⟨pre, g', post, heq.2, fun q hq => hpre q (by simp [hq]), hg'⟩
      · have hne : (truthy v == g.expected) = false := by simpa using hp
        simp only [hne]
        constructor
        · intro _
          refine ⟨[], g, gs, rfl, by simp, ?_⟩
          rw [hv]
          simp only [Option.map_some, Option.some.injEq]
          cases hx : g.expected <;> cases ht : truthy v <;> simp_all
        · intro _; rfl

/-- guards over provider slots = the declared guards over the provider-conjunction environment -/
theorem allLib_subst (S : Sem) (prov : Nat → List Nat) (ρ : Env) (gs : List Guard) :
    (allLib S ρ (gs.map (fun g => ⟨subst prov g.e, g.expected⟩))).val =
      (allLib S (envOf prov ρ) gs).val ∧
    (allLib S ρ (gs.map (fun g => ⟨subst prov g.e, g.expected⟩))).reads =
      expand prov ρ (allLib S (envOf prov ρ) gs).reads := by
  induction gs with
  | nil => simp [allLib]
  | cons g gs ih =>
    have h := evalLib_subst S prov ρ false g.e
    simp only [List.map_cons, allLib]
    rw [h.1]
    cases hv : (evalLib S (envOf prov ρ) false g.e).val with
    | none => simp only []; exact ⟨trivial, h.2⟩
    | some v =>
      simp only []
      split
      · exact ⟨ih.1, by simp [expand_append, h.2, ih.2]⟩
      · exact ⟨rfl, h.2⟩

/-! ## instantiation -/

theorem unknowns_nil_iff (prov : Nat → List Nat) (e : E) :
    (unknowns prov e).isEmpty = true ↔ ∀ n ∈ names e, prov n ≠ [] := by
  simp [unknowns, List.filter_eq_nil_iff]

/-- an entry that makes instantiation fail -/
def badEntry (prov : Nat → List Nat) (en : Src × Bool) : Prop :=
  en.1 = .unparsable ∨ ∃ e, en.1 = .parsed e ∧ ∃ n ∈ names e, prov n = []

theorem construct_spec (prov : Nat → List Nat) (entries : List (Src × Bool)) :
    (construct prov entries = .invalidDefinition ∧ ∃ en ∈ entries, badEntry prov en) ∨
    (construct prov entries =
        .ok ((sourceGuards entries).map (fun g => ⟨subst prov g.e, g.expected⟩)) ∧
      ∀ en ∈ entries, ¬ badEntry prov en) := by
  induction entries with
  | nil => right; simp [construct, buildAll, checkAll, sourceGuards]
  | cons en ens ih =>
    obtain ⟨src, x⟩ := en
    cases src with
    | unparsable =>
      left
      exact ⟨by simp [construct, buildAll, build], (Src.unparsable, x), by simp, Or.inl rfl⟩
    | parsed e =>
      by_cases hk : (unknowns prov e).isEmpty = true
      · -- this entry resolves; the verdict is the verdict of the rest
        have hgood : ¬ badEntry prov (Src.parsed e, x) := by
          rintro (h | ⟨e', he', n, hn, hp⟩)
          · cases h
          · cases he'
            exact (unknowns_nil_iff prov e).mp hk n hn hp
        rcases ih with ⟨hinv, en', hmem, hbad⟩ | ⟨hok, hall⟩
        · left
          refine ⟨?_, en', by simp [hmem], hbad⟩
          simp only [construct, buildAll, build, hk, if_true] at hinv ⊢
          cases hb : buildAll prov ens with
          | none => simp
          | some regs =>
            simp only [hb, Option.map_some, checkAll] at hinv ⊢
            cases hc : checkAll regs with
            | none => simp
            | some gs => simp [hc] at hinv
        · right
          refine ⟨?_, ?_⟩
          · simp only [construct, buildAll, build, hk, if_true, sourceGuards, List.map_cons] at hok ⊢
            cases hb : buildAll prov ens with
            | none => simp [hb] at hok
            | some regs =>
              simp only [hb, Option.map_some, checkAll] at hok ⊢
              cases hc : checkAll regs with
              | none => simp [hc] at hok
              | some gs =>
                simp only [hc, Verdict.ok.injEq] at hok
                simp [hok]
          · intro en' hmem
            rcases List.mem_cons.mp hmem with rfl | h
            · exact hgood
            · exact hall en' h
      · left
        have hk' : (unknowns prov e).isEmpty = false := by simpa using hk
        have hbad : badEntry prov (Src.parsed e, x) := by
          right
          refine ⟨e, rfl, ?_⟩
          have : ¬ ∀ n ∈ names e, prov n ≠ [] := fun h => hk ((unknowns_nil_iff prov e).mpr h)
          simpa using this
        refine ⟨?_, _, by simp, hbad⟩
        simp only [construct, buildAll, build, hk']
        cases hb : buildAll prov ens with
        | none => simp
        | some regs => simp [checkAll]

end SMV.GExpr
