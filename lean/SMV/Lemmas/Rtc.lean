import SMV.Lemmas.Resp
/-!
# Closed forms for run-to-completion mode

With the handler `nestedRtc` a callback invocation has an explicit effect; from it: the model
field and the lock are untouched by anything but `setState`, and results are determined.
-/
namespace SMV

def mkTrigs : Nat → List EventId → List Trigger
  | _, [] => []
  | n, e :: es => { tid := n, event := e } :: mkTrigs (n + 1) es

/-- effect of the nested sends of one callback invocation in RTC mode -/
def rtcSends (x : Ctx) (ph : Phase) (cb : CbId) (es : List EventId) (c : Cfg) : Cfg :=
  { c with
    queue := c.queue ++ mkTrigs c.nextTid es
    log := c.log ++ es.map (fun _ => Entry.sendRet x.t.tid ph cb .none)
    nextTid := c.nextTid + es.length }

/-- in RTC mode every nested send returns `None` -/
def rtcLast (last : Option Res) : List EventId → Option Res
  | [] => last
  | _ :: _ => some .none

/-- what a callback invocation hands back in RTC mode: its own value; an event used as a callback: `None` -/
def rtcRet (m : Machine) (a : Act) : Val := retOf m a (rtcLast none a.sends)

theorem rtcRet_plain (m : Machine) (a : Act) (h : a.retSend = false) : rtcRet m a = a.ret := by
  simp [rtcRet, retOf, h]

theorem sendsLoop_rtc (x : Ctx) (ph : Phase) (cb : CbId) (es : List EventId) (last : Option Res) (c : Cfg) :
    sendsLoop nestedRtc x ph cb last es c = (rtcSends x ph cb es c, .ok (rtcLast last es)) := by
  induction es generalizing c last with
  | nil => simp [sendsLoop, rtcSends, mkTrigs, rtcLast]
  | cons e es ih =>
    simp only [sendsLoop, nestedRtc, EM.bind_apply, enqueue, EM.modify, logAppend, EM.pure_apply]
    rw [ih]
    cases es <;> simp [rtcSends, mkTrigs, Nat.add_assoc, Nat.add_comm 1, rtcLast]

/-- explicit effect of one callback invocation in RTC mode -/
theorem runCb_rtc (m : Machine) (x : Ctx) (ph : Phase) (cb : CbId) (c : Cfg) :
    runCb nestedRtc m x ph cb c =
      let a := m.behav cb c.nextInv { tid := x.t.tid, state := c.cur, event := x.t.event }
      let c1 := rtcSends x ph cb a.sends
        { c with log := c.log ++ [.cbBegin x.t.tid ph cb c.cur x.t.event x.src x.tgt], nextInv := c.nextInv + 1 }
      match a.raises with
      | some e => (c1, .error (.user e))
      | none => ({ c1 with log := c1.log ++ [.cbEnd x.t.tid ph cb (rtcRet m a)] }, .ok (rtcRet m a)) := by
  simp only [runCb, EM.bind_apply, EM.get, EM.modify, sendsLoop_rtc]
  cases h : (m.behav cb c.nextInv { tid := x.t.tid, state := c.cur, event := x.t.event }).raises <;>
    simp [EM.throw, logAppend, EM.modify, EM.bind_apply, rtcRet]

/-- the model field and the lock are not touched -/
structure Same (c c' : Cfg) : Prop where
  cur : c'.cur = c.cur
  locked : c'.locked = c.locked

theorem Same.lift : Lift Same (fun _ _ => True) (fun _ => True) nestedRtc where
  refl := fun _ => ⟨rfl, rfl⟩
  trans := fun _ _ _ h1 h2 => ⟨h2.cur.trans h1.cur, h2.locked.trans h1.locked⟩
  log := fun _ _ _ _ => ⟨rfl, rfl⟩
  handler := fun _ _ => ⟨⟨rfl, rfl⟩, fun _ _ => trivial⟩

theorem entryOk_true (x : Ctx) (ph : Phase) (cb : CbId) :
    EntryOk (fun _ _ => True) (fun _ => True) x ph cb := fun _ => ⟨trivial, fun _ _ => trivial, fun _ => trivial⟩

theorem runCb_same (m : Machine) (x : Ctx) (ph : Phase) (cb : CbId) : Resp Same (runCb nestedRtc m x ph cb) :=
  runCb_lift Same.lift m x ph cb (entryOk_true x ph cb)
theorem runGroup_same (m : Machine) (x : Ctx) (ph : Phase) (cs : List CbId) :
    Resp Same (runGroup nestedRtc m x ph cs) :=
  runGroup_lift Same.lift m x ph cs fun cb _ => entryOk_true x ph cb
theorem runConds_same (m : Machine) (x : Ctx) (cs : List (CbId × Bool)) :
    Resp Same (runConds nestedRtc m x cs) :=
  runConds_lift Same.lift m x cs fun p _ => entryOk_true x .cond p.1

/-! ## Callbacks whose behaviour during one trigger is a function of the callback

`Beh m t act`: while trigger `t` is processed, callback `cb` behaves as `act cb` whatever the
invocation counter and the state it sees. (Guards "reading current values" for one event.) -/
def Beh (m : Machine) (t : Trigger) (act : CbId → Act) : Prop :=
  ∀ cb inv st, m.behav cb inv { tid := t.tid, state := st, event := t.event } = act cb

section
variable {m : Machine} {t : Trigger} {act : CbId → Act} (B : Beh m t act)
include B

theorem runCb_res (x : Ctx) (hx : x.t = t) (ph : Phase) (cb : CbId) (c : Cfg) :
    (runCb nestedRtc m x ph cb c).2 =
      match (act cb).raises with
      | some e => .error (.user e)
      | none => .ok (rtcRet m (act cb)) := by
  rw [runCb_rtc]
  simp only [hx, B cb]
  cases (act cb).raises <;> rfl

/-- first callback of the list that raises -/
def firstRaise (act : CbId → Act) (cs : List CbId) : Option Nat := cs.findSome? fun cb => (act cb).raises

theorem runGroup_res (x : Ctx) (hx : x.t = t) (ph : Phase) (cs : List CbId) (c : Cfg) :
    (runGroup nestedRtc m x ph cs c).2 =
      match firstRaise act cs with
      | some e => .error (.user e)
      | none => .ok (cs.map fun cb => rtcRet m (act cb)) := by
  induction cs generalizing c with
  | nil => rfl
  | cons cb cs ih =>
    simp only [runGroup, EM.bind_apply]
    have h1 := runCb_res B x hx ph cb c
    generalize runCb nestedRtc m x ph cb c = r at h1
    obtain ⟨c1, r1⟩ := r
    simp only at h1
    cases hr : (act cb).raises with
    | some e => simp [hr] at h1; subst h1; simp [firstRaise, List.findSome?, hr]
    | none =>
      simp [hr] at h1; subst h1
      simp only
      have h2 := ih c1
      generalize runGroup nestedRtc m x ph cs c1 = r2 at h2
      obtain ⟨c2, r2⟩ := r2
      simp only at h2
      subst h2
      simp only [firstRaise, List.findSome?, hr]
      cases List.findSome? (fun cb => (act cb).raises) cs <;> rfl

/-- `cond`/`unless` conjunction -/
def guardsPass (m : Machine) (act : CbId → Act) (cs : List (CbId × Bool)) : Bool :=
  cs.all fun p => m.truthy (rtcRet m (act p.1)) == p.2

theorem runConds_res (x : Ctx) (hx : x.t = t) (cs : List (CbId × Bool))
    (hno : ∀ p ∈ cs, (act p.1).raises = none) (c : Cfg) :
    (runConds nestedRtc m x cs c).2 = .ok (guardsPass m act cs) := by
  induction cs generalizing c with
  | nil => rfl
  | cons p cs ih =>
    obtain ⟨cb, ex⟩ := p
    simp only [runConds, EM.bind_apply]
    have h1 := runCb_res B x hx .cond cb c
    rw [hno (cb, ex) (by simp)] at h1
    generalize runCb nestedRtc m x .cond cb c = r at h1
    obtain ⟨c1, r1⟩ := r
    simp only at h1
    subst h1
    simp only [guardsPass, List.all_cons]
    by_cases hv : (m.truthy (rtcRet m (act cb)) == ex) = true
    · simp only [hv, if_true, Bool.true_and]
      exact ih (fun p hp => hno p (by simp [hp])) c1
    · simp only [hv]
      simp at hv
      simp [hv]

theorem runGroup_ok (x : Ctx) (hx : x.t = t) (ph : Phase) (cs : List CbId) (c : Cfg)
    (h : firstRaise act cs = none) :
    (runGroup nestedRtc m x ph cs c).2 = .ok (cs.map fun cb => rtcRet m (act cb)) := by
  rw [runGroup_res B x hx, h]

theorem runGroup_err (x : Ctx) (hx : x.t = t) (ph : Phase) (cs : List CbId) (c : Cfg) (e : Nat)
    (h : firstRaise act cs = some e) :
    (runGroup nestedRtc m x ph cs c).2 = .error (.user e) := by
  rw [runGroup_res B x hx, h]
end

theorem bind_ok {α β} {x : EM α} {f : α → EM β} {c : Cfg} {a : α} (h : (x c).2 = .ok a) :
    (x >>= f) c = f a (x c).1 := by
  rw [EM.bind_apply]
  generalize x c = r at h
  obtain ⟨c1, r1⟩ := r
  simp only at h; subst h; rfl

theorem bind_err {α β} {x : EM α} {f : α → EM β} {c : Cfg} {e : Exc} (h : (x c).2 = .error e) :
    (x >>= f) c = ((x c).1, .error e) := by
  rw [EM.bind_apply]
  generalize x c = r at h
  obtain ⟨c1, r1⟩ := r
  simp only at h; subst h; rfl

theorem firstRaise_none_iff (act : CbId → Act) (cs : List CbId) :
    firstRaise act cs = none ↔ ∀ cb ∈ cs, (act cb).raises = none := by
  simp [firstRaise]

end SMV
