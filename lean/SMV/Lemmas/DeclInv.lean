import SMV.Lemmas.DeclSplice
/-!
# Invariant of the metaclass steps below a store position, and commutation with `spl`

`Inv n tA names c`: store entry `n` is `tA`; every event reference that carries a transition list is
named by one of `names` and lists only indices below `n`; every entry beyond `n` holds exactly one
such event (these entries are `AnyState` expansions).
-/
namespace SMV.Decl

def okEv (n : Nat) (names : List Name) : EvRef → Prop
  | .real k (some idxs) => k ∈ names ∧ ∀ i ∈ idxs, i < n
  | _ => True

theorem okEv.low {n names ev} (h : okEv n names ev) : lowEv n ev := by
  cases ev with
  | ph v => trivial
  | real k tl => cases tl with
    | none => trivial
    | some idxs => exact h.2

structure Inv (n : Nat) (tA : TDef) (names : List Name) (c : Cls) : Prop where
  atn : c.trans[n]? = some tA
  ok : ∀ t ∈ c.trans, ∀ ev ∈ t.events, okEv n names ev
  tail : ∀ t ∈ c.trans.drop (n + 1), (∃ k idxs, t.events = [.real k (some idxs)]) ∧
    ∃ s ∈ c.states, t.source = .st s.name

theorem Inv.lt {n tA names c} (h : Inv n tA names c) : n < c.trans.length := by
  have := h.atn
  exact (List.getElem?_eq_some_iff.mp this).1

section
variable {n : Nat} {tA : TDef} {names : List Name}

theorem mem_addEv {l : List EvRef} {e x : EvRef} (h : x ∈ addEv l e) : x ∈ l ∨ x = e := by
  unfold addEv at h
  split at h
  · exact Or.inl h
  · simpa using h

theorem mem_foldl_addEv (L : List EvRef) (acc : List EvRef) {x : EvRef}
    (h : x ∈ L.foldl addEv acc) : x ∈ acc ∨ x ∈ L := by
  induction L generalizing acc with
  | nil => exact Or.inl h
  | cons a L ih =>
    rcases ih _ h with h1 | h1
    · rcases mem_addEv h1 with h2 | h2
      · exact Or.inl h2
      · exact Or.inr (h2 ▸ List.mem_cons_self)
    · exact Or.inr (List.mem_cons_of_mem _ h1)

theorem mem_uniqueEvents {ts : List TDef} {x : EvRef} (h : x ∈ uniqueEvents ts) :
    ∃ t ∈ ts, x ∈ t.events := by
  rcases mem_foldl_addEv _ _ h with h1 | h1
  · simp at h1
  · simpa [List.mem_flatMap] using h1

theorem foldl_modify_all (P : TDef → Prop) (f : TDef → TDef) (hf : ∀ t, P t → P (f t))
    (idxs : List Nat) (l : List TDef) (hl : ∀ t ∈ l, P t) : ∀ t ∈ idxs.foldl (modifyAt f) l, P t := by
  induction idxs generalizing l with
  | nil => exact hl
  | cons i is ih =>
    simp only [List.foldl_cons]
    apply ih
    intro t ht
    simp only [modifyAt] at ht
    obtain ⟨j, hj⟩ := List.mem_iff_getElem?.mp ht
    rw [List.getElem?_modify] at hj
    cases h : l[j]? with
    | none => simp [h] at hj
    | some t0 =>
      have h0 : P t0 := hl t0 (List.mem_of_getElem? h)
      simp only [h, Option.map_eq_map, Option.map_some, Option.some.injEq] at hj
      split at hj
      · exact hj ▸ hf t0 h0
      · exact hj ▸ h0

theorem foldl_modify_getElem? (f : TDef → TDef) (idxs : List Nat) (l : List TDef) (j : Nat)
    (hj : ∀ i ∈ idxs, i ≠ j) : (idxs.foldl (modifyAt f) l)[j]? = l[j]? := by
  induction idxs generalizing l with
  | nil => rfl
  | cons i is ih =>
    simp only [List.foldl_cons]
    rw [ih _ (fun k hk => hj k (List.mem_cons_of_mem _ hk))]
    simp only [modifyAt]
    exact List.getElem?_modify_ne f l (hj i List.mem_cons_self)

theorem foldl_modify_drop (f : TDef → TDef) (idxs : List Nat) (l : List TDef) (m : Nat)
    (hi : ∀ i ∈ idxs, i < m) : (idxs.foldl (modifyAt f) l).drop m = l.drop m := by
  apply List.ext_getElem?
  intro j
  simp only [List.getElem?_drop]
  exact foldl_modify_getElem? f idxs l (m + j) (fun i h => by have := hi i h; omega)

/-- what a run of `AnyState` expansions does to the store: appends entries that carry exactly `ev` -/
theorem foldl_expandAny_trans (ev : EvRef) (sts : List SDecl) (idxs : List Nat) (c : Cls) :
    ∃ extra, (idxs.foldl (expandAny ev sts) c).trans = c.trans ++ extra ∧
      ∀ t ∈ extra, t.events = [ev] ∧ ∃ s ∈ sts, t.source = .st s.name := by
  induction idxs generalizing c with
  | nil => exact ⟨[], by simp, by simp⟩
  | cons i is ih =>
    simp only [List.foldl_cons]
    have h1 : ∃ e1, (expandAny ev sts c i).trans = c.trans ++ e1 ∧
        ∀ t ∈ e1, t.events = [ev] ∧ ∃ s ∈ sts, t.source = .st s.name := by
      unfold expandAny
      split
      · split
        · refine ⟨_, rfl, ?_⟩
          intro t ht
          simp only [List.mem_map] at ht
          obtain ⟨s, hs, rfl⟩ := ht
          exact ⟨rfl, s, (List.mem_filter.mp hs).1, rfl⟩
        · exact ⟨[], by simp, by simp⟩
      · exact ⟨[], by simp, by simp⟩
    obtain ⟨e1, h1a, h1b⟩ := h1
    obtain ⟨e2, h2a, h2b⟩ := ih (expandAny ev sts c i)
    refine ⟨e1 ++ e2, by rw [h2a, h1a, List.append_assoc], ?_⟩
    intro t ht
    rcases List.mem_append.mp ht with h | h
    · exact h1b t h
    · exact h2b t h

theorem expandAny_states (ev : EvRef) (sts : List SDecl) (c : Cls) (i : Nat) :
    (expandAny ev sts c i).states = c.states := by
  unfold expandAny
  split
  · split <;> rfl
  · rfl

theorem foldl_expandAny_states (ev : EvRef) (sts : List SDecl) (idxs : List Nat) (c : Cls) :
    (idxs.foldl (expandAny ev sts) c).states = c.states := by
  induction idxs generalizing c with
  | nil => rfl
  | cons i is ih => simp only [List.foldl_cons, ih, expandAny_states]

theorem onEventDefined_states (c : Cls) (id : Name) (idxs : List Nat) :
    (onEventDefined c id idxs).states = c.states := by
  unfold onEventDefined
  simp only [foldl_expandAny_states]

theorem okEv_addEv {l : List EvRef} {e : EvRef} (hl : ∀ x ∈ l, okEv n names x) (he : okEv n names e) :
    ∀ x ∈ addEv l e, okEv n names x := by
  intro x hx
  rcases mem_addEv hx with h | h
  · exact hl x h
  · exact h ▸ he

theorem onEventDefined_trans (c : Cls) (id : Name) (idxs : List Nat) :
    ∃ extra, (onEventDefined c id idxs).trans =
        idxs.foldl (modifyAt fun t => { t with events := addEv t.events (.real id (some idxs)) }) c.trans ++ extra ∧
      ∀ t ∈ extra, t.events = [.real id (some idxs)] ∧ ∃ s ∈ c.states, t.source = .st s.name := by
  unfold onEventDefined
  exact foldl_expandAny_trans (.real id (some idxs)) c.states idxs _

theorem Inv.onEventDefined {c : Cls} (h : Inv n tA names c) (id : Name) (idxs : List Nat)
    (hid : id ∈ names) (hi : ∀ i ∈ idxs, i < n) : Inv n tA names (onEventDefined c id idxs) := by
  have hev : okEv n names (.real id (some idxs)) := ⟨hid, hi⟩
  obtain ⟨extra, he1, he2⟩ := onEventDefined_trans c id idxs
  have hlen := h.lt
  refine ⟨?_, ?_, ?_⟩
  · rw [he1, List.getElem?_append_left (by simpa [foldl_modify_length] using hlen),
      foldl_modify_getElem? _ _ _ _ (fun i hi' => by have := hi i hi'; omega)]
    exact h.atn
  · rw [he1]
    intro t ht
    rcases List.mem_append.mp ht with h1 | h1
    · exact foldl_modify_all (fun t => ∀ ev ∈ t.events, okEv n names ev) _
        (fun t ht => okEv_addEv ht hev) idxs c.trans h.ok t h1
    · intro ev hev'
      rw [(he2 t h1).1] at hev'
      simp only [List.mem_singleton] at hev'
      exact hev' ▸ hev
  · rw [he1, List.drop_append_of_le_length (by simp [foldl_modify_length]; omega),
      foldl_modify_drop _ _ _ _ (fun i hi' => by have := hi i hi'; omega), onEventDefined_states]
    intro t ht
    rcases List.mem_append.mp ht with h1 | h1
    · exact h.tail t h1
    · exact ⟨⟨id, idxs, (he2 t h1).1⟩, (he2 t h1).2⟩

theorem Inv.addEvent {c : Cls} (h : Inv n tA names c) (ev : EvRef) (hev : okEv n names ev) :
    Inv n tA names (addEvent c ev) := by
  cases ev with
  | ph v =>
    simp only [SMV.Decl.addEvent]
    split
    · exact h
    · exact ⟨h.atn, h.ok, h.tail⟩
  | real id tl =>
    cases tl with
    | none =>
      simp only [SMV.Decl.addEvent]
      split
      · exact h
      · exact ⟨h.atn, h.ok, h.tail⟩
    | some idxs =>
      have h1 := h.onEventDefined id idxs hev.1 hev.2
      cases hE : idxs.isEmpty
      · simp only [SMV.Decl.addEvent, hE, Bool.false_eq_true, ↓reduceIte]
        split
        · exact h1
        · exact ⟨h1.atn, h1.ok, h1.tail⟩
      · simp only [SMV.Decl.addEvent, hE, ↓reduceIte]
        split
        · exact h
        · exact ⟨h.atn, h.ok, h.tail⟩

theorem Inv.foldl_addEvent {c : Cls} (h : Inv n tA names c) (evs : List EvRef)
    (hev : ∀ ev ∈ evs, okEv n names ev) : Inv n tA names (evs.foldl SMV.Decl.addEvent c) := by
  induction evs generalizing c with
  | nil => exact h
  | cons e es ih =>
    exact ih (h.addEvent e (hev e List.mem_cons_self)) (fun ev hm => hev ev (List.mem_cons_of_mem _ hm))

theorem Inv.states {c : Cls} (h : Inv n tA names c) (s : SDecl) :
    Inv n tA names { c with states := c.states ++ [s] } :=
  ⟨h.atn, h.ok, fun t ht => ⟨(h.tail t ht).1, by
    obtain ⟨s', hs', e⟩ := (h.tail t ht).2
    exact ⟨s', List.mem_append_left _ hs', e⟩⟩⟩

theorem Inv.outOf_ok {c : Cls} (h : Inv n tA names c) (s : Name) :
    ∀ ev ∈ uniqueEvents (outOf c s), okEv n names ev := by
  intro ev hev
  obtain ⟨t, ht, hx⟩ := mem_uniqueEvents hev
  exact h.ok t (List.mem_filter.mp ht).1 ev hx

theorem Inv.addState {c : Cls} (h : Inv n tA names c) (s : SDecl) : Inv n tA names (addState c s) := by
  unfold SMV.Decl.addState
  exact (h.states s).foldl_addEvent _ ((h.states s).outOf_ok s.name)

/-- an attribute of the class namespace that only mentions store positions below `n` and is named in `names` -/
def okAttr (n : Nat) (names : List Name) : Name × AttrVal → Prop
  | (_, .state _) => True
  | (k, .tl idxs) => k ∈ names ∧ ∀ i ∈ idxs, i < n
  | (k, .event (some idxs)) => k ∈ names ∧ ∀ i ∈ idxs, i < n
  | (_, .event none) => True

theorem Inv.processAttr {c : Cls} (h : Inv n tA names c) (a : Name × AttrVal) (ha : okAttr n names a) :
    Inv n tA names (processAttr c a) := by
  obtain ⟨k, v⟩ := a
  cases v with
  | state s => exact h.addState s
  | tl idxs => exact h.addEvent (.real k (some idxs)) ha
  | event tl =>
    have hev : okEv n names (.real k (normTl tl)) := by
      cases tl with
      | none => trivial
      | some idxs => cases idxs with
        | nil => trivial
        | cons i is => exact ha
    have h1 := h.addEvent _ hev
    exact ⟨h1.atn, h1.ok, h1.tail⟩

/-! ## commutation with `spl` -/

theorem split_at {l : List TDef} {a : TDef} (h : l[n]? = some a) :
    l = l.take n ++ a :: l.drop (n + 1) := by
  obtain ⟨hn, ha⟩ := List.getElem?_eq_some_iff.mp h
  rw [← ha, ← List.drop_eq_getElem_cons hn, List.take_append_drop]

theorem outOf_spl_events {X : List TDef} {c : Cls} (hat : c.trans[n]? = some tA) (hA : tA.source = .any)
    (hX : ∀ x ∈ X, x.events = []) (s : Name) :
    (outOf (spl n X c) s).flatMap (·.events) = (outOf c s).flatMap (·.events) := by
  have hs := split_at hat
  simp only [outOf, spl_trans, splice]
  conv => rhs; rw [hs]
  simp only [List.filter_append, List.flatMap_append, List.filter_cons, hA]
  have h0 : (X.filter fun x => x.source == Src.st s).flatMap (·.events) = [] := by
    simp only [List.flatMap_eq_nil_iff]
    intro x hx
    exact hX x (List.mem_filter.mp hx).1
  rw [h0]
  simp

theorem addState_spl {X : List TDef} {c : Cls} (h : Inv n tA names c) (hA : tA.source = .any)
    (hX : ∀ x ∈ X, x.events = []) (s : SDecl) :
    addState (spl n X c) s = spl n X (addState c s) := by
  have h1 := h.states s
  show List.foldl SMV.Decl.addEvent (spl n X { c with states := c.states ++ [s] })
      (uniqueEvents (outOf (spl n X { c with states := c.states ++ [s] }) s.name)) =
    spl n X (List.foldl SMV.Decl.addEvent { c with states := c.states ++ [s] }
      (uniqueEvents (outOf { c with states := c.states ++ [s] } s.name)))
  have e2 : uniqueEvents (outOf (spl n X { c with states := c.states ++ [s] }) s.name) =
      uniqueEvents (outOf { c with states := c.states ++ [s] } s.name) := by
    unfold uniqueEvents
    rw [outOf_spl_events (c := { c with states := c.states ++ [s] }) h.atn hA hX]
  rw [e2]
  exact foldl_addEvent_spl _ _ (fun ev hev => (h1.outOf_ok s.name ev hev).low) h1.lt

theorem processAttr_spl {X : List TDef} {c : Cls} (h : Inv n tA names c) (hA : tA.source = .any)
    (hX : ∀ x ∈ X, x.events = []) (a : Name × AttrVal) (ha : okAttr n names a) :
    processAttr (spl n X c) a = spl n X (processAttr c a) := by
  obtain ⟨k, v⟩ := a
  cases v with
  | state s => exact addState_spl h hA hX s
  | tl idxs => exact addEvent_spl c (.real k (some idxs)) ha.2 h.lt
  | event tl =>
    have hev : lowEv n (.real k (normTl tl)) := by
      cases tl with
      | none => trivial
      | some idxs => cases idxs with
        | nil => trivial
        | cons i is => exact ha.2
    simp only [SMV.Decl.processAttr]
    rw [addEvent_spl c _ hev h.lt]
    rfl

theorem foldl_processAttr_spl {X : List TDef} (hA : tA.source = .any) (hX : ∀ x ∈ X, x.events = [])
    (attrs : List (Name × AttrVal)) (c : Cls) (h : Inv n tA names c) (ha : ∀ a ∈ attrs, okAttr n names a) :
    attrs.foldl processAttr (spl n X c) = spl n X (attrs.foldl processAttr c) ∧
      Inv n tA names (attrs.foldl processAttr c) := by
  induction attrs generalizing c with
  | nil => exact ⟨rfl, h⟩
  | cons a as ih =>
    simp only [List.foldl_cons]
    rw [processAttr_spl h hA hX a (ha a List.mem_cons_self)]
    exact ih _ (h.processAttr a (ha a List.mem_cons_self)) (fun b hb => ha b (List.mem_cons_of_mem _ hb))

end
end SMV.Decl
