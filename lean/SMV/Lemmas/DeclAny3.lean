import SMV.Lemmas.DeclAny2
/-!
# `any_partial`: `e = t.from_.any(kw)` ≈ `e = t.from_(s₁, …, sₖ, kw)` after any class body
-/
namespace SMV.Decl

/-- the states a namespace declares, in order -/
def declared (attrs : List (Name × AttrVal)) : List SDecl :=
  attrs.filterMap fun | (_, .state s) => some s | _ => none

theorem regEv_states (c : Cls) (id : Name) : (regEv c id).states = c.states := by
  unfold regEv; split <;> rfl

theorem addEvent_states (c : Cls) (ev : EvRef) : (addEvent c ev).states = c.states := by
  cases ev with
  | ph v => simp only [addEvent]; split <;> rfl
  | real id tl =>
    cases tl with
    | none => simp only [addEvent]; split <;> rfl
    | some idxs => rw [addEvent_some, regEv_states, onEventDefined_states]

theorem foldl_addEvent_states (evs : List EvRef) (c : Cls) : (evs.foldl addEvent c).states = c.states := by
  induction evs generalizing c with
  | nil => rfl
  | cons e es ih => simp only [List.foldl_cons, ih, addEvent_states]

theorem addState_states (c : Cls) (s : SDecl) : (addState c s).states = c.states ++ [s] := by
  unfold addState
  simp only [foldl_addEvent_states]

theorem processAttr_states (c : Cls) (a : Name × AttrVal) :
    (processAttr c a).states = c.states ++ declared [a] := by
  obtain ⟨k, v⟩ := a
  cases v with
  | state s => simp [processAttr, addState_states, declared]
  | tl idxs => simp [processAttr, addEvent_states, declared]
  | event tl => simp [processAttr, addEvent_states, declared]

theorem foldl_processAttr_states (attrs : List (Name × AttrVal)) (c : Cls) :
    (attrs.foldl processAttr c).states = c.states ++ declared attrs := by
  induction attrs generalizing c with
  | nil => simp [declared]
  | cons a as ih =>
    simp only [List.foldl_cons, ih, processAttr_states, List.append_assoc]
    congr 1
    simp [declared, List.filterMap_cons]
    cases a with
    | mk k v => cases v <;> simp

theorem elabMeta_addAttr (c : Cls) (k : Name) (v : AttrVal) :
    elabMeta (addAttr c k v) =
      updateRefs (processAttr (c.attrs.foldl processAttr { c with attrs := [] }) (k, v)) := by
  simp [elabMeta, addAttr, List.foldl_append]

theorem elabClass_empty (p : List Stmt) : elabClass {} p = elabMeta (elabBody {} p) := rfl

theorem elabBody_snoc (c : Cls) (p : List Stmt) (s : Stmt) :
    elabBody c (p ++ [s]) = elabStmt (elabBody c p) s := by
  simp [elabBody, List.foldl_append]

theorem FinRel.updateRefs {e : Name} {c₁ c₂ : Cls} (h : FinRel e c₁ c₂) :
    FinRel e (updateRefs c₁) (updateRefs c₂) := by
  unfold SMV.Decl.updateRefs
  rw [← h.pending]
  have h1 := FinRel.foldl_updateRef c₁.pending h
  exact ⟨h1.states, h1.events, rfl, h1.err, h1.shape⟩

theorem badInternal_mkT (src : Src) (t : Name) (kw : Kw) (h : kw.internal = false) :
    badInternal (mkT src t kw) = false := by
  simp [badInternal, mkT, h]

/-- **(f)** after any class body `p`: `e = t.from_.any(kw)` and `e = t.from_(s₁, …, sₖ, kw)` over the
non-final states declared in `p` (in order) declare equivalent classes, provided `kw` has no
`event=` and is not `internal`, and `e` is not an attribute assigned in `p`. -/
theorem any_partial (p : List Stmt) (e t : Name) (kw : Kw)
    (hev : kw.event = []) (hint : kw.internal = false)
    (hfresh : e ∉ (elabBody {} p).attrs.map (·.1)) :
    Equiv (elabClass {} (p ++ [.assign e (.fromAny t kw)]))
      (elabClass {} (p ++ [.assign e (.from_ t
        (((declared (elabBody {} p).attrs).filter (!·.final)).map (·.name)) kw)])) := by
  obtain ⟨hb, hu⟩ := elabBody_spec p {} BodyInv.empty
  generalize hcb : elabBody {} p = cb at hb hu hfresh
  let n := cb.trans.length
  let tA := mkT .any t kw
  let names := cb.attrs.map (·.1)
  let ss := ((declared cb.attrs).filter (!·.final)).map (·.name)
  let X₀ : List TDef := ss.map (fun s => mkT (.st s) t kw)
  let start₁ : Cls := { (push cb [tA]).1 with attrs := [] }
  have hA : tA.source = .any := rfl
  have hAe : tA.events = [] := by simp [tA, mkT, hev, kwEvents]
  have hX : ∀ x ∈ X₀, x.events = [] := by
    intro x hx
    simp only [X₀, List.mem_map] at hx
    obtain ⟨s, _, rfl⟩ := hx
    simp [mkT, hev, kwEvents]
  have hInv : Inv n tA names start₁ := by
    refine ⟨by simp [start₁, push, n], ?_, ?_⟩
    · intro t' ht' ev hev'
      have hp : plainEv ev := by
        simp only [start₁, push, List.mem_append, List.mem_singleton] at ht'
        rcases ht' with h | h
        · exact hb.plain t' h ev hev'
        · subst h; rw [hAe] at hev'; simp at hev'
      cases ev with
      | ph v => trivial
      | real k tl => cases tl with
        | none => trivial
        | some idxs => exact hp.elim
    · intro t' ht'
      simp [start₁, push, n] at ht'
  have hattrs : ∀ a ∈ cb.attrs, okAttr n names a := hb.idx
  have hstart₂ : ({ (push cb X₀).1 with attrs := [] } : Cls) = spl n X₀ start₁ := by
    have e1 : X₀.any badInternal = false := by
      simp only [List.any_eq_false]
      intro x hx
      simp only [X₀, List.mem_map] at hx
      obtain ⟨s, _, rfl⟩ := hx
      simp [badInternal_mkT _ _ _ hint]
    simp [spl, splice, start₁, push, n, e1, badInternal_mkT _ _ _ hint, tA]
  obtain ⟨hfold, hInvc⟩ := foldl_processAttr_spl (X := X₀) hA hX cb.attrs start₁ hInv hattrs
  have hstates : (cb.attrs.foldl processAttr start₁).states = declared cb.attrs := by
    rw [foldl_processAttr_states]
    simp [start₁, push, hu.states]
  have hXeq : (((cb.attrs.foldl processAttr start₁).states.filter (!·.final)).map
      (fun s => ({ tA with source := .st s.name } : TDef))) = X₀ := by
    rw [hstates]
    simp only [X₀, ss, List.map_map]
    rfl
  have hstep := estep hInvc hA hAe (by simp [tA, mkT, hint]) e hfresh
  simp only [hXeq] at hstep
  have hlen : X₀.length = ss.length := by simp [X₀]
  rw [elabClass_empty, elabClass_empty, elabBody_snoc, elabBody_snoc, hcb]
  show Equiv (elabMeta (addAttr (push cb [tA]).1 e (.tl (List.range' n 1))))
    (elabMeta (addAttr (push cb X₀).1 e (.tl (List.range' n (ss.map (fun s => mkT (.st s) t kw)).length))))
  rw [elabMeta_addAttr, elabMeta_addAttr]
  have hl1 : List.range' n 1 = [n] := rfl
  have ha1 : (push cb [tA]).1.attrs = cb.attrs := rfl
  have ha2 : (push cb X₀).1.attrs = cb.attrs := rfl
  rw [hl1, ha1, ha2, hstart₂, hfold]
  simp only [List.length_map] at hlen ⊢
  rw [← hlen] at *
  exact (FinRel.updateRefs hstep).equiv

end SMV.Decl
