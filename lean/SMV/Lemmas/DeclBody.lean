import SMV.Lemmas.DeclInv
/-!
# What holds of every class body after evaluation (`elabBody`)

Transition lists held by attributes only mention existing store positions; no event reference in the
store carries a transition list yet (only the metaclass creates those); `states`, `events`,
`pending` are untouched.
-/
namespace SMV.Decl

def plainEv : EvRef → Prop
  | .real _ (some _) => False
  | _ => True

structure BodyInv (c : Cls) : Prop where
  idx : ∀ a ∈ c.attrs, okAttr c.trans.length (c.attrs.map (·.1)) a
  plain : ∀ t ∈ c.trans, ∀ ev ∈ t.events, plainEv ev

theorem okAttr.mono {n n' : Nat} {names names' : List Name} {a : Name × AttrVal}
    (h : okAttr n names a) (hn : n ≤ n') (hs : ∀ k ∈ names, k ∈ names') : okAttr n' names' a := by
  obtain ⟨k, v⟩ := a
  cases v with
  | state s => trivial
  | tl idxs => exact ⟨hs k h.1, fun i hi => Nat.lt_of_lt_of_le (h.2 i hi) hn⟩
  | event tl =>
    cases tl with
    | none => trivial
    | some idxs => exact ⟨hs k h.1, fun i hi => Nat.lt_of_lt_of_le (h.2 i hi) hn⟩

theorem kwEvents_plain (items : List EvItem) : ∀ ev ∈ kwEvents items, plainEv ev := by
  intro ev hev
  rcases mem_foldl_addEv _ _ hev with h | h
  · simp at h
  · simp only [List.mem_flatMap] at h
    obtain ⟨it, _, hit⟩ := h
    cases it with
    | str ids =>
      simp only [evItemRefs, List.mem_map] at hit
      obtain ⟨i, _, rfl⟩ := hit
      trivial
    | obj id =>
      simp only [evItemRefs, List.mem_singleton] at hit
      subst hit; trivial
    | ph v =>
      simp only [evItemRefs, List.mem_singleton] at hit
      subst hit; trivial

theorem mkT_plain (src : Src) (tgt : Name) (kw : Kw) : ∀ ev ∈ (mkT src tgt kw).events, plainEv ev :=
  kwEvents_plain kw.event

theorem BodyInv.push {c : Cls} (h : BodyInv c) (ts : List TDef)
    (hts : ∀ t ∈ ts, ∀ ev ∈ t.events, plainEv ev) : BodyInv (push c ts).1 := by
  constructor
  · intro a ha
    exact (h.idx a ha).mono (by simp [SMV.Decl.push]) (fun _ hk => hk)
  · intro t ht
    simp only [SMV.Decl.push, List.mem_append] at ht
    rcases ht with h1 | h1
    · exact h.plain t h1
    · exact hts t h1

theorem push_idx (c : Cls) (ts : List TDef) : ∀ i ∈ (SMV.Decl.push c ts).2, i < (SMV.Decl.push c ts).1.trans.length := by
  intro i hi
  simp only [SMV.Decl.push, List.mem_range'_1] at hi
  simp only [SMV.Decl.push, List.length_append]
  omega

theorem lookupTL_lt {n : Nat} {names : List Name} (attrs : List (Name × AttrVal))
    (h : ∀ a ∈ attrs, okAttr n names a) (k : Name) : ∀ i ∈ lookupTL attrs k, i < n := by
  induction attrs with
  | nil => intro i hi; simp [lookupTL] at hi
  | cons a as ih =>
    obtain ⟨k', v⟩ := a
    unfold lookupTL
    split
    · cases v with
      | tl idxs => exact (h (k', .tl idxs) List.mem_cons_self).2
      | state s => intro i hi; simp at hi
      | event tl => intro i hi; simp at hi
    · exact ih (fun a ha => h a (List.mem_cons_of_mem _ ha))

/-- evaluation of a transition expression: namespace and registration data untouched, the store only
grows, the returned indices exist -/
theorem evalT_spec (e : TExpr) : ∀ (c : Cls), BodyInv c →
    BodyInv (evalT c e).1 ∧ (evalT c e).1.attrs = c.attrs ∧ (evalT c e).1.states = c.states ∧
    (evalT c e).1.events = c.events ∧ (evalT c e).1.pending = c.pending ∧
    c.trans.length ≤ (evalT c e).1.trans.length ∧
    ∀ i ∈ (evalT c e).2, i < (evalT c e).1.trans.length := by
  induction e with
  | to s ts kw =>
    intro c h
    refine ⟨h.push _ ?_, rfl, rfl, rfl, rfl, by simp [evalT, push], ?_⟩
    · intro t ht; simp only [List.mem_map] at ht; obtain ⟨x, _, rfl⟩ := ht; exact mkT_plain _ _ _
    · exact push_idx _ _
  | from_ t ss kw =>
    intro c h
    refine ⟨h.push _ ?_, rfl, rfl, rfl, rfl, by simp [evalT, push], ?_⟩
    · intro t ht; simp only [List.mem_map] at ht; obtain ⟨x, _, rfl⟩ := ht; exact mkT_plain _ _ _
    · exact push_idx _ _
  | toItself s kw =>
    intro c h
    refine ⟨h.push _ ?_, rfl, rfl, rfl, rfl, by simp [evalT, push], ?_⟩
    · intro t ht; simp only [List.mem_singleton] at ht; subst ht; exact mkT_plain _ _ _
    · exact push_idx _ _
  | fromItself s kw =>
    intro c h
    refine ⟨h.push _ ?_, rfl, rfl, rfl, rfl, by simp [evalT, push], ?_⟩
    · intro t ht; simp only [List.mem_singleton] at ht; subst ht; exact mkT_plain _ _ _
    · exact push_idx _ _
  | fromAny t kw =>
    intro c h
    refine ⟨h.push _ ?_, rfl, rfl, rfl, rfl, by simp [evalT, push], ?_⟩
    · intro t ht; simp only [List.mem_singleton] at ht; subst ht; exact mkT_plain _ _ _
    · exact push_idx _ _
  | or a b iha ihb =>
    intro c h
    obtain ⟨h1, a1, s1, e1, p1, l1, i1⟩ := iha c h
    obtain ⟨h2, a2, s2, e2, p2, l2, i2⟩ := ihb (evalT c a).1 h1
    refine ⟨h2, a2.trans a1, s2.trans s1, e2.trans e1, p2.trans p1, Nat.le_trans l1 l2, ?_⟩
    intro i hi
    simp only [evalT, List.mem_append] at hi
    rcases hi with hi | hi
    · exact Nat.lt_of_lt_of_le (i1 i hi) l2
    · exact i2 i hi
  | ref k =>
    intro c h
    exact ⟨h, rfl, rfl, rfl, rfl, Nat.le_refl _, lookupTL_lt c.attrs h.idx k⟩

theorem BodyInv.addAttrs {c : Cls} (h : BodyInv c) (kvs : List (Name × AttrVal))
    (hk : ∀ a ∈ kvs, okAttr c.trans.length (c.attrs.map (·.1) ++ kvs.map (·.1)) a) :
    BodyInv (addAttrs c kvs) := by
  constructor
  · intro a ha
    simp only [SMV.Decl.addAttrs, List.mem_append, List.map_append] at ha ⊢
    rcases ha with h1 | h1
    · exact (h.idx a h1).mono (Nat.le_refl _) (fun k hk' => List.mem_append_left _ hk')
    · exact hk a h1
  · exact h.plain

theorem BodyInv.addAttr {c : Cls} (h : BodyInv c) (k : Name) (v : AttrVal)
    (hk : okAttr c.trans.length (c.attrs.map (·.1) ++ [k]) (k, v)) : BodyInv (addAttr c k v) :=
  h.addAttrs [(k, v)] (fun a ha => by simp only [List.mem_singleton] at ha; subst ha; exact hk)

theorem stateAttrs_ok (n : Nat) (names : List Name) (ss : List SDecl) :
    ∀ a ∈ stateAttrs ss, okAttr n names a := by
  intro a ha
  simp only [stateAttrs, List.mem_map] at ha
  obtain ⟨s, _, rfl⟩ := ha
  trivial

theorem BodyInv.addOn {c : Cls} (h : BodyInv c) (idxs : List Nat) (cb : CbId) : BodyInv (addOn c idxs cb) := by
  constructor
  · intro a ha
    exact (h.idx a ha).mono (by simp [SMV.Decl.addOn, foldl_modify_length]) (fun _ hk => hk)
  · exact foldl_modify_all (fun t => ∀ ev ∈ t.events, plainEv ev) _
      (fun t ht => by split <;> exact ht) idxs c.trans h.plain

structure Untouched (c c' : Cls) : Prop where
  states : c'.states = c.states
  events : c'.events = c.events
  pending : c'.pending = c.pending

theorem elabStmt_spec (c : Cls) (h : BodyInv c) (s : Stmt) :
    BodyInv (elabStmt c s) ∧ Untouched c (elabStmt c s) := by
  cases s with
  | state sd => exact ⟨h.addAttrs _ (stateAttrs_ok _ _ _), ⟨rfl, rfl, rfl⟩⟩
  | statesDict ss => exact ⟨h.addAttrs _ (stateAttrs_ok _ _ _), ⟨rfl, rfl, rfl⟩⟩
  | statesEnum ms i fs => exact ⟨h.addAttrs _ (stateAttrs_ok _ _ _), ⟨rfl, rfl, rfl⟩⟩
  | assign a e =>
    obtain ⟨h1, a1, s1, e1, p1, _, i1⟩ := evalT_spec e c h
    exact ⟨h1.addAttr a _ ⟨by simp, i1⟩, ⟨s1, e1, p1⟩⟩
  | bare e =>
    obtain ⟨h1, _, s1, e1, p1, _, _⟩ := evalT_spec e c h
    exact ⟨h1, ⟨s1, e1, p1⟩⟩
  | eventOf a e =>
    obtain ⟨h1, a1, s1, e1, p1, _, i1⟩ := evalT_spec e c h
    exact ⟨h1.addAttr a _ ⟨by simp, i1⟩, ⟨s1, e1, p1⟩⟩
  | placeholder a => exact ⟨h.addAttr a _ trivial, ⟨rfl, rfl, rfl⟩⟩
  | decorated e f cb =>
    obtain ⟨h1, a1, s1, e1, p1, _, i1⟩ := evalT_spec e c h
    refine ⟨(h1.addOn _ cb).addAttr f _ ⟨by simp, ?_⟩, ⟨s1, e1, p1⟩⟩
    intro i hi
    simpa [SMV.Decl.addOn, foldl_modify_length] using i1 i hi

theorem elabBody_spec (p : List Stmt) (c : Cls) (h : BodyInv c) :
    BodyInv (elabBody c p) ∧ Untouched c (elabBody c p) := by
  induction p generalizing c with
  | nil => exact ⟨h, ⟨rfl, rfl, rfl⟩⟩
  | cons s p ih =>
    obtain ⟨h1, u1⟩ := elabStmt_spec c h s
    obtain ⟨h2, u2⟩ := ih (elabStmt c s) h1
    exact ⟨h2, ⟨u2.states.trans u1.states, u2.events.trans u1.events, u2.pending.trans u1.pending⟩⟩

theorem BodyInv.empty : BodyInv {} := ⟨fun _ h => by simp at h, fun _ h => by simp at h⟩

end SMV.Decl
