import SMV.Lemmas.Resp
import SMV.Model.Store
/-!
# The model field in the full engine model (link between `Store.send` and `Engine.activate`)

`SMV.Model.Store.send` abstracts an event to "look up the current state, assign the target's
value". These lemmas show that the engine model with arbitrary callbacks, guards and nested sends
(run-to-completion mode) does the same to the cell `Cfg.cur`: nothing but `setState` writes it.
-/
namespace SMV

/-- the model field is untouched -/
def SameCur (c c' : Cfg) : Prop := c'.cur = c.cur

theorem SameCur.lift : Lift SameCur (fun _ _ => True) (fun _ => True) nestedRtc where
  refl := fun _ => rfl
  trans := fun _ _ _ h1 h2 => Eq.trans h2 h1
  log := fun _ _ _ _ => rfl
  handler := fun e c => ⟨by simp [SameCur, nestedRtc, EM.bind_apply, enqueue, EM.modify], fun _ _ => trivial⟩

theorem entryOk_true (x : Ctx) (ph : Phase) (cb : CbId) :
    EntryOk (fun _ _ => True) (fun _ => True) x ph cb :=
  fun _ => ⟨trivial, fun _ _ => trivial, fun _ => trivial⟩

/-- callbacks (which can only return, raise, or send events that get queued) never write the field -/
theorem runGroup_sameCur (m : Machine) (x : Ctx) (ph : Phase) (cs : List CbId) :
    Resp SameCur (runGroup nestedRtc m x ph cs) :=
  runGroup_lift SameCur.lift m x ph cs fun cb _ => entryOk_true x ph cb

theorem runConds_sameCur (m : Machine) (x : Ctx) (cs : List (CbId × Bool)) :
    Resp SameCur (runConds nestedRtc m x cs) :=
  runConds_lift SameCur.lift m x cs fun p _ => entryOk_true x .cond p.1

theorem EM.bind_ok {α β} {x : EM α} {f : α → EM β} {c c' : Cfg} {b : β}
    (h : (x >>= f) c = (c', .ok b)) : ∃ c1 a, x c = (c1, .ok a) ∧ f a c1 = (c', .ok b) := by
  rw [EM.bind_apply] at h
  split at h
  · rename_i c1 a heq; exact ⟨c1, a, heq, h⟩
  · simp at h

theorem Resp.of_ok {R : Cfg → Cfg → Prop} {α} {x : EM α} (hx : Resp R x) {c c' : Cfg} {a : α}
    (h : x c = (c', .ok a)) : R c c' := by
  have := hx c; rw [h] at this; exact this

/-- the second half of `_activate` (assignment, `enter`, `after`) leaves the target's value in the
field, whatever the callbacks did -/
theorem activatePost_cur (m : Machine) (t : Trigger) (tr : Transn) (c c' : Cfg) (u : Unit)
    (h : activatePost nestedRtc m t tr c = (c', .ok u)) : c'.cur = some (stateVal m tr.target) := by
  unfold activatePost at h
  obtain ⟨c6, _, h6, h⟩ := EM.bind_ok h
  have hs : c6.cur = some (stateVal m tr.target) := by
    simp [setState, EM.modify] at h6
    rw [← h6]
  have hrest : SameCur c6 c' := by
    refine Resp.of_ok ?_ h
    exact SameCur.lift.bind (runGroup_sameCur m _ .enter _) (fun _ =>
      SameCur.lift.bind (runGroup_sameCur m _ .after _) (fun _ => SameCur.lift.pure _))
  exact hrest.trans hs

/-- an executed activation leaves the target's value in the field, whatever the callbacks did -/
theorem activate_cur (m : Machine) (t : Trigger) (tr : Transn) (c c' : Cfg) (r : Res)
    (h : activate nestedRtc m t tr c = (c', .ok (some r))) : c'.cur = some (stateVal m tr.target) := by
  unfold activate at h
  obtain ⟨c1, a, _, h⟩ := EM.bind_ok h
  cases a with
  | none => simp [pure] at h
  | some rs =>
    obtain ⟨c2, u, h2, h⟩ := EM.bind_ok h
    have : c2 = c' := by simp [pure] at h; exact h.1
    subst this
    exact activatePost_cur m t tr c1 c2 u h2

/-- an activation that was rejected by its guards, or raised before the assignment, … in any case:
the field is either untouched or holds the target's value -/
theorem activate_cur_any (m : Machine) (t : Trigger) (tr : Transn) (c : Cfg) :
    (activate nestedRtc m t tr c).1.cur = c.cur ∨
    (activate nestedRtc m t tr c).1.cur = some (stateVal m tr.target) := by
  let R : Cfg → Cfg → Prop := fun a b => b.cur = a.cur ∨ b.cur = some (stateVal m tr.target)
  have L : Lift R (fun _ _ => True) (fun _ => True) nestedRtc :=
    { refl := fun _ => .inl rfl
      trans := fun a b c h1 h2 => by
        rcases h2 with h2 | h2
        · rcases h1 with h1 | h1
          · exact .inl (h2.trans h1)
          · exact .inr (h2.trans h1)
        · exact .inr h2
      log := fun _ _ _ _ => .inl rfl
      handler := fun e c => ⟨.inl (SameCur.lift.handler e c).1, fun _ _ => trivial⟩ }
  exact activate_lift L m t tr (fun ph cb _ => entryOk_true _ ph cb)
    (fun c => .inr (by simp [setState, EM.modify])) c

/-- the candidate loop: an executed event leaves the value of the target of one of the matching
candidates in the field -/
theorem tryCands_cur (m : Machine) (t : Trigger) (trs : List Transn) (c c' : Cfg) (r : Res)
    (h : tryCands nestedRtc m t trs c = (c', .ok (some r))) :
    ∃ tr ∈ trs, matchesEv tr t.event = true ∧ c'.cur = some (stateVal m tr.target) := by
  induction trs generalizing c with
  | nil => simp [tryCands, pure] at h
  | cons tr rest ih =>
    unfold tryCands at h
    split at h
    · rename_i hm
      obtain ⟨c1, a, h1, h⟩ := EM.bind_ok h
      cases a with
      | none =>
        obtain ⟨tr', hmem, hx⟩ := ih c1 h
        exact ⟨tr', by simp [hmem], hx⟩
      | some r' =>
        have : c1 = c' := by simp [pure] at h; exact h.1
        subst this
        exact ⟨tr, by simp, hm, activate_cur m t tr c c1 r' h1⟩
    · obtain ⟨tr', hmem, hx⟩ := ih c h
      exact ⟨tr', by simp [hmem], hx⟩

end SMV
