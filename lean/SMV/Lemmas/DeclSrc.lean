import SMV.Lemmas.DeclAny3
/-!
# Sources of the store entries are stable under the metaclass steps

`AllSrc P c`: every store entry's source satisfies `P`. Metaclass steps keep sources of existing
entries and create entries whose source is a registered state.
-/
namespace SMV.Decl

def AllSrc (P : Src → Prop) (c : Cls) : Prop := ∀ t ∈ c.trans, P t.source

section
variable {P : Src → Prop}

theorem AllSrc.onEventDefined {c : Cls} (h : AllSrc P c) (hs : ∀ s ∈ c.states, P (.st s.name))
    (id : Name) (idxs : List Nat) : AllSrc P (onEventDefined c id idxs) := by
  obtain ⟨extra, he1, he2⟩ := onEventDefined_trans c id idxs
  intro t ht
  rw [he1] at ht
  rcases List.mem_append.mp ht with h1 | h1
  · exact foldl_modify_all (fun t => P t.source)
      (fun t => { t with events := addEv t.events (.real id (some idxs)) }) (fun t ht => ht) idxs c.trans h t h1
  · obtain ⟨s, hs', e⟩ := (he2 t h1).2
    exact e ▸ hs s hs'

theorem AllSrc.addEvent {c : Cls} (h : AllSrc P c) (hs : ∀ s ∈ c.states, P (.st s.name)) (ev : EvRef) :
    AllSrc P (addEvent c ev) := by
  cases ev with
  | ph v => simp only [SMV.Decl.addEvent]; split <;> exact h
  | real id tl =>
    cases tl with
    | none => simp only [SMV.Decl.addEvent]; split <;> exact h
    | some idxs =>
      rw [addEvent_some]
      have := h.onEventDefined hs id idxs
      unfold regEv
      split <;> exact this

theorem AllSrc.foldl_addEvent (evs : List EvRef) {c : Cls} (h : AllSrc P c)
    (hs : ∀ s ∈ c.states, P (.st s.name)) : AllSrc P (evs.foldl SMV.Decl.addEvent c) := by
  induction evs generalizing c with
  | nil => exact h
  | cons e es ih =>
    exact ih (h.addEvent hs e) (by rw [addEvent_states]; exact hs)

theorem AllSrc.addState {c : Cls} (h : AllSrc P c) (hs : ∀ s ∈ c.states, P (.st s.name)) (s : SDecl)
    (hsP : P (.st s.name)) : AllSrc P (addState c s) := by
  unfold SMV.Decl.addState
  apply AllSrc.foldl_addEvent
  · exact h
  · intro s' hs'
    simp only [List.mem_append, List.mem_singleton] at hs'
    rcases hs' with h1 | h1
    · exact hs s' h1
    · exact h1 ▸ hsP

theorem AllSrc.processAttr {c : Cls} (h : AllSrc P c) (hs : ∀ s ∈ c.states, P (.st s.name))
    (a : Name × AttrVal) (ha : ∀ s ∈ declared [a], P (.st s.name)) :
    AllSrc P (processAttr c a) ∧ ∀ s ∈ (processAttr c a).states, P (.st s.name) := by
  refine ⟨?_, ?_⟩
  · obtain ⟨k, v⟩ := a
    cases v with
    | state s => exact h.addState hs s (ha s (by simp [declared]))
    | tl idxs => exact h.addEvent hs _
    | event tl => exact h.addEvent hs _
  · rw [processAttr_states]
    intro s hs'
    rcases List.mem_append.mp hs' with h1 | h1
    · exact hs s h1
    · exact ha s h1

theorem declared_cons (a : Name × AttrVal) (as : List (Name × AttrVal)) :
    declared (a :: as) = declared [a] ++ declared as := by
  simp only [declared, List.filterMap_cons, List.filterMap_nil]
  cases a with
  | mk k v => cases v <;> simp

theorem AllSrc.foldl_processAttr (attrs : List (Name × AttrVal)) {c : Cls} (h : AllSrc P c)
    (hs : ∀ s ∈ c.states, P (.st s.name)) (ha : ∀ s ∈ declared attrs, P (.st s.name)) :
    AllSrc P (attrs.foldl SMV.Decl.processAttr c) := by
  induction attrs generalizing c with
  | nil => exact h
  | cons a as ih =>
    rw [declared_cons] at ha
    obtain ⟨h1, h2⟩ := h.processAttr hs a (fun s hs' => ha s (List.mem_append_left _ hs'))
    exact ih h1 h2 (fun s hs' => ha s (List.mem_append_right _ hs'))

theorem AllSrc.outOf_nil {c : Cls} {f : Name} (h : AllSrc (fun src => src ≠ .st f) c) : outOf c f = [] := by
  simp only [outOf, List.filter_eq_nil_iff]
  intro t ht
  simpa using h t ht

end

/-- registering a state that no store entry leaves only appends it to `cls.states` -/
theorem addState_of_outOf_nil (c : Cls) (s : SDecl) (h : outOf c s.name = []) :
    addState c s = { c with states := c.states ++ [s] } := by
  unfold addState
  have : outOf { c with states := c.states ++ [s] } s.name = [] := h
  simp only [this, uniqueEvents, List.flatMap_nil, List.foldl_nil]

theorem FinRel.addState {e : Name} {c₁ c₂ : Cls} (h : FinRel e c₁ c₂) (s : SDecl)
    (h1 : outOf c₁ s.name = []) (h2 : outOf c₂ s.name = []) :
    FinRel e (addState c₁ s) (addState c₂ s) := by
  rw [addState_of_outOf_nil c₁ s h1, addState_of_outOf_nil c₂ s h2]
  exact ⟨by simp [h.states], h.events, h.pending, h.err, h.shape⟩

end SMV.Decl
