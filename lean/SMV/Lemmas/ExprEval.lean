import SMV.Model.Expr
/-!
# Lemmas for C08: library evaluation = Python evaluation; provider conjunction; substitution
-/
namespace SMV.GExpr

theorem firstReads_append (a b : List (Nat × Bool)) :
    firstReads (a ++ b) = firstReads a ++ firstReads b := by
  simp [firstReads]

@[simp] theorem firstReads_nil : firstReads [] = [] := rfl

mutual
/-- a re-evaluation (`re = true`) yields the same value (names are read, not mutated, during one
evaluation) and adds no first reads -/
theorem lib_re_val (S : Sem) (ρ : Env) (e : E) :
    (evalLib S ρ true e).val = (evalLib S ρ false e).val ∧
    firstReads (evalLib S ρ true e).reads = [] := by
  cases e with
  | name n => simp [evalLib, firstReads]
  | const v => simp [evalLib]
  | not a => have := lib_re_val S ρ a; simp [evalLib, this]
  | and a b =>
    have ha := lib_re_val S ρ a; have hb := lib_re_val S ρ b
    simp only [evalLib]
    rw [ha.1]
    cases hv : (evalLib S ρ false a).val with
    | none => simp only []; exact ⟨by rw [ha.1, hv], ha.2⟩
    | some va =>
      simp only []
      split
      · exact ⟨hb.1, by simp [firstReads_append, ha.2, hb.2]⟩
      · exact ⟨by rw [ha.1, hv], ha.2⟩
  | or a b =>
    have ha := lib_re_val S ρ a; have hb := lib_re_val S ρ b
    simp only [evalLib]
    rw [ha.1]
    cases hv : (evalLib S ρ false a).val with
    | none => simp only []; exact ⟨by rw [ha.1, hv], ha.2⟩
    | some va =>
      simp only []
      split
      · exact ⟨by rw [ha.1, hv], ha.2⟩
      · exact ⟨hb.1, by simp [firstReads_append, ha.2, hb.2]⟩
  | cmp first c =>
    have hf := lib_re_val S ρ first
    simp only [evalLib]
    rw [hf.1]
    cases hv : (evalLib S ρ false first).val with
    | none => simp only []; exact ⟨by rw [hf.1, hv], hf.2⟩
    | some lv =>
      have hc := chain_re_val S ρ c lv
      simp only []
      exact ⟨hc.1, by simp [firstReads_append, hf.2, hc.2]⟩
theorem chain_re_val (S : Sem) (ρ : Env) (c : Chain) (lv : V) :
    (chainLib S ρ true lv c).val = (chainLib S ρ false lv c).val ∧
    firstReads (chainLib S ρ true lv c).reads = [] := by
  cases c with
  | last op r =>
    have h := lib_re_val S ρ r
    simp only [chainLib]
    rw [h.1]
    cases hv : (evalLib S ρ false r).val with
    | none => simp only []; exact ⟨by rw [h.1, hv], h.2⟩
    | some rv => simp only []; exact ⟨trivial, h.2⟩
  | more op r c =>
    have h := lib_re_val S ρ r
    simp only [chainLib]
    rw [h.1]
    cases hv : (evalLib S ρ false r).val with
    | none => simp only []; exact ⟨by rw [h.1, hv], h.2⟩
    | some rv =>
      simp only []
      cases hc : S.cmp op lv rv with
      | none => simp only []; exact ⟨trivial, h.2⟩
      | some b =>
        cases b with
        | false => simp only []; exact ⟨trivial, h.2⟩
        | true =>
          have ih := chain_re_val S ρ c rv
          simp only []
          exact ⟨ih.1, by simp [firstReads_append, h.2, ih.2]⟩
end

mutual
/-- same value (or the same failure) and same first reads as Python, any nesting, any environment -/
theorem eval_lib_py (S : Sem) (ρ : Env) (e : E) :
    (evalLib S ρ false e).val = (evalPy S ρ e).val ∧
    firstReads (evalLib S ρ false e).reads = (evalPy S ρ e).reads := by
  cases e with
  | name n => simp [evalLib, evalPy, firstReads]
  | const v => simp [evalLib, evalPy]
  | not a => have := eval_lib_py S ρ a; simp [evalLib, evalPy, this]
  | and a b =>
    have ha := eval_lib_py S ρ a; have hb := eval_lib_py S ρ b
    simp only [evalLib, evalPy]
    rw [← ha.1]
    cases hv : (evalLib S ρ false a).val with
    | none => simp only []; exact ⟨by rw [hv, ← ha.1, hv], ha.2⟩
    | some va =>
      simp only []
      split
      · exact ⟨hb.1, by simp [firstReads_append, ha.2, hb.2]⟩
      · exact ⟨by rw [hv, ← ha.1, hv], ha.2⟩
  | or a b =>
    have ha := eval_lib_py S ρ a; have hb := eval_lib_py S ρ b
    simp only [evalLib, evalPy]
    rw [← ha.1]
    cases hv : (evalLib S ρ false a).val with
    | none => simp only []; exact ⟨by rw [hv, ← ha.1, hv], ha.2⟩
    | some va =>
      simp only []
      split
      · exact ⟨by rw [hv, ← ha.1, hv], ha.2⟩
      · exact ⟨hb.1, by simp [firstReads_append, ha.2, hb.2]⟩
  | cmp first c =>
    have hf := eval_lib_py S ρ first
    simp only [evalLib, evalPy]
    rw [← hf.1]
    cases hv : (evalLib S ρ false first).val with
    | none => simp only []; exact ⟨by rw [hv, ← hf.1, hv], hf.2⟩
    | some lv =>
      have hc := chain_lib_py S ρ c lv
      simp only []
      exact ⟨hc.1, by simp [firstReads_append, hf.2, hc.2]⟩
theorem chain_lib_py (S : Sem) (ρ : Env) (c : Chain) (lv : V) :
    (chainLib S ρ false lv c).val = (chainPy S ρ lv c).val ∧
    firstReads (chainLib S ρ false lv c).reads = (chainPy S ρ lv c).reads := by
  cases c with
  | last op r =>
    have h := eval_lib_py S ρ r
    simp only [chainLib, chainPy]
    rw [← h.1]
    cases hv : (evalLib S ρ false r).val with
    | none => simp only []; exact ⟨by rw [hv, ← h.1, hv], h.2⟩
    | some rv => simp only []; exact ⟨trivial, h.2⟩
  | more op r c =>
    have h := eval_lib_py S ρ r
    have h2 := lib_re_val S ρ r
    simp only [chainLib, chainPy]
    rw [← h.1]
    cases hv : (evalLib S ρ false r).val with
    | none => simp only []; exact ⟨by rw [hv, ← h.1, hv], h.2⟩
    | some rv =>
      simp only []
      cases hc : S.cmp op lv rv with
      | none => simp only []; exact ⟨trivial, h.2⟩
      | some b =>
        cases b with
        | false => simp only []; exact ⟨trivial, h.2⟩
        | true =>
          have ih := chain_lib_py S ρ c rv
          simp only [h2.1, hv]
          exact ⟨ih.1, by simp [firstReads_append, h.2, h2.2, ih.2]⟩
end

end SMV.GExpr
