import SMV.Model.Engine
/-!
# The engine only looks at per-event candidate lists

`MEquiv m₁ m₂`: same user code and options, same states (value, flags, enter/exit), and for every
state and event the same ordered list of candidates *as seen by that event* (`view`).
Machines related by `MEquiv` are indistinguishable for the engine: `trigger`, `send`, `runOps` agree
for both processing modes.
-/
namespace SMV

/-- the candidate loop only looks at transitions bound to the event: the order of transitions bound
to *other* events is irrelevant (what makes declaration styles interchangeable, C15) -/
theorem tryCands_filter (h : Nested) (m : Machine) (t : Trigger) (l : List Transn) :
    tryCands h m t l = tryCands h m t (l.filter (matchesEv · t.event)) := by
  induction l with
  | nil => rfl
  | cons tr rest ih =>
    by_cases hm : matchesEv tr t.event = true
    · simp only [List.filter_cons, hm, if_true]
      unfold tryCands
      simp only [hm, if_true]
      congr 1
      funext r
      cases r with
      | none => exact ih
      | some v => rfl
    · simp only [List.filter_cons, hm]
      conv => lhs; unfold tryCands
      simp only [hm]
      exact ih

/-- what `_activate` uses of a transition when the triggering event is `e` -/
structure View where
  source : StateId
  target : StateId
  internal : Bool
  validators : List CbId
  conds : List (CbId × Bool)
  before : List CbId
  on : List CbId
  after : List CbId
deriving DecidableEq, Repr

def view (e : EventId) (tr : Transn) : View :=
  ⟨tr.source, tr.target, tr.internal, tr.validators, tr.conds,
   applicable e tr.before, applicable e tr.on, applicable e tr.after⟩

structure StateCore where
  value : Val
  initial : Bool
  final : Bool
  enter : List CbId
  exit : List CbId
deriving DecidableEq, Repr

def stateCore (s : StateDef) : StateCore := ⟨s.value, s.initial, s.final, s.enter, s.exit⟩

/-- the candidates of state `s` for event `e`, as the engine sees them -/
def candViews (m : Machine) (s : StateId) (e : EventId) : List View :=
  ((out m s).filter (matchesEv · e)).map (view e)

structure MEquiv (m₁ m₂ : Machine) : Prop where
  behav : m₁.behav = m₂.behav ∧ m₁.resVal = m₂.resVal
  truthy : m₁.truthy = m₂.truthy
  allow : m₁.allow = m₂.allow
  startValue : m₁.startValue = m₂.startValue
  cores : m₁.states.map stateCore = m₂.states.map stateCore
  cands : ∀ s e, candViews m₁ s e = candViews m₂ s e

section
variable {m₁ m₂ : Machine}

theorem runCb_congr (h : Nested) (hb : m₁.behav = m₂.behav ∧ m₁.resVal = m₂.resVal) (x : Ctx) (ph : Phase) (cb : CbId) :
    runCb h m₁ x ph cb = runCb h m₂ x ph cb := by
  simp only [runCb, hb.1, retOf, hb.2]

theorem runGroup_congr (h : Nested) (hb : m₁.behav = m₂.behav ∧ m₁.resVal = m₂.resVal) (x : Ctx) (ph : Phase) (l : List CbId) :
    runGroup h m₁ x ph l = runGroup h m₂ x ph l := by
  induction l with
  | nil => rfl
  | cons c cs ih => simp only [runGroup, ih, runCb_congr h hb]

theorem runConds_congr (h : Nested) (hb : m₁.behav = m₂.behav ∧ m₁.resVal = m₂.resVal) (ht : m₁.truthy = m₂.truthy) (x : Ctx)
    (l : List (CbId × Bool)) : runConds h m₁ x l = runConds h m₂ x l := by
  induction l with
  | nil => rfl
  | cons c cs ih =>
    obtain ⟨c, e⟩ := c
    simp only [runConds, ih, runCb_congr h hb, ht]

theorem findIdx?_congr {α β} (f : α → β) (q : β → Bool) :
    ∀ (l₁ l₂ : List α), l₁.map f = l₂.map f →
      l₁.findIdx? (fun a => q (f a)) = l₂.findIdx? (fun a => q (f a))
  | [], [], _ => rfl
  | [], _ :: _, h => by simp at h
  | _ :: _, [], h => by simp at h
  | a :: l₁, b :: l₂, h => by
    simp only [List.map_cons, List.cons.injEq] at h
    simp only [List.findIdx?_cons, h.1, findIdx?_congr f q l₁ l₂ h.2]

theorem getD_core (hc : m₁.states.map stateCore = m₂.states.map stateCore) (s : StateId) :
    stateCore (stateDef m₁ s) = stateCore (stateDef m₂ s) := by
  have h := congrArg (fun l => l[s]?) hc
  simp only [List.getElem?_map] at h
  unfold stateDef
  simp only [List.getD_eq_getElem?_getD]
  cases h1 : m₁.states[s]? <;> cases h2 : m₂.states[s]? <;> simp_all

theorem lookupState_congr (hc : m₁.states.map stateCore = m₂.states.map stateCore) (v : Val) :
    lookupState m₁ v = lookupState m₂ v :=
  findIdx?_congr stateCore (fun c => c.value == v) _ _ hc

theorem initialState_congr (hc : m₁.states.map stateCore = m₂.states.map stateCore) :
    initialState m₁ = initialState m₂ :=
  findIdx?_congr stateCore (fun c => c.initial) _ _ hc

theorem activate_congr (h : Nested) (E : MEquiv m₁ m₂) (t : Trigger) (tr₁ tr₂ : Transn)
    (hv : view t.event tr₁ = view t.event tr₂) : activate h m₁ t tr₁ = activate h m₂ t tr₂ := by
  simp only [view, View.mk.injEq] at hv
  obtain ⟨h1, h2, h3, h4, h5, h6, h7, h8⟩ := hv
  have hs := getD_core E.cores tr₂.source
  have ht := getD_core E.cores tr₂.target
  simp only [stateCore, StateCore.mk.injEq] at hs ht
  simp only [activate, activatePre, activatePost, stateVal, h1, h2, h3, h4, h5, h6, h7, h8,
    hs.2.2.2.2, ht.1, ht.2.2.2.1, runGroup_congr h E.behav, runConds_congr h E.behav E.truthy]

theorem tryCands_congr (h : Nested) (E : MEquiv m₁ m₂) (t : Trigger) :
    ∀ (l₁ l₂ : List Transn), (∀ tr ∈ l₁, matchesEv tr t.event = true) →
      (∀ tr ∈ l₂, matchesEv tr t.event = true) → l₁.map (view t.event) = l₂.map (view t.event) →
      tryCands h m₁ t l₁ = tryCands h m₂ t l₂
  | [], [], _, _, _ => rfl
  | [], _ :: _, _, _, hv => by simp at hv
  | _ :: _, [], _, _, hv => by simp at hv
  | a :: l₁, b :: l₂, ha, hb, hv => by
    simp only [List.map_cons, List.cons.injEq] at hv
    have ih := tryCands_congr h E t l₁ l₂ (fun tr htr => ha tr (List.mem_cons_of_mem _ htr))
      (fun tr htr => hb tr (List.mem_cons_of_mem _ htr)) hv.2
    simp only [tryCands, ha a List.mem_cons_self, hb b List.mem_cons_self, if_true,
      activate_congr h E t a b hv.1, ih]

/-- **C15, engine side**: equivalent machines handle a trigger identically (result and configuration) -/
theorem trigger_congr (h : Nested) (E : MEquiv m₁ m₂) (t : Trigger) :
    trigger h m₁ t = trigger h m₂ t := by
  have hc : ∀ s, tryCands h m₁ t (out m₁ s) = tryCands h m₂ t (out m₂ s) := by
    intro s
    rw [tryCands_filter h m₁, tryCands_filter h m₂]
    refine tryCands_congr h E t _ _ ?_ ?_ (E.cands s t.event)
    · intro tr htr; exact (List.mem_filter.mp htr).2
    · intro tr htr; exact (List.mem_filter.mp htr).2
  have hi : initialTarget m₁ = initialTarget m₂ := by
    simp only [initialTarget, E.startValue, lookupState_congr E.cores, initialState_congr E.cores]
  have hai : activateInitial h m₁ t = activateInitial h m₂ t := by
    unfold activateInitial
    rw [hi]
    cases initialTarget m₂ with
    | error e => rfl
    | ok s =>
      have hs := getD_core E.cores s
      simp only [stateCore, StateCore.mk.injEq] at hs
      simp only [stateVal, hs.1, hs.2.2.2.1, runGroup_congr h E.behav]
  have hl : lookupState m₁ = lookupState m₂ := funext (lookupState_congr E.cores)
  simp only [trigger, hai, hc, E.allow, hl]

theorem drainStep_congr (E : MEquiv m₁ m₂) : drainStep m₁ = drainStep m₂ := by
  funext c
  simp only [drainStep, trigger_congr nestedRtc E]

theorem drainLoop_congr (E : MEquiv m₁ m₂) (n : Nat) (first : Option Res) :
    drainLoop m₁ n first = drainLoop m₂ n first := by
  induction n generalizing first with
  | zero => rfl
  | succ n ih =>
    funext c
    simp only [drainLoop, trigger_congr nestedRtc E, ih]

theorem popTrigger_congr {h₁ h₂ : Nested} (hh : h₁ = h₂) (E : MEquiv m₁ m₂) :
    popTrigger h₁ m₁ = popTrigger h₂ m₂ := by
  subst hh
  funext c
  simp only [popTrigger, trigger_congr h₁ E]

theorem sendNR_congr (E : MEquiv m₁ m₂) (fuel : Nat) : sendNR m₁ fuel = sendNR m₂ fuel := by
  induction fuel with
  | zero => rfl
  | succ n ih =>
    funext e
    simp only [sendNR, popTrigger_congr ih E]

theorem process_congr (E : MEquiv m₁ m₂) (o : Opts) (fuel : Nat) :
    process m₁ o fuel = process m₂ o fuel := by
  unfold process processRtc
  simp only [drainLoop_congr E, popTrigger_congr (sendNR_congr E fuel) E]

/-- equivalent machines answer every operation (construction, `send`, `activate_initial_state`)
with the same result and reach the same configuration, in both processing modes -/
theorem stepOp_congr (E : MEquiv m₁ m₂) (o : Opts) (fuel : Nat) (op : Op) :
    stepOp m₁ o fuel op = stepOp m₂ o fuel op := by
  cases op <;> simp only [stepOp, construct, send, activateOp, process_congr E]

theorem runOps_congr (E : MEquiv m₁ m₂) (o : Opts) (fuel : Nat) (ops : List Op) (c : Cfg) :
    runOps m₁ o fuel ops c = runOps m₂ o fuel ops c := by
  induction ops generalizing c with
  | nil => rfl
  | cons op ops ih => simp only [runOps, stepOp_congr E, ih]

end
end SMV
