import SMV.Model.Binder
/-!
# Lemmas about the binder model (C07)

1. association lists;
2. `phase1` on the reached positional prefix (`phase1_prefix`), where it stops (`phase1_stop`), closed
   forms of `phase2`/`finalize` → closed form of every entry of `bind_expected`'s `arguments`;
3. the round trip `pyCall sig (baArgs sig A) (baKwargs sig A false)`: each parameter finds its entry
   of `A` (`roundTrip`), under the shape conditions that `bind_expected`'s result satisfies.
-/
namespace SMV.Bind

/-! ## 1. association lists -/

theorem kwGet_erase_ne (kw : KW) (m n : Name) (h : n ≠ m) : kwGet (kwErase kw m) n = kwGet kw n := by
  induction kw with
  | nil => rfl
  | cons e rest ih => obtain ⟨k, v⟩ := e; simp only [kwErase]; grind [kwGet]

theorem kwGet_erase_self (kw : KW) (n : Name) : kwGet (kwErase kw n) n = none := by
  induction kw with
  | nil => rfl
  | cons e rest ih => obtain ⟨k, v⟩ := e; simp only [kwErase]; grind [kwGet]

theorem kwErase_absent (kw : KW) (m : Name) (h : kwGet kw m = none) : kwErase kw m = kw := by
  induction kw with
  | nil => rfl
  | cons e rest ih => obtain ⟨k, v⟩ := e; simp only [kwGet] at h; simp only [kwErase]; grind

theorem kwGet_append (a b : KW) (n : Name) :
    kwGet (a ++ b) n = (kwGet a n).orElse (fun _ => kwGet b n) := by
  induction a with
  | nil => simp [kwGet]
  | cons e rest ih => obtain ⟨k, v⟩ := e; simp only [List.cons_append, kwGet]; split <;> simp [ih]

theorem kwGet_none_iff (kw : KW) (n : Name) : kwGet kw n = none ↔ n ∉ keys kw := by
  induction kw with
  | nil => simp [kwGet, keys]
  | cons e rest ih =>
    obtain ⟨k, v⟩ := e
    simp only [kwGet, keys, List.map_cons, List.mem_cons, not_or] at *
    split
    · rename_i h; simp [h]
    · rename_i h; rw [ih]; constructor
      · intro h2; exact ⟨fun h3 => h h3.symm, h2⟩
      · intro h2; exact h2.2

theorem kwErase_eq_filter (kw : KW) (n : Name) : kwErase kw n = kw.filter (fun e => e.1 != n) := by
  induction kw with
  | nil => rfl
  | cons e rest ih =>
    obtain ⟨k, v⟩ := e
    simp only [kwErase, List.filter_cons]
    by_cases h : k = n <;> simp [h, ih]

theorem kwGet_isSome_of_mem (kw : KW) (k : Name) (v : Val) (h : (k, v) ∈ kw) : (kwGet kw k).isSome := by
  induction kw with
  | nil => cases h
  | cons e rest ih =>
    obtain ⟨k', v'⟩ := e
    simp only [kwGet]
    split
    · rfl
    · rename_i hne
      rcases List.mem_cons.mp h with h1 | h1
      · cases h1; exact absurd rfl hne
      · exact ih h1

theorem lookup_append (a b : Arguments) (n : Name) :
    lookup (a ++ b) n = (lookup a n).orElse (fun _ => lookup b n) := by
  induction a with
  | nil => simp [lookup]
  | cons e rest ih => obtain ⟨k, v⟩ := e; simp only [List.cons_append, lookup]; split <;> simp [ih]

theorem lookup_none_of_not_mem (a : Arguments) (n : Name) (h : n ∉ a.map (·.1)) : lookup a n = none := by
  induction a with
  | nil => rfl
  | cons e rest ih =>
    obtain ⟨k, v⟩ := e
    simp only [List.map_cons, List.mem_cons, not_or] at h
    simp only [lookup]
    rw [if_neg (fun hk => h.1 hk.symm)]
    exact ih h.2

/-! ## 2. `bind_expected` -/

def isPos (p : Param) : Bool := p.kind = .po || p.kind = .pk

/-- a parameter that can be given by name: everything except `*args` / `**kwargs` -/
def named (p : Param) : Bool := p.kind != .vp && p.kind != .vk

/-- closed form: entry of the `i`-th positional parameter when a positional argument reaches it -/
def posEntry (args : List Val) (kw : KW) (i : Nat) (p : Param) : Name × ArgVal :=
  (p.name, .one (match p.kind, kwGet kw p.name with
                 | .pk, some v => v
                 | _, _ => args.getD i 0))

def posEntries (args : List Val) (kw : KW) (i : Nat) : List Param → Arguments
  | [] => []
  | p :: ps => posEntry args kw i p :: posEntries args kw (i + 1) ps

/-- keywords used up by the reached positional-or-keyword parameters -/
def eraseNames (kw : KW) : List Param → KW
  | [] => kw
  | p :: ps => eraseNames (if p.kind = .pk then kwErase kw p.name else kw) ps

theorem posEntries_kw_irrelevant (args : List Val) (kw : KW) (m : Name) (i : Nat) (ps : List Param)
    (h : ∀ p ∈ ps, p.name ≠ m) :
    posEntries args (kwErase kw m) i ps = posEntries args kw i ps := by
  induction ps generalizing i with
  | nil => rfl
  | cons p ps ih =>
    have hp := h p (List.mem_cons_self)
    simp only [posEntries, posEntry, kwGet_erase_ne kw m p.name hp]
    rw [ih _ (fun q hq => h q (List.mem_cons_of_mem _ hq))]

/-- **Positional prefix.** If the first `pre.length` parameters are positional and that many
positional arguments exist, the loop consumes them pairwise: each parameter receives the same-named
keyword if it is positional-or-keyword and the keyword is present (the keyword is consumed), else the
positional argument at its index. -/
theorem phase1_prefix (fixed : Bool) (pre rest : List Param) (args : List Val) (kw : KW)
    (acc : Arguments) (i : Nat) (all : List Val)
    (hpos : ∀ p ∈ pre, isPos p = true) (hnd : (pre.map (·.name)).Nodup)
    (hlen : pre.length ≤ args.length) (hall : args = all.drop i) :
    phase1 fixed (pre ++ rest) args kw acc =
      phase1 fixed rest (args.drop pre.length) (eraseNames kw pre) (acc ++ posEntries all kw i pre) := by
  induction pre generalizing args kw acc i with
  | nil => simp [posEntries, eraseNames]
  | cons p ps ih =>
    cases args with
    | nil => simp at hlen
    | cons a as =>
      have hp := hpos p (List.mem_cons_self)
      simp only [List.map_cons, List.nodup_cons] at hnd
      have hne : ∀ q ∈ ps, q.name ≠ p.name := fun q hq h => hnd.1 (h ▸ List.mem_map_of_mem hq)
      have ha : all[i]?.getD 0 = a := by
        have : (all.drop i).head? = some a := by rw [← hall]; rfl
        simp [List.head?_drop] at this
        simp [this]
      have hrest : as = all.drop (i + 1) := by
        have : (all.drop i).tail = as := by rw [← hall]; rfl
        rw [← this, List.tail_drop]
      have hlen' : ps.length ≤ as.length := by simpa using hlen
      have hpos' : ∀ q ∈ ps, isPos q = true := fun q hq => hpos q (List.mem_cons_of_mem _ hq)
      simp only [List.cons_append, List.length_cons, List.drop_succ_cons]
      conv => lhs; unfold phase1
      cases hk : p.kind <;> simp [isPos, hk] at hp
      · -- po
        simp only [posEntries, posEntry, eraseNames, hk]
        rw [ih as kw _ (i + 1) hpos' hnd.2 hlen' hrest]
        simp [ha, List.getD]
      · -- pk
        cases hg : kwGet kw p.name with
        | none =>
          simp only [posEntries, posEntry, eraseNames, hk, hg, if_true]
          rw [ih as kw _ (i + 1) hpos' hnd.2 hlen' hrest, kwErase_absent kw p.name hg]
          simp [ha, List.getD]
        | some v =>
          simp only [posEntries, posEntry, eraseNames, hk, hg, if_true]
          rw [ih as _ _ (i + 1) hpos' hnd.2 hlen' hrest, posEntries_kw_irrelevant _ _ _ _ _ hne]
          simp

theorem posEntries_keys (args : List Val) (kw : KW) (i : Nat) (ps : List Param) :
    (posEntries args kw i ps).map (·.1) = ps.map (·.name) := by
  induction ps generalizing i with
  | nil => rfl
  | cons p ps ih => simp [posEntries, posEntry, ih]

/-- closed form for the `j`-th parameter of the positional prefix -/
theorem posEntries_lookup (args : List Val) (kw : KW) (i : Nat) (ps : List Param)
    (hnd : (ps.map (·.name)).Nodup) (j : Nat) (p : Param) (hj : ps[j]? = some p) :
    lookup (posEntries args kw i ps) p.name = some (posEntry args kw (i + j) p).2 := by
  induction ps generalizing i j with
  | nil => simp at hj
  | cons q qs ih =>
    simp only [List.map_cons, List.nodup_cons] at hnd
    cases j with
    | zero =>
      simp at hj; subst hj
      simp [posEntries, lookup, posEntry]
    | succ j =>
      simp at hj
      have hne : q.name ≠ p.name := by
        intro h; apply hnd.1; rw [h]
        exact List.mem_map_of_mem (List.mem_of_getElem? hj)
      simp only [posEntries, lookup, posEntry, hne, if_false]
      have := ih (i + 1) hnd.2 j hj
      simpa [posEntry, Nat.add_assoc, Nat.add_comm 1 j] using this

/-- entries the second loop adds -/
def kwEntries : List Param → KW → Arguments
  | [], _ => []
  | p :: rest, kw =>
    if named p then
      match kwGet kw p.name with
      | some v => (p.name, .one v) :: kwEntries rest (kwErase kw p.name)
      | none => kwEntries rest kw
    else kwEntries rest kw

/-- what the second loop leaves of the keywords -/
def eraseNamed (kw : KW) : List Param → KW
  | [] => kw
  | p :: ps => eraseNamed (if named p then kwErase kw p.name else kw) ps

/-- `kwargs_param` after the second loop -/
def lastVk : List Param → Option Param → Option Param
  | [], vk => vk
  | p :: ps, vk => lastVk ps (if p.kind = .vk then some p else vk)

theorem phase2_acc (ps : List Param) (kw : KW) (acc : Arguments) (vk : Option Param) :
    (phase2 ps kw acc vk).1 = acc ++ kwEntries ps kw := by
  induction ps generalizing kw acc vk with
  | nil => simp [phase2, kwEntries]
  | cons p rest ih =>
    unfold phase2 kwEntries
    cases hk : p.kind <;> simp only [named, hk] <;> first
      | (simp; exact ih _ _ _)
      | (cases hg : kwGet kw p.name <;> simp [ih])

theorem phase2_kw (ps : List Param) (kw : KW) (acc : Arguments) (vk : Option Param) :
    (phase2 ps kw acc vk).2.1 = eraseNamed kw ps := by
  induction ps generalizing kw acc vk with
  | nil => simp [phase2, eraseNamed]
  | cons p rest ih =>
    unfold phase2 eraseNamed
    cases hk : p.kind <;> simp only [named, hk] <;> first
      | (simp; exact ih _ _ _)
      | (cases hg : kwGet kw p.name with
         | none => simp [ih, kwErase_absent _ _ hg]
         | some v => simp [ih])

theorem phase2_vk (ps : List Param) (kw : KW) (acc : Arguments) (vk : Option Param) :
    (phase2 ps kw acc vk).2.2 = lastVk ps vk := by
  induction ps generalizing kw acc vk with
  | nil => simp [phase2, lastVk]
  | cons p rest ih =>
    unfold phase2 lastVk
    cases hk : p.kind <;> simp only [] <;> first
      | (simp; exact ih _ _ _)
      | (cases hg : kwGet kw p.name <;> simp [ih])

theorem kwEntries_keys_subset (ps : List Param) (kw : KW) :
    ∀ n ∈ (kwEntries ps kw).map (·.1), ∃ p ∈ ps, named p = true ∧ p.name = n := by
  induction ps generalizing kw with
  | nil => intro n h; simp [kwEntries] at h
  | cons p ps ih =>
    intro n h
    unfold kwEntries at h
    split at h
    · rename_i hn
      split at h
      · simp only [List.map_cons, List.mem_cons] at h
        rcases h with h | h
        · exact ⟨p, List.mem_cons_self, hn, h.symm⟩
        · obtain ⟨q, hq, h1, h2⟩ := ih _ n h
          exact ⟨q, List.mem_cons_of_mem _ hq, h1, h2⟩
      · obtain ⟨q, hq, h1, h2⟩ := ih _ n h
        exact ⟨q, List.mem_cons_of_mem _ hq, h1, h2⟩
    · obtain ⟨q, hq, h1, h2⟩ := ih _ n h
      exact ⟨q, List.mem_cons_of_mem _ hq, h1, h2⟩

theorem kwEntries_lookup_none (ps : List Param) (kw : KW) (n : Name) (h : ∀ p ∈ ps, named p = true → p.name ≠ n) :
    lookup (kwEntries ps kw) n = none := by
  apply lookup_none_of_not_mem
  intro hm
  obtain ⟨p, hp, h1, h2⟩ := kwEntries_keys_subset ps kw n hm
  exact h p hp h1 h2

/-- closed form: a parameter handled by the keyword loop receives its same-named keyword, if any -/
theorem kwEntries_lookup (ps : List Param) (kw : KW) (hnd : (ps.map (·.name)).Nodup)
    (p : Param) (hp : p ∈ ps) :
    lookup (kwEntries ps kw) p.name = if named p then (kwGet kw p.name).map .one else none := by
  induction ps generalizing kw with
  | nil => cases hp
  | cons q qs ih =>
    simp only [List.map_cons, List.nodup_cons] at hnd
    have hne : ∀ r ∈ qs, r.name ≠ q.name := fun r hr h => hnd.1 (h ▸ List.mem_map_of_mem hr)
    rcases List.mem_cons.mp hp with rfl | hp'
    · unfold kwEntries
      split
      · rename_i hn
        cases hg : kwGet kw p.name with
        | some v => simp [lookup]
        | none => simp [kwEntries_lookup_none qs kw p.name (fun r hr _ => hne r hr)]
      · simp [kwEntries_lookup_none qs kw p.name (fun r hr _ => hne r hr)]
    · have hpq : p.name ≠ q.name := hne p hp'
      unfold kwEntries
      split
      · cases hg : kwGet kw q.name with
        | some v =>
          simp only [lookup, Ne.symm hpq, if_false]
          rw [ih _ hnd.2 hp', kwGet_erase_ne kw q.name p.name hpq]
        | none => exact ih _ hnd.2 hp'
      · exact ih _ hnd.2 hp'

/-! ## 3. Round trip through `BoundArguments.args/.kwargs` and the call protocol -/

/-- what the parameter `p` finds when `f(*ba.args, **ba.kwargs)` is called and `A = ba.arguments` -/
def recv (A : Arguments) (p : Param) : Option ArgVal :=
  match p.kind with
  | .vp => some (.tuple (match lookup A p.name with | some a => a.vals | none => []))
  | .vk => some (.dict (match lookup A p.name with | some a => a.items p.name | none => []))
  | _ => match lookup A p.name with
    | some (.one v) => some (.one v)
    | _ => dfltOr p

/-- entry shapes: `*args` ↦ tuple, `**kwargs` ↦ dict, named parameters ↦ one value -/
def Typed (A : Arguments) (p : Param) : Prop :=
  ∀ a, lookup A p.name = some a →
    match p.kind with
    | .vp => ∃ vs, a = .tuple vs
    | .vk => ∃ d, a = .dict d
    | _ => ∃ v, a = .one v

/-- Python's kind order -/
def Sorted (ps : List Param) : Prop := ps.Pairwise (fun p q => kindOk p.kind q.kind = true)

/-- no key of the `**kwargs` entry names a positional-or-keyword / keyword-only parameter -/
def DictClean (A : Arguments) (ps : List Param) : Prop :=
  ∀ p ∈ ps, p.kind = .vk → ∀ d, lookup A p.name = some (.dict d) →
    ∀ q ∈ ps, (q.kind = .pk ∨ q.kind = .ko) → kwGet d q.name = none

/-- after a missing positional parameter, no positional-only parameter and no `*args` has an entry -/
def Closed (A : Arguments) (ps : List Param) : Prop :=
  ps.Pairwise (fun p q => isPos p = true → lookup A p.name = none →
    (q.kind = .po ∨ q.kind = .vp) → lookup A q.name = none)

theorem collect_cons_dfltOr (p : Param) (rest : List (Name × Option ArgVal)) :
    collect ((p.name, dfltOr p) :: rest) = absent p (collect rest) := by
  unfold dfltOr absent
  split <;> simp [collect]

theorem baKwargs_get_none (ps : List Param) (A : Arguments) (st : Bool) (n : Name)
    (hty : ∀ p ∈ ps, Typed A p) (hn : ∀ p ∈ ps, p.name ≠ n)
    (hd : ∀ p ∈ ps, p.kind = .vk → ∀ d, lookup A p.name = some (.dict d) → kwGet d n = none) :
    kwGet (baKwargs ps A st) n = none := by
  induction ps generalizing st with
  | nil => rfl
  | cons p ps ih =>
    have ih' := fun st => ih st (fun q hq => hty q (List.mem_cons_of_mem _ hq))
      (fun q hq => hn q (List.mem_cons_of_mem _ hq)) (fun q hq => hd q (List.mem_cons_of_mem _ hq))
    have hp := hn p List.mem_cons_self
    have htp := hty p List.mem_cons_self
    have hdp := hd p List.mem_cons_self
    unfold baKwargs
    split
    · rw [kwGet_append, ih']
      cases hl : lookup A p.name with
      | none => simp [kwGet]
      | some a =>
        have := htp a hl
        cases hk : p.kind <;> simp only [hk] at this <;> obtain ⟨x, rfl⟩ := this <;>
          simp [ArgVal.items, kwGet, hp]
        exact hdp hk x hl
    · split <;> exact ih' _

theorem sorted_tail {p : Param} {ps : List Param} (h : Sorted (p :: ps)) : Sorted ps :=
  (List.pairwise_cons.mp h).2

theorem sorted_head {p : Param} {ps : List Param} (h : Sorted (p :: ps)) :
    ∀ q ∈ ps, kindOk p.kind q.kind = true := (List.pairwise_cons.mp h).1

theorem rt2 (A : Arguments) (ps : List Param) (hnd : (ps.map (·.name)).Nodup) (hs : Sorted ps)
    (hty : ∀ p ∈ ps, Typed A p) (hd : DictClean A ps)
    (habs : ∀ q ∈ ps, (q.kind = .po ∨ q.kind = .vp) → lookup A q.name = none) :
    pyCall ps [] (baKwargs ps A true) = collect (ps.map fun p => (p.name, recv A p)) := by
  induction ps with
  | nil => simp [pyCall, baKwargs, collect]
  | cons p ps ih =>
    simp only [List.map_cons, List.nodup_cons] at hnd
    have hty' : ∀ q ∈ ps, Typed A q := fun q hq => hty q (List.mem_cons_of_mem _ hq)
    have hd' : DictClean A ps := fun q hq hk d hl r hr hrk =>
      hd q (List.mem_cons_of_mem _ hq) hk d hl r (List.mem_cons_of_mem _ hr) hrk
    have habs' : ∀ q ∈ ps, (q.kind = .po ∨ q.kind = .vp) → lookup A q.name = none :=
      fun q hq => habs q (List.mem_cons_of_mem _ hq)
    have ih' := ih hnd.2 (sorted_tail hs) hty' hd' habs'
    have hne : ∀ q ∈ ps, q.name ≠ p.name := fun q hq h => hnd.1 (h ▸ List.mem_map_of_mem hq)
    -- the name of a pk/ko head does not occur among the keywords built from the tail
    have hk1 : (p.kind = .pk ∨ p.kind = .ko) → kwGet (baKwargs ps A true) p.name = none := fun hpk =>
      baKwargs_get_none ps A true p.name hty' hne
        (fun q hq hk d hl => hd q (List.mem_cons_of_mem _ hq) hk d hl p List.mem_cons_self hpk)
    have htp := hty p List.mem_cons_self
    simp only [List.map_cons]
    cases hk : p.kind with
    | po =>
      have hl := habs p List.mem_cons_self (Or.inl hk)
      simp [pyCall, baKwargs, hk, hl, recv, collect_cons_dfltOr, ih']
    | vp =>
      have hl := habs p List.mem_cons_self (Or.inr hk)
      simp [pyCall, baKwargs, hk, hl, recv, collect, ih']
    | pk =>
      have hg := hk1 (Or.inl hk)
      cases hl : lookup A p.name with
      | none => simp [pyCall, baKwargs, hk, hl, recv, collect_cons_dfltOr, ih', byKeyword, hg]
      | some a =>
        have := htp a hl
        simp only [hk] at this
        obtain ⟨v, rfl⟩ := this
        simp [pyCall, baKwargs, hk, hl, recv, collect, ih', byKeyword, ArgVal.items, kwGet, kwErase,
          kwErase_absent _ _ hg]
    | ko =>
      have hg := hk1 (Or.inr hk)
      cases hl : lookup A p.name with
      | none => simp [pyCall, baKwargs, hk, hl, recv, collect_cons_dfltOr, ih', byKeyword, hg]
      | some a =>
        have := htp a hl
        simp only [hk] at this
        obtain ⟨v, rfl⟩ := this
        simp [pyCall, baKwargs, hk, hl, recv, collect, ih', byKeyword, ArgVal.items, kwGet, kwErase,
          kwErase_absent _ _ hg]
    | vk =>
      have hps : ps = [] := by
        cases ps with
        | nil => rfl
        | cons q qs =>
          have := sorted_head hs q List.mem_cons_self
          simp [hk, kindOk] at this
      subst hps
      cases hl : lookup A p.name with
      | none => simp [pyCall, baKwargs, hk, hl, recv, collect, consO]
      | some a => simp [pyCall, baKwargs, hk, hl, recv, collect, consO]

theorem baArgs_tail (ps : List Param) (A : Arguments) (h : ∀ q ∈ ps, q.kind = .ko ∨ q.kind = .vk) :
    baArgs ps A = [] := by
  cases ps with
  | nil => rfl
  | cons q qs => simp [baArgs, h q List.mem_cons_self]

theorem baKwargs_tail (ps : List Param) (A : Arguments) (h : ∀ q ∈ ps, q.kind = .ko ∨ q.kind = .vk) :
    baKwargs ps A false = baKwargs ps A true := by
  cases ps with
  | nil => rfl
  | cons q qs =>
    unfold baKwargs
    simp [h q List.mem_cons_self]

/-- **Round trip.** `f(*ba.args, **ba.kwargs)` hands every parameter its entry of `ba.arguments`
(or its default; `TypeError` iff a parameter without default has no entry). -/
theorem rt1 (A : Arguments) (ps : List Param) (hnd : (ps.map (·.name)).Nodup) (hs : Sorted ps)
    (hty : ∀ p ∈ ps, Typed A p) (hd : DictClean A ps) (hcl : Closed A ps) :
    pyCall ps (baArgs ps A) (baKwargs ps A false) = collect (ps.map fun p => (p.name, recv A p)) := by
  induction ps with
  | nil => simp [pyCall, baArgs, baKwargs, collect]
  | cons p ps ih =>
    have hnd0 := hnd
    simp only [List.map_cons, List.nodup_cons] at hnd
    have hty' : ∀ q ∈ ps, Typed A q := fun q hq => hty q (List.mem_cons_of_mem _ hq)
    have hd' : DictClean A ps := fun q hq hk d hl r hr hrk =>
      hd q (List.mem_cons_of_mem _ hq) hk d hl r (List.mem_cons_of_mem _ hr) hrk
    have hcl' : Closed A ps := (List.pairwise_cons.mp hcl).2
    have hclh := (List.pairwise_cons.mp hcl).1
    have ih' := ih hnd.2 (sorted_tail hs) hty' hd' hcl'
    have hne : ∀ q ∈ ps, q.name ≠ p.name := fun q hq h => hnd.1 (h ▸ List.mem_map_of_mem hq)
    have hk1 : ∀ st, (p.kind = .pk ∨ p.kind = .ko) → kwGet (baKwargs ps A st) p.name = none := fun st hpk =>
      baKwargs_get_none ps A st p.name hty' hne
        (fun q hq hk d hl => hd q (List.mem_cons_of_mem _ hq) hk d hl p List.mem_cons_self hpk)
    have htp := hty p List.mem_cons_self
    have hrt2 : (∀ q ∈ ps, (q.kind = .po ∨ q.kind = .vp) → lookup A q.name = none) →
        pyCall ps [] (baKwargs ps A true) = collect (ps.map fun p => (p.name, recv A p)) :=
      rt2 A ps hnd.2 (sorted_tail hs) hty' hd'
    have hsh := sorted_head hs
    cases hk : p.kind with
    | po =>
      cases hl : lookup A p.name with
      | none =>
        have := hrt2 (fun q hq hq2 => hclh q hq (by simp [isPos, hk]) hl hq2)
        simp [pyCall, baArgs, baKwargs, hk, hl, recv, collect_cons_dfltOr, this]
      | some a =>
        have := htp a hl
        simp only [hk] at this
        obtain ⟨v, rfl⟩ := this
        simp [pyCall, baArgs, baKwargs, hk, hl, recv, collect, ih', ArgVal.vals]
    | pk =>
      cases hl : lookup A p.name with
      | none =>
        have := hrt2 (fun q hq hq2 => hclh q hq (by simp [isPos, hk]) hl hq2)
        simp [pyCall, baArgs, baKwargs, hk, hl, recv, collect_cons_dfltOr, this, byKeyword,
          hk1 true (Or.inl hk)]
      | some a =>
        have := htp a hl
        simp only [hk] at this
        obtain ⟨v, rfl⟩ := this
        simp [pyCall, baArgs, baKwargs, hk, hl, recv, collect, ih', ArgVal.vals, hk1 false (Or.inl hk)]
    | vp =>
      have htl : ∀ q ∈ ps, q.kind = .ko ∨ q.kind = .vk := by
        intro q hq
        have := hsh q hq
        cases hq' : q.kind <;> simp [hk, hq', kindOk] at this ⊢
      have := hrt2 (fun q hq hq2 => by rcases htl q hq with h | h <;> simp [h] at hq2)
      cases hl : lookup A p.name with
      | none => simp [pyCall, baArgs, baKwargs, hk, hl, recv, collect, this]
      | some a =>
        simp [pyCall, baArgs, baKwargs, hk, hl, recv, collect, this, baArgs_tail ps A htl,
          baKwargs_tail ps A htl]
    | ko =>
      have htl : ∀ q ∈ p :: ps, q.kind = .ko ∨ q.kind = .vk := by
        intro q hq
        rcases List.mem_cons.mp hq with rfl | hq
        · exact Or.inl hk
        · have := hsh q hq
          cases hq' : q.kind <;> simp [hk, hq', kindOk] at this ⊢
      rw [baArgs_tail _ A htl, baKwargs_tail _ A htl]
      exact rt2 A (p :: ps) hnd0 hs hty hd (fun q hq hq2 => by rcases htl q hq with h | h <;> simp [h] at hq2)
    | vk =>
      have htl : ∀ q ∈ p :: ps, q.kind = .ko ∨ q.kind = .vk := by
        intro q hq
        rcases List.mem_cons.mp hq with rfl | hq
        · exact Or.inr hk
        · have := hsh q hq
          cases hq' : q.kind <;> simp [hk, hq', kindOk] at this ⊢
      rw [baArgs_tail _ A htl, baKwargs_tail _ A htl]
      exact rt2 A (p :: ps) hnd0 hs hty hd (fun q hq hq2 => by rcases htl q hq with h | h <;> simp [h] at hq2)

/-! ## 4. Where the first loop stops; closed form of `bind_expected`'s `arguments` -/

/-- `sig = pre ++ rest`: `pre` are the positional parameters reached by a positional argument; the
first loop stops at `rest` (no parameter left, no argument left, or a non-positional parameter). -/
structure Split (sig : List Param) (n : Nat) (pre rest : List Param) : Prop where
  eq : sig = pre ++ rest
  pos : ∀ p ∈ pre, isPos p = true
  len : pre.length ≤ n
  stop : rest = [] ∨ pre.length = n ∨ ∃ p ps, rest = p :: ps ∧ isPos p = false

theorem exists_split (sig : List Param) (n : Nat) : ∃ pre rest, Split sig n pre rest := by
  induction sig generalizing n with
  | nil => exact ⟨[], [], rfl, by simp, by simp, Or.inl rfl⟩
  | cons p ps ih =>
    cases n with
    | zero => exact ⟨[], p :: ps, rfl, by simp, by simp, Or.inr (Or.inl rfl)⟩
    | succ n =>
      by_cases hp : isPos p = true
      · obtain ⟨pre, rest, h⟩ := ih n
        refine ⟨p :: pre, rest, by simp [h.eq], ?_, by simpa using h.len, ?_⟩
        · intro q hq
          rcases List.mem_cons.mp hq with rfl | hq
          · exact hp
          · exact h.pos q hq
        · rcases h.stop with h1 | h1 | h1
          · exact Or.inl h1
          · exact Or.inr (Or.inl (by simp [h1]))
          · exact Or.inr (Or.inr h1)
      · exact ⟨[], p :: ps, rfl, by simp, by simp, Or.inr (Or.inr ⟨p, ps, rfl, by simpa using hp⟩)⟩

/-- the `*args` entry written by the first loop -/
def vpE : List Param → List Val → Arguments
  | p :: _, a :: as => if p.kind = .vp then [(p.name, .tuple (a :: as))] else []
  | _, _ => []

/-- the first loop raises: no argument left, next parameter positional-only and named by a keyword -/
def blocked : List Param → List Val → KW → Bool
  | p :: _, [], kw => p.kind == .po && (kwGet kw p.name).isSome
  | _, _, _ => false

theorem finalize_vk (p : Param) (ps : List Param) (kw : KW) (acc : Arguments) (vk : Option Param)
    (hk : p.kind = .vk) : finalize (p :: ps) kw acc vk = finalize ps kw acc (some p) := by
  simp [finalize, phase2, hk]

theorem finalize_vp (p : Param) (ps : List Param) (kw : KW) (acc : Arguments) (vk : Option Param)
    (hk : p.kind = .vp) : finalize (p :: ps) kw acc vk = finalize ps kw acc vk := by
  simp [finalize, phase2, hk]

theorem phase1_stop (rest : List Param) (as : List Val) (kw : KW) (acc : Arguments)
    (h : rest = [] ∨ as = [] ∨ ∃ p ps, rest = p :: ps ∧ isPos p = false) :
    (blocked rest as kw = true → phase1 true rest as kw acc = none) ∧
    (blocked rest as kw = false → ∃ r, phase1 true rest as kw acc = some r ∧
      finalize r.rest r.kw r.args r.vk = finalize rest kw (acc ++ vpE rest as) none) := by
  cases rest with
  | nil => simp [blocked, phase1, vpE]
  | cons p ps =>
    cases as with
    | nil =>
      cases hk : p.kind <;> simp [blocked, phase1, vpE, hk, finalize_vp]
      exact ⟨fun h hn => by simp [hn] at h, fun hn => ⟨_, ⟨hn, rfl⟩, rfl⟩⟩
    | cons a as =>
      have hp : isPos p = false := by
        rcases h with h | h | ⟨q, qs, h1, h2⟩
        · cases h
        · cases h
        · cases h1; exact h2
      cases hk : p.kind <;> simp [isPos, hk] at hp <;>
        simp [blocked, phase1, vpE, hk, finalize_vp, finalize_vk]

/-- the `**kwargs` entry written at the end -/
def vkEnt : Option Param → KW → Arguments
  | some p, d => if d.isEmpty then [] else [(p.name, .dict d)]
  | none, _ => []

theorem finalize_closed (ps : List Param) (kw : KW) (acc : Arguments) :
    finalize ps kw acc none = acc ++ kwEntries ps kw ++ vkEnt (lastVk ps none) (eraseNamed kw ps) := by
  simp only [finalize, phase2_acc, phase2_kw, phase2_vk]
  cases lastVk ps none with
  | none => simp [vkEnt]
  | some p => simp only [vkEnt]; split <;> simp

/-- closed form of `bind_expected(*args, **kw).arguments` -/
def boundArgs (pre rest : List Param) (args : List Val) (kw : KW) : Arguments :=
  posEntries args kw 0 pre ++ vpE rest (args.drop pre.length) ++ kwEntries rest (eraseNames kw pre) ++
    vkEnt (lastVk rest none) (eraseNamed (eraseNames kw pre) rest)

theorem bind_closed (sig : List Param) (args : List Val) (kw : KW) (pre rest : List Param)
    (hsp : Split sig args.length pre rest) (hnd : (sig.map (·.name)).Nodup) :
    bindExpected true sig args kw =
      if blocked rest (args.drop pre.length) (eraseNames kw pre) then none
      else some (boundArgs pre rest args kw) := by
  have hndp : (pre.map (·.name)).Nodup := by
    rw [hsp.eq, List.map_append] at hnd
    exact (List.nodup_append.mp hnd).1
  have h1 := phase1_prefix true pre rest args kw [] 0 args hsp.pos hndp hsp.len (by simp)
  have hstop : rest = [] ∨ args.drop pre.length = [] ∨ ∃ p ps, rest = p :: ps ∧ isPos p = false := by
    rcases hsp.stop with h | h | h
    · exact Or.inl h
    · exact Or.inr (Or.inl (by simp [h]))
    · exact Or.inr (Or.inr h)
  have h2 := phase1_stop rest (args.drop pre.length) (eraseNames kw pre) ([] ++ posEntries args kw 0 pre) hstop
  simp only [List.nil_append] at h1 h2
  unfold bindExpected
  rw [hsp.eq, h1]
  cases hb : blocked rest (args.drop pre.length) (eraseNames kw pre) with
  | true => simp [h2.1 hb]
  | false =>
    obtain ⟨r, hr1, hr2⟩ := h2.2 hb
    simp [hr1, hr2, finalize_closed, boundArgs]

/-! ## 5. Every entry of `arguments`, in closed form -/

theorem kwGet_eraseNames_ne (kw : KW) (pre : List Param) (n : Name) (h : ∀ p ∈ pre, p.name ≠ n) :
    kwGet (eraseNames kw pre) n = kwGet kw n := by
  induction pre generalizing kw with
  | nil => rfl
  | cons p ps ih =>
    simp only [eraseNames]
    rw [ih _ (fun q hq => h q (List.mem_cons_of_mem _ hq))]
    split
    · exact kwGet_erase_ne kw p.name n (Ne.symm (h p List.mem_cons_self))
    · rfl

theorem vpE_lookup_none (rest : List Param) (as : List Val) (n : Name)
    (h : ∀ q ∈ rest, q.kind = .vp → q.name ≠ n) : lookup (vpE rest as) n = none := by
  cases rest with
  | nil => rfl
  | cons p ps =>
    cases as with
    | nil => rfl
    | cons a as =>
      simp only [vpE]
      split
      · rename_i hk; simp [lookup, h p List.mem_cons_self hk]
      · rfl

theorem vkEnt_lookup_none (o : Option Param) (d : KW) (n : Name) (h : ∀ q, o = some q → q.name ≠ n) :
    lookup (vkEnt o d) n = none := by
  cases o with
  | none => rfl
  | some q => simp only [vkEnt]; split <;> simp [lookup, h q rfl]

theorem lastVk_mem (ps : List Param) (v : Option Param) (p : Param) (h : lastVk ps v = some p) :
    v = some p ∨ (p ∈ ps ∧ p.kind = .vk) := by
  induction ps generalizing v with
  | nil => exact Or.inl h
  | cons q qs ih =>
    simp only [lastVk] at h
    rcases ih _ h with h1 | ⟨h1, h2⟩
    · split at h1
      · rename_i hk; cases h1; exact Or.inr ⟨List.mem_cons_self, hk⟩
      · exact Or.inl h1
    · exact Or.inr ⟨List.mem_cons_of_mem _ h1, h2⟩

theorem lastVk_sorted (ps : List Param) (v : Option Param) (p : Param) (hs : Sorted ps) (hp : p ∈ ps)
    (hk : p.kind = .vk) : lastVk ps v = some p := by
  induction ps generalizing v with
  | nil => cases hp
  | cons q qs ih =>
    rcases List.mem_cons.mp hp with rfl | hp'
    · have : qs = [] := by
        cases qs with
        | nil => rfl
        | cons r rs =>
          have := sorted_head hs r List.mem_cons_self
          simp [hk, kindOk] at this
      subst this
      simp [lastVk, hk]
    · simp only [lastVk]
      exact ih _ (sorted_tail hs) hp'

theorem eq_of_name_eq (ps : List Param) (hnd : (ps.map (·.name)).Nodup) (p q : Param) (hp : p ∈ ps)
    (hq : q ∈ ps) (h : p.name = q.name) : p = q := by
  induction ps with
  | nil => cases hp
  | cons r rs ih =>
    simp only [List.map_cons, List.nodup_cons] at hnd
    rcases List.mem_cons.mp hp with rfl | hp' <;> rcases List.mem_cons.mp hq with rfl | hq'
    · rfl
    · exact absurd (h ▸ List.mem_map_of_mem hq') hnd.1
    · exact absurd (h ▸ List.mem_map_of_mem hp') hnd.1
    · exact ih hnd.2 hp' hq'

/-- a non-positional head: nothing positional follows (kind order) -/
theorem no_pos_after (p : Param) (ps : List Param) (hs : Sorted (p :: ps)) (hp : isPos p = false) :
    ∀ q ∈ p :: ps, isPos q = false := by
  intro q hq
  rcases List.mem_cons.mp hq with rfl | hq
  · exact hp
  · have := sorted_head hs q hq
    cases hk : p.kind <;> cases hq' : q.kind <;> simp_all [isPos, kindOk]

section entries
variable {sig : List Param} {args : List Val} {kw : KW} {pre rest : List Param}

theorem split_nodup (hsp : Split sig args.length pre rest) (hnd : (sig.map (·.name)).Nodup) :
    (pre.map (·.name)).Nodup ∧ (rest.map (·.name)).Nodup ∧ ∀ q ∈ pre, ∀ p ∈ rest, q.name ≠ p.name := by
  rw [hsp.eq, List.map_append] at hnd
  obtain ⟨h1, h2, h3⟩ := List.nodup_append.mp hnd
  exact ⟨h1, h2, fun q hq p hp => h3 _ (List.mem_map_of_mem hq) _ (List.mem_map_of_mem hp)⟩

theorem split_sorted (hsp : Split sig args.length pre rest) (hs : Sorted sig) : Sorted rest := by
  rw [hsp.eq] at hs
  exact (List.pairwise_append.mp hs).2.1

/-- a positional parameter not reached: the positional arguments are used up -/
theorem rest_pos_exhausted (hsp : Split sig args.length pre rest) (hs : Sorted sig) (p : Param)
    (hp : p ∈ rest) (hpos : isPos p = true) : args.length = pre.length := by
  rcases hsp.stop with h | h | ⟨q, qs, h1, h2⟩
  · subst h; cases hp
  · exact h.symm
  · have := no_pos_after q qs (h1 ▸ split_sorted hsp hs) h2 p (h1 ▸ hp)
    simp [hpos] at this

theorem entry_pre (hsp : Split sig args.length pre rest) (hnd : (sig.map (·.name)).Nodup)
    (j : Nat) (p : Param) (hj : pre[j]? = some p) :
    lookup (boundArgs pre rest args kw) p.name = some (posEntry args kw j p).2 := by
  obtain ⟨h1, _, _⟩ := split_nodup hsp hnd
  have := posEntries_lookup args kw 0 pre h1 j p hj
  simp only [boundArgs, List.append_assoc, lookup_append, this, Nat.zero_add]
  rfl

theorem entry_named (hsp : Split sig args.length pre rest) (hnd : (sig.map (·.name)).Nodup)
    (p : Param) (hp : p ∈ rest) (hn : named p = true) :
    lookup (boundArgs pre rest args kw) p.name = (kwGet kw p.name).map .one := by
  obtain ⟨_, h2, h3⟩ := split_nodup hsp hnd
  have e1 : lookup (posEntries args kw 0 pre) p.name = none := by
    apply lookup_none_of_not_mem
    rw [posEntries_keys]
    intro hm
    obtain ⟨q, hq, hqn⟩ := List.mem_map.mp hm
    exact h3 q hq p hp hqn
  have e2 : lookup (vpE rest (args.drop pre.length)) p.name = none := by
    apply vpE_lookup_none
    intro q hq hk hqn
    have := eq_of_name_eq rest h2 q p hq hp hqn
    subst this
    simp [named, hk] at hn
  have e3 := kwEntries_lookup rest (eraseNames kw pre) h2 p hp
  rw [if_pos hn, kwGet_eraseNames_ne kw pre p.name (fun q hq => h3 q hq p hp)] at e3
  have e4 : lookup (vkEnt (lastVk rest none) (eraseNamed (eraseNames kw pre) rest)) p.name = none := by
    apply vkEnt_lookup_none
    intro q hq hqn
    rcases lastVk_mem rest none q hq with h | ⟨hm, hk⟩
    · cases h
    · have := eq_of_name_eq rest h2 q p hm hp hqn
      subst this
      simp [named, hk] at hn
  simp only [boundArgs, lookup_append, e1, e2, e3, e4]
  cases kwGet kw p.name <;> rfl

theorem entry_vp (hsp : Split sig args.length pre rest) (hnd : (sig.map (·.name)).Nodup)
    (p : Param) (hp : p ∈ rest) (hk : p.kind = .vp) :
    lookup (boundArgs pre rest args kw) p.name = lookup (vpE rest (args.drop pre.length)) p.name := by
  obtain ⟨_, h2, h3⟩ := split_nodup hsp hnd
  have e1 : lookup (posEntries args kw 0 pre) p.name = none := by
    apply lookup_none_of_not_mem
    rw [posEntries_keys]
    intro hm
    obtain ⟨q, hq, hqn⟩ := List.mem_map.mp hm
    exact h3 q hq p hp hqn
  have e3 : lookup (kwEntries rest (eraseNames kw pre)) p.name = none := by
    apply kwEntries_lookup_none
    intro q hq hqn hqe
    have := eq_of_name_eq rest h2 q p hq hp hqe
    subst this
    simp [named, hk] at hqn
  have e4 : lookup (vkEnt (lastVk rest none) (eraseNamed (eraseNames kw pre) rest)) p.name = none := by
    apply vkEnt_lookup_none
    intro q hq hqn
    rcases lastVk_mem rest none q hq with h | ⟨hm, hk'⟩
    · cases h
    · have := eq_of_name_eq rest h2 q p hm hp hqn
      subst this
      simp [hk] at hk'
  simp only [boundArgs, lookup_append, e1, e3, e4]
  cases lookup (vpE rest (args.drop pre.length)) p.name <;> rfl

theorem entry_vk (hsp : Split sig args.length pre rest) (hnd : (sig.map (·.name)).Nodup) (hs : Sorted sig)
    (p : Param) (hp : p ∈ rest) (hk : p.kind = .vk) :
    lookup (boundArgs pre rest args kw) p.name =
      if (eraseNamed (eraseNames kw pre) rest).isEmpty then none
      else some (.dict (eraseNamed (eraseNames kw pre) rest)) := by
  obtain ⟨_, h2, h3⟩ := split_nodup hsp hnd
  have e1 : lookup (posEntries args kw 0 pre) p.name = none := by
    apply lookup_none_of_not_mem
    rw [posEntries_keys]
    intro hm
    obtain ⟨q, hq, hqn⟩ := List.mem_map.mp hm
    exact h3 q hq p hp hqn
  have e2 : lookup (vpE rest (args.drop pre.length)) p.name = none := by
    apply vpE_lookup_none
    intro q hq hk' hqn
    have := eq_of_name_eq rest h2 q p hq hp hqn
    subst this
    simp [hk] at hk'
  have e3 : lookup (kwEntries rest (eraseNames kw pre)) p.name = none := by
    apply kwEntries_lookup_none
    intro q hq hqn hqe
    have := eq_of_name_eq rest h2 q p hq hp hqe
    subst this
    simp [named, hk] at hqn
  have e4 := lastVk_sorted rest none p (split_sorted hsp hs) hp hk
  simp only [boundArgs, lookup_append, e1, e2, e3, e4, vkEnt]
  split <;> simp [lookup]

end entries

/-! ## 6. The `**kwargs` entry as a filter of the caller's keywords -/

theorem eraseNames_eq_filter (kw : KW) (pre : List Param) :
    eraseNames kw pre = kw.filter (fun e => !(pre.any fun p => p.kind == .pk && p.name == e.1)) := by
  induction pre generalizing kw with
  | nil => exact (List.filter_eq_self.mpr (fun _ _ => rfl)).symm
  | cons p ps ih =>
    simp only [eraseNames, ih]
    split
    · rename_i hk
      rw [kwErase_eq_filter, List.filter_filter]
      apply List.filter_congr
      intro e _
      by_cases h : p.name = e.1
      · simp [hk, h]
      · have h1 : (p.name == e.1) = false := by simp [h]
        have h2 : (e.1 != p.name) = true := by simp [Ne.symm h]
        simp [hk, h1, h2]
    · rename_i hk
      apply List.filter_congr
      intro e _
      simp [hk]

theorem eraseNamed_eq_filter (kw : KW) (ps : List Param) :
    eraseNamed kw ps = kw.filter (fun e => !(ps.any fun p => named p && p.name == e.1)) := by
  induction ps generalizing kw with
  | nil => exact (List.filter_eq_self.mpr (fun _ _ => rfl)).symm
  | cons p ps ih =>
    simp only [eraseNamed, ih]
    split
    · rename_i hk
      rw [kwErase_eq_filter, List.filter_filter]
      apply List.filter_congr
      intro e _
      by_cases h : p.name = e.1
      · simp [hk, h]
      · have h1 : (p.name == e.1) = false := by simp [h]
        have h2 : (e.1 != p.name) = true := by simp [Ne.symm h]
        simp [hk, h1, h2]
    · rename_i hk
      apply List.filter_congr
      intro e _
      simp [hk]

theorem kwGet_filter_none (kw : KW) (P : Name × Val → Bool) (n : Name) (h : ∀ v, P (n, v) = false) :
    kwGet (kw.filter P) n = none := by
  induction kw with
  | nil => rfl
  | cons e rest ih =>
    obtain ⟨k, v⟩ := e
    simp only [List.filter_cons]
    split
    · rename_i hP
      simp only [kwGet]
      split
      · rename_i hk; subst hk; simp [h v] at hP
      · exact ih
    · exact ih

/-- **Leftovers.** What `**kwargs` is given: the caller's keywords that no positional-or-keyword or
keyword-only parameter bears, in the caller's order — provided no *unreached* positional-only parameter
is named by a keyword. -/
theorem dict_closed (kw : KW) (pre rest : List Param) (hpos : ∀ p ∈ pre, isPos p = true)
    (hnc : ∀ q ∈ rest, q.kind = .po → kwGet kw q.name = none) :
    eraseNamed (eraseNames kw pre) rest = kw.filter (fun e => !consumed (pre ++ rest) e.1) := by
  rw [eraseNamed_eq_filter, eraseNames_eq_filter, List.filter_filter]
  apply List.filter_congr
  intro e he
  have hsome := kwGet_isSome_of_mem kw e.1 e.2 he
  rw [Bool.eq_iff_iff]
  simp only [consumed, List.any_append, Bool.and_eq_true, Bool.not_eq_true', List.any_eq_false, Bool.or_eq_false_iff,
    beq_iff_eq, Bool.or_eq_true, not_or, not_and]
  constructor
  · rintro ⟨h1, h2⟩
    refine ⟨fun x hx hn => ?_, fun x hx hn => ?_⟩
    · have := hpos x hx
      have := h2 x hx
      cases hk : x.kind <;> simp_all [isPos]
    · have := h1 x hx
      cases hk : x.kind <;> simp_all [named]
  · rintro ⟨h1, h2⟩
    refine ⟨fun x hx hn hne => ?_, fun x hx hk hne => (h1 x hx hne).1 hk⟩
    have := h2 x hx hne
    have := hnc x hx
    cases hk : x.kind <;> simp_all [named]

/-! ## 7. Assembling -/

theorem cornerFrom_false (args : List Val) (kw : KW) (i : Nat) (ps : List Param)
    (h : cornerFrom args kw i ps = false) :
    ∀ j q, ps[j]? = some q → q.kind = .po → args.length ≤ i + j → kwGet kw q.name = none := by
  induction ps generalizing i with
  | nil => intro j q hj; simp at hj
  | cons p ps ih =>
    simp only [cornerFrom, Bool.or_eq_false_iff] at h
    intro j q hj hk hlen
    cases j with
    | zero =>
      simp at hj; subst hj
      have := h.1
      simp [hk] at this
      cases hg : kwGet kw p.name with
      | none => rfl
      | some v => simp [hg] at this; omega
    | succ j =>
      simp at hj
      exact ih (i + 1) h.2 j q hj hk (by omega)

theorem specFrom_eq_map (sig : List Param) (args : List Val) (kw : KW) (i : Nat) (ps : List Param)
    (f : Param → Option ArgVal) (h : ∀ j p, ps[j]? = some p → specParam sig args kw (i + j) p = f p) :
    specFrom sig args kw i ps = ps.map (fun p => (p.name, f p)) := by
  induction ps generalizing i with
  | nil => rfl
  | cons p ps ih =>
    simp only [specFrom, List.map_cons]
    rw [← h 0 p (by simp), ih (i + 1) (fun j q hj => by rw [← h (j + 1) q (by simpa using hj)]; congr 1; omega)]
    rfl

section assemble
variable {sig : List Param} {args : List Val} {kw : KW} {pre rest : List Param}

/-- no unreached positional-only parameter is named by a keyword -/
theorem rest_po_unnamed (hsp : Split sig args.length pre rest) (hs : Sorted sig)
    (hc : corner sig args kw = false) : ∀ q ∈ rest, q.kind = .po → kwGet kw q.name = none := by
  intro q hq hk
  obtain ⟨j, hj⟩ := List.getElem?_of_mem hq
  have hlen := rest_pos_exhausted hsp hs q hq (by simp [isPos, hk])
  apply cornerFrom_false args kw 0 sig hc (pre.length + j) q _ hk (by omega)
  rw [hsp.eq, List.getElem?_append_right (by omega)]
  simpa using hj

theorem recv_pre (hsp : Split sig args.length pre rest) (hnd : (sig.map (·.name)).Nodup)
    (j : Nat) (p : Param) (hj : pre[j]? = some p) :
    recv (boundArgs pre rest args kw) p = specParam sig args kw j p := by
  have hl := entry_pre (kw := kw) hsp hnd j p hj
  have hp := hsp.pos p (List.mem_of_getElem? hj)
  have hjl : j < args.length := by
    have := (List.getElem?_eq_some_iff.mp hj).1
    have := hsp.len
    omega
  obtain ⟨a, ha⟩ : ∃ a, args[j]? = some a := ⟨args[j], by simp [hjl]⟩
  have hgd : args.getD j 0 = a := by simp [List.getD, ha]
  cases hk : p.kind <;> simp [isPos, hk] at hp
  · simp [recv, specParam, hk, hl, posEntry, ha]
  · cases hg : kwGet kw p.name <;> simp [recv, specParam, hk, hl, posEntry, ha, hg]

theorem recv_rest (hsp : Split sig args.length pre rest) (hnd : (sig.map (·.name)).Nodup)
    (hs : Sorted sig) (hc : corner sig args kw = false) (j : Nat) (p : Param) (hj : rest[j]? = some p) :
    recv (boundArgs pre rest args kw) p = specParam sig args kw (pre.length + j) p := by
  have hp : p ∈ rest := List.mem_of_getElem? hj
  have hnone : isPos p = true → args[pre.length + j]? = none := fun hpos => by
    have := rest_pos_exhausted hsp hs p hp hpos
    simp; omega
  cases hk : p.kind with
  | po =>
    have hl := entry_named (kw := kw) hsp hnd p hp (by simp [named, hk])
    have hg := rest_po_unnamed hsp hs hc p hp hk
    simp [recv, specParam, hk, hl, hg, hnone (by simp [isPos, hk])]
  | pk =>
    have hl := entry_named (kw := kw) hsp hnd p hp (by simp [named, hk])
    cases hg : kwGet kw p.name <;> simp [recv, specParam, hk, hl, hg, hnone (by simp [isPos, hk])]
  | ko =>
    have hl := entry_named (kw := kw) hsp hnd p hp (by simp [named, hk])
    cases hg : kwGet kw p.name <;> simp [recv, specParam, hk, hl, hg]
  | vp =>
    have hl := entry_vp (kw := kw) hsp hnd p hp hk
    obtain ⟨p', ps', hr⟩ : ∃ p' ps', rest = p' :: ps' := by
      cases hr : rest with
      | nil => simp [hr] at hp
      | cons a b => exact ⟨a, b, rfl⟩
    cases j with
    | zero =>
      have hpp : p' = p := by simpa [hr] using hj
      subst hpp
      cases has : args.drop pre.length with
      | nil =>
        simp only [recv, specParam, hk, hl]
        simp [hr, vpE, lookup, has]
      | cons a as' =>
        simp only [recv, specParam, hk, hl]
        simp [hr, vpE, lookup, has, hk, ArgVal.vals]
    | succ j =>
      have hp'' : p ∈ ps' := by
        have : ps'[j]? = some p := by simpa [hr] using hj
        exact List.mem_of_getElem? this
      have hpos' : isPos p' = true := by
        have := sorted_head (hr ▸ split_sorted hsp hs) p hp''
        cases hk' : p'.kind <;> simp [hk, hk', kindOk, isPos] at this ⊢
      have hlen := rest_pos_exhausted hsp hs p' (hr ▸ List.mem_cons_self) hpos'
      have has : args.drop pre.length = [] := by simp [hlen]
      have has2 : args.drop (pre.length + (j + 1)) = [] := by simp; omega
      simp only [recv, specParam, hk, hl]
      simp [hr, vpE, lookup, has, has2]
  | vk =>
    have hl := entry_vk (kw := kw) hsp hnd hs p hp hk
    have hd := dict_closed kw pre rest hsp.pos (rest_po_unnamed hsp hs hc)
    rw [hd, ← hsp.eq] at hl
    generalize hF : List.filter (fun e => !consumed sig e.fst) kw = F at hl
    simp only [recv, specParam, hk, hl, hF]
    by_cases he : F.isEmpty = true
    · simp [List.isEmpty_iff.mp he]
    · simp [he, ArgVal.items]

theorem vpE_shape (rest : List Param) (as : List Val) (n : Name) (a : ArgVal)
    (h : lookup (vpE rest as) n = some a) : ∃ vs, a = .tuple vs := by
  cases rest with
  | nil => simp [vpE, lookup] at h
  | cons p ps =>
    cases as with
    | nil => simp [vpE, lookup] at h
    | cons x xs =>
      simp only [vpE] at h
      split at h
      · simp only [lookup] at h
        split at h
        · cases h; exact ⟨_, rfl⟩
        · cases h
      · simp [lookup] at h

theorem bound_typed (hsp : Split sig args.length pre rest) (hnd : (sig.map (·.name)).Nodup) (hs : Sorted sig) :
    ∀ p ∈ sig, Typed (boundArgs pre rest args kw) p := by
  intro p hp a ha
  rw [hsp.eq] at hp
  rcases List.mem_append.mp hp with hp | hp
  · obtain ⟨j, hj⟩ := List.getElem?_of_mem hp
    rw [entry_pre hsp hnd j p hj] at ha
    have hpos := hsp.pos p hp
    cases ha
    cases hk : p.kind <;> simp [isPos, hk] at hpos <;> exact ⟨_, rfl⟩
  · cases hk : p.kind with
    | po =>
      rw [entry_named hsp hnd p hp (by simp [named, hk])] at ha
      cases hg : kwGet kw p.name <;> simp [hg] at ha
      exact ⟨_, ha.symm⟩
    | pk =>
      rw [entry_named hsp hnd p hp (by simp [named, hk])] at ha
      cases hg : kwGet kw p.name <;> simp [hg] at ha
      exact ⟨_, ha.symm⟩
    | ko =>
      rw [entry_named hsp hnd p hp (by simp [named, hk])] at ha
      cases hg : kwGet kw p.name <;> simp [hg] at ha
      exact ⟨_, ha.symm⟩
    | vp =>
      rw [entry_vp hsp hnd p hp hk] at ha
      exact vpE_shape _ _ _ _ ha
    | vk =>
      rw [entry_vk hsp hnd hs p hp hk] at ha
      split at ha
      · cases ha
      · cases ha; exact ⟨_, rfl⟩

theorem bound_clean (hsp : Split sig args.length pre rest) (hnd : (sig.map (·.name)).Nodup) (hs : Sorted sig)
    (hc : corner sig args kw = false) : DictClean (boundArgs pre rest args kw) sig := by
  intro p hp hk d hl q hq hqk
  rw [hsp.eq] at hp
  rcases List.mem_append.mp hp with hp | hp
  · have := hsp.pos p hp
    simp [isPos, hk] at this
  · rw [entry_vk hsp hnd hs p hp hk, dict_closed kw pre rest hsp.pos (rest_po_unnamed hsp hs hc), ← hsp.eq] at hl
    split at hl
    · cases hl
    · cases hl
      apply kwGet_filter_none
      intro v
      have : consumed sig q.name = true := by
        simp only [consumed, List.any_eq_true]
        exact ⟨q, hq, by rcases hqk with h | h <;> simp [h]⟩
      simp [this]

theorem bound_closed (hsp : Split sig args.length pre rest) (hnd : (sig.map (·.name)).Nodup) (hs : Sorted sig)
    (hc : corner sig args kw = false) : Closed (boundArgs pre rest args kw) sig := by
  have hpre : ∀ a ∈ pre, lookup (boundArgs pre rest args kw) a.name ≠ none := by
    intro a ha
    obtain ⟨j, hj⟩ := List.getElem?_of_mem ha
    rw [entry_pre hsp hnd j a hj]
    simp
  unfold Closed
  rw [hsp.eq, List.pairwise_append]
  refine ⟨List.pairwise_of_forall_mem_list (fun a ha b _ _ h => absurd h (hpre a ha)), ?_,
    fun a ha b _ _ h => absurd h (hpre a ha)⟩
  apply List.pairwise_of_forall_mem_list
  intro a ha b hb hpos _ hbk
  have hlen := rest_pos_exhausted hsp hs a ha hpos
  rcases hbk with hbk | hbk
  · rw [entry_named hsp hnd b hb (by simp [named, hbk]), rest_po_unnamed hsp hs hc b hb hbk]
    rfl
  · rw [entry_vp hsp hnd b hb hbk]
    have : args.drop pre.length = [] := by simp [hlen]
    rw [this]
    cases rest <;> rfl

/-- **The binder delivers the Spec** (away from the positional-only-by-keyword corner). -/
theorem invoke_eq_spec (sig : List Param) (args : List Val) (kw : KW) (hnd : (sig.map (·.name)).Nodup)
    (hs : Sorted sig) (hc : corner sig args kw = false) :
    invoke true sig args kw = specCall sig args kw := by
  obtain ⟨pre, rest, hsp⟩ := exists_split sig args.length
  have hb : blocked rest (args.drop pre.length) (eraseNames kw pre) = false := by
    cases hr : rest with
    | nil => simp [blocked]
    | cons p ps =>
      cases has : args.drop pre.length with
      | cons a as => simp [blocked]
      | nil =>
        have hp : p ∈ rest := hr ▸ List.mem_cons_self
        by_cases hk : p.kind = .po
        · have := rest_po_unnamed hsp hs hc p hp hk
          obtain ⟨_, _, h3⟩ := split_nodup hsp hnd
          simp [blocked, hk, kwGet_eraseNames_ne kw pre p.name (fun q hq => h3 q hq p hp), this]
        · simp [blocked, hk]
  unfold invoke invokeWith
  rw [bind_closed sig args kw pre rest hsp hnd, hb]
  simp only [Bool.false_eq_true, if_false]
  rw [rt1 _ sig hnd hs (bound_typed hsp hnd hs) (bound_clean hsp hnd hs hc) (bound_closed hsp hnd hs hc)]
  unfold specCall specFrame
  congr 1
  symm
  apply specFrom_eq_map
  intro j p hj
  rw [Nat.zero_add]
  by_cases hjl : j < pre.length
  · have : pre[j]? = some p := by
      rw [hsp.eq, List.getElem?_append_left hjl] at hj; exact hj
    exact (recv_pre hsp hnd j p this).symm
  · have : rest[j - pre.length]? = some p := by
      rw [hsp.eq, List.getElem?_append_right (by omega)] at hj; exact hj
    have h := recv_rest hsp hnd hs hc (j - pre.length) p this
    rw [show pre.length + (j - pre.length) = j by omega] at h
    exact h.symm

end assemble
end SMV.Bind
