import SMV.Model.Store
/-!
# Lemmas about the model-field store (C10)

`states_map` lookup, the cell accessors, and the invariants `Coherent` (the machine and the user
look at the same object) and `Mapped` (the cell holds a declared value).
-/
namespace SMV.Store

instance exceptDecEq {α : Type} [DecidableEq α] : DecidableEq (Except Exc α) := fun a b =>
  match a, b with
  | .ok x, .ok y => if h : x = y then isTrue (by rw [h]) else isFalse (by intro h'; cases h'; exact h rfl)
  | .error x, .error y => if h : x = y then isTrue (by rw [h]) else isFalse (by intro h'; cases h'; exact h rfl)
  | .ok _, .error _ => isFalse (by intro h; cases h)
  | .error _, .ok _ => isFalse (by intro h; cases h)

/-! ## `states_map` -/

theorem lookupFrom_sound (vs : List Val) (i : Nat) (v : Val) (j : Nat)
    (h : lookupFrom vs i v = some j) : ∃ k, j = i + k ∧ vs[k]? = some v := by
  induction vs generalizing i with
  | nil => simp [lookupFrom] at h
  | cons x xs ih =>
    unfold lookupFrom at h
    cases h' : lookupFrom xs (i + 1) v with
    | some j' =>
      simp only [h'] at h
      have hj : j' = j := by simpa using h
      subst hj
      obtain ⟨k, hk, hv⟩ := ih (i + 1) h'
      exact ⟨k + 1, by omega, by simpa using hv⟩
    | none =>
      simp only [h'] at h
      by_cases hx : x = v
      · have hj : i = j := by simpa [hx] using h
        exact ⟨0, by omega, by simp [hx]⟩
      · simp [hx] at h

theorem lookupFrom_isSome (vs : List Val) (i : Nat) (v : Val) :
    (lookupFrom vs i v).isSome = true ↔ v ∈ vs := by
  induction vs generalizing i with
  | nil => simp [lookupFrom]
  | cons x xs ih =>
    unfold lookupFrom
    have := ih (i + 1)
    cases h : lookupFrom xs (i + 1) v with
    | some j => simp [h] at this; simp [this]
    | none =>
      simp [h] at this
      by_cases hx : x = v
      · simp [hx]
      · simp [hx, this]; exact fun h => hx h.symm

theorem lookupFrom_complete (vs : List Val) (hd : vs.Nodup) (i k : Nat) (v : Val)
    (h : vs[k]? = some v) : lookupFrom vs i v = some (i + k) := by
  induction vs generalizing i k with
  | nil => simp at h
  | cons x xs ih =>
    have hd' := List.nodup_cons.mp hd
    unfold lookupFrom
    cases k with
    | zero =>
      have hx : x = v := by simpa using h
      have hnone : lookupFrom xs (i + 1) v = none := by
        cases h' : lookupFrom xs (i + 1) v with
        | none => rfl
        | some j =>
          have : v ∈ xs := (lookupFrom_isSome xs (i + 1) v).mp (by simp [h'])
          exact absurd (hx ▸ this) hd'.1
      simp [hnone, hx]
    | succ k =>
      have := ih hd'.2 (i + 1) k (by simpa using h)
      rw [this]
      show some (i + 1 + k) = some (i + (k + 1))
      congr 1; omega

/-- a found state carries the looked-up value (also when values are not distinct) -/
theorem lookup_value (m : Mach) (v : Val) (s : StateId) (h : lookup m v = some s) :
    s < m.n ∧ valueOf m s = v := by
  obtain ⟨k, hk, hv⟩ := lookupFrom_sound _ _ _ _ h
  have hs : s = k := by rw [hk]; exact Nat.zero_add k
  subst hs
  have hlt : s < m.values.length := by
    rcases Nat.lt_or_ge s m.values.length with h | h
    · exact h
    · simp [List.getElem?_eq_none h] at hv
  refine ⟨hlt, ?_⟩
  simp [valueOf, List.getD, hv]

theorem mapped_iff (m : Mach) (v : Val) : mapped m v = true ↔ v ∈ m.values :=
  lookupFrom_isSome _ _ _

theorem mapped_valueOf (m : Mach) (s : StateId) (h : s < m.n) : mapped m (valueOf m s) = true := by
  rw [mapped_iff]
  have : m.values[s]? = some (m.values[s]'h) := List.getElem?_eq_getElem h
  simp [valueOf, List.getD, this]
  exact List.getElem_mem h

/-- with distinct values the map is the inverse of `value` -/
theorem lookup_valueOf (m : Mach) (hd : m.values.Nodup) (s : StateId) (h : s < m.n) :
    lookup m (valueOf m s) = some s := by
  have hget : m.values[s]? = some (m.values[s]'h) := List.getElem?_eq_getElem h
  have := lookupFrom_complete m.values hd 0 s (m.values[s]'h) hget
  simp [lookup, valueOf, List.getD, hget, this]

theorem lookup_iff (m : Mach) (hd : m.values.Nodup) (v : Val) (s : StateId) :
    lookup m v = some s ↔ s < m.n ∧ valueOf m s = v := by
  constructor
  · exact lookup_value m v s
  · rintro ⟨hlt, rfl⟩; exact lookup_valueOf m hd s hlt

theorem lookup_of_mapped (m : Mach) (v : Val) (h : mapped m v = true) : ∃ s, lookup m v = some s := by
  unfold mapped at h
  cases h' : lookup m v with
  | none => simp [h'] at h
  | some s => exact ⟨s, rfl⟩

/-! ## the cell -/

@[simp] theorem cell_setCell (st : Store) (v : Option Val) : (st.setCell v).cell = v := by
  unfold Store.setCell Store.cell; cases st.usesUser <;> simp

@[simp] theorem usesUser_setCell (st : Store) (v : Option Val) : (st.setCell v).usesUser = st.usesUser := by
  unfold Store.setCell; cases st.usesUser <;> simp

@[simp] theorem supplied_setCell (st : Store) (v : Option Val) : (st.setCell v).supplied = st.supplied := by
  unfold Store.setCell; cases st.usesUser <;> simp

/-- the machine and the user look at the same object -/
def Coherent (st : Store) : Prop := st.supplied = true → st.usesUser = true

instance (st : Store) : Decidable (Coherent st) := by unfold Coherent; infer_instance

theorem Coherent.userView {st : Store} (h : Coherent st) : st.userView = st.cell := by
  unfold Store.userView Store.cell
  cases hs : st.supplied
  · simp
  · simp [h hs]

theorem Coherent.userWrite {st : Store} (h : Coherent st) (v : Option Val) : st.userWrite v = st.setCell v := by
  unfold Store.userWrite Store.setCell
  cases hs : st.supplied
  · simp
  · simp [h hs]

theorem Coherent.setCell {st : Store} (h : Coherent st) (v : Option Val) : Coherent (st.setCell v) := by
  unfold Coherent at *; simpa using h

/-- no operation changes which object `sm.model` is -/
theorem step_flags (m : Mach) (op : Op) (st : Store) :
    (step m op st).1.supplied = st.supplied ∧ (step m op st).1.usesUser = st.usesUser := by
  cases op <;> simp only [step, send, writeState, writeValue, Store.userWrite]
  all_goals repeat' split
  all_goals simp

theorem step_coherent (m : Mach) (op : Op) (st : Store) (h : Coherent st) : Coherent (step m op st).1 := by
  have := step_flags m op st
  unfold Coherent at *
  rw [this.1, this.2]; exact h

theorem run_coherent (m : Mach) (ops : List Op) (st : Store) (h : Coherent st) : Coherent (run m ops st) := by
  induction ops generalizing st with
  | nil => exact h
  | cons op ops ih => exact ih _ (step_coherent m op st h)

/-! ## writes -/

theorem writeValue_mapped (m : Mach) (v : Val) (st : Store) (h : mapped m v = true) :
    writeValue m (some v) st = (st.setCell (some v), .ok ()) := by
  simp [writeValue, h]

theorem writeValue_unmapped (m : Mach) (v : Val) (st : Store) (h : mapped m v = false) :
    writeValue m (some v) st = (st, .error .invalidState) := by
  simp [writeValue, h]

/-- the cell holds a declared value -/
def Mapped (m : Mach) (st : Store) : Prop := ∃ v, st.cell = some v ∧ mapped m v = true

theorem writeValue_Mapped (m : Mach) (v : Option Val) (st : Store) (h : Mapped m st) :
    Mapped m (writeValue m v st).1 := by
  unfold writeValue
  split
  · exact h
  · split
    · rename_i v hv; exact ⟨v, by simp, hv⟩
    · exact h

/-- an operation is *valid* unless it is a raw write of `None` or of an undeclared value -/
def Op.valid (m : Mach) : Op → Prop
  | .raw none => False
  | .raw (some v) => mapped m v = true
  | _ => True

instance (m : Mach) (op : Op) : Decidable (op.valid m) := by
  cases op with
  | raw v => cases v <;> (simp only [Op.valid]; infer_instance)
  | _ => exact isTrue trivial

theorem step_Mapped (m : Mach) (op : Op) (st : Store) (hc : Coherent st) (hv : op.valid m)
    (h : Mapped m st) : Mapped m (step m op st).1 := by
  cases op with
  | send e =>
    simp only [step, send]
    split
    · exact h
    · split
      · exact writeValue_Mapped m _ st h
      · split <;> exact h
  | writeValue v => exact writeValue_Mapped m v st h
  | writeState s => exact writeValue_Mapped m _ st h
  | raw v =>
    cases v with
    | none => exact absurd hv (by simp [Op.valid])
    | some v =>
      simp only [step, hc.userWrite]
      exact ⟨v, by simp, hv⟩
  | read => exact h

theorem run_Mapped (m : Mach) (ops : List Op) (st : Store) (hc : Coherent st)
    (hv : ∀ op ∈ ops, op.valid m) (h : Mapped m st) : Mapped m (run m ops st) := by
  induction ops generalizing st with
  | nil => exact h
  | cons op ops ih =>
    exact ih _ (step_coherent m op st hc) (fun o ho => hv o (by simp [ho]))
      (step_Mapped m op st hc (hv op (by simp)) h)

end SMV.Store
