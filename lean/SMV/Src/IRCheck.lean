import SMV.Model.Validate
/-!
# Source-derived scripts of the class-definition checks (C09)

`harness/srcgen.py` reads `statemachine/graph.py` (`visit_connected_states`) and `statemachine/factory.py`
(`StateMachineMetaclass._check`, the five `_check_*` methods, the two helpers `_disconnected_states` /
`_states_without_path_to_final_states`, and the two lines of `__init__` that compute `initial_state` /
`final_states`) and writes them as the scripts below. This file gives them a meaning (`runVisit`, `runCheck`);
`SMV/Src/TieCheck.lean` proves that the scripts of the tree the theorems were proved for mean `go` and `check` of
`SMV/Model/Validate.lean` — the functions the C09 theorems are about.

No imports beyond the model.
-/
namespace SMV.Src.V
open SMV.Validate

/-! ## `visit_connected_states` -/

/-- one statement of the `while visit:` loop -/
inductive LStmt
  /-- `state = visit.popleft()` -/
  | popLeft
  /-- `if state in already_visited: continue` -/
  | skipIfVisited
  /-- `already_visited.add(state)` -/
  | markVisited
  /-- `yield state` -/
  | yieldState
  /-- `visit.extend(t.target for t in state.transitions)` -/
  | extendTargets
deriving DecidableEq, Repr

inductive GStmt
  /-- `visit = deque()` -/
  | initDeque
  /-- `already_visited = set()` -/
  | initVisited
  /-- `visit.append(state)` -/
  | pushStart
  /-- `while visit: body` -/
  | whileNonEmpty (body : List LStmt)
deriving DecidableEq, Repr

/-- locals of the generator. `budget`: the model's fuel — one unit per state marked as visited (Python's loop has
none; `C09_bfs_fuel` proves that the fuel `bfs` gives never runs out) -/
structure GSt where
  deque : List Nat
  visited : List Nat
  yielded : List Nat
  cur : Option Nat
  budget : Nat
deriving Repr

inductive Flow | next | cont | halt
deriving DecidableEq, Repr

/-- one round of the loop body -/
def runBody (succ : Nat → List Nat) : List LStmt → GSt → GSt × Flow
  | [], s => (s, .next)
  | .popLeft :: r, s =>
    match s.deque with
    | [] => (s, .halt)                      -- `IndexError`; unreachable under `while visit:`
    | x :: w => runBody succ r { s with deque := w, cur := some x }
  | .skipIfVisited :: r, s =>
    match s.cur with
    | none => (s, .halt)
    | some x => if s.visited.contains x then (s, .cont) else runBody succ r s
  | .markVisited :: r, s =>
    match s.cur, s.budget with
    | some x, b + 1 => runBody succ r { s with visited := x :: s.visited, budget := b }
    | _, _ => (s, .halt)
  | .yieldState :: r, s =>
    match s.cur with
    | none => (s, .halt)
    | some x => runBody succ r { s with yielded := s.yielded ++ [x] }
  | .extendTargets :: r, s =>
    match s.cur with
    | none => (s, .halt)
    | some x => runBody succ r { s with deque := s.deque ++ succ x }

/-- the lexicographic measure (budget, length of the deque) went down -/
def progress (s s' : GSt) : Bool :=
  decide (s'.budget < s.budget) || (decide (s'.budget = s.budget) && decide (s'.deque.length < s.deque.length))

/-- `while visit: body`. A round that makes no progress in the measure stops the interpretation (no such round
exists for the script the theorems are about: `runLoop_go`). -/
def runLoop (succ : Nat → List Nat) (body : List LStmt) (s : GSt) : GSt :=
  match s.deque with
  | [] => s
  | _ :: _ =>
    let r := runBody succ body s
    match r.2 with
    | .halt => r.1
    | _ => if h : progress s r.1 = true then runLoop succ body r.1 else r.1
termination_by (s.budget, s.deque.length)
decreasing_by
  simp only [progress, Bool.or_eq_true, Bool.and_eq_true, decide_eq_true_eq] at h
  rcases h with h | ⟨h1, h2⟩
  · exact Prod.Lex.left _ _ h
  · rw [h1]; exact Prod.Lex.right _ h2

/-- locals before the loop: `none` = not assigned yet -/
structure G0 where
  deque : Option (List Nat) := none
  visited : Option (List Nat) := none

/-- `visit_connected_states(start)` with `fuel`: the states marked as visited (most recent first) and the states
yielded (in order) -/
def runVisit (succ : Nat → List Nat) (fuel : Nat) (start : Nat) : List GStmt → G0 → Option (List Nat × List Nat)
  | [], _ => none
  | .initDeque :: r, g => runVisit succ fuel start r { g with deque := some [] }
  | .initVisited :: r, g => runVisit succ fuel start r { g with visited := some [] }
  | .pushStart :: r, g =>
    match g.deque with
    | none => none
    | some w => runVisit succ fuel start r { g with deque := some (w ++ [start]) }
  | .whileNonEmpty body :: _, g =>
    match g.deque, g.visited with
    | some w, some v =>
      let s := runLoop succ body ⟨w, v, [], none, fuel⟩
      some (s.visited, s.yielded)
    | _, _ => none

/-! ## The checks -/

/-- the list of states a check computes -/
inductive Issue
  /-- `[s for s in cls.states if s.initial]` -/
  | initials
  /-- `[state for state in cls.final_states if state.transitions]` with
  `cls.final_states = [state for state in cls.states if state.final]` -/
  | finalsWithTransitions
  /-- `cls._disconnected_states(cls.initial_state)` = `set(cls.states) - set(visit_connected_states(start))` with
  `cls.initial_state = next(s for s in cls.states if s.initial)` -/
  | disconnected
  /-- `[s for s in cls.states if not s.final and not s.transitions]` -/
  | trapStates
  /-- `cls._states_without_path_to_final_states()` =
  `[state for state in cls.states if not state.final and not any(s.final for s in visit_connected_states(state))]` -/
  | noPathToFinal
deriving DecidableEq, Repr

/-- when the list is a problem: `if len(xs) != 1` / `if xs` -/
inductive Trig | lenNeOne | nonEmpty
deriving DecidableEq, Repr

/-- what happens then: `raise InvalidDefinition(…)`, or `if cls._strict_states: raise … else: warnings.warn(…)` -/
inductive Mode | raise | strictOrWarn
deriving DecidableEq, Repr

/-- one `_check_*` method. `skipUnlessAnyFinal`: it starts with `if not any(s.final for s in cls.states): return` -/
structure CheckFn where
  skipUnlessAnyFinal : Bool
  issue : Issue
  trig : Trig
  mode : Mode
deriving DecidableEq, Repr

/-- the statements of `_check` -/
inductive CStep
  /-- `has_states = bool(cls.states)` -/
  | readHasStates
  /-- `has_events = bool(cls._events)` -/
  | readHasEvents
  /-- `cls._abstract = not has_states and not has_events` -/
  | setAbstract
  /-- `if cls._abstract: return` -/
  | returnIfAbstract
  /-- `if not has_states: raise InvalidDefinition(…)` -/
  | raiseUnlessStates
  /-- `if not has_events: raise InvalidDefinition(…)` -/
  | raiseUnlessEvents
  /-- `cls._check_<name>()` with the translated body of that method -/
  | call (f : CheckFn)
deriving DecidableEq, Repr

def Issue.reason : Issue → Reason
  | .initials => .initialCount
  | .finalsWithTransitions => .finalWithTransitions
  | .disconnected => .unreachable
  | .trapStates => .trap
  | .noPathToFinal => .noPathToFinal

/-- the list an `Issue` stands for, with `reach s` = the set `visit_connected_states(states[s])` yields -/
def Issue.eval (d : ClassDef) (reach : Nat → List Nat) : Issue → List Nat
  | .initials => (List.range d.n).filter d.isInitial
  | .finalsWithTransitions => (List.range d.n).filter (fun i => d.isFinal i && d.edges.any (fun e => e.src == i))
  | .disconnected => (List.range d.n).filter (fun i => !(reach d.initIdx).contains i)
  | .trapStates => (List.range d.n).filter (fun i => !d.isFinal i && !d.edges.any (fun e => e.src == i))
  | .noPathToFinal => (List.range d.n).filter (fun i => !d.isFinal i && !(reach i).any d.isFinal)

def Trig.holds : Trig → List Nat → Bool
  | .lenNeOne, xs => xs.length != 1
  | .nonEmpty, xs => !xs.isEmpty

structure CSt where
  hasStates : Option Bool := none
  hasEvents : Option Bool := none
  abstract : Option Bool := none
  warnings : List (List Nat) := []

/-- `_check()` as the script says. `none` = a `NameError` (a local read before it is assigned). -/
def runSteps (d : ClassDef) (reach : Nat → List Nat) : List CStep → CSt → Option Verdict
  | [], c => some (.ok (c.abstract.getD false) c.warnings)
  | .readHasStates :: r, c => runSteps d reach r { c with hasStates := some (!d.states.isEmpty) }
  | .readHasEvents :: r, c => runSteps d reach r { c with hasEvents := some (!d.events.isEmpty) }
  | .setAbstract :: r, c =>
    match c.hasStates, c.hasEvents with
    | some s, some e => runSteps d reach r { c with abstract := some (!s && !e) }
    | _, _ => none
  | .returnIfAbstract :: r, c =>
    match c.abstract with
    | some true => some (.ok true c.warnings)
    | some false => runSteps d reach r c
    | none => none
  | .raiseUnlessStates :: r, c =>
    match c.hasStates with
    | some true => runSteps d reach r c
    | some false => some (.invalid .noStates [])
    | none => none
  | .raiseUnlessEvents :: r, c =>
    match c.hasEvents with
    | some true => runSteps d reach r c
    | some false => some (.invalid .noEvents [])
    | none => none
  | .call f :: r, c =>
    if f.skipUnlessAnyFinal && !d.states.any (·.final) then runSteps d reach r c
    else
      let xs := f.issue.eval d reach
      if !f.trig.holds xs then runSteps d reach r c
      else
        match f.mode with
        | .raise => some (.invalid f.issue.reason xs)
        | .strictOrWarn =>
          if d.strict then some (.invalid f.issue.reason xs)
          else runSteps d reach r { c with warnings := c.warnings ++ [xs] }

/-- the states `visit_connected_states(states[s])` yields, as the script of `graph.py` says, with the fuel `bfs` uses -/
def reachBy (visit : List GStmt) (d : ClassDef) (s : Nat) : List Nat :=
  match runVisit d.succ (d.edges.length + 1) s visit {} with
  | some r => r.1
  | none => []

/-- the class statement: the transitions are constructed while the body runs (`Transition.__init__`), then `_check()` -/
def runCheck (visit : List GStmt) (steps : List CStep) (d : ClassDef) : Option Verdict :=
  if !d.specs.all TSpec.constructible then some (.invalid .internalNotSelf [])
  else runSteps d (reachBy visit d) steps {}

/-! ## `StateMachineMetaclass.__init__` and `Transition.__init__`: order of the steps -/

/-- the statements of the metaclass' `__init__` -/
inductive MStmt
  | superInit | register
  /-- `cls.<name> = <fresh empty value / the keyword>` -/
  | initField (name : String)
  | addInherited | addFromAttributes | updateEventReferences
  /-- `try: cls.initial_state = next(s for s in cls.states if s.initial)` / `except StopIteration: … = None` -/
  | setInitialState
  /-- `cls.final_states = [state for state in cls.states if state.final]` -/
  | setFinalStates
  | check | setup
deriving DecidableEq, Repr

/-- everything a check reads is in place when `_check()` runs: the states and events of the bases and of the class
body were added, placeholder events were replaced, `initial_state` / `final_states` were computed; `_setup()` (which
adds the convention callbacks) runs only on a class that passed -/
def metaOrderOk (ms : List MStmt) : Bool :=
  match ms.idxOf? .check with
  | none => false
  | some k =>
    [MStmt.addInherited, .addFromAttributes, .updateEventReferences, .setInitialState, .setFinalStates].all
      (fun m => match ms.idxOf? m with | some i => decide (i < k) | none => false) &&
    (match ms.idxOf? .setup with | some i => decide (k < i) | none => false) &&
    decide ((ms.filter (· == .check)).length = 1)

/-- the statements of `Transition.__init__` -/
inductive TIStmt
  /-- `self.<name> = <name>` -/
  | field (name : String)
  /-- `if internal and source is not target: raise InvalidDefinition(…)` -/
  | rejectInternalNonSelf
  | initEvents | initSpecs
  /-- `self.<attr> = self._specs.grouper(CallbackGroup.<grp>).add(<kw>, priority=INLINE[, expected_value=…])…` -/
  | group (attr grp : String) (adds : List (String × Option Bool))
deriving DecidableEq, Repr

/-- the callback groups a transition is built with: attribute, `CallbackGroup` member, and for each keyword that
feeds it the expected guard value -/
def groupsOf : List TIStmt → List (String × String × List (String × Option Bool))
  | [] => []
  | .group a g adds :: r => (a, g, adds) :: groupsOf r
  | _ :: r => groupsOf r

end SMV.Src.V
