import SMV.Src.Expected
/-!
# The source-derived scripts of the declaration layer's small functions mean the model (C01, C13, C15)

`Expected.decl` holds what `harness/srcgen.py` derives from `events.py`, `transition.py`, `transition_list.py` and the
builders of `state.py`. Event matching is the engine model's `matchesEv` (equality on the transition's event list —
C01's candidate test), `unique_events` is the model's `dedupe` (C13's `allowed_events`), the expansion of
`from_.any()` is the validation model's `expandAny` (C09, C15); the remaining functions are pinned as shapes.
-/
namespace SMV.Src
open D

/-- **event matching**: `Transition.match` → `Events.match` → `any(e == event …)` is the model's `matchesEv` -/
theorem match_matchesEv (tr : Transn) (e : EventId) :
    Expected.decl.eventsMatch.run tr.events e = matchesEv tr e ∧
    Expected.decl.transitionMatch = .delegateToEvents := by
  refine ⟨?_, by decide⟩
  simp only [Expected.decl, MatchBody.run, matchesEv]
  induction tr.events with
  | nil => rfl
  | cons x xs ih =>
    simp only [List.any_cons, List.contains_cons, ih]
    cases hx : (x == e) <;> cases he : (e == x) <;> simp_all [beq_iff_eq] <;> omega

theorem filter_notin_append (l acc : List Nat) (x : Nat) :
    l.filter (fun y => !(acc ++ [x]).contains y) = (l.filter (fun y => y != x)).filter (fun y => !acc.contains y) := by
  rw [List.filter_filter]
  apply List.filter_congr
  intro y _
  by_cases h1 : y ∈ acc <;> by_cases h2 : y = x <;> simp [h1, h2]

theorem filter_notin_of_mem (l acc : List Nat) (x : Nat) (hx : x ∈ acc) :
    (l.filter (fun y => y != x)).filter (fun y => !acc.contains y) = l.filter (fun y => !acc.contains y) := by
  rw [List.filter_filter]
  apply List.filter_congr
  intro y _
  by_cases h2 : y = x
  · subst h2; simp [hx]
  · simp [h2]

/-- a dict used as an ordered set, filled from a list, holds the list's first occurrences -/
theorem foldl_insertKey (l acc : List Nat) :
    l.foldl insertKey acc = acc ++ (dedupe l).filter (fun y => !acc.contains y) := by
  induction l generalizing acc with
  | nil => simp [dedupe]
  | cons x xs ih =>
    simp only [List.foldl_cons, insertKey, dedupe]
    by_cases hx : x ∈ acc
    · have : acc.contains x = true := by simpa using hx
      simp only [this, if_true, ih, List.filter_cons, Bool.not_true, Bool.false_eq_true, if_false]
      rw [filter_notin_of_mem _ _ _ hx]
    · have : acc.contains x = false := by simpa using hx
      simp only [this, Bool.false_eq_true, if_false, ih, List.filter_cons, Bool.not_false, if_true]
      rw [filter_notin_append]
      simp

/-- **`unique_events` is `dedupe`**: the events of the transitions in order of first occurrence — so
`allowed_events` is the model's `allowedEvents` -/
theorem runUnique_dedupe (evs : List (List EventId)) :
    runUnique evs Expected.decl.uniqueEvents none = some (dedupe evs.flatten) := by
  simp [Expected.decl, runUnique, foldl_insertKey]

theorem allowed_events_scripts (m : Machine) (s : StateId) :
    runUnique ((out m s).map (·.events)) Expected.decl.uniqueEvents none = some (allowedEvents m s) := by
  rw [runUnique_dedupe]
  simp [allowedEvents, List.flatMap]

/-- **`AnyState._on_event_defined`** adds one transition to the target per non-final state registered so far -/
theorem runAny_filter (isFinal : Nat → Bool) (tgt : Nat) (l : List Nat) :
    runAny isFinal tgt Expected.decl.anyOnEventDefined l =
      some ((l.filter (fun i => !isFinal i)).map (fun i => ⟨i, tgt⟩)) := by
  induction l with
  | nil => simp [runAny]
  | cons i rest ih =>
    simp only [Expected.decl] at ih ⊢
    simp only [runAny, if_true, ih]
    cases h : isFinal i <;> simp [List.filter_cons, h]

theorem runAny_expandAny (d : Validate.ClassDef) (tgt upto : Nat) :
    runAny d.isFinal tgt Expected.decl.anyOnEventDefined (List.range (min upto d.n)) = some (d.expandAny tgt upto) := by
  rw [runAny_filter]; rfl

/-- `Events._replace`: the old event goes, the new one comes *last* (the reason why several id-less events of one
transition come out in re-binding order: 11.5) -/
theorem runReplace_eq (old new : Nat) (l : List Nat) :
    runReplace old new Expected.decl.eventsReplace l = l.erase old ++ [new] := by
  simp [Expected.decl, runReplace]

/-- the shapes the other models assume: `|` builds a new list (the operands are not touched), `add_transitions`
appends in order, a list told of its event adds it to every transition and then tells every source state,
`to` creates one transition per target in order and adds them to the source state, `from_` one per origin,
`from_.any()` is `from_` of a fresh `AnyState`, a copied transition keeps the callables of its specs (shallow copy,
same group), `Events.add` splits on runs of whitespace (D46) and skips what is there -/
theorem decl_shapes :
    Expected.decl.tlOr = [.orIsNewListThenAdd] ∧
    Expected.decl.tlAddTransitions = [.unwrapList, .ensureIterable, .appendEachInOrder, .retSelf] ∧
    Expected.decl.tlOnEventDefined = [.addEventToAll, .tellEachSource] ∧
    Expected.decl.tlAddEvent = [.forTransitionsAddEvent] ∧
    Expected.decl.toCall = [.onePerTargetInOrder, .addToOwnState, .ret] ∧
    Expected.decl.fromCall = [.newList, .onePerOriginAddedToOriginAndList, .ret] ∧
    Expected.decl.fromAny = [.callWithAnyState] ∧
    Expected.decl.copyWithArgs = [.popOrOwn "source", .popOrOwn "target", .popOrOwn "event", .popOrOwn "internal",
      .newTransition, .forSpecsShallowCopySameGroup, .ret] ∧
    Expected.decl.eventsAdd = [.returnSelfIfNone, .ensureIterable,
      .forEachSplitOnWhitespace [.skipIfPresent, .appendEventOrNew], .retSelf] := by decide

end SMV.Src
