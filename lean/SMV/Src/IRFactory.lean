/-!
# Source-derived scripts of the metaclass' elaboration steps (C15, C16; also C09, C10, C13)

`StateMachineMetaclass.add_inherited`, `add_from_attributes`, `_add_states_from_dict`, `_add_unbounded_callback`,
`add_state`, `add_event`, `_update_event_references`, `_setup`, as statement scripts. They are pinned as shapes
(`SMV/Src/TieFactory.lean`): the store model of the class body (`SMV/Model/Decl.lean`) was written from exactly these
statements, and a change to any of them changes the script the kernel compares on every run.
-/
namespace SMV.Src.F

inductive Stmt
  -- add_inherited
  /-- `for base in bases:` `for state in getattr(base, "states", []): cls.add_state(state.id, state, inherited=True)` -/
  | inheritStatesOfEachBase
  /-- `events = getattr(base, "_events", {})`; `for event in events: cls.add_event(event=Event(id=event.id, name=event.name))` -/
  | redeclareEventsOfEachBaseById
  -- add_from_attributes: `for key, value in attrs.items():` with the branches in this order
  /-- `if isinstance(value, States): cls._add_states_from_dict(value)` (an `if`, not part of the chain below) -/
  | ifStatesAddEach
  /-- `if isinstance(value, State): cls.add_state(key, value)` -/
  | ifStateAddState
  /-- `elif isinstance(value, (Transition, TransitionList)): cls.add_event(event=Event(transitions=value, id=key, name=key))` -/
  | elifTransitionsAddEventNamedByAttribute
  /-- `elif isinstance(value, (Event,)): cls.add_event(event=Event(transitions=value._transitions, id=key, name=value.name), old_event=value)` -/
  | elifEventAddEventKeepingNameRememberingOld
  /-- `elif getattr(value, "attr_name", None): cls._add_unbounded_callback(key, value)` -/
  | elifDecoratedCallback
  -- _add_states_from_dict
  /-- `for state_id, state in states.items(): cls.add_state(state_id, state)` -/
  | addEachStateOfDict
  -- _add_unbounded_callback
  /-- `setattr(cls, func.attr_name, func)` -/
  | setCallbackUnderItsAttrName
  /-- `if func.is_event: cls.add_event(event=Event(func._transitions, id=attr_name, name=attr_name))` -/
  | ifEventAddEventNamedByAttribute
  -- add_state
  /-- `state._set_id(id)` -/
  | setId
  /-- `cls.states.append(state)` -/
  | appendToStates
  /-- `cls.states_map[state.value] = state` -/
  | mapValueToState
  /-- `if not hasattr(cls, id): setattr(cls, id, state)` -/
  | setAttrUnlessPresent
  /-- `for event in state.transitions.unique_events:` `if inherited and event._has_real_id: event = Event(id=event.id,
  name=event.name)`; `cls.add_event(event)` -/
  | registerEventsOfItsTransitionsFreshIfInherited
  -- add_event
  /-- `if not event._has_real_id: if event not in cls._events_to_update: cls._events_to_update[event] = None; return` -/
  | idlessRememberAndReturn
  /-- `transitions = event._transitions`; `if transitions is not None: transitions._on_event_defined(event=event, states=list(cls.states))` -/
  | tellTransitionsWithStatesSoFar
  /-- `if event not in cls._events: cls._events[event] = None; setattr(cls, event.id, event)` -/
  | declareIfNew
  /-- `if old_event is not None: cls._events_to_update[old_event] = event` -/
  | rememberReplacement
  /-- `return cls._events[event]` -/
  | retDeclared
  -- _update_event_references
  /-- `for old_event, new_event in cls._events_to_update.items(): for state in cls.states: for transition in
  state.transitions: if transition._events.match(old_event): if new_event is None: raise InvalidDefinition(…);
  transition.events._replace(old_event, new_event)` — one full scan per pending event -/
  | forEachPendingScanAllTransitionsReplaceOrRaise
  /-- `cls._events_to_update = {}` -/
  | resetPending
  -- _setup
  /-- `for visited in iterate_states_and_transitions(cls.states): visited._setup()` -/
  | setupEveryStateAndTransition
  /-- `cls._protected_attrs = {<the fixed names>} | {s.id for s in cls.states}` -/
  | protectedAttrs (fixed : List String)
deriving DecidableEq, Repr

structure FactoryScript where
  addInherited : List Stmt
  addFromAttributes : List Stmt
  addStatesFromDict : List Stmt
  addUnboundedCallback : List Stmt
  addState : List Stmt
  addEvent : List Stmt
  updateEventReferences : List Stmt
  setup : List Stmt
deriving DecidableEq, Repr

end SMV.Src.F
