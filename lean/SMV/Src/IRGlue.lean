/-!
# Source-derived scripts of the glue: `utils.py`, `mixins.py`, `exceptions.py`, `registry.py` (C01, C05, C10, C11, C16)
-/
namespace SMV.Src.K

/-- `run_async_from_sync(coroutine)` -/
inductive RStmt
  /-- `try: asyncio.get_running_loop(); return coroutine` — inside a running loop the caller awaits it -/
  | insideLoopHandBackCoroutine
  /-- `except RuntimeError:` `if not hasattr(_cached_loop, "loop"): _cached_loop.loop = asyncio.new_event_loop()`;
  `loop = _cached_loop.loop` with `_cached_loop = threading.local()`: one loop per thread, kept between calls -/
  | perThreadLoopKept
  /-- `task = asyncio.ensure_future(coroutine, loop=loop)`; `try: return loop.run_until_complete(task)` -/
  | runToCompletion
  /-- `except (KeyboardInterrupt, SystemExit):` cancel the task, run it to its end, re-raise (D34) -/
  | onInterruptCancelDrainReraise
deriving DecidableEq, Repr

/-- `ensure_iterable(obj)` -/
inductive IStmt
  /-- `if isinstance(obj, str): return [obj]` -/
  | stringIsOneItem
  /-- `try: return iter(obj)` / `except TypeError: return [obj]` — an *iterator*: consumed by the first loop over it -/
  | iteratorElseOneItem
deriving DecidableEq, Repr

/-- `MachineMixin.__init__` -/
inductive MStmt
  /-- `super().__init__(*args, **kwargs)` first: the model's own fields (the stored state among them) are in place -/
  | superInitFirst
  /-- `if not self.state_machine_name: raise ValueError(…)` -/
  | requireMachineName
  /-- `machine_cls = registry.get_machine_cls(self.state_machine_name)` -/
  | lookUpClass
  /-- `sm = machine_cls(self, state_field=self.state_field_name)`: the model itself, not a stand-in -/
  | constructOverSelf
  /-- `setattr(self, self.state_machine_attr, sm)` -/
  | attach
  /-- `if self.bind_events_as_methods: sm.bind_events_to(self)` -/
  | bindEventsIfAsked
deriving DecidableEq, Repr

structure GlueScript where
  runAsyncFromSync : List RStmt
  ensureIterable : List IStmt
  mixinInit : List MStmt
  /-- what `TransitionNotAllowed(event, state)` / `InvalidStateValue(value)` carry: the attributes assigned in `__init__` -/
  notAllowedCarries : List String
  invalidStateCarries : List String
  /-- `registry.register`: the keys a class is registered under -/
  registryKeys : List String
  /-- `qualname`: `".".join([cls.__module__, cls.__name__])` -/
  qualnameIsModuleDotName : Bool
deriving DecidableEq, Repr

end SMV.Src.K
