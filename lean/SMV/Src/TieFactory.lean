import SMV.Src.Expected
/-!
# The metaclass' elaboration steps, as the source says (C15, C16; also C09, C10, C13)

The store model of the class body (`SMV/Model/Decl.lean`) was written from these statements; they are pinned here, so
that the theorems about that model (`C15_*`, `C16_subclass_frame`, …) are read against what the source says now.
-/
namespace SMV.Src
open F

/-- a subclass registers the *states* of its bases (as inherited: the events found on their transitions are declared
again by id, the transitions are not expanded again — D7b) and re-declares the bases' events by id -/
theorem addInherited_shape :
    Expected.factory.addInherited = [.inheritStatesOfEachBase, .redeclareEventsOfEachBaseById] := by decide

/-- the class body is read attribute by attribute, in order: a `States` container adds each of its states; a `State`
is added under the attribute's name; a transition (list) declares the event named by the attribute; an `Event` object
declares the event under the attribute's name, keeping its display name, and is remembered as replaced; a decorated
callback is stored under its own name (and declares an event when it was decorated as one) -/
theorem addFromAttributes_shape :
    Expected.factory.addFromAttributes = [.ifStatesAddEach, .ifStateAddState, .elifTransitionsAddEventNamedByAttribute,
      .elifEventAddEventKeepingNameRememberingOld, .elifDecoratedCallback] ∧
    Expected.factory.addStatesFromDict = [.addEachStateOfDict] ∧
    Expected.factory.addUnboundedCallback = [.setCallbackUnderItsAttrName, .ifEventAddEventNamedByAttribute] := by decide

/-- `add_state`: id, position in declaration order, value ↦ state (a class has a map of its own: the metaclass'
`__init__` creates it, `metaInit`), attribute unless taken, then the events of its transitions -/
theorem addState_shape :
    Expected.factory.addState = [.setId, .appendToStates, .mapValueToState, .setAttrUnlessPresent,
      .registerEventsOfItsTransitionsFreshIfInherited] := by decide

/-- `add_event`: an id-less event is only remembered; otherwise the transitions are told — with the states registered
*so far* (what `from_.any()` expands onto: D16a) — the event is declared if new, and a replaced `Event` object is
remembered -/
theorem addEvent_shape :
    Expected.factory.addEvent = [.idlessRememberAndReturn, .tellTransitionsWithStatesSoFar, .declareIfNew,
      .rememberReplacement, .retDeclared] := by decide

/-- placeholders are resolved by one full scan of all transitions per pending event (a placeholder without a name is
an error), then the pending map is emptied -/
theorem updateEventReferences_shape :
    Expected.factory.updateEventReferences = [.forEachPendingScanAllTransitionsReplaceOrRaise, .resetPending] := by
  decide

/-- every state and transition is set up (convention callbacks), and the names the machine protects are the fixed ones
and the state ids -/
theorem setup_shape :
    Expected.factory.setup = [.setupEveryStateAndTransition, .protectedAttrs ["_abstract", "_events", "final_states",
      "initial_state", "model", "send", "start_value", "state_field", "states", "states_map"]] := by decide

end SMV.Src
