/-!
# Source-derived scripts of the declared objects: `State`, `States`, `Event.__new__`, `CallbackSpec.__init__`
(C09, C10, C13, C15)
-/
namespace SMV.Src.O

/-- `State.__init__` -/
inductive SIStmt
  /-- `self.<field> = <param>` -/
  | field (attr param : String)
  /-- `self._id = ""` -/
  | emptyId
  /-- `self.transitions = TransitionList()` — a list of its own -/
  | ownTransitionList
  /-- `self._specs = CallbackSpecList()` — a spec list of its own -/
  | ownSpecList
  /-- `self.enter = self._specs.grouper(CallbackGroup.ENTER).add(enter, priority=CallbackPriority.INLINE)` -/
  | enterInline
  /-- `self.exit = self._specs.grouper(CallbackGroup.EXIT).add(exit, priority=CallbackPriority.INLINE)` -/
  | exitInline
deriving DecidableEq, Repr

/-- how "no value given" is tested in `_set_id` -/
inductive Missing | isNone | falsy
deriving DecidableEq, Repr

/-- `State._set_id(id)` -/
inductive IdStmt
  /-- `self._id = id` -/
  | assignId
  /-- `if self.value <is None / is falsy>: self.value = id` -/
  | valueDefaultsToId (m : Missing)
  /-- `if not self.name: self.name = self._id.replace("_", " ").capitalize()` -/
  | nameDefaultsFromId
deriving DecidableEq, Repr

/-- a declared state as `_set_id` sees it; values are numbers, `falsy v` stands for Python's truth test -/
structure St where
  id : String := ""
  /-- the value given in the declaration (`none`: Python's `None`) -/
  value : Option Nat := none
  /-- the value was replaced by the id -/
  valueIsId : Bool := false
  named : Bool := false
deriving DecidableEq, Repr

def runSetId (falsy : Nat → Bool) (id : String) : List IdStmt → St → St
  | [], s => s
  | .assignId :: r, s => runSetId falsy id r { s with id := id }
  | .valueDefaultsToId .isNone :: r, s =>
    runSetId falsy id r (match s.value with | none => { s with valueIsId := true } | some _ => s)
  | .valueDefaultsToId .falsy :: r, s =>
    runSetId falsy id r (match s.value with
      | none => { s with valueIsId := true }
      | some v => if falsy v then { s with value := none, valueIsId := true } else s)
  | .nameDefaultsFromId :: r, s => runSetId falsy id r { s with named := true }

/-- `State.__get__` / `__set__` -/
inductive DStmt
  /-- `if machine is None: return self` -/
  | classAccessItself
  /-- `return self.for_instance(machine=machine, cache=machine._states_for_instance)` -/
  | instanceAccessCachedPerMachine
  /-- `raise StateMachineError(…)` -/
  | raiseOverriding
deriving DecidableEq, Repr

/-- `States` -/
inductive SsStmt
  /-- `self._states = states if states is not None else {}` -/
  | ownDictUnlessGiven
  /-- `append`: `self._states[state.id] = state` -/
  | appendKeyedById
  /-- `__iter__`: `return iter(self._states.values())` — declaration order -/
  | iterValuesInOrder
  /-- `__getattr__`: the state of that key, else `AttributeError` -/
  | getattrByKeyElseAttributeError
  /-- `from_enum`: `final_set = set(ensure_iterable(final))` -/
  | enumFinalSet
  /-- `from_enum`: one state per member, in member order, keyed by `e.name`; `value = e if use_enum_instance else
  e.value`, `initial = e is initial`, `final = e in final_set` -/
  | enumOneStatePerMember
deriving DecidableEq, Repr

/-- `Event.__new__` -/
inductive ENStmt
  /-- `if isinstance(transitions, str): id = transitions; transitions = None` -/
  | stringFirstArgumentIsTheId
  /-- `_has_real_id = id is not None` -/
  | realIdIffGiven
  /-- `id = str(id) if _has_real_id else f"__event__{uuid4().hex}"` -/
  | idStrElseFresh
  /-- `instance = super().__new__(cls, id)` — the event *is* the string of its id -/
  | strOfId
  /-- `instance.id = id` -/
  | assignId
  /-- name given, else derived from a real id, else empty -/
  | nameGivenElseFromRealIdElseEmpty
  /-- `if transitions: instance._transitions = transitions` -/
  | keepTransitionsIfAny
  /-- `instance._has_real_id = _has_real_id` -/
  | assignHasRealId
  /-- `instance._sm = _sm` -/
  | assignMachine
  | ret
deriving DecidableEq, Repr

/-- `CallbackSpec.__init__` -/
inductive CSStmt
  /-- `self.<field> = <param>` -/
  | field (attr param : String)
  /-- property → PROPERTY, named after its getter; callable → CALLABLE, bound iff it has `__self__`, named `__name__`
  (an unbound event callback `_<name>_`), an unbound one is tagged with `attr_name` / `is_event`; else NAME, the text -/
  | referenceByKindOfFunc
  /-- `self.may_contain_boolean_expression = not self.is_convention and self.group == CallbackGroup.COND and
  self.reference == SpecReference.NAME` -/
  | expressionOnlyInNamedConditionsNotConvention
deriving DecidableEq, Repr

structure ObjScript where
  stateInit : List SIStmt
  setId : List IdStmt
  stateGet : List DStmt
  stateSet : List DStmt
  states : List SsStmt
  eventNew : List ENStmt
  specInit : List CSStmt
deriving DecidableEq, Repr

end SMV.Src.O
