import SMV.Src.Expected
/-!
# The glue, as the source says (C05, C10, C11, C16)

`utils.run_async_from_sync` is what every call into an async machine from code without a running loop goes through
(the facade drivers of C05 / C11 / C16); `MachineMixin.__init__` is the second way a machine comes to stand over a
stored state (C10, C11); `registry.register` and `qualname` are process-wide state the frame theorem of C16 does not
have in its model; the attributes of the two exceptions are what the correspondence compares when an event is refused
(C01) or a stored value is rejected (C10).
-/
namespace SMV.Src
open K

/-- from code without a running loop, the coroutine is run to completion on a loop that belongs to the calling thread
and is kept between calls — so two threads never share a loop, and a second call finds the futures of the first; inside
a running loop the coroutine is handed back for the caller to await -/
theorem facade_runs_to_completion_on_a_per_thread_loop :
    Expected.glue.runAsyncFromSync =
      [.insideLoopHandBackCoroutine, .perThreadLoopKept, .runToCompletion, .onInterruptCancelDrainReraise] := by decide

/-- a string is one item, anything iterable is iterated, anything else is one item -/
theorem ensure_iterable_shape : Expected.glue.ensureIterable = [.stringIsOneItem, .iteratorElseOneItem] := by decide

/-- the mixin builds the machine *after* the model's own constructor has run (the stored state is there to be read:
C11's resume) and over the model itself (C10's single storage), refusing a missing machine name -/
theorem mixin_constructs_over_the_initialised_model :
    Expected.glue.mixinInit =
      [.superInitFirst, .requireMachineName, .lookUpClass, .constructOverSelf, .attach, .bindEventsIfAsked] := by decide

/-- the refused event and the state it was refused in are on the exception; the rejected value is on the other -/
theorem exceptions_carry :
    Expected.glue.notAllowedCarries = ["event", "state"] ∧ Expected.glue.invalidStateCarries = ["value"] := by decide

/-- the only process-wide table: classes by qualified name and by bare name (a later class of the same name replaces the
bare entry; nothing in the engine reads the table) -/
theorem registry_keys :
    Expected.glue.registryKeys = ["qualname(cls)", "cls.__name__"] ∧ Expected.glue.qualnameIsModuleDotName = true := by
  decide

end SMV.Src
