import SMV.Src.Expected
import SMV.Lemmas.Rtc
/-!
# The source-derived scripts mean the hand-written engine model

`Expected.*` are the scripts `harness/srcgen.py` derives from `engines/sync.py` / `engines/async_.py`; the
theorems here say that interpreting them (`runA`, `runT`, `runP`) gives exactly `activate`, `trigger`,
`process` of `SMV/Model/Engine.lean` — for every machine, callback behaviour, nested-send handler and
configuration. Every engine theorem (C01–C05, C11, C14) is therefore a theorem about what the scripts say, and
the check lets the kernel decide on every run that the scripts regenerated from the tree under test are the
expected ones.
-/
namespace SMV

theorem EM.bind_assoc' {α β γ} (x : EM α) (f : α → EM β) (g : β → EM γ) :
    (x >>= f >>= g) = (x >>= fun a => f a >>= g) := by
  funext c
  show (match (match x c with
      | (c', .ok a) => f a c'
      | (c', .error e) => (c', .error e)) with
      | (c', .ok a) => g a c'
      | (c', .error e) => (c', .error e)) = (match x c with
      | (c', .ok a) => (match f a c' with
          | (c', .ok a) => g a c'
          | (c', .error e) => (c', .error e))
      | (c', .error e) => (c', .error e))
  rcases x c with ⟨c', a | a⟩ <;> rfl

theorem EM.bind_pure' {α} (x : EM α) : (x >>= pure) = x := by
  funext c
  show (match x c with
      | (c', .ok a) => (c', .ok a)
      | (c', .error e) => (c', .error e)) = x c
  rcases x c with ⟨c', a | a⟩ <;> rfl

instance : LawfulMonad EM := LawfulMonad.mk'
  (id_map := by intro α x; exact EM.bind_pure' x)
  (pure_bind := by intro α β a f; rfl)
  (bind_assoc := by intro α β γ x f g; exact EM.bind_assoc' x f g)

theorem runGroup_nil (h : Nested) (m : Machine) (x : Ctx) (ph : Phase) : runGroup h m x ph [] = pure [] := rfl

end SMV

namespace SMV.Src
open SMV

/-! ## `_activate` -/

/-- the `_activate` script means `activate`, for every declared transition -/
theorem runA_activate (h : Nested) (m : Machine) (t : Trigger) (tr : Transn) :
    runA h m t { tr := tr } Expected.activateSync {} = activate h m t tr := by
  cases hi : tr.internal <;>
  simp [Expected.activateSync, runA, activate, activatePre, activatePost, ATr.ctx, groupOf,
    ATest.holds, AEnv.store, hi, runGroup_nil]
  all_goals (refine bind_congr fun _ => bind_congr fun ok => ?_; cases ok <;> simp)

/-- the meaning of a script does not depend on the `await`s (coroutine callbacks are callbacks) -/
theorem runA_eraseAwaits (h : Nested) (m : Machine) (t : Trigger) (a : ATr) (s : List AStmt) (e : AEnv) :
    runA h m t a (eraseAwaits s) e = runA h m t a s e := by
  induction s generalizing e with
  | nil => rfl
  | cons st r ih => cases st <;> simp [eraseAwaits, runA, ih]

/-- the async engine's `_activate` is the sync engine's with every group call awaited -/
theorem activateAsync_erase : eraseAwaits Expected.activateAsync = Expected.activateSync := by decide

theorem activate_awaits : awaitsAre true Expected.activateAsync = true ∧ awaitsAre false Expected.activateSync = true := by
  decide

theorem runA_activate_async (h : Nested) (m : Machine) (t : Trigger) (tr : Transn) :
    runA h m t { tr := tr } Expected.activateAsync {} = activate h m t tr := by
  rw [← runA_eraseAwaits, activateAsync_erase, runA_activate]

/-- what every callback is shown as `state` (both `event_data.state` and the `state` keyword), and whether the
model field has been assigned: the source / not yet up to and including `on`, the target / assigned from
`enter` on — read off the script -/
theorem activate_views : viewsOk Expected.activateSync = true ∧ viewsOk Expected.activateAsync = true := by decide

/-- the script on the `__initial__` pseudo-transition: assign the state, run `enter(target)`, nothing else -/
theorem runA_initial (h : Nested) (m : Machine) (t : Trigger) (s : StateId) :
    runA h m t (initTr s) Expected.activateSync {} = (do
      setState t (stateVal m s)
      let _ ← runGroup h m { t := t, src := none, tgt := s } .enter (stateDef m s).enter
      pure (some .none)) := by
  simp [Expected.activateSync, runA, initTr, ATr.ctx, groupOf, ATest.holds, AEnv.store, runGroup_nil,
    runConds, applicable, SMV.unwrap]

theorem actInitial_eq (h : Nested) (m : Machine) (t : Trigger) :
    actInitial h m t Expected.activateSync = activateInitial h m t := by
  unfold actInitial activateInitial
  cases initialTarget m with
  | error e => rfl
  | ok s => simp [runA_initial]

/-! ## `_trigger` -/

/-- the candidate loop of the script is `tryCands`: left by `break` with the result of the first executed
candidate, or exhausted with `executed = False` -/
theorem runFor_tryCands (h : Nested) (m : Machine) (t : Trigger) (trs : List Transn) (e : TEnv)
    (he : e.executed = false) (hr : e.result = .none) :
    runFor (activate h m t) t.event [.skipUnlessMatch, .activate false, .continueUnlessExecuted, .brk] trs e
      = (do
        match ← tryCands h m t trs with
        | none => pure (e, false)
        | some r => pure ({ e with executed := true, result := r }, true)) := by
  induction trs with
  | nil => simp [runFor, tryCands]
  | cons tr rest ih =>
    cases hm : matchesEv tr t.event
    · simp [runFor, runBody, tryCands, hm, ih]
    · simp [runFor, runBody, tryCands, hm]
      refine bind_congr fun o => ?_
      cases o with
      | none =>
        have : ({ e with executed := false, result := Res.none } : TEnv) = e := by
          cases e; simp_all
        simp [this, ih]
      | some r => simp

theorem EM.get_bind_apply {β} (f : Cfg → EM β) (c : Cfg) : (EM.get >>= f) c = f c c := rfl

/-- the `_trigger` script means `trigger` -/
theorem runT_trigger (h : Nested) (m : Machine) (t : Trigger) :
    runT m t (activate h m t) (activateInitial h m t) Expected.triggerSync {} = trigger h m t := by
  funext c
  simp only [Expected.triggerSync, runT, trigger, EM.get_bind_apply]
  split
  · rfl
  · split
    · rfl
    · rw [EM.get_bind_apply]
      cases hs : c.cur.bind (lookupState m) with
      | none => rfl
      | some s =>
        have hf := runFor_tryCands h m t (out m s) { state := some s } rfl rfl
        simp only [hf, bind_assoc]
        refine congrFun (bind_congr fun o => ?_) c
        cases o with
        | none => cases hal : m.allow <;> simp
        | some r => simp

theorem runBody_erase (act : Transn → EM (Option Res)) (ev : EventId) (tr : Transn) (b : List LStmt) (e : TEnv) :
    runBody act ev tr (b.map eraseL) e
      = runBody act ev tr b e := by
  induction b generalizing e with
  | nil => rfl
  | cons s r ih => cases s <;> simp [runBody, eraseL, ih]

theorem runFor_erase (act : Transn → EM (Option Res)) (ev : EventId) (b : List LStmt) (trs : List Transn) (e : TEnv) :
    runFor act ev (b.map eraseL) trs e
      = runFor act ev b trs e := by
  induction trs generalizing e with
  | nil => rfl
  | cons tr rest ih => simp [runFor, runBody_erase, ih]

theorem runT_eraseAwaits (m : Machine) (t : Trigger) (act : Transn → EM (Option Res)) (actI : EM Unit)
    (s : List TStmt) (e : TEnv) :
    runT m t act actI (eraseAwaitsT s) e = runT m t act actI s e := by
  induction s generalizing e with
  | nil => rfl
  | cons st r ih => cases st <;> simp [eraseAwaitsT, runT, ih, runFor_erase]

/-- the async engine's `_trigger` is the sync engine's with both `_activate` calls awaited -/
theorem triggerAsync_erase : eraseAwaitsT Expected.triggerAsync = Expected.triggerSync := by decide

theorem trigger_awaits :
    awaitsAreT true Expected.triggerAsync = true ∧ awaitsAreT false Expected.triggerSync = true := by decide

theorem runT_trigger_async (h : Nested) (m : Machine) (t : Trigger) :
    runT m t (activate h m t) (activateInitial h m t) Expected.triggerAsync {} = trigger h m t := by
  rw [← runT_eraseAwaits, triggerAsync_erase, runT_trigger]

/-- `_trigger` over `_activate`, both as scripts, is the model's `trigger` -/
theorem scripts_trigger (h : Nested) (m : Machine) (t : Trigger) :
    runT m t (fun tr => runA h m t { tr := tr } Expected.activateSync {})
      (actInitial h m t Expected.activateSync) Expected.triggerSync {} = trigger h m t := by
  have : (fun tr => runA h m t { tr := tr } Expected.activateSync {}) = activate h m t := by
    funext tr; exact runA_activate h m t tr
  rw [this, actInitial_eq, runT_trigger]

/-! ## `processing_loop` -/

theorem drainW_drainLoop (m : Machine) (isBase : Exc → Bool) (fuel : Nat) (first : Option Res) (cfg : Cfg) :
    (drainW (trigger nestedRtc m) isBase .baseException fuel first cfg).1 = (drainLoop m fuel first cfg).1
    ∧ (match (drainW (trigger nestedRtc m) isBase .baseException fuel first cfg).2 with
       | .ok f => (drainLoop m fuel first cfg).2 = .ok (f.getD .none)
           ∧ (drainW (trigger nestedRtc m) isBase .baseException fuel first cfg).1.queue = []
       | .error e => (drainLoop m fuel first cfg).2 = .error e) := by
  induction fuel generalizing first cfg with
  | zero =>
    unfold drainW drainLoop
    cases hq : cfg.queue <;> simp [hq]
  | succ n ih =>
    unfold drainW drainLoop
    cases hq : cfg.queue with
    | nil => simp [hq]
    | cons t q =>
      simp only []
      rcases htr : trigger nestedRtc m t { cfg with queue := q } with ⟨c', r | r⟩
      · simp
      · simpa using ih (orFirst first r) c'

/-- the sync engine's `processing_loop` script under `rtc=True` means `processRtc`; in particular the re-check
after the release finds nothing when one thread runs alone -/
theorem runP_rtc (m : Machine) (isBase : Exc → Bool) (fuel : Nat) :
    runP true (trigger nestedRtc m) isBase Expected.processSync fuel Expected.processSync none
      = processRtc m fuel := by
  funext cfg
  have hd := drainW_drainLoop m isBase fuel none { cfg with locked := true }
  unfold processRtc
  cases hl : cfg.locked
  · rcases hw : drainW (trigger nestedRtc m) isBase .baseException fuel none { cfg with locked := true } with ⟨c', f | f⟩
    · rw [hw] at hd; simp at hd
      cases fuel <;> simp [Expected.processSync, runP, hl, hw, hd.1.symm, hd.2]
    · rw [hw] at hd; simp at hd
      obtain ⟨h1, h2, h3⟩ := hd
      cases fuel <;> simp [Expected.processSync, runP, hl, hw, h1.symm, h2, h3]
  · cases fuel <;> simp [Expected.processSync, runP, hl]

/-- … and under `rtc=False` it pops one trigger and runs it at once -/
theorem runP_nonrtc (m : Machine) (h : Nested) (isBase : Exc → Bool) (fuel : Nat) :
    runP false (trigger h m) isBase Expected.processSync fuel Expected.processSync none
      = popTrigger h m := by
  funext cfg
  unfold popTrigger
  cases hq : cfg.queue with
  | nil => cases fuel <;> simp [Expected.processSync, runP, hq]
  | cons t q =>
    rcases htr : trigger h m t { cfg with queue := q } with ⟨c', r | r⟩
    · cases fuel <;> simp [Expected.processSync, runP, hq, htr]
    · cases r <;> cases fuel <;> simp [Expected.processSync, runP, hq, htr]

/-- the sync script means `process` for both processing modes -/
theorem runP_process (m : Machine) (o : Opts) (isBase : Exc → Bool) (fuel : Nat) :
    runP o.rtc (trigger (if o.rtc then nestedRtc else sendNR m fuel) m) isBase Expected.processSync fuel
      Expected.processSync none = process m o fuel := by
  unfold process
  cases hr : o.rtc
  · simpa using runP_nonrtc m (sendNR m fuel) isBase fuel
  · simpa using runP_rtc m isBase fuel

/-- the async engine's `processing_loop` script means `processRtc` as well -/
theorem runP_async (m : Machine) (isBase : Exc → Bool) (fuel : Nat) :
    runP true (trigger nestedRtc m) isBase Expected.processAsync fuel Expected.processAsync none
      = processRtc m fuel := by
  funext cfg
  have hd := drainW_drainLoop m isBase fuel none { cfg with locked := true }
  unfold processRtc
  cases hl : cfg.locked
  · rcases hw : drainW (trigger nestedRtc m) isBase .baseException fuel none { cfg with locked := true } with ⟨c', f | f⟩
    · rw [hw] at hd; simp at hd
      cases fuel <;> simp [Expected.processAsync, runP, hl, hw, hd.1.symm, hd.2]
    · rw [hw] at hd; simp at hd
      obtain ⟨h1, h2, h3⟩ := hd
      cases fuel <;> simp [Expected.processAsync, runP, hl, hw, h1.symm, h2, h3]
  · cases fuel <;> simp [Expected.processAsync, runP, hl]

/-- both engines' loops mean the same under run-to-completion (C05 at the level of the scripts) -/
theorem runP_async_eq_sync (m : Machine) (isBase : Exc → Bool) (fuel : Nat) :
    runP true (trigger nestedRtc m) isBase Expected.processAsync fuel Expected.processAsync none
      = runP true (trigger nestedRtc m) isBase Expected.processSync fuel Expected.processSync none := by
  rw [runP_async, runP_rtc]

/-- `sm.send(e)` from inside a callback under run-to-completion — `put`, then `processing_loop()` while the
lock is held — only enqueues and returns `None`: the handler `nestedRtc` of the engine model is what the
scripts say -/
theorem nested_send_is_enqueue (m : Machine) (isBase : Exc → Bool) (fuel : Nat) (e : EventId) (cfg : Cfg)
    (hl : cfg.locked = true) :
    (do enqueue e; runP true (trigger nestedRtc m) isBase Expected.processSync fuel Expected.processSync none) cfg
      = nestedRtc e cfg := by
  rw [runP_rtc]
  simp [nestedRtc, enqueue, processRtc, EM.modify, EM.bind_apply, bind, hl, pure]

/-! ## `callbacks.py`: wrappers and executors -/

/-- a wrapper of a guard (`expected_value` True for `cond`, False for `unless`) hands back whether the callback's
value, read as a truth value, is the expected one; a wrapper of an action hands back the value itself — for both ways
of invoking it (`call`, and `__call__` which also awaits an awaitable) -/
theorem wrapper_meaning (truthy : Val → Bool) (v : Val) (e : Bool) :
    tailW truthy (some e) v (Expected.wrapperCall.drop 1) = .bool (truthy v == e) ∧
    tailW truthy none v (Expected.wrapperCall.drop 1) = .val v ∧
    tailW truthy (some e) v (Expected.wrapperDunder.drop 1) = .bool (truthy v == e) ∧
    tailW truthy none v (Expected.wrapperDunder.drop 1) = .val v := by
  simp [Expected.wrapperCall, Expected.wrapperDunder, tailW]

theorem guardLoop_runConds (h : Nested) (m : Machine) (x : Ctx) (ws : List WStmt)
    (hw : ∀ v e, tailW m.truthy (some e) v (ws.drop 1) = .bool (m.truthy v == e)) (hi : ws.head? = some .invoke)
    (gs : List (CbId × Bool)) :
    guardLoop (fun c => runCb h m x .cond c) m.truthy ws gs = runConds h m x gs := by
  obtain ⟨r, rfl⟩ : ∃ r, ws = .invoke :: r := by
    cases ws with
    | nil => simp at hi
    | cons a r => simp at hi; exact ⟨r, by rw [hi]⟩
  induction gs with
  | nil => rfl
  | cons g gs ih =>
    obtain ⟨c, e⟩ := g
    simp only [guardLoop, runW, runConds, bind_assoc, pure_bind]
    refine bind_congr fun v => ?_
    have := hw v e
    simp only [List.drop_succ_cons, List.drop_zero] at this
    rw [this]
    cases hb : (m.truthy v == e) <;> simp [ih]

/-- the `all` script over the wrapper script is `runConds`: conjunction, left to right, stop at the first guard whose
truth value is not the expected one -/
theorem runXG_all (h : Nested) (m : Machine) (x : Ctx) (gs : List (CbId × Bool)) :
    runXG (fun c => runCb h m x .cond c) m.truthy Expected.wrapperCall Expected.execAll gs = runConds h m x gs := by
  have hg := guardLoop_runConds h m x Expected.wrapperCall
    (fun v e => (wrapper_meaning m.truthy v e).1) rfl gs
  simp only [Expected.execAll, runXG, hg]
  rw [← bind_pure (runConds h m x gs)]
  simp only [bind_assoc, pure_bind]
  refine bind_congr fun ok => ?_
  cases ok <;> simp

/-- … and so is `async_all` over `__call__` (guards are awaited one after the other: the repair of D11) -/
theorem runXG_async_all (h : Nested) (m : Machine) (x : Ctx) (gs : List (CbId × Bool)) :
    runXG (fun c => runCb h m x .cond c) m.truthy Expected.wrapperDunder Expected.execAsyncAll gs
      = runConds h m x gs := by
  have hg := guardLoop_runConds h m x Expected.wrapperDunder
    (fun v e => (wrapper_meaning m.truthy v e).2.2.1) rfl gs
  simp only [Expected.execAsyncAll, runXG, hg]
  rw [← bind_pure (runConds h m x gs)]
  simp only [bind_assoc, pure_bind]
  refine bind_congr fun ok => ?_
  cases ok <;> simp

theorem callEach_runGroup (h : Nested) (m : Machine) (x : Ctx) (ph : Phase) (ws : List WStmt)
    (hw : ∀ v, tailW m.truthy none v (ws.drop 1) = .val v) (hi : ws.head? = some .invoke) (cs : List CbId) :
    callEach (fun c => runCb h m x ph c) m.truthy ws cs = runGroup h m x ph cs := by
  obtain ⟨r, rfl⟩ : ∃ r, ws = .invoke :: r := by
    cases ws with
    | nil => simp at hi
    | cons a r => simp at hi; exact ⟨r, by rw [hi]⟩
  induction cs with
  | nil => rfl
  | cons c cs ih =>
    simp only [callEach, runW, runGroup, bind_assoc, pure_bind]
    refine bind_congr fun v => ?_
    have := hw v
    simp only [List.drop_succ_cons, List.drop_zero] at this
    rw [this, ih]

/-- the `call` script is `runGroup` over the callbacks whose `condition` holds for the event (`applicable`) -/
theorem runXA_call (h : Nested) (m : Machine) (x : Ctx) (ph : Phase) (ev : EventId) (specs : List CbSpec) :
    runXA (fun c => runCb h m x ph c) m.truthy Expected.wrapperCall ev Expected.execCall specs
      = runGroup h m x ph (applicable ev specs) := by
  simp only [Expected.execCall, runXA]
  exact callEach_runGroup h m x ph _ (fun v => (wrapper_meaning m.truthy v true).2.1) rfl _

/-- … and so is `async_call` (tasks spawned for the applicable callbacks, gathered; read sequentially) -/
theorem runXA_async_call (h : Nested) (m : Machine) (x : Ctx) (ph : Phase) (ev : EventId) (specs : List CbSpec) :
    runXA (fun c => runCb h m x ph c) m.truthy Expected.wrapperDunder ev Expected.execAsyncCall specs
      = runGroup h m x ph (applicable ev specs) := by
  simp only [Expected.execAsyncCall, runXA]
  exact callEach_runGroup h m x ph _ (fun v => (wrapper_meaning m.truthy v true).2.2.2) rfl _

/-! ## Entry points -/

/-- calling a bound event is: put the trigger, run the processing loop, hand back what the loop returns — the model's
`send` -/
theorem runE_send (m : Machine) (o : Opts) (fuel : Nat) (e : EventId) :
    runE (process m o fuel) e Expected.eventCall none = send m o fuel e := by
  simp [Expected.eventCall, runE, send]

/-- `sm.send(name)` resolves the name to an event bound to this machine — the declared one, or an ad-hoc one for an
undeclared name — and calls it: `send()`, the event method, an item of `events` / `allowed_events` are one entry
point (C13), also for names that are no events -/
theorem runS_send (m : Machine) (o : Opts) (fuel : Nat) (e : EventId) :
    runS (fun e => runE (process m o fuel) e Expected.eventCall none) e Expected.smSend none = send m o fuel e := by
  simp [Expected.smSend, runS, runE_send]

/-- `BaseEngine.start` queues the engine's own activation trigger iff the model holds no state -/
theorem runStart_start : runStart Expected.engineStart = start := by
  unfold start
  simp only [Expected.engineStart, runStart]
  refine bind_congr fun cfg => ?_
  cases cfg.cur <;> simp

/-- the names stripped from the caller's keywords (`Event.__call__`) are exactly the names `EventData` injects
(`extended_kwargs`), eight of them: a user value never shadows a built-in, and nothing else is taken away (C07) -/
theorem reserved_eq_injected :
    Expected.reservedNames = Expected.injectedNames ∧ Expected.reservedNames.length = 8 ∧
    Expected.reservedNames.Nodup := by decide

end SMV.Src

