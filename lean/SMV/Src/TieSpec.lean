import SMV.Src.Expected
/-!
# The callback specs every owner gets, as the source says (C02, C12, C14, C08)
-/
namespace SMV.Src
open P SMV.Reg

/-- the priorities are the numbers the registry model's `Spec.prio` uses (`insort` orders executors by them) -/
theorem priorities_model :
    Expected.specs.priorities = [("GENERIC", 0), ("INLINE", 10), ("DECORATOR", 20), ("NAMING", 30), ("AFTER", 40)] := by
  decide

/-- `Transition._setup`: the generic `before_transition` / `on_transition` first (priority GENERIC), then for every event
of the transition `before_<e>` / `on_<e>` / `after_<e>` (priority NAMING) — *scoped to that event* — and last the
generic `after_transition` (priority AFTER); no convention spec for guards or validators -/
theorem transitionSetup_shape :
    Expected.specs.transitionSetup =
      [⟨"before", "before_transition", "GENERIC", false⟩, ⟨"on", "on_transition", "GENERIC", false⟩,
       ⟨"before", "before_*", "NAMING", true⟩, ⟨"on", "on_*", "NAMING", true⟩, ⟨"after", "after_*", "NAMING", true⟩,
       ⟨"after", "after_transition", "AFTER", false⟩] := by decide

/-- `State._setup`: `on_enter_state` / `on_exit_state` (GENERIC) and `on_enter_<id>` / `on_exit_<id>` (NAMING) -/
theorem stateSetup_shape :
    Expected.specs.stateSetup =
      [⟨"enter", "on_enter_state", "GENERIC", false⟩, ⟨"enter", "on_enter_*", "NAMING", false⟩,
       ⟨"exit", "on_exit_state", "GENERIC", false⟩, ⟨"exit", "on_exit_*", "NAMING", false⟩] := by decide

/-- an event-named convention callback becomes a model `Spec` with `only := some e`: it runs for that event only
(C02: "event-scoped callbacks on multi-event transitions"), the generic ones with `only := none` -/
theorem event_convention_is_scoped (g : Group) (n : Prov.Name) (e : EventId) :
    (⟨"on", "on_*", "NAMING", true⟩ : Conv).toSpec Expected.specs.priorities g n e =
      some { group := g, ref := .name n, prio := 30, only := some e, expected := true } ∧
    (⟨"after", "after_transition", "AFTER", false⟩ : Conv).toSpec Expected.specs.priorities g n e =
      some { group := g, ref := .name n, prio := 40, only := none, expected := true } := by
  constructor <;> rfl

/-- two specs are the same spec iff function, group and expected value agree (`cond="x"` and `unless="x"` differ: D20);
the spec list ignores a spec that is already there, executors are per (group, owner's spec list), and an event-scoped
callback applies iff the event *is* that event -/
theorem spec_identity :
    Expected.specs.specEq = .funcGroupExpected ∧
    Expected.specs.listAdd = [.specOrBuild, .returnIfEqualSpecPresent, .append, .noteConvention, .ret] ∧
    Expected.specs.groupKeyPerOwnerList = true ∧ Expected.specs.sameEventIsEquality = true := by decide

end SMV.Src
