import SMV.Model.Binder
/-!
# Source-derived script of `SignatureAdapter.bind_expected` (C07)

`harness/srcgen.py` reads `statemachine/signature.py` and writes `bind_expected` as a list of `FStmt`: the
initialisations, the `while True` loop over the positional arguments (its skeleton — `try: arg_val = next(arg_vals)`
/ `except StopIteration:` / `else:` with `param = next(parameters)` inside either arm — is fixed by the
recogniser; the two blocks of tests and assignments that decide what happens to the current parameter are
translated *structurally*: every `if`/`elif`/`else`, every test and every statement becomes a node of `BBlock`),
the `for param in chain(parameters_ex, parameters)` loop, the trailing `if kwargs:` and the `return`.

This file gives such a script its meaning (`runBind`); `SMV/Src/TieBind.lean` proves that the script of the tree
the theorems were proved for means `SMV.Bind.bindExpected true` — the function `C07_receive` and the other C07
theorems are about.

No imports beyond the model.
-/
namespace SMV.Src.B
open SMV.Bind

/-- the tests `bind_expected` makes on the current parameter -/
inductive BCond
  /-- `param.kind == Parameter.<K>` -/
  | kindIs (k : Kind)
  /-- `param.kind != Parameter.<K>` -/
  | kindNe (k : Kind)
  /-- `param.name in kwargs` -/
  | nameInKw
  /-- `param.default is not Parameter.empty` -/
  | hasDefault
  | and (a b : BCond)
  | or (a b : BCond)
deriving DecidableEq, Repr

/-- the simple statements of the two loops -/
inductive BAct
  /-- `raise TypeError(msg) from None` -/
  | raiseTypeError
  /-- `parameters_ex = (param,)` -/
  | pushBack
  /-- `kwargs_param = param` -/
  | rememberVk
  /-- `values = [arg_val]; values.extend(arg_vals); arguments[param.name] = tuple(values)` -/
  | fillVarPos
  /-- `arguments[param.name] = kwargs.pop(param.name)` -/
  | assignPop
  /-- `arguments[param.name] = arg_val` -/
  | assignArg
  /-- `try: arg_val = kwargs.pop(param_name)` / `except KeyError: pass` / `else: arguments[param_name] = arg_val` -/
  | popIfPresent
  | brk
  | cont
deriving DecidableEq, Repr

mutual
inductive BStmt
  | act (a : BAct)
  /-- `if c: t else: e` (`elif` is an `if` in the else block; a missing `else` is the empty block) -/
  | ite (c : BCond) (t e : BBlock)
inductive BBlock
  | nil
  | cons (s : BStmt) (rest : BBlock)
end
deriving instance DecidableEq for BStmt, BBlock

def blk : List BStmt → BBlock
  | [] => .nil
  | s :: r => .cons s (blk r)

/-- the locals of `bind_expected` the blocks read and write -/
structure BSt where
  /-- `arguments` (insertion ordered) -/
  args : Arguments
  /-- `kwargs` -/
  kw : KW
  /-- `parameters_ex` -/
  ex : List Param
  /-- `kwargs_param` -/
  vk : Option Param
  /-- what the iterator `arg_vals` still holds -/
  avs : List Val
deriving Repr

/-- how a block ends: fell through, `break`, `continue`, or an exception (`none` of the model) -/
inductive BSig
  | next (s : BSt)
  | brk (s : BSt)
  | cont (s : BSt)
  | err
deriving Repr

def BCond.holds (p : Param) (kw : KW) : BCond → Bool
  | .kindIs k => p.kind == k
  | .kindNe k => p.kind != k
  | .nameInKw => (kwGet kw p.name).isSome
  | .hasDefault => p.dflt
  | .and a b => a.holds p kw && b.holds p kw
  | .or a b => a.holds p kw || b.holds p kw

/-- `p` is the current `param`, `a` the current `arg_val` (absent in the arm where the positional arguments are
used up and in the second loop: reading it there would be a `NameError`, modelled as `err`) -/
def doAct (p : Param) (a : Option Val) (s : BSt) : BAct → BSig
  | .raiseTypeError => .err
  | .pushBack => .next { s with ex := [p] }
  | .rememberVk => .next { s with vk := some p }
  | .fillVarPos =>
    match a with
    | some v => .next { s with args := s.args ++ [(p.name, .tuple (v :: s.avs))], avs := [] }
    | none => .err
  | .assignPop =>
    match kwGet s.kw p.name with
    | some v => .next { s with args := s.args ++ [(p.name, .one v)], kw := kwErase s.kw p.name }
    | none => .err
  | .assignArg =>
    match a with
    | some v => .next { s with args := s.args ++ [(p.name, .one v)] }
    | none => .err
  | .popIfPresent =>
    match kwGet s.kw p.name with
    | some v => .next { s with args := s.args ++ [(p.name, .one v)], kw := kwErase s.kw p.name }
    | none => .next s
  | .brk => .brk s
  | .cont => .cont s

mutual
def runStmt (p : Param) (a : Option Val) : BStmt → BSt → BSig
  | .act x, s => doAct p a s x
  | .ite c t e, s => if c.holds p s.kw then runBlk p a t s else runBlk p a e s
def runBlk (p : Param) (a : Option Val) : BBlock → BSt → BSig
  | .nil, s => .next s
  | .cons x r, s =>
    match runStmt p a x s with
    | .next s' => runBlk p a r s'
    | other => other
end

/-- the `while True` loop. Every round takes one parameter from the iterator `parameters` (the list argument);
`next(parameters)` raising `StopIteration` is a `break` in either arm. Result: the locals and what `parameters`
still holds; `none` = an exception. -/
def runWhile (noArg withArg : BBlock) : List Param → BSt → Option (BSt × List Param)
  | [], s => some (s, [])
  | p :: ps, s =>
    match s.avs with
    | [] =>
      match runBlk p none noArg s with
      | .next s' => runWhile noArg withArg ps s'
      | .cont s' => runWhile noArg withArg ps s'
      | .brk s' => some (s', ps)
      | .err => none
    | a :: as =>
      match runBlk p (some a) withArg { s with avs := as } with
      | .next s' => runWhile noArg withArg ps s'
      | .cont s' => runWhile noArg withArg ps s'
      | .brk s' => some (s', ps)
      | .err => none

/-- `for param in <the list>: body` -/
def runFor (body : BBlock) : List Param → BSt → Option BSt
  | [], s => some s
  | p :: ps, s =>
    match runBlk p none body s with
    | .next s' => runFor body ps s'
    | .cont s' => runFor body ps s'
    | .brk s' => some s'
    | .err => none

/-- one top-level statement of `bind_expected` -/
inductive FStmt
  /-- `arguments = {}` -/
  | initArguments
  /-- `parameters = iter(self.parameters.values())` -/
  | iterParameters
  /-- `arg_vals = iter(args)` -/
  | iterArgs
  /-- `parameters_ex = ()` -/
  | initEx
  /-- `kwargs_param = None` -/
  | initVk
  /-- the `while True:` loop; `noArg` / `withArg` are the `else` blocks of the two `param = next(parameters)` -/
  | whileLoop (noArg withArg : BBlock)
  /-- `for param in chain(parameters_ex, parameters): body` -/
  | forRest (body : BBlock)
  /-- `if kwargs: if kwargs_param is not None: arguments[kwargs_param.name] = kwargs` -/
  | storeRestKw
  /-- `return BoundArguments(self, arguments)` -/
  | retBound
deriving DecidableEq

/-- the locals of the function; `none` = not assigned yet (reading it is a `NameError`) -/
structure FSt where
  arguments : Option Arguments := none
  params : Option (List Param) := none
  avs : Option (List Val) := none
  ex : Option (List Param) := none
  vk : Option (Option Param) := none
  kw : KW

def FSt.pack (f : FSt) : Option (BSt × List Param) :=
  match f.arguments, f.params, f.avs, f.ex, f.vk with
  | some a, some ps, some av, some ex, some vk => some (⟨a, f.kw, ex, vk, av⟩, ps)
  | _, _, _, _, _ => none

def FSt.unpack (f : FSt) (s : BSt) (ps : List Param) : FSt :=
  { arguments := some s.args, params := some ps, avs := some s.avs, ex := some s.ex, vk := some s.vk, kw := s.kw }

/-- `bind_expected(*args, **kw)` on a signature `sig` as the script says; `none` = an exception -/
def runF (sig : List Param) (args : List Val) : List FStmt → FSt → Option Arguments
  | [], _ => none            -- falls off the end: returns `None`, no `BoundArguments`
  | .initArguments :: r, f => runF sig args r { f with arguments := some [] }
  | .iterParameters :: r, f => runF sig args r { f with params := some sig }
  | .iterArgs :: r, f => runF sig args r { f with avs := some args }
  | .initEx :: r, f => runF sig args r { f with ex := some [] }
  | .initVk :: r, f => runF sig args r { f with vk := some none }
  | .whileLoop n w :: r, f =>
    match f.pack with
    | none => none
    | some (s, ps) =>
      match runWhile n w ps s with
      | none => none
      | some (s', ps') => runF sig args r (f.unpack s' ps')
  | .forRest b :: r, f =>
    match f.pack with
    | none => none
    | some (s, ps) =>
      match runFor b (s.ex ++ ps) s with
      | none => none
      | some s' => runF sig args r (f.unpack s' [])
  | .storeRestKw :: r, f =>
    match f.arguments, f.vk with
    | some a, some vk =>
      if f.kw.isEmpty then runF sig args r f
      else
        match vk with
        | some p => runF sig args r { f with arguments := some (a ++ [(p.name, .dict f.kw)]) }
        | none => runF sig args r f
    | _, _ => none
  | .retBound :: _, f => f.arguments

def runBind (script : List FStmt) (sig : List Param) (args : List Val) (kw : KW) : Option Arguments :=
  runF sig args script { kw := kw }

/-! ## `dispatcher.callable_method`: the adapter closure -/

/-- statements of `signature_adapter` (both the plain and the `async def` one) -/
inductive CStmt
  /-- `ba = sig_bind_expected(*args, **kwargs)` where `sig_bind_expected = sig.bind_expected` and
  `sig = SignatureAdapter.from_callable(a_callable)` -/
  | bindExpected
  /-- `return a_callable(*ba.args, **ba.kwargs)`; `awaited`: `return await …` -/
  | retCall (awaited : Bool)
deriving DecidableEq, Repr

/-- what the callable finds in its frame -/
def runC (bind : List Param → List Val → KW → Option Arguments) (adapter own : List Param) (args : List Val) (kw : KW) :
    List CStmt → Option Arguments → Option Frame
  | [], _ => none
  | .bindExpected :: r, _ =>
    match bind adapter args kw with
    | none => none
    | some A => runC bind adapter own args kw r (some A)
  | .retCall _ :: _, ba =>
    match ba with
    | none => none
    | some A => pyCall own (baArgs adapter A) (baKwargs adapter A false)

/-- `sig = SignatureAdapter.from_callable(a_callable)`: the adapter is the one the cache hands out for the callable
itself (not for something derived from it) -/
inductive CPre | adapterOfCallable
deriving DecidableEq, Repr

/-- `signature_adapter.is_coroutine = sig.is_coroutine`, `return signature_adapter` -/
inductive CPost | markCoroutine | retAdapter
deriving DecidableEq, Repr

/-- `callable_method`: `if sig.is_coroutine:` chooses between an `async def` adapter and a plain one -/
structure CallableScript where
  pre : List CPre
  asyncBody : List CStmt
  syncBody : List CStmt
  post : List CPost
deriving DecidableEq, Repr

def CallableScript.body (c : CallableScript) (isCoroutine : Bool) : List CStmt :=
  if isCoroutine then c.asyncBody else c.syncBody

/-- the adapter awaits the callable exactly when the callable is a coroutine function -/
def CallableScript.awaitsOk (c : CallableScript) : Bool :=
  c.asyncBody.all (fun s => match s with | .retCall a => a | _ => true) &&
  c.syncBody.all (fun s => match s with | .retCall a => !a | _ => true)

end SMV.Src.B
