import SMV.Src.Expected
import SMV.Model.Expr
/-!
# The closures of `spec_parser.py` mean the clauses of the expression model

`Expected.parser` is what `harness/srcgen.py` reads off `statemachine/spec_parser.py`: the `return` statement of each
inner closure (`custom_not`, `custom_and`, `custom_or`, `build_constant`, the comparator), the branches of
`build_expression`, `operator_mapping`, `replacements` and the statements of `parse_boolean_expr`. Here each closure
body is given its one-step meaning (`stepNot`, `stepAnd`, `stepOr`, `stepCmp`) and the clauses of `evalLib`
(`SMV/Model/Expr.lean`, the model `C08_eval` is about) are shown to be exactly these steps; the remaining fields are
pinned by `decide`: which AST class is built by which combinator, that a chain of comparisons is the conjunction of
its links with the middle operand carried over, the operator spellings that are rewritten.
-/
namespace SMV.Src
open SMV.GExpr

/-- `return not predicate(…)` -/
def stepNot : CombBody → R → R
  | .notCall, r => ⟨r.val.map (fun v => .bool (!truthy v)), r.reads⟩
  | _, r => r

/-- `return left(…) and right(…)`: Python's `and` — the left value when it is falsy (the right operand is not
called), else the right value -/
def stepAnd : CombBody → R → (Unit → R) → R
  | .andCalls, ra, rb =>
    match ra.val with
    | none => ra
    | some va => if truthy va then let r := rb (); ⟨r.val, ra.reads ++ r.reads⟩ else ra
  | _, ra, _ => ra

/-- `return left(…) or right(…)` -/
def stepOr : CombBody → R → (Unit → R) → R
  | .orCalls, ra, rb =>
    match ra.val with
    | none => ra
    | some va => if truthy va then ra else let r := rb (); ⟨r.val, ra.reads ++ r.reads⟩
  | _, ra, _ => ra

/-- `return bool(operator(left(…), right(…)))` on two operand values -/
def stepCmp : CombBody → Sem → Cmp → V → V → Option V
  | .boolOfOp, S, op, l, r => (S.cmp op l r).map V.bool
  | _, _, _, l, _ => some l

theorem evalLib_not (S : Sem) (ρ : Env) (re : Bool) (e : E) :
    evalLib S ρ re (.not e) = stepNot Expected.parser.notB (evalLib S ρ re e) := by
  simp [evalLib, stepNot, Expected.parser]

theorem evalLib_and (S : Sem) (ρ : Env) (re : Bool) (a b : E) :
    evalLib S ρ re (.and a b) = stepAnd Expected.parser.andB (evalLib S ρ re a) (fun _ => evalLib S ρ re b) := by
  rcases hv : (evalLib S ρ re a).val with _ | va <;> simp [evalLib, stepAnd, Expected.parser, hv]

theorem evalLib_or (S : Sem) (ρ : Env) (re : Bool) (a b : E) :
    evalLib S ρ re (.or a b) = stepOr Expected.parser.orB (evalLib S ρ re a) (fun _ => evalLib S ρ re b) := by
  rcases hv : (evalLib S ρ re a).val with _ | va <;> simp [evalLib, stepOr, Expected.parser, hv]

/-- the last link of a chain of comparisons is the comparator's closure on the two operand values -/
theorem chainLib_last (S : Sem) (ρ : Env) (re : Bool) (lv : V) (op : Cmp) (r : E) (rv : V)
    (h : (evalLib S ρ re r).val = some rv) :
    (chainLib S ρ re lv (.last op r)).val = stepCmp Expected.parser.cmpB S op lv rv := by
  simp [chainLib, h, stepCmp, Expected.parser]

/-- what builds the closure of each AST operator, the order of the `isinstance` branches, the statements of
`parse_boolean_expr` (blank text is a `SyntaxError`; a bare identifier that is not a keyword is looked up at once;
everything else is rewritten, parsed by CPython and built), and the three alternate operator spellings -/
theorem parser_shape :
    Expected.parser.mapping =
      [("ast.And", "custom_and"), ("ast.Eq", "build_custom_operator(operator.eq)"),
       ("ast.Gt", "build_custom_operator(operator.gt)"), ("ast.GtE", "build_custom_operator(operator.ge)"),
       ("ast.Lt", "build_custom_operator(operator.lt)"), ("ast.LtE", "build_custom_operator(operator.le)"),
       ("ast.Not", "custom_not"), ("ast.NotEq", "build_custom_operator(operator.ne)"), ("ast.Or", "custom_or")] ∧
    Expected.parser.branches.take 5 = [.boolOpFoldLeft, .compareLinksAnd, .unaryNot, .name, .constant] ∧
    Expected.parser.branches.getLast? = some .unsupported ∧
    Expected.parser.parse = [.rejectBlank, .fastPathName, .replaceOperators, .parseEval, .build] ∧
    Expected.parser.replacements = [("!", " not "), ("^", " and "), ("v", " or ")] ∧
    Expected.parser.constB = .constant := by decide

end SMV.Src
