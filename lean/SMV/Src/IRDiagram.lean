import SMV.Model.Diagram
/-!
# Source-derived scripts of `contrib/diagram.py` (C18)

`harness/srcgen.py` reads `DotGraphMachine.get_graph`, `_state_as_node`, `_transition_as_edge`, `_current_state`,
`_state_actions`, `_initial_node`, `_initial_edge` and writes them as the scripts below; this file interprets the
first four over the diagram model (`SMV/Model/Diagram.lean`) and `SMV/Src/TieDiagram.lean` proves that they are
`build` / `stateNode` / `transEdge` and the "current state" of `getGraph`.

No imports beyond the model.
-/
namespace SMV.Src.G
open SMV.Diagram

/-- inner loop of `get_graph` -/
inductive TLoop
  /-- `if transition.internal: continue` -/
  | skipInternal
  /-- `graph.add_edge(self._transition_as_edge(transition))` -/
  | addEdge
deriving DecidableEq, Repr

/-- outer loop of `get_graph` -/
inductive SLoop
  /-- `graph.add_node(self._state_as_node(state))` -/
  | addStateNode
  /-- `for transition in state.transitions:` body -/
  | forTransitions (body : List TLoop)
deriving DecidableEq, Repr

inductive GStmt
  /-- `graph = self._get_graph()` -/
  | newGraph
  /-- `graph.add_node(self._initial_node())` -/
  | addInitialNode
  /-- `graph.add_edge(self._initial_edge())` -/
  | addInitialEdge
  /-- `for state in self.machine.states:` body -/
  | forStates (body : List SLoop)
  | ret
deriving DecidableEq, Repr

def runTLoop (edgeOf : TransDef → Edge) (body : List TLoop) : List TransDef → List Item
  | [] => []
  | t :: ts =>
    let rec go : List TLoop → List Item
      | [] => []
      | .skipInternal :: r => if t.internal then [] else go r
      | .addEdge :: r => .edge (edgeOf t) :: go r
    go body ++ runTLoop edgeOf body ts

def runSLoop (nodeOf : StateDef → Node) (edgeOf : StateDef → TransDef → Edge) (body : List SLoop) :
    List StateDef → List Item
  | [] => []
  | s :: ss =>
    let rec go : List SLoop → List Item
      | [] => []
      | .addStateNode :: r => .node (nodeOf s) :: go r
      | .forTransitions b :: r => runTLoop (edgeOf s) b s.trans ++ go r
    go body ++ runSLoop nodeOf edgeOf body ss

/-- the `add_node` / `add_edge` calls of `get_graph`, in order; `none` = `graph` used before it exists / no `return` -/
def runGraph (m : Machine) (ini : StateDef) (nodeOf : StateDef → Node) (edgeOf : StateDef → TransDef → Edge) :
    List GStmt → Option (List Item) → Option (List Item)
  | [], _ => none
  | .newGraph :: r, _ => runGraph m ini nodeOf edgeOf r (some [])
  | .addInitialNode :: r, g => runGraph m ini nodeOf edgeOf r (g.map (· ++ [.node initNode]))
  | .addInitialEdge :: r, g => runGraph m ini nodeOf edgeOf r (g.map (· ++ [.edge (initEdge ini)]))
  | .forStates b :: r, g => runGraph m ini nodeOf edgeOf r (g.map (· ++ runSLoop nodeOf edgeOf b m.states))
  | .ret :: _, g => g

/-- `_state_as_node(state)` -/
inductive NStmt
  /-- `actions = self._state_actions(state)` -/
  | actions
  /-- `node = pydot.Node(state.id, label=f"{state.name}{actions}", …, peripheries=2 if state.final else 1)` -/
  | mkNode
  /-- `if state == self._current_state(): set_penwidth(active); set_fillcolor(active) else: set_fillcolor("white")` -/
  | highlightIffCurrent
  | ret
deriving DecidableEq, Repr

structure NSt where
  haveActions : Bool := false
  node : Option Node := none

def runNode (cur : Option StateDef) (s : StateDef) : List NStmt → NSt → Option Node
  | [], _ => none
  | .actions :: r, st => runNode cur s r { st with haveActions := true }
  | .mkNode :: r, st =>
    if st.haveActions then
      runNode cur s r { st with node := some { id := s.id, label := some (stateLabel s),
                                               peripheries := some (if s.final then 2 else 1), highlighted := false } }
    else none
  | .highlightIffCurrent :: r, st =>
    match st.node with
    | none => none
    | some n => runNode cur s r { st with node := some { n with highlighted := isCurrent cur s } }
  | .ret :: _, st => st.node

/-- `_transition_as_edge(transition)` -/
inductive EStmt
  /-- `cond = ", ".join([str(cond) for cond in transition.cond])` -/
  | joinGuards
  /-- `if cond: cond = f"\n[{cond}]"` -/
  | bracketIfAny
  /-- `return pydot.Edge(transition.source.id, transition.target.id, label=f"{transition.event}{cond}", …)` -/
  | retEdge
deriving DecidableEq, Repr

def runEdge (s : StateDef) (t : TransDef) : List EStmt → Bool → Option Edge
  | [], _ => none
  | .joinGuards :: r, _ => runEdge s t r true
  | .bracketIfAny :: r, j => runEdge s t r j
  | .retEdge :: _, j => if j then some { src := s.id, dst := t.target, label := ⟨t.events, t.guards⟩ } else none

/-- `_current_state()` -/
inductive CStmt
  /-- `if getattr(self.machine, "current_state_value", None) is None: return None` -/
  | noneIfNoValue
  /-- `return self.machine.current_state` -/
  | retCurrentState
deriving DecidableEq, Repr

/-- what the nodes are compared with: `none` = nothing is highlighted; `error` = `InvalidStateValue` -/
def runCurrent (m : Machine) (sub : Subject) : List CStmt → Option (Except Err (Option StateDef))
  | [.noneIfNoValue, .retCurrentState] =>
    some (match sub with
      | .cls => .ok none          -- for a class `current_state` is a property object: equal to no state
      | .unset => .ok none
      | .inst v =>
        match lookupValue m.states v with
        | none => .error .invalidStateValue
        | some c => .ok (some c))
  | _ => none

/-- `_state_actions`, `_initial_node`, `_initial_edge`: shapes -/
inductive AStmt
  | getter
  /-- `entry = str(getter(state.enter))` -/
  | entryOfEnter
  /-- `exit_ = str(getter(state.exit))` -/
  | exitOfExit
  /-- `internal = ", ".join(f"{transition.event} / {str(getter(transition.on))}" for transition in state.transitions if transition.internal)` -/
  | internalsEventSlashOn
  /-- `if entry: entry = f"entry / {entry}"` -/
  | prefixEntry
  /-- `if exit_: exit_ = f"exit / {exit_}"` -/
  | prefixExit
  /-- `actions = "\n".join(x for x in [entry, exit_, internal] if x)` -/
  | joinNonEmptyLines
  /-- `if actions: actions = f"\n{actions}"` -/
  | leadingNewlineIfAny
  | ret
deriving DecidableEq, Repr

structure DiagramScript where
  getGraph : List GStmt
  stateAsNode : List NStmt
  transitionAsEdge : List EStmt
  currentState : List CStmt
  stateActions : List AStmt
  /-- name of the pseudo-node in `_initial_node` and source of `_initial_edge`; target expression of the edge -/
  initialNode : String
  initialEdge : String × String
deriving DecidableEq, Repr

end SMV.Src.G
