import SMV.Src.Expected
/-!
# Names inside guard expressions, as the source says (C08, C12)
-/
namespace SMV.Src
open T SMV.GExpr

/-- **`_take_callback` is the model's `provExpr`**: a name stands for the conjunction (`reduce(custom_and, …)`, in
provider order) of what its providers offer; a single provider for itself; none for `allways_true` — and exactly then
the name is reported as not found (the model's `unknowns`) -/
theorem runTake_provExpr (slots : List Nat) :
    runTake slots Expected.takeCallback.take = some (provExpr slots, slots.isEmpty) := by
  cases slots with
  | nil => rfl
  | cons s ss => cases ss <;> rfl

/-- so the expression `build_expression` builds with `variable_hook = _take_callback` is `subst prov e` at every name -/
theorem name_is_conjunction_of_providers (prov : Nat → List Nat) (n : Nat) :
    (runTake (prov n) Expected.takeCallback.take).map (·.1) = some (subst prov (.name n)) := by
  rw [runTake_provExpr]; simp [subst]

/-- `Listeners.build`: specs that cannot hold an expression go through `search`; otherwise the text is parsed (a syntax
error is `InvalidDefinition`, at once), an expression some name of which nobody provides registers nothing — the names
are kept for the constructor's check —, else the expression is yielded under its own key -/
theorem build_shape :
    Expected.takeCallback.build = [.plainSpecsSearch, .prepareNotFound, .parseOrInvalidDefinition,
      .registerNothingIfNamesMissing, .yieldExpression] ∧
    Expected.takeCallback.search = [.dispatchOnReference, .boundMethodOfFirstProviderElseFunction,
      .firstProviderWhoseClassHasThatProperty] := by decide

end SMV.Src
