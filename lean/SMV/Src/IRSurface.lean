/-!
# The special methods the library's classes define, and the bodies identity rests on (C10, C13, C16, C17, C18)

Which `__dunder__` methods every class of the package defines (a class that grows a `__deepcopy__`, `__reduce_ex__`,
`__copy__`, `__ior__`, `__hash__` … behaves differently without any existing function changing), and the bodies of
`State.__eq__` / `__hash__` / `__get__` / `for_instance` / `_set_id`, `InstanceState.__eq__` / `__hash__` / `is_active`,
`Event.__get__`.
-/
namespace SMV.Src.U

/-- `State.__eq__`, `__hash__`, … as recognised bodies -/
inductive Body
  /-- `return isinstance(other, State) and self.name == other.name and self.id == other.id` -/
  | stateEqByNameAndId
  /-- `return hash(repr(self))` -/
  | hashOfRepr
  /-- `if machine is None: return self`; `return self.for_instance(machine=machine, cache=machine._states_for_instance)` -/
  | classGivesStateInstanceGivesInstanceState
  /-- `if self not in cache: cache[self] = InstanceState(self, machine)`; `return cache[self]` -/
  | oneInstanceStatePerMachine
  /-- `self._id = id`; value defaults to the id; name defaults to the id with blanks, capitalised -/
  | idThenDefaultValueAndName
  /-- `return self._state() == other` -/
  | delegateEqToState
  /-- `return hash(repr(self._state()))` -/
  | hashOfStateRepr
  /-- `return self._machine().current_state == self` -/
  | activeIffCurrent
  /-- `if instance is None: return self`; `return BoundEvent(id=self.id, name=self.name, _sm=instance)`: a fresh trigger
  bound to *that* instance at every access -/
  | freshBoundEventPerAccess
deriving DecidableEq, Repr

structure SurfaceScript where
  /-- (file, class, the special methods it defines — sorted) -/
  dunders : List (String × String × List String)
  stateEq : Body
  stateHash : Body
  stateGet : Body
  forInstance : Body
  setId : Body
  instEq : Body
  instHash : Body
  isActive : Body
  eventGet : Body
deriving DecidableEq, Repr

def dundersOf (s : SurfaceScript) (cls : String) : List String :=
  match s.dunders.find? (·.2.1 == cls) with
  | some x => x.2.2
  | none => []

/-- copying goes through `__getstate__` / `__setstate__` of the machine only: nothing defines `__copy__`,
`__deepcopy__`, `__reduce__` or `__reduce_ex__` -/
def noCopyHooks (s : SurfaceScript) : Bool :=
  s.dunders.all fun x => !(x.2.2.any fun d => d == "__copy__" || d == "__deepcopy__" || d == "__reduce__" || d == "__reduce_ex__")

end SMV.Src.U
