import SMV.Src.Expected
/-!
# The declared objects, as the source says (C09, C10, C13, C15)
-/
namespace SMV.Src
open O

/-- **a declared value is kept whatever its truth value**: `_set_id` replaces the value by the id only when none was
given (`is None`), so a state declared with `value=0`, `""` or `False` is stored as that value — for every truth test
`falsy` (the store model's `valueOf` takes the declared value as it is: C10) -/
theorem setId_keeps_a_given_value (falsy : Nat → Bool) (id : String) (s : St) (v : Nat) (h : s.value = some v) :
    runSetId falsy id Expected.objects.setId s = { s with id := id, named := true } := by
  simp [Expected.objects, runSetId, h]

/-- and a state declared without a value takes its id as value -/
theorem setId_defaults_to_the_id (falsy : Nat → Bool) (id : String) (s : St) (h : s.value = none) :
    runSetId falsy id Expected.objects.setId s = { s with id := id, valueIsId := true, named := true } := by
  simp [Expected.objects, runSetId, h]

/-- with a truth test in place of `is None` the first theorem is false: the witness the script would have to match -/
example : runSetId (fun v => v == 0) "s" [.assignId, .valueDefaultsToId .falsy, .nameDefaultsFromId] { value := some 0 }
    = { id := "s", value := none, valueIsId := true, named := true } := by decide

/-- every `State` has a transition list and a spec list of its own, its inline `enter` / `exit` callbacks are added
with priority INLINE to the ENTER / EXIT groups of that list -/
theorem stateInit_shape :
    Expected.objects.stateInit = [.field "name" "name", .field "value" "value", .field "_initial" "initial",
      .field "_final" "final", .emptyId, .ownTransitionList, .ownSpecList, .enterInline, .exitInline] := by decide

/-- `Machine.state` is the declared object, `instance.state` the per-machine `InstanceState` from that machine's own
cache; assigning to it is refused -/
theorem state_descriptor_shape :
    Expected.objects.stateGet = [.classAccessItself, .instanceAccessCachedPerMachine] ∧
    Expected.objects.stateSet = [.raiseOverriding] := by decide

/-- `States`: keyed by id, iterated in declaration order; `from_enum` makes one state per member in member order, its
value the member's value (or the member), initial by identity, final by membership -/
theorem states_shape :
    Expected.objects.states = [.ownDictUnlessGiven, .appendKeyedById, .iterValuesInOrder,
      .getattrByKeyElseAttributeError, .enumFinalSet, .enumOneStatePerMember] := by decide

/-- an `Event` is the string of its id; an id is real iff one was given, a name is derived only from a real id -/
theorem eventNew_shape :
    Expected.objects.eventNew = [.stringFirstArgumentIsTheId, .realIdIffGiven, .idStrElseFresh, .strOfId, .assignId,
      .nameGivenElseFromRealIdElseEmpty, .keepTransitionsIfAny, .assignHasRealId, .assignMachine, .ret] := by decide

/-- a spec keeps what it was given; how it is resolved depends on the kind of `func` only; only a named, non-convention
condition may hold a boolean expression -/
theorem specInit_shape :
    Expected.objects.specInit = [.field "func" "func", .field "group" "group", .field "is_convention" "is_convention",
      .field "is_event" "is_event", .field "cond" "cond", .field "expected_value" "expected_value",
      .field "priority" "priority", .referenceByKindOfFunc, .expressionOnlyInNamedConditionsNotConvention] := by decide

end SMV.Src
