import SMV.Model.Expr
/-!
# Source-derived scripts of `Listeners._take_callback` / `build` / `_search_callable` / `_search_property` (C08, C12)

How a *name* inside a guard expression becomes a callable — none found: `allways_true` and the name is reported;
one provider: its callback; several: `reduce(custom_and, callbacks)` — and what `build` does with the parsed expression.
-/
namespace SMV.Src.T
open SMV.GExpr

/-- `_take_callback` after the loop that collects one callback per provider (`search_name`) -/
inductive TStmt
  /-- `for key, builder in self.search_name(name): callback = builder(); callback.unique_key = key; callbacks.append(callback)` -/
  | collectPerProvider
  /-- `if len(callbacks) == 0: names_not_found_handler(name); return allways_true` -/
  | noneReportAndAlwaysTrue
  /-- `elif len(callbacks) == 1: return callbacks[0]` -/
  | oneItself
  /-- `else: return reduce(custom_and, callbacks)` -/
  | severalReduceAnd
deriving DecidableEq, Repr

/-- the expression a name stands for, given the slots of its providers in provider order; second component: the
name was reported as not found -/
def runTake (slots : List Nat) : List TStmt → Option (E × Bool)
  | [.collectPerProvider, .noneReportAndAlwaysTrue, .oneItself, .severalReduceAnd] =>
    some (match slots with
      | [] => (.const (.bool true), true)
      | [s] => (.name s, false)
      | s :: ss => (ss.foldl (fun acc t => .and acc (.name t)) (.name s), false))
  | _ => none

/-- `Listeners.build(spec)` -/
inductive BStmt
  /-- `if not spec.may_contain_boolean_expression: yield from self.search(spec); return` -/
  | plainSpecsSearch
  /-- `names_not_found = set()`; `take_callback_partial = partial(self._take_callback, names_not_found_handler=names_not_found.add)` -/
  | prepareNotFound
  /-- `try: expression = parse_boolean_expr(spec.func, take_callback_partial, operator_mapping)` /
  `except SyntaxError as err: raise InvalidDefinition(…) from err` -/
  | parseOrInvalidDefinition
  /-- `if not expression or names_not_found: spec.names_not_found = names_not_found; return` -/
  | registerNothingIfNamesMissing
  /-- `yield expression.unique_key, lambda: expression` -/
  | yieldExpression
deriving DecidableEq, Repr

/-- `_search_callable` / `_search_property` / `search` -/
inductive SStmt
  /-- `search`: NAME → `search_name(spec.attr_name)`, CALLABLE → `_search_callable`, PROPERTY → `_search_property` -/
  | dispatchOnReference
  /-- `_search_callable`: an unbound function that is the `__func__` of an attribute of some provider is called as
  that provider's bound method (first provider that has it); otherwise the function itself, keyed by `id(func)` -/
  | boundMethodOfFirstProviderElseFunction
  /-- `_search_property`: the first provider whose *class* attribute is that very property object -/
  | firstProviderWhoseClassHasThatProperty
deriving DecidableEq, Repr

structure TakeScript where
  take : List TStmt
  build : List BStmt
  search : List SStmt
deriving DecidableEq, Repr

end SMV.Src.T
