import SMV.Model.Engine
import SMV.Model.Validate
/-!
# Source-derived scripts of the declaration layer's small functions (C01, C13, C15)

`harness/srcgen.py` reads `events.py` (`Events.match`, `add`, `_replace`), `transition.py` (`Transition.match`,
`_copy_with_args`), `transition_list.py` (`__or__`, `add_transitions`, `unique_events`, `_on_event_defined`,
`add_event`) and `state.py` (`_ToState.__call__`, `_FromState.__call__`, `_FromState.any`,
`AnyState._on_event_defined`). This file gives the ones the theorems lean on a meaning — event matching, the
ordered de-duplication behind `allowed_events`, the expansion of `from_.any()` — and `SMV/Src/TieDecl.lean` proves
that they are the model's `matchesEv`, `dedupe`, `expandAny`; the others are pinned as shapes.

No imports beyond the models.
-/
namespace SMV.Src.D

/-- `Events.match(event)` -/
inductive MatchBody
  /-- `return any(e == event for e in self)` -/
  | anyEqual
deriving DecidableEq, Repr

def MatchBody.run : MatchBody → List EventId → EventId → Bool
  | .anyEqual, evs, e => evs.any (· == e)

/-- `Transition.match(event)` -/
inductive TMatchBody
  /-- `return self._events.match(event)` -/
  | delegateToEvents
deriving DecidableEq, Repr

/-- a dict used as an insertion-ordered set (`d[k] = True`), and `Events.add`'s "skip what is there, else append" -/
def insertKey (acc : List Nat) (k : Nat) : List Nat := if acc.contains k then acc else acc ++ [k]

/-- `TransitionList.unique_events` -/
inductive UStmt
  /-- `tmp = {}` -/
  | initDict
  /-- `for transition in self.transitions: for event in transition.events: tmp[event] = True` -/
  | forTransitionsForEventsSetKey
  /-- `return list(tmp.keys())` -/
  | retKeys
deriving DecidableEq, Repr

def runUnique (evs : List (List EventId)) : List UStmt → Option (List EventId) → Option (List EventId)
  | [], _ => none
  | .initDict :: r, _ => runUnique evs r (some [])
  | .forTransitionsForEventsSetKey :: r, d =>
    match d with
    | none => none
    | some acc => runUnique evs r (some (evs.flatten.foldl insertKey acc))
  | .retKeys :: _, d => d

/-- body of the loops of `Events.add` -/
inductive EABody
  /-- `if event in self._items: continue` -/
  | skipIfPresent
  /-- `if isinstance(event, Event): self._items.append(event) else: self._items.append(Event(id=event, name=event))` -/
  | appendEventOrNew
deriving DecidableEq, Repr

/-- `Events.add(events)` -/
inductive EAStmt
  /-- `if events is None: return self` -/
  | returnSelfIfNone
  /-- `unprepared = ensure_iterable(events)` -/
  | ensureIterable
  /-- `for events in unprepared: for event in events.split(" "):` with the body below (a run of blanks yields an event
  named `""`: D46) -/
  | forEachSplitOnSpace (body : List EABody)
  /-- `for events in unprepared: for event in events.split():` — split on runs of whitespace, none at the ends -/
  | forEachSplitOnWhitespace (body : List EABody)
  | retSelf
deriving DecidableEq, Repr
/-- `Events._replace(old, new)`: `self._items.remove(old)`, `self._items.append(new)` -/
inductive ERStmt | removeOld | appendNew
deriving DecidableEq, Repr

def runReplace (old new : Nat) : List ERStmt → List Nat → List Nat
  | [], l => l
  | .removeOld :: r, l => runReplace old new r (l.erase old)
  | .appendNew :: r, l => runReplace old new r (l ++ [new])

/-- `AnyState._on_event_defined(event, transition, states)` -/
inductive AnyStmt
  /-- `if state.final: continue` -/
  | skipFinal
  /-- `new_transition = transition._copy_with_args(source=state, event=event)` -/
  | copyWithSourceAndEvent
  /-- `state.transitions.add_transitions(new_transition)` -/
  | addToState
deriving DecidableEq, Repr

/-- the edges `for state in states: <body>` adds, `states` being the indices registered so far -/
def runAny (isFinal : Nat → Bool) (tgt : Nat) (body : List AnyStmt) : List Nat → Option (List Validate.Edge)
  | [] => some []
  | i :: rest =>
    if body = [.skipFinal, .copyWithSourceAndEvent, .addToState] then
      match runAny isFinal tgt body rest with
      | none => none
      | some es => some (if isFinal i then es else ⟨i, tgt⟩ :: es)
    else none

/-- `Transition._copy_with_args(**kwargs)` -/
inductive CpStmt
  /-- `<x> = kwargs.pop("<x>", self.<x>)` -/
  | popOrOwn (name : String)
  /-- `new_transition = Transition(source=source, target=target, event=event, internal=internal, **kwargs)` -/
  | newTransition
  /-- `for spec in self._specs: new_spec = copy(spec); new_transition._specs.add(new_spec, new_spec.group)` —
  a *shallow* copy: the spec is new, the callable it refers to is the one that was given (D42) -/
  | forSpecsShallowCopySameGroup
  | ret
deriving DecidableEq, Repr

/-- `TransitionList`: `__or__`, `add_transitions`, `_on_event_defined`, `add_event` -/
inductive TLStmt
  /-- `return TransitionList(self.transitions).add_transitions(other)`: a new list, `self` is not touched -/
  | orIsNewListThenAdd
  /-- `if isinstance(transition, TransitionList): transition = transition.transitions` -/
  | unwrapList
  /-- `transitions = ensure_iterable(transition)` -/
  | ensureIterable
  /-- `for transition in transitions: self.transitions.append(transition)` -/
  | appendEachInOrder
  | retSelf
  /-- `self.add_event(event)` -/
  | addEventToAll
  /-- `for transition in self.transitions: transition.source._on_event_defined(event=…, transition=…, states=…)` -/
  | tellEachSource
  /-- `for transition in self.transitions: transition.add_event(event)` -/
  | forTransitionsAddEvent
deriving DecidableEq, Repr

/-- the builders `to` / `from_` -/
inductive BStmt
  /-- `transitions = TransitionList(Transition(self._state, state, **kwargs) for state in states)` -/
  | onePerTargetInOrder
  /-- `self._state.transitions.add_transitions(transitions)` -/
  | addToOwnState
  /-- `transitions = TransitionList()` -/
  | newList
  /-- `for origin in states: transition = Transition(origin, self._state, **kwargs);
  origin.transitions.add_transitions(transition); transitions.add_transitions(transition)` -/
  | onePerOriginAddedToOriginAndList
  /-- `return self.__call__(AnyState(), **kwargs)` -/
  | callWithAnyState
  | ret
deriving DecidableEq, Repr

structure DeclScript where
  eventsMatch : MatchBody
  transitionMatch : TMatchBody
  uniqueEvents : List UStmt
  eventsAdd : List EAStmt
  eventsReplace : List ERStmt
  anyOnEventDefined : List AnyStmt
  copyWithArgs : List CpStmt
  tlOr : List TLStmt
  tlAddTransitions : List TLStmt
  tlOnEventDefined : List TLStmt
  tlAddEvent : List TLStmt
  toCall : List BStmt
  fromCall : List BStmt
  fromAny : List BStmt
deriving DecidableEq, Repr

end SMV.Src.D
