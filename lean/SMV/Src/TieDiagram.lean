import SMV.Src.Expected
/-!
# The source-derived scripts of `contrib/diagram.py` mean the diagram model (C18)

`Expected.diagram` holds the scripts of `get_graph`, `_state_as_node`, `_transition_as_edge`, `_current_state`,
`_state_actions`, `_initial_node`, `_initial_edge`. Interpreted, `get_graph` over the scripts of the node and edge
builders makes exactly the `add_node` / `add_edge` calls of the model's `build`, with the state the nodes are compared
with chosen as `getGraph` chooses it — so `C18_*` (one node per state, one edge per external transition, labels,
highlighting) are theorems about what the source says.
-/
namespace SMV.Src
open SMV.Diagram G

/-- `_state_as_node` builds the model's `stateNode` -/
theorem runNode_stateNode (cur : Option Diagram.StateDef) (s : Diagram.StateDef) :
    runNode cur s Expected.diagram.stateAsNode {} = some (stateNode cur s) := by
  simp [Expected.diagram, runNode, stateNode]

/-- `_transition_as_edge` builds the model's `transEdge` -/
theorem runEdge_transEdge (s : Diagram.StateDef) (t : Diagram.TransDef) :
    runEdge s t Expected.diagram.transitionAsEdge false = some (transEdge s t) := by
  simp [Expected.diagram, runEdge, transEdge]

theorem runTLoop_transItems (s : Diagram.StateDef) (ts : List Diagram.TransDef) :
    runTLoop (transEdge s) [.skipInternal, .addEdge] ts = transItems s ts := by
  induction ts with
  | nil => rfl
  | cons t ts ih =>
    simp only [runTLoop, runTLoop.go, transItems, ih]
    cases t.internal <;> simp

theorem runSLoop_stateItems (cur : Option Diagram.StateDef) (ss : List Diagram.StateDef) :
    runSLoop (stateNode cur) transEdge [.addStateNode, .forTransitions [.skipInternal, .addEdge]] ss =
      stateItems cur ss := by
  induction ss with
  | nil => rfl
  | cons s ss ih =>
    simp only [runSLoop, runSLoop.go, stateItems, ih, runTLoop_transItems]
    simp

/-- **`get_graph` makes the `add_node` / `add_edge` calls of the model's `build`**, in the same order: the
pseudo-node, the initial edge, then every state's node followed by one edge per transition that is not internal -/
theorem runGraph_build (m : Diagram.Machine) (ini : Diagram.StateDef) (cur : Option Diagram.StateDef) :
    runGraph m ini (stateNode cur) transEdge Expected.diagram.getGraph none = some (build m ini cur).items := by
  simp [Expected.diagram, runGraph, build, runSLoop_stateItems]

/-- … with the node and edge builders taken from their own scripts -/
theorem runGraph_scripts (m : Diagram.Machine) (ini : Diagram.StateDef) (cur : Option Diagram.StateDef) :
    runGraph m ini (fun s => (runNode cur s Expected.diagram.stateAsNode {}).getD default)
      (fun s t => (runEdge s t Expected.diagram.transitionAsEdge false).getD default)
      Expected.diagram.getGraph none = some (build m ini cur).items := by
  have h1 : (fun s => (runNode cur s Expected.diagram.stateAsNode {}).getD default) = stateNode cur := by
    funext s; rw [runNode_stateNode]; rfl
  have h2 : (fun s t => (runEdge s t Expected.diagram.transitionAsEdge false).getD default) = transEdge := by
    funext s t; rw [runEdge_transEdge]; rfl
  rw [h1, h2, runGraph_build]

/-- `_current_state`: a class and a machine whose model holds no state highlight nothing (D38); an instance the state
its stored value maps to; an unmapped value is `InvalidStateValue` — what `getGraph` does -/
theorem runCurrent_getGraph (m : Diagram.Machine) (sub : Diagram.Subject) (ini : Diagram.StateDef) (hi : Diagram.initialState m = some ini) :
    (match runCurrent m sub Expected.diagram.currentState with
      | some (.ok cur) => Except.ok (build m ini cur)
      | some (.error e) => Except.error e
      | none => Except.error .noInitialState) = getGraph m sub := by
  cases sub with
  | cls => simp [Expected.diagram, runCurrent, getGraph, hi]
  | unset => simp [Expected.diagram, runCurrent, getGraph, hi]
  | inst v =>
    simp only [Expected.diagram, runCurrent, getGraph, hi]
    cases lookupValue m.states v <;> simp

/-- the label of a state lists `entry / …`, `exit / …` and the internal transitions as `event / on-actions`, empty
parts left out; the pseudo-node is called `i` and the initial edge leads from it to `machine.initial_state` -/
theorem diagram_shapes :
    Expected.diagram.stateActions = [.getter, .entryOfEnter, .exitOfExit, .internalsEventSlashOn, .prefixEntry,
      .prefixExit, .joinNonEmptyLines, .leadingNewlineIfAny, .ret] ∧
    Expected.diagram.initialNode = initId ∧
    Expected.diagram.initialEdge = (initId, "self.machine.initial_state.id") := by decide

end SMV.Src
