import SMV.Src.Expected
/-!
# The engine's small functions and the event data, as the source says (C03, C07, C11, C16)
-/
namespace SMV.Src
open E

/-- `put` enqueues at the tail: the FIFO order C03 is about starts here -/
theorem runPut_enqueue {α} (t : α) (q : List α) : runPut t Expected.engBase.put q = q ++ [t] := by
  simp [Expected.engBase, runPut]

/-- every engine has a queue and a lock of its own, created by its constructor (nothing is shared between machines:
the translator refuses class-level attributes on the engine classes) -/
theorem engine_owns_queue_and_lock :
    Expected.engBase.baseInit = [.proxyMachine, .newQueue, .newSentinel, .fieldRtc, .newLock, .noActivation] := by
  decide

/-- the `__initial__` pseudo-transition: a fresh anonymous source, the initial (or start) state as target, no specs of
its own — `IR.initTr`; the sync engine's `start` queues the activation and drains at once, the async engine only
queues it (no `start` / `put` of its own) and `activate_initial_state` is the awaited processing loop -/
theorem activation_shape :
    Expected.engBase.initialTransition = [.anonymousSourceToInitialState, .clearSpecs, .ret] ∧
    Expected.engBase.syncStart = [.superStart, .activate] ∧
    Expected.engBase.syncActivate = [.retProcessingLoop false] ∧
    Expected.engBase.asyncActivate = [.retProcessingLoop true] ∧
    Expected.engBase.asyncHasOwnStart = false := by decide

/-- the built-in names a callback can ask for are bound to the data of the event being processed: `event_data` to the
`EventData` object, the others to its fields of the same name; `state` and `source` start as the transition's source,
`target` as its target, `model` is the machine's model -/
theorem builtins_describe_the_event :
    builtinsOk Expected.engBase.extendedKwargs = true ∧
    Expected.engBase.eventPostInit = [⟨"state", "self.transition.source"⟩, ⟨"source", "self.transition.source"⟩,
      ⟨"target", "self.transition.target"⟩, ⟨"machine", "self.trigger_data.machine"⟩] ∧
    Expected.engBase.triggerPostInit = [⟨"model", "self.machine.model"⟩] := by decide

end SMV.Src
