import SMV.Src.Expected
/-!
# The source-derived scripts of the callback registry mean the registry model (C12)

`Expected.registry` holds the scripts of `CallbacksExecutor.add`, `CallbackWrapper.__lt__`, `Listeners.search_name`,
`Listeners.resolve`, `CallbacksRegistry.check` and `async_or_sync`. Interpreted, they are `Reg.add`, `Reg.insort`,
`Reg.buildSpec` (for a spec given by name) and `Reg.resolveInto` of `SMV/Model/Registry.lean` — the functions the C12
theorems (`C12_reg_*`: registered exactly once, priorities sorted, sound and complete w.r.t. the attached providers,
re-attachment is the identity) are about.
-/
namespace SMV.Src
open SMV.Reg SMV.Prov R

/-- `bisect.insort` over `CallbackWrapper.__lt__` is the model's stable insertion by priority -/
theorem insortBy_insort (e : Reg.Entry) (ex : Reg.Exec) :
    insortBy Expected.registry.lt.lt e ex = Reg.insort e ex := by
  induction ex with
  | nil => rfl
  | cons x xs ih =>
    simp only [insortBy, Reg.insort, Expected.registry, LtBody.lt, decide_eq_true_eq]
    split <;> simp_all [Expected.registry, LtBody.lt]

/-- **`CallbacksExecutor.add` as the source says is the model's `add`**: an entry whose (key, expected value) was
seen is ignored, a new one is inserted after every entry whose priority is not greater -/
theorem runAdd_add (e : Reg.Entry) (ex : Reg.Exec) :
    runAdd Expected.registry.lt.lt e Expected.registry.add { items := ex } = some (Reg.add ex e) := by
  have h := insortBy_insort e ex
  simp only [Expected.registry] at h ⊢
  simp only [runAdd, Reg.add, Option.isSome_some, if_true]
  split <;> simp_all

/-- **`search_name` is `buildSpec`** for a spec given by name: one entry per provider that has the attribute, keyed
`name@provider`, in provider order -/
theorem runSearchName_buildSpec (n : Name) (s : Reg.Spec) (hs : s.ref = .name n) (ps : List Provider) :
    runSearchName Expected.registry.searchName n s ps = some (buildSpec ps s) := by
  induction ps with
  | nil => simp [runSearchName, buildSpec, hs]
  | cons p ps ih =>
    simp only [Expected.registry] at ih ⊢
    simp only [runSearchName, if_true, ih]
    cases ho : offers p n <;> simp [buildSpec, hs, ho]

/-- folding `add` over nothing changes nothing (the convention filter skips exactly such specs) -/
theorem foldl_add_nil (ex : Reg.Exec) : ([] : List Reg.Entry).foldl Reg.add ex = ex := rfl

/-- **`Listeners.resolve` is `resolveInto`**, executor by executor: for every group, the specs of that group are
resolved in declaration order against the providers of the pass; `SPECS_SAFE` passes skip callables; the
convention filter only skips specs that would have resolved to nothing -/
theorem runResolve_resolveInto (safe : Bool) (ps : List Provider) (g : Reg.Group) (specs : List Reg.Spec)
    (ex : Reg.Exec) :
    runResolve buildSpec Reg.add safe ps g specs Expected.registry.resolve ex =
      some (resolveInto safe ps g ex specs) := by
  simp only [Expected.registry, runResolve, resolveInto, Option.some.injEq]
  congr 1
  funext ex s
  cases hr : s.ref <;> cases safe <;> by_cases hg : s.group = g <;>
    by_cases hb : (buildSpec ps s).isEmpty = true <;> by_cases hp : 30 ≤ s.prio <;>
    simp_all [List.isEmpty_iff]

/-- `check` refuses an instance when a spec the class names explicitly resolved to nothing (conventions are
optional), and the engine kind looks at every callback of every executor -/
theorem check_shape :
    Expected.registry.check = [.skipConventions, .continueIfResolved, .raiseNamesNotFound, .raiseNotFound] ∧
    Expected.registry.asyncOrSync = [.anyCoroutineInAnyExecutor] := by decide

end SMV.Src
