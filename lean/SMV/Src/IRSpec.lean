import SMV.Model.Registry
/-!
# Source-derived scripts of the callback *specs* (C02, C12, C14, C08)

`Transition._setup` and `State._setup` (the naming-convention specs every owner gets, with group, priority and the
event scope), the values of `CallbackPriority`, `CallbackSpec.__eq__`, `CallbackSpecList._add` / `add`,
`CallbackGroup.build_key`, `Event.is_same_event`. The registry model's `Spec` (group, reference, `prio`, `only`,
`expected`) is what these produce.
-/
namespace SMV.Src.P
open SMV.Reg

/-- one convention spec a `_setup` adds: group, name pattern (`"before_"` + event / `"on_enter_"` + id / a fixed
name), priority, and whether it carries `cond=event.is_same_event` -/
structure Conv where
  group : String
  /-- `fixed name`, or `prefix<event>` / `prefix<id>` written `prefix*` -/
  name : String
  priority : String
  sameEventOnly : Bool
deriving DecidableEq, Repr

/-- numeric value of a `CallbackPriority` member as the model's `Spec.prio` -/
def prioOf (table : List (String × Nat)) (n : String) : Option Nat := (table.find? (·.1 == n)).map (·.2)

/-- `CallbackSpec.__eq__` -/
inductive EqBody
  /-- `return self.func == other.func and self.group == other.group and self.expected_value == other.expected_value` -/
  | funcGroupExpected
deriving DecidableEq, Repr

/-- `CallbackSpecList._add` -/
inductive AddStmt
  /-- `if isinstance(func, CallbackSpec): spec = func else: spec = self.factory(func, group, **kwargs)` -/
  | specOrBuild
  /-- `if spec in self.items: return` -/
  | returnIfEqualSpecPresent
  /-- `self.items.append(spec)` -/
  | append
  /-- `if spec.is_convention: self.conventional_specs.add(spec.func)` -/
  | noteConvention
  /-- `return spec` -/
  | ret
deriving DecidableEq, Repr

structure SpecScript where
  /-- `Transition._setup`: the generic specs before the loop, the per-event ones, the generic one after -/
  transitionSetup : List Conv
  stateSetup : List Conv
  priorities : List (String × Nat)
  specEq : EqBody
  listAdd : List AddStmt
  /-- `CallbackGroup.build_key`: `f"{self.name}@{id(specs)}"` — one executor per (group, owner's spec list) -/
  groupKeyPerOwnerList : Bool
  /-- `Event.is_same_event`: `return self == event` -/
  sameEventIsEquality : Bool
deriving DecidableEq, Repr

/-- the model's `Spec` of a convention entry for the event `e` (when scoped) -/
def Conv.toSpec (table : List (String × Nat)) (c : Conv) (g : Group) (n : Prov.Name) (e : EventId) : Option Spec :=
  (prioOf table c.priority).map fun p =>
    { group := g, ref := .name n, prio := p, only := if c.sameEventOnly then some e else none, expected := true }

end SMV.Src.P
