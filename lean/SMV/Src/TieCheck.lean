import SMV.Src.Expected
/-!
# The source-derived scripts of the class checks mean the validation model (C09)

`Expected.visitConnected` is derived from `graph.visit_connected_states`, `Expected.classCheck` from
`StateMachineMetaclass._check` and the `_check_*` methods it calls, `Expected.metaInit` from the metaclass'
`__init__`, `Expected.transitionInit` from `Transition.__init__`. The theorems say that interpreting them is `go` /
`bfs` / `check` of `SMV/Model/Validate.lean` for every class definition — so `C09_accepts_iff_wellformed` and the
other C09 theorems are theorems about what the source says.
-/
namespace SMV.Src
open SMV.Validate V

/-- the loop body of `visit_connected_states` as derived -/
def visitBody : List V.LStmt := [.popLeft, .skipIfVisited, .markVisited, .yieldState, .extendTargets]

theorem visit_shape :
    Expected.visitConnected = [.initDeque, .initVisited, .pushStart, .whileNonEmpty visitBody] := by decide

/-- one round on a non-empty deque -/
theorem visitBody_round (succ : Nat → List Nat) (x : Nat) (w vis ys : List Nat) (c : Option Nat) (b : Nat) :
    V.runBody succ visitBody ⟨x :: w, vis, ys, c, b⟩ =
      if x ∈ vis then ((⟨w, vis, ys, some x, b⟩ : GSt), V.Flow.cont)
      else match b with
        | 0 => ((⟨w, vis, ys, some x, 0⟩ : GSt), V.Flow.halt)
        | b' + 1 => ((⟨w ++ succ x, x :: vis, ys ++ [x], some x, b'⟩ : GSt), V.Flow.next) := by
  by_cases h : x ∈ vis <;> cases b <;> simp [visitBody, V.runBody, h]

theorem go_zero (succ : Nat → List Nat) (w vis : List Nat) : go succ 0 w vis = vis := by simp [go]

theorem go_skip (succ : Nat → List Nat) (fuel x : Nat) (w vis : List Nat) (h : x ∈ vis) :
    go succ fuel (x :: w) vis = go succ fuel w vis := by
  cases fuel <;> simp [go, List.dropWhile, h]

theorem go_visit (succ : Nat → List Nat) (f x : Nat) (w vis : List Nat) (h : x ∉ vis) :
    go succ (f + 1) (x :: w) vis = go succ f (w ++ succ x) (x :: vis) := by
  simp [go, List.dropWhile, h]

/-- **the `while visit:` loop of the source is `go`** (the visited set, most recent first) -/
theorem runLoop_go (succ : Nat → List Nat) (fuel : Nat) (w vis ys : List Nat) (c : Option Nat) :
    (runLoop succ visitBody ⟨w, vis, ys, c, fuel⟩).visited = go succ fuel w vis := by
  induction fuel generalizing w vis ys c with
  | zero =>
    induction w generalizing c with
    | nil => rw [runLoop]; simp [go]
    | cons x w ih =>
      rw [runLoop]
      simp only [visitBody_round]
      by_cases h : x ∈ vis
      · simp only [h, if_true, progress]
        simp [go_skip _ _ _ _ _ h, ih]
      · simp [h, go_zero]
  | succ f ihf =>
    induction w generalizing c ys with
    | nil => rw [runLoop]; simp [go]
    | cons x w ih =>
      rw [runLoop]
      simp only [visitBody_round]
      by_cases h : x ∈ vis
      · simp only [h, if_true, progress]
        simp [go_skip _ _ _ _ _ h, ih]
      · simp only [h, if_false, progress]
        simp [go_visit _ _ _ _ _ h, ihf]

/-- `visit_connected_states(states[s])` as the script says is `bfs s` -/
theorem reachBy_bfs (d : ClassDef) (s : Nat) : reachBy Expected.visitConnected d s = d.bfs s := by
  rw [visit_shape]
  simp [reachBy, runVisit, ClassDef.bfs, runLoop_go]

theorem eval_initials (d : ClassDef) : Issue.eval d d.bfs .initials = d.initials := rfl
theorem eval_finals (d : ClassDef) : Issue.eval d d.bfs .finalsWithTransitions = d.finalsWithTransitions := rfl
theorem eval_disconnected (d : ClassDef) : Issue.eval d d.bfs .disconnected = d.disconnected := rfl
theorem eval_trap (d : ClassDef) : Issue.eval d d.bfs .trapStates = d.trapStates := rfl
theorem eval_noPath (d : ClassDef) (h : d.states.any (·.final) = true) :
    Issue.eval d d.bfs .noPathToFinal = d.noPathToFinal := by
  simp only [Issue.eval, ClassDef.noPathToFinal, h, if_true]
theorem noPath_nil (d : ClassDef) (h : d.states.any (·.final) = false) : d.noPathToFinal = [] := by
  simp only [ClassDef.noPathToFinal, h]; rfl

/-- **The script of `_check` (with the scripts of the methods it calls and of `visit_connected_states`) means the
model's `check`**: same verdict — accepted / rejected, for which reason, naming which states, with which warnings —
for every class definition. -/
theorem runCheck_check (d : ClassDef) :
    runCheck Expected.visitConnected Expected.classCheck d = some (check d) := by
  have hr : reachBy Expected.visitConnected d = d.bfs := funext (reachBy_bfs d)
  unfold runCheck check
  rw [hr]
  by_cases h0 : d.specs.all TSpec.constructible = true
  · simp only [h0, Bool.not_true, Bool.false_eq_true, if_false]
    cases hs : d.states.isEmpty <;> cases he : d.events.isEmpty <;>
      simp only [Expected.classCheck, runSteps, hs, he, Bool.not_true, Bool.not_false, Bool.and_true, Bool.and_false,
        Bool.true_and, Bool.false_and, Option.getD, Bool.false_eq_true, if_false, if_true, eval_initials, eval_finals,
        eval_disconnected, eval_trap, Issue.reason, Trig.holds, strictStep]
    cases hf : d.states.any (·.final)
    · simp only [noPath_nil d hf, Bool.not_false, if_true]
      generalize d.initials = I
      generalize d.finalsWithTransitions = F
      generalize d.disconnected = D
      generalize d.trapStates = T
      cases hI : (I.length != 1) <;> cases F <;> cases D <;> cases T <;> cases d.strict <;> simp [hI]
    · simp only [eval_noPath d hf, Bool.not_true, Bool.false_eq_true, if_false]
      generalize d.initials = I
      generalize d.finalsWithTransitions = F
      generalize d.disconnected = D
      generalize d.trapStates = T
      generalize d.noPathToFinal = N
      cases hI : (I.length != 1) <;> cases F <;> cases D <;> cases T <;> cases N <;> cases d.strict <;> simp [hI]
  · simp [h0]

/-- the metaclass checks a class only when everything the checks read is in place, and sets it up only afterwards -/
theorem metaInit_order : metaOrderOk Expected.metaInit = true := by decide

/-- `Transition.__init__` rejects `internal=True` on a transition that is not a self-transition before anything is
registered, and feeds the `COND` group from `cond` (expected `True`) and `unless` (expected `False`) -/
theorem transitionInit_shape :
    Expected.transitionInit.idxOf? .rejectInternalNonSelf = some 3 ∧
    groupsOf Expected.transitionInit =
      [("validators", "VALIDATOR", [("validators", none)]), ("before", "BEFORE", [("before", none)]),
       ("on", "ON", [("on", none)]), ("after", "AFTER", [("after", none)]),
       ("cond", "COND", [("cond", some true), ("unless", some false)])] := by decide

end SMV.Src
