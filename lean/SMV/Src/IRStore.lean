import SMV.Model.Store
/-!
# Source-derived scripts of `statemachine.py`: the model field, construction, copies (C10, C11, C12, C13, C17)

`harness/srcgen.py` reads `statemachine/statemachine.py` and writes the small functions every one of these
properties rests on as scripts: the getter / setter pairs `current_state_value` and `current_state`,
`_get_initial_state`, the constructor, `_register_callbacks`, `add_listener`, `__getstate__` / `__setstate__`,
`allowed_events` / `events`. This file gives the ones that touch the model field a meaning over the store model
(`SMV/Model/Store.lean`); `SMV/Src/TieStore.lean` proves that the scripts of the tree the theorems were proved for
mean `currentStateValue`, `writeValue`, `currentState`, `writeState`, `initialValue`, `chooseModel`, and pins the
order of the steps of the constructor and of `__setstate__` that the registry and clone theorems assume.

No imports beyond the model.
-/
namespace SMV.Src.St
open SMV.Store

/-- how "was a value given?" is tested: `x is not None` / `x` (truthiness: the defects D1, D2) -/
inductive Given | isNotNone | truthy
deriving DecidableEq, Repr

/-- `current_state_value` (getter) -/
inductive VGet
  /-- `return getattr(self.model, self.state_field, None)` -/
  | retGetattrOrNone
deriving DecidableEq, Repr

/-- `current_state_value` (setter) -/
inductive VSet
  /-- `if value not in self.states_map: raise InvalidStateValue(value)` -/
  | raiseUnlessMapped
  /-- `setattr(self.model, self.state_field, value)` -/
  | setattr
deriving DecidableEq, Repr

/-- `current_state` (getter): one `try` -/
inductive SGet
  /-- `try: return self.states_map[self.current_state_value].for_instance(…)` /
  `except KeyError: raise InvalidStateValue(…)` (two messages, one exception type) -/
  | lookupOrInvalid
deriving DecidableEq, Repr

/-- `current_state` (setter) -/
inductive SSet
  /-- `self.current_state_value = value.value` -/
  | assignValueOf
deriving DecidableEq, Repr

/-- `_get_initial_state` -/
inductive IGet
  /-- `v = self.start_value if <given self.start_value> else self.initial_state.value` -/
  | chooseStart (g : Given)
  /-- `try: return self.states_map[v]` / `except KeyError: raise InvalidStateValue(v)` -/
  | lookupOrInvalid
deriving DecidableEq, Repr

def runVGet : List VGet → Store → Option (Option Val)
  | [.retGetattrOrNone], st => some st.cell
  | _, _ => none

/-- `sm.current_state_value = v` as the script says (statement by statement: a store before the test would stay) -/
def runVSet (m : Mach) (v : Option Val) : List VSet → Store → Store × Except Exc Unit
  | [], st => (st, .ok ())
  | .raiseUnlessMapped :: r, st =>
    match v with
    | none => (st, .error .invalidState)          -- `None in states_map` is false
    | some x => if mapped m x then runVSet m v r st else (st, .error .invalidState)
  | .setattr :: r, st => runVSet m v r (st.setCell v)

def runSGet (m : Mach) : List SGet → Store → Option (Except Exc StateId)
  | [.lookupOrInvalid], st =>
    some (match st.cell with
      | none => .error .invalidState
      | some v =>
        match lookup m v with
        | some s => .ok s
        | none => .error .invalidState)
  | _, _ => none

/-- the setter of `current_state` goes through the setter of `current_state_value` -/
def runSSet (m : Mach) (vset : List VSet) (s : StateId) : List SSet → Store → Option (Store × Except Exc Unit)
  | [.assignValueOf], st => some (runVSet m (some (valueOf m s)) vset st)
  | _, _ => none

def Given.holds (m : Mach) : Given → Val → Bool
  | .isNotNone, _ => true
  | .truthy, v => m.truthy v

/-- the value looked up, then the state (`none` = `InvalidStateValue`) -/
def runIGet (m : Mach) (start : Option Val) : List IGet → Option (Val × Option StateId)
  | [.chooseStart g, .lookupOrInvalid] =>
    let v := match start with
      | none => valueOf m m.initial
      | some x => if g.holds m x then x else valueOf m m.initial
    some (v, lookup m v)
  | _ => none

/-- the five functions that read and write the model field -/
structure StoreScript where
  vget : List VGet
  vset : List VSet
  sget : List SGet
  sset : List SSet
  iget : List IGet
deriving DecidableEq, Repr

/-- `events` / `allowed_events`: which names are looked up on the instance (`getattr(self, name)`) -/
inductive EvList
  /-- `self.current_state.transitions.unique_events` -/
  | uniqueEventsOfCurrentState
  /-- `self.__class__._events` -/
  | declaredEventsOfClass
deriving DecidableEq, Repr

structure AllowedScript where
  allowed : List EvList
  events : List EvList
deriving DecidableEq, Repr

/-! ## The constructor, `_register_callbacks`, `add_listener`, `__getstate__`, `__setstate__`: order of the steps -/

inductive CStmt
  /-- `self.model = model if <given model> else Model()` -/
  | chooseModel (g : Given)
  /-- `self.<name> = <name>` -/
  | field (name : String)
  /-- `self._callbacks = CallbacksRegistry()` -/
  | newRegistry
  /-- `self._states_for_instance = {}` -/
  | newInstanceStates
  /-- `self._listeners = []` -/
  | newListeners
  /-- `self._listener_passes = [tuple(listeners or ())]` -/
  | firstPass
  /-- `if self._abstract: raise InvalidDefinition(…)` -/
  | raiseIfAbstract
  /-- `self._register_callbacks(listeners or [])` -/
  | registerCallbacks
  /-- `self._engine = self._get_engine(rtc)` -/
  | chooseEngine
  /-- `self._engine.start()` -/
  | startEngine
deriving DecidableEq, Repr

/-- `self.model = …` as the script says -/
def chooseModelBy (cs : List CStmt) (um : Option UserModel) : Option Store :=
  match cs.head? with
  | some (.chooseModel g) =>
    some (match um with
      | none => {}
      | some u => { supplied := true, userCell := u.cell, ownCell := none,
                    usesUser := (match g with | .isNotNone => true | .truthy => u.truthy) })
  | _ => none

/-- `_register_callbacks` -/
inductive RStmt
  /-- `self._remember_listeners(listeners)` -/
  | remember
  /-- `self._add_listener(Listeners.from_listeners((Listener.from_obj(self, skip_attrs=self._protected_attrs),
  Listener.from_obj(self.model, skip_attrs={self.state_field}), *(Listener.from_obj(l) for l in listeners))))`:
  one pass over machine, model, the given listeners — in that order, all references allowed -/
  | resolveMachineModelListeners
  /-- `for visited in iterate_states_and_transitions(self.states): check_callbacks(visited._specs)`
  (wrapped into `InvalidDefinition`) -/
  | checkAll
  /-- `self._callbacks.async_or_sync()` -/
  | asyncOrSync
deriving DecidableEq, Repr

/-- `add_listener` -/
inductive LStmt
  | remember
  /-- `self._listener_passes.append(tuple(listeners))` -/
  | appendPass
  /-- `return self._add_listener(Listeners.from_listeners(Listener.from_obj(o) for o in listeners),
  allowed_references=SPECS_SAFE)`: a pass over the given listeners only, names only -/
  | resolveListenersSafe
deriving DecidableEq, Repr

/-- `__getstate__` -/
inductive GStmt
  | copyDict
  /-- `state["<key>"] = …` -/
  | put (key : String)
  /-- `del state["<key>"]` -/
  | del (key : String)
  | ret
deriving DecidableEq, Repr

/-- `__setstate__` -/
inductive SStmt
  /-- `<x> = state.pop("<key>"…)` -/
  | pop (key : String)
  /-- `self.__dict__.update(state)` -/
  | updateDict
  /-- `if state_value is not None and getattr(self.model, self.state_field, None) is None: setattr(…)` -/
  | restoreStateIfModelEmpty
  | newRegistry | newInstanceStates | newListeners
  /-- `self._listener_passes = [passes[0]]` -/
  | firstPass
  /-- `self._register_callbacks(list(passes[0]))` -/
  | registerFirstPass
  /-- `for late in passes[1:]: self.add_listener(*late)` -/
  | replayLatePasses
  | chooseEngine | startEngine
deriving DecidableEq, Repr

/-- position of a statement in a script -/
def pos {α} [DecidableEq α] (l : List α) (a : α) : Option Nat := l.idxOf? a

def before {α} [DecidableEq α] (l : List α) (a b : α) : Bool :=
  match pos l a, pos l b with
  | some i, some j => decide (i < j)
  | _, _ => false

/-- the constructor registers every provider before it chooses the engine, and chooses it before it starts it;
an abstract class is refused before anything is registered -/
def ctorOrderOk (cs : List CStmt) : Bool :=
  before cs .newRegistry .registerCallbacks && before cs .firstPass .registerCallbacks &&
  before cs .raiseIfAbstract .registerCallbacks && before cs .registerCallbacks .chooseEngine &&
  before cs .chooseEngine .startEngine && cs.getLast? == some .startEngine

/-- a copy gives the state back to an empty model before anything else, registers the constructor's pass, replays
the later passes one by one, and only then chooses and starts its engine -/
def setstateOrderOk (ss : List SStmt) : Bool :=
  before ss .updateDict .restoreStateIfModelEmpty && before ss .restoreStateIfModelEmpty .registerFirstPass &&
  before ss .newRegistry .registerFirstPass && before ss .registerFirstPass .replayLatePasses &&
  before ss .replayLatePasses .chooseEngine && before ss .chooseEngine .startEngine &&
  ss.getLast? == some .startEngine

end SMV.Src.St
