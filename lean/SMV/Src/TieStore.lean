import SMV.Src.Expected
import SMV.Model.Clone
/-!
# The source-derived scripts of `statemachine.py` mean the store model (C10, C11, C13, C17)

`Expected.store` holds the scripts of `current_state_value` (getter, setter), `current_state` (getter, setter) and
`_get_initial_state`; `Expected.smInit`, `registerCallbacks`, `addListener`, `getState`, `setState`, `allowedEvents`
those of the constructor, `_register_callbacks`, `add_listener`, `__getstate__`, `__setstate__`, `events` /
`allowed_events`. Interpreted, the first group *is* `currentStateValue`, `writeValue`, `currentState`, `writeState`,
`initialValue true` of `SMV/Model/Store.lean` and the constructor's first statement is `chooseModel true`; the second
group is pinned in the order the registry and clone theorems assume.
-/
namespace SMV.Src
open SMV.Store St

/-- `sm.current_state_value` reads the one cell -/
theorem runVGet_value (st : Store) : runVGet Expected.store.vget st = some (currentStateValue st) := by
  simp [Expected.store, runVGet, currentStateValue]

/-- `sm.current_state_value = v`: membership test first, then the store — the model's `writeValue` -/
theorem runVSet_writeValue (m : Mach) (v : Option Val) (st : Store) :
    runVSet m v Expected.store.vset st = writeValue m v st := by
  cases v with
  | none => simp [Expected.store, runVSet, writeValue]
  | some x => by_cases h : mapped m x = true <;> simp [Expected.store, runVSet, writeValue, h]

/-- `sm.current_state`: the state mapped to the stored value, `InvalidStateValue` when nothing / an unmapped value
is stored -/
theorem runSGet_currentState (m : Mach) (st : Store) :
    runSGet m Expected.store.sget st = some (currentState m st) := by
  simp only [Expected.store, runSGet, currentState]
  cases st.cell with
  | none => rfl
  | some v => cases lookup m v <;> rfl

/-- `sm.current_state = s` goes through the checked setter -/
theorem runSSet_writeState (m : Mach) (s : StateId) (st : Store) :
    runSSet m Expected.store.vset s Expected.store.sset st = some (writeState m s st) := by
  simp only [Expected.store, runSSet, writeState]
  rw [← runVSet_writeValue]
  rfl

/-- `_get_initial_state`: `start_value` when one was given (tested with `is not None`: D1), else the value of the
initial state; looked up in `states_map` -/
theorem runIGet_initial (m : Mach) (start : Option Val) :
    runIGet m start Expected.store.iget =
      some (initialValue true m start, lookup m (initialValue true m start)) := by
  cases start <;> simp [Expected.store, runIGet, initialValue, Given.holds]

/-- the constructor keeps the object the user supplied, whatever its truth value (D2) -/
theorem chooseModelBy_chooseModel (um : Option UserModel) :
    chooseModelBy Expected.smInit um = some (chooseModel true um) := by
  cases um <;> simp [Expected.smInit, chooseModelBy, chooseModel]

/-- the order of the constructor's steps: every provider is registered (with the constructor's listeners as the first
pass) before the engine is chosen — so the engine kind sees the coroutine callbacks of listeners (D25b) — and the
engine is started last -/
theorem ctor_order : ctorOrderOk Expected.smInit = true := by decide

/-- `_register_callbacks`: one pass over machine, model and the given listeners, then the check for unresolved names,
then the engine kind -/
theorem register_shape :
    Expected.registerCallbacks = [.remember, .resolveMachineModelListeners, .checkAll, .asyncOrSync] := by decide

/-- `add_listener`: the pass is remembered (for copies) and resolved over the given listeners only, names only -/
theorem addListener_shape : Expected.addListener = [.remember, .appendPass, .resolveListenersSafe] := by decide

/-- `__getstate__` leaves out exactly what is rebuilt (`_callbacks`, `_states_for_instance`, `_engine`) and records
`rtc` and the current state value -/
theorem getState_shape :
    Expected.getState = [.copyDict, .put "_rtc", .put "_state_value", .del "_callbacks", .del "_states_for_instance",
      .del "_engine", .ret] := by decide

/-- `__setstate__`: the order the clone theorems assume (`C17_registry_replay`: constructor pass, then the late passes
one by one; engine chosen afterwards, started last; an empty model gets its state back first: D30) -/
theorem setState_order : setstateOrderOk Expected.setState = true := by decide

/-- `allowed_events` lists the events of the transitions of the current state, `events` those the class declares;
both hand out what `getattr(self, name)` gives -/
theorem allowed_shape :
    Expected.allowedEvents = { allowed := [.uniqueEventsOfCurrentState], events := [.declaredEventsOfClass] } := by decide

/-! ## The registry a copy rebuilds, as the scripts say (C17, C12)

The scripts of the constructor, `add_listener` and `__setstate__` interpreted over the name-level registry model
(`SMV/Model/Clone.lean`): what they do to the registry (`Prov.Reg`: resolved items and the engine kind) and to the
remembered passes. Statements that touch neither — fields, fresh containers, popping the pickled values, choosing and
starting the engine (its *kind* was fixed by `async_or_sync` inside `_register_callbacks`: D12) — are skipped. -/
open SMV.Prov in
/-- registry and remembered passes after the constructor's script -/
def runCtorReg (isCoro : CbId → Bool) (mm ctor : List Provider) (names required : List Name) :
    List St.CStmt → Option (Except Exc Reg) → List (List Provider) → Option (Except Exc Reg) × List (List Provider)
  | [], r, ps => (r, ps)
  | .firstPass :: rest, r, _ => runCtorReg isCoro mm ctor names required rest r [ctor]
  | .registerCallbacks :: rest, _, ps =>
    runCtorReg isCoro mm ctor names required rest (some (registerAll isCoro (mm ++ ctor) names required)) ps
  | _ :: rest, r, ps => runCtorReg isCoro mm ctor names required rest r ps

open SMV.Prov in
/-- `add_listener(*ls)` as its script says -/
def runAddListenerReg (ls : List Provider) (names : List Name) :
    List St.LStmt → Reg → List (List Provider) → Reg × List (List Provider)
  | [], r, ps => (r, ps)
  | .appendPass :: rest, r, ps => runAddListenerReg ls names rest r (ps ++ [ls])
  | .resolveListenersSafe :: rest, r, ps => runAddListenerReg ls names rest (addListeners r ls names) ps
  | .remember :: rest, r, ps => runAddListenerReg ls names rest r ps

open SMV.Prov in
/-- `__setstate__` as its script says, given the remembered passes -/
def runSetStateReg (isCoro : CbId → Bool) (mm : List Provider) (passes : List (List Provider))
    (names required : List Name) : List St.SStmt → Option (Except Exc Reg) → Option (Except Exc Reg)
  | [], r => r
  | .registerFirstPass :: rest, _ =>
    runSetStateReg isCoro mm passes names required rest (some (registerAll isCoro (mm ++ passes.headD []) names required))
  | .replayLatePasses :: rest, r =>
    runSetStateReg isCoro mm passes names required rest
      (r.map fun x => match x with
        | .ok reg => .ok (passes.tail.foldl (fun reg ls => addListeners reg ls names) reg)
        | .error e => .error e)
  | _ :: rest, r => runSetStateReg isCoro mm passes names required rest r

open SMV.Prov in
/-- the constructor's script registers machine, model and the constructor's listeners in one pass and remembers that
pass -/
theorem runCtorReg_registerAll (isCoro : CbId → Bool) (mm ctor : List Provider) (names required : List Name) :
    runCtorReg isCoro mm ctor names required Expected.smInit none [] =
      (some (registerAll isCoro (mm ++ ctor) names required), [ctor]) := by
  simp [Expected.smInit, runCtorReg]

open SMV.Prov in
/-- `add_listener`'s script is the model's `addListeners` and appends the pass -/
theorem runAddListenerReg_addListeners (ls : List Provider) (names : List Name) (r : Reg) (ps : List (List Provider)) :
    runAddListenerReg ls names Expected.addListener r ps = (addListeners r ls names, ps ++ [ls]) := by
  simp [Expected.addListener, runAddListenerReg]

open SMV.Prov in
/-- **`__setstate__`'s script is the model's `setstateReplay`** -/
theorem runSetStateReg_replay (isCoro : CbId → Bool) (mm : List Provider) (passes : List (List Provider))
    (names required : List Name) :
    runSetStateReg isCoro mm passes names required Expected.setState none =
      some (setstateReplay isCoro mm passes names required) := by
  simp only [Expected.setState, runSetStateReg, setstateReplay, Option.map_some]
  cases registerAll isCoro (mm ++ passes.headD []) names required <;> rfl

open SMV.Prov in
/-- **C17 (registry), about the scripts**: a copy — `__setstate__`'s script run over the passes that the scripts of the
constructor and of `add_listener` remembered — rebuilds exactly the registry (items in executor order, engine kind)
that the original went through, for any constructor listeners and any sequence of later attachments -/
theorem C17_registry_replay_scripts (isCoro : CbId → Bool) (mm ctor : List Provider) (lates : List (List Provider))
    (names required : List Name) :
    runSetStateReg isCoro mm (ctor :: lates) names required Expected.setState none =
      some (original isCoro mm ctor lates names required) := by
  rw [runSetStateReg_replay]
  rfl

end SMV.Src
