import SMV.Src.Expected
/-!
# The source-derived scripts of `statemachine.py` mean the store model (C10, C11, C13, C17)

`Expected.store` holds the scripts of `current_state_value` (getter, setter), `current_state` (getter, setter) and
`_get_initial_state`; `Expected.smInit`, `registerCallbacks`, `addListener`, `getState`, `setState`, `allowedEvents`
those of the constructor, `_register_callbacks`, `add_listener`, `__getstate__`, `__setstate__`, `events` /
`allowed_events`. Interpreted, the first group *is* `currentStateValue`, `writeValue`, `currentState`, `writeState`,
`initialValue true` of `SMV/Model/Store.lean` and the constructor's first statement is `chooseModel true`; the second
group is pinned in the order the registry and clone theorems assume.
-/
namespace SMV.Src
open SMV.Store St

/-- `sm.current_state_value` reads the one cell -/
theorem runVGet_value (st : Store) : runVGet Expected.store.vget st = some (currentStateValue st) := by
  simp [Expected.store, runVGet, currentStateValue]

/-- `sm.current_state_value = v`: membership test first, then the store — the model's `writeValue` -/
theorem runVSet_writeValue (m : Mach) (v : Option Val) (st : Store) :
    runVSet m v Expected.store.vset st = writeValue m v st := by
  cases v with
  | none => simp [Expected.store, runVSet, writeValue]
  | some x => by_cases h : mapped m x = true <;> simp [Expected.store, runVSet, writeValue, h]

/-- `sm.current_state`: the state mapped to the stored value, `InvalidStateValue` when nothing / an unmapped value
is stored -/
theorem runSGet_currentState (m : Mach) (st : Store) :
    runSGet m Expected.store.sget st = some (currentState m st) := by
  simp only [Expected.store, runSGet, currentState]
  cases st.cell with
  | none => rfl
  | some v => cases lookup m v <;> rfl

/-- `sm.current_state = s` goes through the checked setter -/
theorem runSSet_writeState (m : Mach) (s : StateId) (st : Store) :
    runSSet m Expected.store.vset s Expected.store.sset st = some (writeState m s st) := by
  simp only [Expected.store, runSSet, writeState]
  rw [← runVSet_writeValue]
  rfl

/-- `_get_initial_state`: `start_value` when one was given (tested with `is not None`: D1), else the value of the
initial state; looked up in `states_map` -/
theorem runIGet_initial (m : Mach) (start : Option Val) :
    runIGet m start Expected.store.iget =
      some (initialValue true m start, lookup m (initialValue true m start)) := by
  cases start <;> simp [Expected.store, runIGet, initialValue, Given.holds]

/-- the constructor keeps the object the user supplied, whatever its truth value (D2) -/
theorem chooseModelBy_chooseModel (um : Option UserModel) :
    chooseModelBy Expected.smInit um = some (chooseModel true um) := by
  cases um <;> simp [Expected.smInit, chooseModelBy, chooseModel]

/-- the order of the constructor's steps: every provider is registered (with the constructor's listeners as the first
pass) before the engine is chosen — so the engine kind sees the coroutine callbacks of listeners (D25b) — and the
engine is started last -/
theorem ctor_order : ctorOrderOk Expected.smInit = true := by decide

/-- `_register_callbacks`: one pass over machine, model and the given listeners, then the check for unresolved names,
then the engine kind -/
theorem register_shape :
    Expected.registerCallbacks = [.remember, .resolveMachineModelListeners, .checkAll, .asyncOrSync] := by decide

/-- `add_listener`: the pass is remembered (for copies) and resolved over the given listeners only, names only -/
theorem addListener_shape : Expected.addListener = [.remember, .appendPass, .resolveListenersSafe] := by decide

/-- `__getstate__` leaves out exactly what is rebuilt (`_callbacks`, `_states_for_instance`, `_engine`) and records
`rtc` and the current state value -/
theorem getState_shape :
    Expected.getState = [.copyDict, .put "_rtc", .put "_state_value", .del "_callbacks", .del "_states_for_instance",
      .del "_engine", .ret] := by decide

/-- `__setstate__`: the order the clone theorems assume (`C17_registry_replay`: constructor pass, then the late passes
one by one; engine chosen afterwards, started last; an empty model gets its state back first: D30) -/
theorem setState_order : setstateOrderOk Expected.setState = true := by decide

/-- `allowed_events` lists the events of the transitions of the current state, `events` those the class declares;
both hand out what `getattr(self, name)` gives -/
theorem allowed_shape :
    Expected.allowedEvents = { allowed := [.uniqueEventsOfCurrentState], events := [.declaredEventsOfClass] } := by decide

end SMV.Src
