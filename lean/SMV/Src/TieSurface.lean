import SMV.Src.Expected
/-!
# Special methods and identity, as the source says (C01, C10, C13, C15, C16, C17, C18)
-/
namespace SMV.Src
open U

/-- a copy (`copy.deepcopy`, pickle) goes through `StateMachine.__getstate__` / `__setstate__` and nothing else: no
class of the package defines `__copy__`, `__deepcopy__`, `__reduce__` or `__reduce_ex__` (events, states, transitions are
copied like any object; the clone theorems of C17 are about `__setstate__`) -/
theorem no_copy_hooks :
    noCopyHooks Expected.surface = true ∧
    dundersOf Expected.surface "StateMachine" =
      ["__getstate__", "__init__", "__init_subclass__", "__repr__", "__setstate__"] := by decide

/-- `|` is the only operator a transition list defines: `a |= b` is `a = a | b`, a new list (aliases are untouched) -/
theorem transitionList_operators :
    dundersOf Expected.surface "TransitionList" = ["__getitem__", "__init__", "__len__", "__or__", "__repr__"] := by
  decide

/-- a state is identified by name and id, hashes like its `repr`; a machine sees one `InstanceState` per state, which
compares and hashes like the state it stands for and is active iff it is the machine's current state (C10: exactly the
state mapped to the stored value is active; C18: the node that is highlighted) -/
theorem state_identity :
    Expected.surface.stateEq = .stateEqByNameAndId ∧ Expected.surface.stateHash = .hashOfRepr ∧
    Expected.surface.stateGet = .classGivesStateInstanceGivesInstanceState ∧
    Expected.surface.forInstance = .oneInstanceStatePerMachine ∧ Expected.surface.setId = .idThenDefaultValueAndName ∧
    Expected.surface.instEq = .delegateEqToState ∧ Expected.surface.instHash = .hashOfStateRepr ∧
    Expected.surface.isActive = .activeIffCurrent ∧
    dundersOf Expected.surface "State" = ["__eq__", "__get__", "__hash__", "__init__", "__repr__", "__set__", "__str__"] ∧
    dundersOf Expected.surface "InstanceState" = ["__eq__", "__hash__", "__init__", "__repr__"] := by decide

/-- `sm.<event>` is a fresh trigger bound to the instance it was read from, every time (nothing is cached per class,
per machine or per equal machine: C13, C16) -/
theorem event_get_fresh :
    Expected.surface.eventGet = .freshBoundEventPerAccess ∧
    dundersOf Expected.surface "Event" = ["__call__", "__get__", "__new__", "__repr__"] ∧
    dundersOf Expected.surface "BoundEvent" = [] := by decide

end SMV.Src
