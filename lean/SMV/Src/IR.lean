import SMV.Model.Engine
/-!
# Source-derived scripts of the engine functions

`harness/srcgen.py` reads `engines/sync.py` and `engines/async_.py` of the tree under test with Python's
`ast` module and writes each of `_activate`, `_trigger` and `processing_loop` as a *script*: a list of the
statements below, one per source statement, in source order (local variables that are pure aliases —
`source = transition.source` — are resolved by the translator; a statement it does not recognise makes the
translation fail, which is reported as a broken tie, never skipped).

This file gives the scripts a meaning (`runA`, `runT`, `runP`: interpreters into the same `EM` monad the engine
model lives in). `SMV/Src/Expected.lean` holds the scripts of the tree the theorems were proved for,
`SMV/Src/Tie.lean` proves that their meaning *is* the hand-written engine model (`activate`, `trigger`,
`process`), and on every run the check regenerates the scripts from the source and lets the kernel decide
`Gen.x = Expected.x`.

No imports beyond the model: this file may be linked into a native driver.
-/
namespace SMV.Src

/-- the object whose callback group is called -/
inductive Owner | transition | source | target
deriving DecidableEq, Repr

/-- what happens to the list a group call returns: discarded, `result = …`, `result += …` -/
inductive Into | drop | set | add
deriving DecidableEq, Repr

/-- `self.sm._callbacks.call(<owner>.<group>.key, *args, **kwargs)`;
`awaited`: written `await self.sm._callbacks.async_call(…)` -/
structure GCall where
  g : Phase
  o : Owner
  into : Into
  awaited : Bool
deriving DecidableEq, Repr

/-- the two tests `_activate` makes on the transition -/
inductive ATest
  /-- `not transition.internal` -/
  | notInternal
  /-- `source is not None and not transition.internal` -/
  | srcAndNotInternal
deriving DecidableEq, Repr

/-- one statement of `_activate` -/
inductive AStmt
  /-- `event_data = EventData(trigger_data=trigger_data, transition=transition)`
  (`__post_init__`: `state = source = transition.source`, `target = transition.target`) -/
  | eventData
  /-- `args, kwargs = event_data.args, event_data.extended_kwargs` (a fresh dict; `kwargs["state"]` is what
  `event_data.state` is *now*) -/
  | bindArgs
  | call (c : GCall)
  /-- `if not self.sm._callbacks.all(<owner>.cond.key, *args, **kwargs): return False, None` -/
  | rejectUnlessAll (o : Owner) (awaited : Bool)
  /-- `if <test>: <call>` -/
  | ifCall (t : ATest) (c : GCall)
  /-- `self.sm.current_state = target` -/
  | assignState
  /-- `event_data.state = target` -/
  | viewState
  /-- `kwargs["state"] = target` -/
  | viewKw
  /-- `if len(result) == 0: result = None elif len(result) == 1: result = result[0]` -/
  | unwrap
  /-- `return True, result` -/
  | retExecuted
deriving DecidableEq, Repr

/-- the transition `_activate` is called with: a declared one, or the `__initial__` pseudo-transition
`Transition(State(), initial, event="__initial__")` whose source is an anonymous state without callbacks and
whose own specs were cleared -/
structure ATr where
  tr   : Transn
  anon : Bool := false

def ATr.ctx (a : ATr) (t : Trigger) : Ctx :=
  { t := t, src := if a.anon then none else some a.tr.source, tgt := a.tr.target }

/-- the callbacks behind `<owner>.<group>.key` for this event (`CallbacksExecutor.call` applies the per-callback
`is_same_event` condition: `applicable`) -/
def groupOf (m : Machine) (t : Trigger) (a : ATr) (g : Phase) (o : Owner) : List CbId :=
  match o, g with
  | .transition, .validators => a.tr.validators
  | .transition, .before => applicable t.event a.tr.before
  | .transition, .on => applicable t.event a.tr.on
  | .transition, .after => applicable t.event a.tr.after
  | .source, .exit => if a.anon then [] else (stateDef m a.tr.source).exit
  | .target, .enter => (stateDef m a.tr.target).enter
  | _, _ => []

def ATest.holds (a : ATr) : ATest → Bool
  | .notInternal => !a.tr.internal
  | .srcAndNotInternal => !a.tr.internal      -- `transition.source` is never `None`

/-- the local variable `result` -/
structure AEnv where
  acc : List Val := []
  fin : Option Res := none

def AEnv.store (e : AEnv) (i : Into) (vs : List Val) : AEnv :=
  match i with
  | .drop => e
  | .set => { e with acc := vs }
  | .add => { e with acc := e.acc ++ vs }

/-- meaning of an `_activate` script: `none` = `(False, None)`, `some r` = `(True, r)` -/
def runA (h : Nested) (m : Machine) (t : Trigger) (a : ATr) : List AStmt → AEnv → EM (Option Res)
  | [], _ => pure none
  | .eventData :: r, e => runA h m t a r e
  | .bindArgs :: r, e => runA h m t a r e
  | .call c :: r, e => do
    let vs ← runGroup h m (a.ctx t) c.g (groupOf m t a c.g c.o)
    runA h m t a r (e.store c.into vs)
  | .rejectUnlessAll _ _ :: r, e => do
    let ok ← runConds h m (a.ctx t) a.tr.conds
    if !ok then pure none else runA h m t a r e
  | .ifCall tst c :: r, e =>
    if tst.holds a then do
      let vs ← runGroup h m (a.ctx t) c.g (groupOf m t a c.g c.o)
      runA h m t a r (e.store c.into vs)
    else runA h m t a r e
  | .assignState :: r, e => do
    setState t (stateVal m a.tr.target)
    runA h m t a r e
  | .viewState :: r, e => runA h m t a r e
  | .viewKw :: r, e => runA h m t a r e
  | .unwrap :: r, e => runA h m t a r { e with fin := some (SMV.unwrap e.acc) }
  | .retExecuted :: _, e => pure (some (e.fin.getD (.many e.acc)))

/-! ## What a callback is shown as `state` (a static pass over the script) -/

/-- the value of `event_data.state` / `kwargs["state"]` -/
inductive View | unset | source | target
deriving DecidableEq, Repr

/-- for every group call of the script, in order: the group, `event_data.state` and `kwargs["state"]` at that
moment, and whether the model field has been assigned yet -/
def views : List AStmt → (ed kw : View) → (assigned : Bool) → List (Phase × View × View × Bool)
  | [], _, _, _ => []
  | .eventData :: r, _, kw, s => views r .source kw s
  | .bindArgs :: r, ed, _, s => views r ed ed s
  | .call c :: r, ed, kw, s => (c.g, ed, kw, s) :: views r ed kw s
  | .ifCall _ c :: r, ed, kw, s => (c.g, ed, kw, s) :: views r ed kw s
  | .rejectUnlessAll _ _ :: r, ed, kw, s => (.cond, ed, kw, s) :: views r ed kw s
  | .assignState :: r, ed, kw, _ => views r ed kw true
  | .viewState :: r, _, kw, s => views r .target kw s
  | .viewKw :: r, ed, _, s => views r ed .target s
  | .unwrap :: r, ed, kw, s => views r ed kw s
  | .retExecuted :: _, _, _, _ => []

/-- the documented view: the source (and the model field untouched) up to and including `on`, the target (and
the model field assigned) from `enter` on -/
def viewOf : Phase → View × Bool
  | .enter | .after => (.target, true)
  | _ => (.source, false)

def viewsOk (s : List AStmt) : Bool :=
  (views s .unset .unset false).all fun (g, ed, kw, asg) => ed == (viewOf g).1 && kw == (viewOf g).1 && asg == (viewOf g).2

/-- every group call of the script is awaited (async engine) / none is (sync engine) -/
def awaitsAre (b : Bool) : List AStmt → Bool
  | [] => true
  | .call c :: r => c.awaited == b && awaitsAre b r
  | .ifCall _ c :: r => c.awaited == b && awaitsAre b r
  | .rejectUnlessAll _ aw :: r => aw == b && awaitsAre b r
  | _ :: r => awaitsAre b r

/-- the script with the `await`s erased -/
def eraseAwaits : List AStmt → List AStmt
  | [] => []
  | .call c :: r => .call { c with awaited := false } :: eraseAwaits r
  | .ifCall t c :: r => .ifCall t { c with awaited := false } :: eraseAwaits r
  | .rejectUnlessAll o _ :: r => .rejectUnlessAll o false :: eraseAwaits r
  | s :: r => s :: eraseAwaits r


/-! ## `_trigger` -/

/-- one statement of the body of `for transition in state.transitions:` -/
inductive LStmt
  /-- `if not transition.match(trigger_data.event): continue` -/
  | skipUnlessMatch
  /-- `executed, result = self._activate(trigger_data, transition)` -/
  | activate (awaited : Bool)
  /-- `if not executed: continue` -/
  | continueUnlessExecuted
  /-- `break` -/
  | brk
deriving DecidableEq, Repr

/-- one statement of `_trigger` -/
inductive TStmt
  /-- `executed = False` -/
  | initExecuted
  /-- `if trigger_data.event == "__initial__" and self.sm.current_state_value is None:
         transition = self._initial_transition(trigger_data); self._activate(trigger_data, transition);
         return self._sentinel` -/
  | initialBranch (awaited : Bool)
  /-- `if trigger_data is self._activation: return self._sentinel` — the engine's own activation trigger
  (`BaseEngine.start` keeps it in `self._activation`) found a state that was stored in the meantime -/
  | skipStaleActivation
  /-- `state = self.sm.current_state` (raises `InvalidStateValue` when the stored value maps to no state) -/
  | readState
  /-- `for transition in state.transitions: <body> else: if not self.sm.allow_event_without_transition:
  raise TransitionNotAllowed(trigger_data.event, state)` -/
  | forCands (body : List LStmt)
  /-- `return result if executed else None` -/
  | retResult
deriving DecidableEq, Repr

/-- the locals `executed`, `result`, `state` -/
structure TEnv where
  executed : Bool := false
  result : Res := .none
  state : Option StateId := none

inductive Flow | next | cont | brk
deriving DecidableEq, Repr

/-- one pass through the loop body for the candidate `tr`; `act` is `_activate` -/
def runBody (act : Transn → EM (Option Res)) (ev : EventId) (tr : Transn) : List LStmt → TEnv → EM (TEnv × Flow)
  | [], e => pure (e, .next)
  | .skipUnlessMatch :: r, e => if matchesEv tr ev then runBody act ev tr r e else pure (e, .cont)
  | .activate _ :: r, e => do
    match ← act tr with
    | none => runBody act ev tr r { e with executed := false, result := .none }
    | some res => runBody act ev tr r { e with executed := true, result := res }
  | .continueUnlessExecuted :: r, e => if e.executed then runBody act ev tr r e else pure (e, .cont)
  | .brk :: _, e => pure (e, .brk)

/-- the `for` loop; the flag says whether it was left by `break` (the `else` clause runs iff not) -/
def runFor (act : Transn → EM (Option Res)) (ev : EventId) (body : List LStmt) : List Transn → TEnv → EM (TEnv × Bool)
  | [], e => pure (e, false)
  | tr :: rest, e => do
    let (e', f) ← runBody act ev tr body e
    match f with
    | .brk => pure (e', true)
    | _ => runFor act ev body rest e'

/-- meaning of a `_trigger` script; `none` = the sentinel. `act` is `_activate` on a declared transition,
`actI` is `_initial_transition` followed by `_activate` on the pseudo-transition -/
def runT (m : Machine) (t : Trigger) (act : Transn → EM (Option Res)) (actI : EM Unit) :
    List TStmt → TEnv → EM (Option Res)
  | [], _ => pure (some .none)
  | .initExecuted :: r, e => runT m t act actI r { e with executed := false }
  | .initialBranch _ :: r, e => do
    let cfg ← EM.get
    if t.event == initialEv && cfg.cur.isNone then do
      actI
      pure none
    else runT m t act actI r e
  | .skipStaleActivation :: r, e =>
    if t.event == initialEv && t.internal then pure none else runT m t act actI r e
  | .readState :: r, e => do
    let cfg ← EM.get
    match cfg.cur.bind (lookupState m) with
    | none => EM.throw .invalidState
    | some s => runT m t act actI r { e with state := some s }
  | .forCands body :: r, e =>
    match e.state with
    | none => EM.throw .invalidState
    | some s => do
      let (e', broke) ← runFor act t.event body (out m s) e
      if !broke && !m.allow then EM.throw (.notAllowed t.event s) else runT m t act actI r e'
  | .retResult :: _, e => pure (some (if e.executed then e.result else .none))

/-- the `__initial__` pseudo-transition to state `s`: `Transition(State(), s, event="__initial__")` with its own
specs cleared -/
def initTr (s : StateId) : ATr := { tr := { source := 0, target := s, events := [initialEv] }, anon := true }

/-- `transition = self._initial_transition(trigger_data); self._activate(trigger_data, transition)` over an
`_activate` script -/
def actInitial (h : Nested) (m : Machine) (t : Trigger) (script : List AStmt) : EM Unit :=
  match initialTarget m with
  | .error e => EM.throw e
  | .ok s => do
    let _ ← runA h m t (initTr s) script {}
    pure ()

def awaitsAreT (b : Bool) : List TStmt → Bool
  | [] => true
  | .initialBranch aw :: r => aw == b && awaitsAreT b r
  | .forCands body :: r => body.all (fun s => match s with | .activate aw => aw == b | _ => true) && awaitsAreT b r
  | _ :: r => awaitsAreT b r

def eraseL : LStmt → LStmt
  | .activate _ => .activate false
  | s => s

def eraseAwaitsT : List TStmt → List TStmt
  | [] => []
  | .initialBranch _ :: r => .initialBranch false :: eraseAwaitsT r
  | .forCands body :: r =>
    .forCands (body.map eraseL) :: eraseAwaitsT r
  | s :: r => s :: eraseAwaitsT r

/-! ## `processing_loop` -/

/-- which exceptions the handler around `_trigger` catches -/
inductive ExcSel | baseException | exception
deriving DecidableEq, Repr

/-- one statement of `processing_loop` -/
inductive PStmt
  /-- `if not self._rtc: if not self._external_queue: return None;
  trigger_data = self._external_queue.popleft(); return self._trigger(trigger_data)` -/
  | nonRtcBranch
  /-- `if not self._processing.acquire(blocking=False): return None` -/
  | acquireOrReturn
  /-- `first_result = self._sentinel` -/
  | initFirst
  /-- `try: while self._external_queue: trigger_data = self._external_queue.popleft();
         try: result = self._trigger(trigger_data); if first_result is self._sentinel: first_result = result
         except <sel>: self._external_queue.clear(); raise
       finally: self._processing.release()` -/
  | drain (awaited : Bool) (sel : ExcSel)
  /-- `if self._external_queue: self.processing_loop()` (the repair of D15) -/
  | recheck
  /-- `return first_result if first_result is not self._sentinel else None` -/
  | retFirst
deriving DecidableEq, Repr

/-- the `while` loop of `drain` with the inner `try/except`; `isBase e`: `e` is a `BaseException` that is not an
`Exception` (`KeyboardInterrupt`, `CancelledError`, …); fuel bounds the number of events processed -/
def drainW (trig : Trigger → EM (Option Res)) (isBase : Exc → Bool) (sel : ExcSel) :
    Nat → Option Res → Cfg → Cfg × Except Exc (Option Res)
  | 0, first, cfg => match cfg.queue with
    | [] => (cfg, .ok first)
    | _ => (cfg, .error .fuel)
  | n + 1, first, cfg =>
    match cfg.queue with
    | [] => (cfg, .ok first)
    | t :: q =>
      match trig t { cfg with queue := q } with
      | (cfg', .ok r) => drainW trig isBase sel n (orFirst first r) cfg'
      | (cfg', .error e) =>
        if sel == .baseException || !isBase e then ({ cfg' with queue := [] }, .error e) else (cfg', .error e)

/-- meaning of a `processing_loop` script. `trig` is `_trigger`; `full` is the whole script (for the
recursive call of `recheck`). -/
def runP (rtc : Bool) (trig : Trigger → EM (Option Res)) (isBase : Exc → Bool) (full : List PStmt) :
    Nat → List PStmt → Option Res → EM Res
  | _, [], _ => pure .none
  | fuel, .nonRtcBranch :: r, first =>
    if rtc then runP rtc trig isBase full fuel r first
    else fun cfg =>
      match cfg.queue with
      | [] => (cfg, .ok .none)
      | t :: q =>
        match trig t { cfg with queue := q } with
        | (cfg', .ok (some res)) => (cfg', .ok res)
        | (cfg', .ok none) => (cfg', .ok .none)
        | (cfg', .error e) => (cfg', .error e)
  | fuel, .acquireOrReturn :: r, first => fun cfg =>
    if cfg.locked then (cfg, .ok .none)
    else runP rtc trig isBase full fuel r first { cfg with locked := true }
  | fuel, .initFirst :: r, _ => runP rtc trig isBase full fuel r none
  | fuel, .drain _ sel :: r, first => fun cfg =>
    match drainW trig isBase sel fuel first cfg with
    | (cfg', .ok first') => runP rtc trig isBase full fuel r first' { cfg' with locked := false }
    | (cfg', .error e) => ({ cfg' with locked := false }, .error e)
  | 0, .recheck :: r, first => fun cfg =>
    match cfg.queue with
    | [] => runP rtc trig isBase full 0 r first cfg
    | _ :: _ => (cfg, .error .fuel)
  | n + 1, .recheck :: r, first => fun cfg =>
    match cfg.queue with
    | [] => runP rtc trig isBase full (n + 1) r first cfg
    | _ :: _ =>
      match runP rtc trig isBase full n full none cfg with
      | (cfg', .ok _) => runP rtc trig isBase full n r first cfg'
      | (cfg', .error e) => (cfg', .error e)
  | _, .retFirst :: _, first => pure (first.getD .none)
termination_by fuel l => (fuel, l.length)


/-! ## `callbacks.py`: what "call the group" means — `CallbackWrapper.call/__call__`, `CallbacksExecutor.call/all/async_call/async_all` -/

/-- how an executor invokes a wrapper: `callback.call(…)` (sync engine) or `callback(…)`, i.e. `__call__` (async) -/
inductive Via | call | dunder
deriving DecidableEq, Repr

/-- one statement of `CallbackWrapper.call` / `CallbackWrapper.__call__` -/
inductive WStmt
  /-- `value = self._callback(*args, **kwargs)` -/
  | invoke
  /-- `if isawaitable(value): value = await value` -/
  | awaitIfAwaitable
  /-- `if self.expected_value is not None: return bool(value) == self.expected_value` -/
  | compareIfExpected
  /-- `return value` -/
  | retValue
deriving DecidableEq, Repr

/-- one statement of an executor method -/
inductive XStmt
  /-- `return [callback.call(*args, **kwargs) for callback in self if callback.condition(*args, **kwargs)]` -/
  | retListComp (via : Via)
  /-- `for condition in self: if not [await] condition…(*args, **kwargs): return False` -/
  | forGuards (via : Via) (awaited : Bool)
  /-- `return True` -/
  | retTrue
  /-- `tasks = [asyncio.ensure_future(callback(*args, **kwargs)) for callback in self if callback.condition(…)]` -/
  | spawnFiltered
  /-- `try: return await asyncio.gather(*tasks)` / `except BaseException:` cancel every task, await them
  (`return_exceptions=True`), `raise` (the repair of D33) -/
  | tryGatherCancel
deriving DecidableEq, Repr

/-- what a wrapper hands back: the callback's value, or — for a guard — whether it came out as expected -/
inductive WRes | val (v : Val) | bool (b : Bool)
deriving DecidableEq, Repr

/-- the statements after `invoke`, on the value the callback returned (`await`ing an awaitable gives its value:
a coroutine callback is a callback) -/
def tailW (truthy : Val → Bool) (expected : Option Bool) (v : Val) : List WStmt → WRes
  | [] => .val v
  | .invoke :: r => tailW truthy expected v r
  | .awaitIfAwaitable :: r => tailW truthy expected v r
  | .compareIfExpected :: r =>
    match expected with
    | some e => .bool (truthy v == e)
    | none => tailW truthy expected v r
  | .retValue :: _ => .val v

/-- meaning of a wrapper script; `inv` is the user's callable -/
def runW (inv : EM Val) (truthy : Val → Bool) (expected : Option Bool) : List WStmt → EM WRes
  | .invoke :: r => do
    let v ← inv
    pure (tailW truthy expected v r)
  | _ => do
    let v ← inv
    pure (.val v)

/-- the loop of `all` / `async_all` over the guards of a transition, in executor order -/
def guardLoop (inv : CbId → EM Val) (truthy : Val → Bool) (ws : List WStmt) : List (CbId × Bool) → EM Bool
  | [] => pure true
  | (c, e) :: r => do
    match ← runW (inv c) truthy (some e) ws with
    | .bool true => guardLoop inv truthy ws r
    | _ => pure false

/-- meaning of a guard-executor script (`all`, `async_all`); falling off the end returns `None`, which the caller's
`if not …` reads as a rejection -/
def runXG (inv : CbId → EM Val) (truthy : Val → Bool) (ws : List WStmt) : List XStmt → List (CbId × Bool) → EM Bool
  | [], _ => pure false
  | .forGuards _ _ :: r, gs => do
    let ok ← guardLoop inv truthy ws gs
    if ok then runXG inv truthy ws r gs else pure false
  | .retTrue :: _, _ => pure true
  | _ :: r, gs => runXG inv truthy ws r gs

/-- every wrapper of the list called in order, values collected (the reading of `asyncio.gather` when nothing is
said about interleaving inside a group: DESIGN 3.2) -/
def callEach (inv : CbId → EM Val) (truthy : Val → Bool) (ws : List WStmt) : List CbId → EM (List Val)
  | [] => pure []
  | c :: cs => do
    let w ← runW (inv c) truthy none ws
    let vs ← callEach inv truthy ws cs
    pure ((match w with | .val v => v | .bool _ => 0) :: vs)

/-- meaning of an action-executor script (`call`, `async_call`): the wrappers whose `condition` holds for this event
(`applicable`), each called -/
def runXA (inv : CbId → EM Val) (truthy : Val → Bool) (ws : List WStmt) (ev : EventId) :
    List XStmt → List CbSpec → EM (List Val)
  | .retListComp _ :: _, specs => callEach inv truthy ws (applicable ev specs)
  | .spawnFiltered :: .tryGatherCancel :: _, specs => callEach inv truthy ws (applicable ev specs)
  | _, _ => pure []

/-! ## Entry points: `Event.__call__`, `StateMachine.send`, `BaseEngine.start` -/

/-- one statement of `Event.__call__` -/
inductive EStmt
  /-- `machine = self._sm` -/
  | getMachine
  /-- `if machine is None: raise RuntimeError(…)` (an event that is not bound to an instance) -/
  | raiseIfUnbound
  /-- `kwargs = {k: v for k, v in kwargs.items() if k not in _event_data_kwargs}` -/
  | stripReserved
  /-- `trigger_data = TriggerData(machine=machine, event=self, args=args, kwargs=kwargs)` -/
  | mkTrigger
  /-- `machine._put_nonblocking(trigger_data)` -/
  | put
  /-- `result = machine._processing_loop()` -/
  | processingLoop
  /-- `if not isawaitable(result): return result` -/
  | retIfPlain
  /-- `return run_async_from_sync(result)` (runs the coroutine to its result when no loop is running, hands it to
  the caller to await otherwise) -/
  | retRunAsync
deriving DecidableEq, Repr

/-- one statement of `StateMachine.send` -/
inductive SStmt
  /-- `if event in self.__class__._events: event_instance = getattr(self, event)`
  `else: event_instance = BoundEvent(id=event, name=event, _sm=self)` -/
  | resolveEvent
  /-- `result = event_instance(*args, **kwargs)` -/
  | callEvent
  | retIfPlain
  | retRunAsync
deriving DecidableEq, Repr

/-- one statement of `BaseEngine.start` -/
inductive StStmt
  /-- `if self.sm.current_state_value is not None: return` -/
  | returnIfState
  /-- `trigger_data = TriggerData(machine=self.sm, event=BoundEvent("__initial__", _sm=self.sm))` -/
  | mkActivation
  /-- `self._activation = trigger_data` -/
  | remember
  /-- `self.put(trigger_data)` -/
  | put
deriving DecidableEq, Repr

/-- meaning of an `Event.__call__` script for a bound event `e`; `proc` is `machine._processing_loop()`. The result
of the loop is what the caller gets, directly or as the value of the coroutine. -/
def runE (proc : EM Res) (e : EventId) : List EStmt → Option Res → EM Res
  | [], r => pure (r.getD .none)
  | .put :: rest, r => do enqueue e; runE proc e rest r
  | .processingLoop :: rest, _ => do
    let res ← proc
    runE proc e rest (some res)
  | .retIfPlain :: rest, r => match r with
    | some res => pure res
    | none => runE proc e rest r
  | .retRunAsync :: _, r => pure (r.getD .none)
  | _ :: rest, r => runE proc e rest r

/-- meaning of a `send` script: whatever the name is — declared or not — an event bound to this machine is called -/
def runS (callEv : EventId → EM Res) (e : EventId) : List SStmt → Option Res → EM Res
  | [], r => pure (r.getD .none)
  | .resolveEvent :: rest, r => runS callEv e rest r
  | .callEvent :: rest, _ => do
    let res ← callEv e
    runS callEv e rest (some res)
  | .retIfPlain :: rest, r => match r with
    | some res => pure res
    | none => runS callEv e rest r
  | .retRunAsync :: _, r => pure (r.getD .none)

/-- meaning of a `start` script -/
def runStart : List StStmt → EM Unit
  | [] => pure ()
  | .returnIfState :: rest => do
    let cfg ← EM.get
    if cfg.cur.isSome then pure () else runStart rest
  | .mkActivation :: rest => runStart rest
  | .remember :: rest => runStart rest
  | .put :: rest => do enqueueActivation; runStart rest

/-! ## `spec_parser.py`: the closures guard expressions are made of (shapes; their one-step meaning is in
`SMV/Src/TieExpr.lean`, next to the expression model) -/

/-- the `return` statement of an inner `decorated` closure -/
inductive CombBody
  /-- `return not predicate(*args, **kwargs)` -/
  | notCall
  /-- `return left(*args, **kwargs) and right(*args, **kwargs)` -/
  | andCalls
  /-- `return left(*args, **kwargs) or right(*args, **kwargs)` -/
  | orCalls
  /-- `return constant` -/
  | constant
  /-- `return bool(operator(left(*args, **kwargs), right(*args, **kwargs)))` -/
  | boolOfOp
deriving DecidableEq, Repr

/-- one branch of the `isinstance` chain of `build_expression`, in source order -/
inductive BBranch
  /-- `ast.BoolOp`: `operator_fn = operator_mapping[type(node.op)]`, the values folded from the left -/
  | boolOpFoldLeft
  /-- `ast.Compare`: one link per operator, `left_expr = right_expr` carried to the next link, the links combined by
  `reduce(custom_and, expressions)` -/
  | compareLinksAnd
  /-- `ast.UnaryOp` with `ast.Not`: `operator_mapping[type(node.op)](operand)` -/
  | unaryNot
  /-- `ast.Name`: `variable_hook(node.id)` -/
  | name
  /-- `ast.Constant`: `build_constant(node.value)` -/
  | constant
  /-- the Python 3.7 spellings of constants (`NameConstant`, `Str`, `Num`) -/
  | legacyConstant
  /-- `else: raise ValueError("Unsupported expression structure …")` -/
  | unsupported
deriving DecidableEq, Repr

/-- one statement of `parse_boolean_expr` -/
inductive QStmt
  /-- `if expr.strip() == "": raise SyntaxError("Empty expression")` -/
  | rejectBlank
  /-- `if expr.isidentifier() and not iskeyword(expr): return variable_hook(expr)` -/
  | fastPathName
  /-- `expr = replace_operators(expr)` -/
  | replaceOperators
  /-- `tree = ast.parse(expr, mode="eval")` -/
  | parseEval
  /-- `return build_expression(tree.body, variable_hook, operator_mapping)` -/
  | build
deriving DecidableEq, Repr

structure ParserScript where
  notB : CombBody
  andB : CombBody
  orB : CombBody
  constB : CombBody
  cmpB : CombBody
  branches : List BBranch
  /-- `operator_mapping`: AST operator class ↦ what builds its closure -/
  mapping : List (String × String)
  parse : List QStmt
  /-- `replacements` of `replace_operators`, sorted by key -/
  replacements : List (String × String)
deriving DecidableEq, Repr

end SMV.Src

