import SMV.Src.Expected
import SMV.Props.C07
/-!
# The source-derived script of `bind_expected` means the binder model (C07)

`Expected.bindExpected` is what `harness/srcgen.py` derives from `statemachine/signature.py`,
`Expected.callableMethod` from `dispatcher.callable_method`. The theorems say that interpreting them (`B.runBind`,
`B.runC`) is `Bind.bindExpected true` / `Bind.invokeWith true` of `SMV/Model/Binder.lean` — for every signature,
every list of positional arguments and every keyword dict. The C07 theorems (`C07_receive` …) are therefore
theorems about what the source says; on every run the kernel decides that the script regenerated from the tree
under test is the expected one.
-/
namespace SMV.Src
open SMV.Bind B

/-- the two blocks of the `while True` loop and the body of the second loop, as derived from the source -/
def noArgBlk : BBlock :=
  blk [.ite (.kindIs .vp) (blk [.act .brk]) (blk [.ite .nameInKw (blk [.ite (.kindIs .po) (blk [.act .raiseTypeError]) (blk []), .act .pushBack, .act .brk]) (blk [.ite (.or (.kindIs .vk) .hasDefault) (blk [.act .pushBack, .act .brk]) (blk [.act .pushBack, .act .brk])])])]

def withArgBlk : BBlock :=
  blk [.ite (.kindIs .vk) (blk [.act .rememberVk, .act .brk]) (blk []), .ite (.kindIs .ko) (blk [.act .pushBack, .act .brk]) (blk []), .ite (.kindIs .vp) (blk [.act .fillVarPos, .act .brk]) (blk []), .ite (.and .nameInKw (.kindNe .po)) (blk [.act .assignPop]) (blk [.act .assignArg])]

def forBlk : BBlock :=
  blk [.ite (.kindIs .vk) (blk [.act .rememberVk, .act .cont]) (blk []), .ite (.kindIs .vp) (blk [.act .cont]) (blk []), .act .popIfPresent]

/-- the script is made of exactly these blocks (so the lemmas below are about the derived script) -/
theorem bindExpected_shape :
    Expected.bindExpected =
      [.initArguments, .iterParameters, .iterArgs, .initEx, .initVk, .whileLoop noArgBlk withArgBlk,
       .forRest forBlk, .storeRestKw, .retBound] := by decide

/-- `P1` of the model from the locals after the loop: the parameters still to visit are
`chain(parameters_ex, parameters)` -/
def toP1 (r : BSt × List Param) : P1 := ⟨r.1.args, r.1.kw, r.1.ex ++ r.2, r.1.vk⟩

/-- the `while True` loop of the source is `phase1` -/
theorem runWhile_phase1 (ps : List Param) (args : List Val) (kw : KW) (acc : Arguments) :
    (runWhile noArgBlk withArgBlk ps ⟨acc, kw, [], none, args⟩).map toP1 = phase1 true ps args kw acc := by
  induction ps generalizing args kw acc with
  | nil => cases args <;> simp [runWhile, phase1, toP1]
  | cons p ps ih =>
    obtain ⟨n, k, d⟩ := p
    cases args with
    | nil =>
      cases k <;> cases d <;> cases h : kwGet kw n <;>
        simp [runWhile, phase1, toP1, noArgBlk, blk, runBlk, runStmt, doAct, BCond.holds, h]
    | cons a as =>
      cases k
      case pk =>
        cases h : kwGet kw n
        · simp [runWhile, phase1, withArgBlk, blk, runBlk, runStmt, doAct, BCond.holds, h]
          exact ih as kw _
        · simp [runWhile, phase1, withArgBlk, blk, runBlk, runStmt, doAct, BCond.holds, h]
          exact ih as _ _
      case po =>
        simp [runWhile, phase1, withArgBlk, blk, runBlk, runStmt, doAct, BCond.holds]
        exact ih as kw _
      all_goals simp [runWhile, phase1, toP1, withArgBlk, blk, runBlk, runStmt, doAct, BCond.holds]

/-- one round of the second loop -/
theorem forBlk_step (p : Param) (s : BSt) :
    runBlk p none forBlk s =
      match p.kind with
      | .vk => .cont { s with vk := some p }
      | .vp => .cont s
      | _ =>
        match kwGet s.kw p.name with
        | some v => .next { s with args := s.args ++ [(p.name, .one v)], kw := kwErase s.kw p.name }
        | none => .next s := by
  obtain ⟨n, k, d⟩ := p
  cases k <;> cases h : kwGet s.kw n <;>
    simp [forBlk, blk, runBlk, runStmt, doAct, BCond.holds, h]

/-- the second loop of the source is `phase2` -/
theorem runFor_phase2 (ps : List Param) (s : BSt) :
    B.runFor forBlk ps s =
      some { s with args := (phase2 ps s.kw s.args s.vk).1, kw := (phase2 ps s.kw s.args s.vk).2.1,
                    vk := (phase2 ps s.kw s.args s.vk).2.2 } := by
  induction ps generalizing s with
  | nil => simp [B.runFor, phase2]
  | cons p ps ih =>
    rw [B.runFor, forBlk_step]
    obtain ⟨n, k, d⟩ := p
    cases k <;> try cases h : kwGet s.kw n
    all_goals simp [phase2, ih, *]

/-- **The script of `bind_expected` means the model's `bindExpected`** (with the repair of D5 in place) -/
theorem runBind_bindExpected (sig : List Param) (args : List Val) (kw : KW) :
    runBind Expected.bindExpected sig args kw = bindExpected true sig args kw := by
  rw [bindExpected_shape]
  have h := runWhile_phase1 sig args kw []
  simp only [runBind, runF, FSt.pack, FSt.unpack, bindExpected]
  rw [← h]
  cases hw : runWhile noArgBlk withArgBlk sig ⟨[], kw, [], none, args⟩ with
  | none => simp
  | some r =>
    obtain ⟨s, ps⟩ := r
    simp only [Option.map_some, toP1, runFor_phase2, finalize]
    generalize phase2 (s.ex ++ ps) s.kw s.args s.vk = r
    obtain ⟨a, k2, v⟩ := r
    cases v <;> cases k2 <;> simp [runF]

/-- **`callable_method`**: both adapters (the plain one and the `async def` one) bind with the adapter's signature
and call the callable with `*ba.args, **ba.kwargs` — `invokeWith` of the model -/
theorem runC_invokeWith (isCoroutine : Bool) (adapter own : List Param) (args : List Val) (kw : KW) :
    runC (runBind Expected.bindExpected) adapter own args kw (Expected.callableMethod.body isCoroutine) none
      = invokeWith true adapter own args kw := by
  cases isCoroutine <;>
    simp [Expected.callableMethod, CallableScript.body, runC, runBind_bindExpected, invokeWith] <;>
    cases bindExpected true adapter args kw <;> simp [runC]

/-- the `async def` adapter awaits the callable, the plain one does not; the adapter is asked for the callable itself -/
theorem callable_shape :
    Expected.callableMethod.awaitsOk = true ∧ Expected.callableMethod.pre = [.adapterOfCallable] ∧
    Expected.callableMethod.post = [.markCoroutine, .retAdapter] := by decide

/-- **C07 at the level of the source.** What the adapter built by `callable_method` — its script over the script of
`bind_expected` — hands to a callback with a well-formed signature *is* the Spec (outside the one corner where
CPython's own `TypeError` is demanded): `TypeError` iff a parameter without default has no argument, otherwise every
parameter holds `specParam`. For the plain and the `async def` adapter alike. -/
theorem C07_receive_scripts (isCoroutine : Bool) (sig : List Param) (args : List Val) (kw : KW) (hwf : WF sig)
    (hc : corner sig args kw = false) :
    runC (runBind Expected.bindExpected) sig sig args kw (Expected.callableMethod.body isCoroutine) none
      = specCall sig args kw := by
  rw [runC_invokeWith]
  exact C07_receive_exact sig args kw hwf hc

/-- the scripts never raise a `TypeError` the Spec does not demand -/
theorem C07_no_spurious_scripts (isCoroutine : Bool) (sig : List Param) (args : List Val) (kw : KW) (hwf : WF sig)
    (h : runC (runBind Expected.bindExpected) sig sig args kw (Expected.callableMethod.body isCoroutine) none = none) :
    Unsupplied sig args kw ∨ PosOnlyByKeyword sig args kw := by
  rw [runC_invokeWith] at h
  exact C07_no_spurious_typeerror sig args kw hwf h

/-- non-vacuity: a signature with every kind of parameter, surplus positionals, unknown and known keywords -/
example :
    runC (runBind Expected.bindExpected)
      [⟨10, .po, false⟩, ⟨11, .pk, true⟩, ⟨12, .vp, false⟩, ⟨13, .ko, true⟩, ⟨14, .vk, false⟩]
      [⟨10, .po, false⟩, ⟨11, .pk, true⟩, ⟨12, .vp, false⟩, ⟨13, .ko, true⟩, ⟨14, .vk, false⟩]
      [1, 2, 3] [(13, 7), (99, 8)] (Expected.callableMethod.body false) none
    = some [(10, .one 1), (11, .one 2), (12, .tuple [3]), (13, .one 7), (14, .dict [(99, 8)])] := by decide +kernel

end SMV.Src
