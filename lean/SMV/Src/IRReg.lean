import SMV.Model.Registry
/-!
# Source-derived scripts of the callback registry (C12)

`harness/srcgen.py` reads `callbacks.py` (`CallbacksExecutor.add`, `CallbackWrapper.__lt__`,
`CallbacksRegistry.check` / `async_or_sync`) and `dispatcher.py` (`Listeners.resolve`, `search_name`,
`Listener.build_key`, `from_obj`) and writes them as the scripts below. This file gives `add`, `__lt__`, `search_name`
and `resolve` a meaning over the registry model (`SMV/Model/Registry.lean`); `SMV/Src/TieReg.lean` proves that the
scripts of the tree the theorems were proved for mean `Reg.add` / `Reg.insort` / `Reg.buildSpec` / `Reg.resolveInto`.

No imports beyond the model.
-/
namespace SMV.Src.R
open SMV.Reg SMV.Prov

/-- `CallbackWrapper.__lt__` -/
inductive LtBody
  /-- `return self.meta.priority < other.meta.priority` -/
  | priorityLess
deriving DecidableEq, Repr

def LtBody.lt : LtBody → Reg.Entry → Reg.Entry → Bool
  | .priorityLess, a, b => decide (a.prio < b.prio)

/-- `bisect.insort(items, w)` = `insort_right`: `w` goes before the first element `x` with `w < x` -/
def insortBy (lt : Reg.Entry → Reg.Entry → Bool) (e : Reg.Entry) : Reg.Exec → Reg.Exec
  | [] => [e]
  | x :: xs => if lt e x then e :: x :: xs else x :: insortBy lt e xs

/-- `CallbacksExecutor.add(key, spec, builder)` -/
inductive AddStmt
  /-- `seen_key = (key, spec.expected_value)` -/
  | seenKey
  /-- `if seen_key in self.items_already_seen: return` -/
  | returnIfSeen
  /-- `self.items_already_seen.add(seen_key)` -/
  | markSeen
  /-- `condition = spec.cond if spec.cond is not None else allways_true` -/
  | conditionOrAlways
  /-- `wrapper = CallbackWrapper(callback=builder(), condition=condition, meta=spec, unique_key=key)` -/
  | wrap
  /-- `insort(self.items, wrapper)` -/
  | insort
deriving DecidableEq, Repr

/-- the executor as `add` sees it: the wrappers and the set of seen keys (in the model the seen keys are the keys
of the wrappers: nothing is ever removed) -/
structure AddSt where
  items : Reg.Exec
  key : Option (Reg.Key × Bool) := none
  wrapped : Bool := false
  hasCond : Bool := false

/-- `none` = a local read before it is assigned -/
def runAdd (lt : Reg.Entry → Reg.Entry → Bool) (e : Reg.Entry) : List AddStmt → AddSt → Option Reg.Exec
  | [], s => some s.items
  | .seenKey :: r, s => runAdd lt e r { s with key := some e.dk }
  | .returnIfSeen :: r, s =>
    match s.key with
    | none => none
    | some k => if seen s.items k then some s.items else runAdd lt e r s
  | .markSeen :: r, s => if s.key.isSome then runAdd lt e r s else none
  | .conditionOrAlways :: r, s => runAdd lt e r { s with hasCond := true }
  | .wrap :: r, s => if s.hasCond then runAdd lt e r { s with wrapped := true } else none
  | .insort :: r, s => if s.wrapped then runAdd lt e r { s with items := insortBy lt e s.items } else none

/-- `Listeners.search_name(name)`: the statements of the loop over the listeners -/
inductive SNStmt
  /-- `if name not in listener.all_attrs: continue` -/
  | skipUnlessHasAttr
  /-- `key = listener.build_key(name)` with `build_key` = `f"{attr_name}@{self.resolver_id}"`, `resolver_id = str(id(obj))` -/
  | keyNameAtProvider
  /-- `func = getattr(listener.obj, name)` -/
  | getattr
  /-- `if not callable(func): yield key, partial(attr_method, name, listener.obj); continue` -/
  | yieldAttrUnlessCallable
  /-- `if isinstance(func, Event): yield key, partial(event_method, func); continue` -/
  | yieldEventMethod
  /-- `yield key, partial(callable_method, func)` -/
  | yieldCallable
deriving DecidableEq, Repr

/-- one (key, callback) per provider that has the attribute, in provider order; the three ways of wrapping what is
found (plain attribute, event, callable) all yield exactly one entry under the same key -/
def runSearchName (body : List SNStmt) (n : Name) (s : Reg.Spec) : List Provider → Option (List Reg.Entry)
  | [] => some []
  | p :: ps =>
    if body = [.skipUnlessHasAttr, .keyNameAtProvider, .getattr, .yieldAttrUnlessCallable, .yieldEventMethod, .yieldCallable] then
      match runSearchName body n s ps with
      | none => none
      | some rest =>
        match offers p n with
        | none => some rest
        | some cb => some ({ key := .named n p.id, cb := cb, prio := s.prio, only := s.only, expected := s.expected } :: rest)
    else none

/-- body of the loop over the specs -/
inductive RsBody
  /-- `if spec.reference not in allowed_references or (spec.is_convention and spec.func not in found…): continue` -/
  | skipUnlessAllowedAndFound
  /-- `executor = registry[specs.grouper(spec.group).key]` -/
  | executorOfGroup
  /-- `for key, builder in self.build(spec): executor.add(key, spec, builder)` -/
  | addEachBuilt
deriving DecidableEq, Repr

/-- `Listeners.resolve(specs, registry, allowed_references)` -/
inductive RsStmt
  /-- `found_convention_specs = specs.conventional_specs & self.all_attrs` -/
  | conventionFilter
  /-- `for spec in specs:` with the body below -/
  | forSpecs (body : List RsBody)
deriving DecidableEq, Repr
/-- the executor of group `g` after `resolve`, as the script says. `build` = what `Listeners.build(spec)` yields
(`search_name` for a name, the callable itself otherwise), `addE` = `executor.add`.
`isConvention s` ∧ "no provider has the attribute" is the only case the convention filter skips. -/
def runResolve (build : List Provider → Reg.Spec → List Reg.Entry) (addE : Reg.Exec → Reg.Entry → Reg.Exec)
    (safe : Bool) (ps : List Provider) (g : Reg.Group) (specs : List Reg.Spec) : List RsStmt → Reg.Exec → Option Reg.Exec
  | [.conventionFilter, .forSpecs [.skipUnlessAllowedAndFound, .executorOfGroup, .addEachBuilt]], ex =>
    some (specs.foldl (fun ex s =>
      let notAllowed := match s.ref, safe with | .callable _, true => true | _, _ => false
      let conventionMissing := s.prio ≥ 30 && (build ps s).isEmpty
      if notAllowed || conventionMissing then ex
      else if s.group != g then ex
      else (build ps s).foldl addE ex) ex)
  | _, _ => none

/-- `CallbacksRegistry.check` and `async_or_sync`: shapes -/
inductive CkStmt
  /-- `for meta in specs:` `if meta.is_convention: continue` -/
  | skipConventions
  /-- `if any(callback for callback in self[meta.group.build_key(specs)] if callback.meta == meta): continue` -/
  | continueIfResolved
  /-- `if meta.names_not_found: raise AttrNotFound(…names…)` -/
  | raiseNamesNotFound
  /-- `raise AttrNotFound(…meta.func…)` -/
  | raiseNotFound
deriving DecidableEq, Repr

inductive AsStmt
  /-- `self.has_async_callbacks = any(callback._iscoro for executor in self._registry.values() for callback in executor)` -/
  | anyCoroutineInAnyExecutor
deriving DecidableEq, Repr

structure RegScript where
  add : List AddStmt
  lt : LtBody
  searchName : List SNStmt
  resolve : List RsStmt
  check : List CkStmt
  asyncOrSync : List AsStmt
deriving DecidableEq, Repr

end SMV.Src.R
