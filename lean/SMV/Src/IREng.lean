import SMV.Model.Engine
/-!
# Source-derived scripts of the engine's small functions and of the event data (C03, C07, C11, C16)

`BaseEngine.__init__` / `put` / `_initial_transition`, `SyncEngine.start` / `activate_initial_state`,
`AsyncEngine.activate_initial_state`, `TriggerData.__post_init__`, `EventData.__post_init__` and the *values*
`EventData.extended_kwargs` binds to the built-in names.
-/
namespace SMV.Src.E

/-- `BaseEngine.__init__` -/
inductive InitStmt
  /-- `self.sm = proxy(sm)` -/
  | proxyMachine
  /-- `self._external_queue = deque()`: a queue of its own -/
  | newQueue
  /-- `self._sentinel = object()` -/
  | newSentinel
  /-- `self._rtc = rtc` -/
  | fieldRtc
  /-- `self._processing = Lock()`: a lock of its own -/
  | newLock
  /-- `self._activation = None` -/
  | noActivation
deriving DecidableEq, Repr

/-- `put` -/
inductive PutStmt
  /-- `self._external_queue.append(trigger_data)` -/
  | appendRight
deriving DecidableEq, Repr

def runPut {α} (t : α) : List PutStmt → List α → List α
  | [], q => q
  | .appendRight :: r, q => runPut t r (q ++ [t])

/-- `_initial_transition` -/
inductive ITStmt
  /-- `transition = Transition(State(), self.sm._get_initial_state(), event="__initial__")`: a fresh anonymous source -/
  | anonymousSourceToInitialState
  /-- `transition._specs.clear()` -/
  | clearSpecs
  | ret
deriving DecidableEq, Repr

/-- `start` / `activate_initial_state` of the two engines -/
inductive ActStmt
  /-- `super().start()` -/
  | superStart
  /-- `self.activate_initial_state()` -/
  | activate
  /-- `return self.processing_loop()`; `awaited`: `return await self.processing_loop()` -/
  | retProcessingLoop (awaited : Bool)
deriving DecidableEq, Repr

/-- `EventData.__post_init__` / `TriggerData.__post_init__`: `self.<field> = <expr>` -/
structure Assign where
  field : String
  expr : String
deriving DecidableEq, Repr

structure EngScript where
  baseInit : List InitStmt
  put : List PutStmt
  initialTransition : List ITStmt
  syncStart : List ActStmt
  syncActivate : List ActStmt
  asyncActivate : List ActStmt
  /-- `AsyncEngine` defines no `start` of its own: creating the machine queues the activation and runs nothing -/
  asyncHasOwnStart : Bool
  triggerPostInit : List Assign
  eventPostInit : List Assign
  /-- `kwargs["<name>"] = <expr>` of `extended_kwargs`, in order -/
  extendedKwargs : List Assign
deriving DecidableEq, Repr

/-- every built-in name is bound to the event data's field of that name (for `event_data`: the object itself) -/
def builtinsOk (xs : List Assign) : Bool :=
  xs == [⟨"event_data", "self"⟩, ⟨"machine", "self.trigger_data.machine"⟩, ⟨"event", "self.trigger_data.event"⟩,
         ⟨"model", "self.trigger_data.model"⟩, ⟨"transition", "self.transition"⟩, ⟨"state", "self.state"⟩,
         ⟨"source", "self.source"⟩, ⟨"target", "self.target"⟩]

end SMV.Src.E
