import SMV.Props.C07
import SMV.Model.World
import SMV.Lemmas.DeclFrame
/-!
# C16 — Machines are isolated from other instances, classes and definitions

In the model a process is a list of instances, each with its own machine definition and its own
configuration; nothing else is mutable. `C16_frame`: under every interleaving of operations on any
number of instances, the configuration of instance `i` is exactly what its own operations alone
produce — operations on other instances (of the same or of other classes) are invisible to it.

What this rests on (and what the correspondence checks against the real library): there is no
process-wide mutable state shared between instances or classes. The two places where the real code
had such state are the signature cache (keyed by names before the repair of D6; now by the callable
object itself — `SMV.Bind.C07_local` proves independence from the cache's history) and `State`
objects shared between a base class and a subclass (known finding D7: a subclass that declares a
transition out of an inherited state mutates the base class).
-/
namespace SMV

theorem stepAt_other (ms : List Machine) (o : Opts) (fuel : Nat) (i j : Nat) (op : Op) (w : World)
    (h : i ≠ j) : (stepAt ms o fuel i op w)[j]? = w[j]? := by
  unfold stepAt
  split
  · simp [List.getElem?_set, h]
  · rfl

theorem stepAt_self (ms : List Machine) (o : Opts) (fuel : Nat) (i : Nat) (op : Op) (w : World)
    (m : Machine) (c : Cfg) (hm : ms[i]? = some m) (hc : w[i]? = some c) :
    (stepAt ms o fuel i op w)[i]? = some (stepOp m o fuel op c).1 := by
  unfold stepAt
  simp only [hm, hc]
  have : i < w.length := by
    rcases Nat.lt_or_ge i w.length with h | h
    · exact h
    · rw [List.getElem?_eq_none h] at hc; cases hc
  simp [List.getElem?_set, this]

/-- the operations of the interleaving that address instance `i` -/
def own (i : Nat) (ops : List (Nat × Op)) : List Op := (ops.filter (·.1 == i)).map (·.2)

/-- **C16 (frame).** For every interleaving of operations on every set of instances, the final
configuration of instance `i` equals the result of running its own operations alone. -/
theorem C16_frame (ms : List Machine) (o : Opts) (fuel : Nat) (ops : List (Nat × Op)) (w : World)
    (i : Nat) (m : Machine) (c : Cfg) (hm : ms[i]? = some m) (hc : w[i]? = some c) :
    (runWorld ms o fuel ops w)[i]? = some (runOps m o fuel (own i ops) c) := by
  induction ops generalizing w c with
  | nil => simpa [runWorld, own, runOps] using hc
  | cons x rest ih =>
    obtain ⟨j, op⟩ := x
    unfold runWorld
    by_cases hji : j = i
    · subst hji
      have := stepAt_self ms o fuel j op w m c hm hc
      rw [ih _ _ this]
      simp [own, runOps]
    · have := stepAt_other ms o fuel j i op w hji
      rw [hc] at this
      rw [ih _ _ this]
      have : (j == i) = false := by simpa using hji
      simp [own, this]

/-- in particular: the log (every callback invocation with its arguments), the state and the queue
of instance `i` do not depend on what the others did or on how the operations were interleaved -/
theorem C16_interleaving_irrelevant (ms : List Machine) (o : Opts) (fuel : Nat)
    (ops ops' : List (Nat × Op)) (w : World) (i : Nat) (m : Machine) (c : Cfg)
    (hm : ms[i]? = some m) (hc : w[i]? = some c) (hown : own i ops = own i ops') :
    (runWorld ms o fuel ops w)[i]? = (runWorld ms o fuel ops' w)[i]? := by
  rw [C16_frame ms o fuel ops w i m c hm hc, C16_frame ms o fuel ops' w i m c hm hc, hown]

/-- the number of instances never changes by operating on them (no instance is created or lost) -/
theorem runWorld_length (ms : List Machine) (o : Opts) (fuel : Nat) (ops : List (Nat × Op)) (w : World) :
    (runWorld ms o fuel ops w).length = w.length := by
  induction ops generalizing w with
  | nil => rfl
  | cons x rest ih =>
    obtain ⟨j, op⟩ := x
    unfold runWorld
    rw [ih]
    unfold stepAt
    split <;> simp

end SMV

/-!
## Classes: what defining a subclass does to its base class (known findings D7, D7b)

A base class and its subclasses share the `State` objects; in the declaration model
(`SMV/Model/Decl.lean`) this is the shared store `Cls.trans`, and `state.transitions` is
`outOf c s`. `baseAfter base p` is the base class as it (and every live instance of it) looks after
`class Sub(base): p` was executed: its own registry, the store as the subclass left it.

`C16_subclass_frame_partial`: defining a subclass leaves every state of the base with exactly the
transitions it had — *provided* the subclass body creates no transition out of a base state and no
`AnyState` transition. `_partial`: the unconditional statement is false in the code (D7, witness
below); the hypotheses are sufficient, syntactic conditions on the subclass body, plus two on the
base (no placeholder left; the states the body declares have no transition object in the base's
store). The lemmas are in `SMV/Lemmas/DeclFrame.lean`.
-/
namespace SMV
open Decl

/-- **C16 (class level, partial).** `class Sub(base): p` does not change `state.transitions` of any
state of `base`, if

* (a) no statement of `p` creates a transition whose source is an `AnyState` or a state of `base`
  (`Stmt.srcs`: the sources of the `to/from_/itself/any` calls of the statement);
* (b) the store of `base` holds no placeholder event (`Event(name=…)` not yet replaced) — a finished
  class has none; needed because `_update_event_references` of the subclass rewrites every
  transition that still holds a placeholder of the same attribute name;
* (c) *extra hypothesis*: no `Transition` object of `base`'s store leaves a state of the name of a
  state that `p` declares. The model identifies states by name. If the body declares a state for
  which the shared store already has transitions (a state of that name registered in `base`, or a
  dangling source that `base` never registered), `add_state` finds the events on those transitions
  *with their transition lists* and re-runs `_on_event_defined` for them — on positions of the
  base's store, e.g. a `from_.any()` of the base, which is then expanded again into all (inherited)
  states. `C16_fresh_needed` below is such a body. (c) holds whenever the names declared by `p` are
  different from every source name used in `base`; it also holds for a name of `base` that has no
  outgoing transition.

Nothing is assumed about `base.pending`, `base.attrs` (the subclass starts from an empty namespace,
`startClass`) or about `ref`s in `p` (an unresolved name yields the empty list; a resolved one lists
positions created by `p` itself).

Outside the statement, and false of the library (known finding D7c, `c16.probe_d7c`): a body that
refers to an *attribute of the base class* — `class Sub(Base): again = Base.go`. The body language of
the model cannot say it (a `ref` resolves in the subclass's own, initially empty, namespace); the
library takes the inherited `Event` for a placeholder and renames it inside the transitions it shares
with the base. -/
theorem C16_subclass_frame_partial (base : Cls) (p : List Stmt)
    (hsrc : ∀ st ∈ p, ∀ x ∈ st.srcs, x ≠ .any ∧ ∀ s ∈ base.states, x ≠ .st s.name)
    (hph : ∀ t ∈ base.trans, ∀ e ∈ t.events, ∃ id tl, e = EvRef.real id tl)
    (hfresh : ∀ st ∈ p, ∀ d ∈ st.decls, outOf base d.name = []) :
    ∀ s ∈ base.states, outOf (baseAfter base p) s.name = outOf base s.name := by
  intro s hs
  have h : Frame base.trans (fun t => (fun x => x ≠ Src.any ∧ ∀ s ∈ base.states, x ≠ .st s.name) t.source)
      (baseAfter base p) :=
    (elabClass_frame (G := fun x => x ≠ .any ∧ ∀ s ∈ base.states, x ≠ .st s.name)
      base p (fun _ hx => hx.1) hsrc hph hfresh).of_trans rfl
  exact Frame.outOf (G := fun x => x ≠ Src.any ∧ ∀ s ∈ base.states, x ≠ .st s.name) h s.name
    (fun hG => hG.2 s hs rfl)

/-- the machine the base class denotes (states, per-state ordered transitions with their events,
guards and callbacks — everything the engine uses) is the same before and after the subclass was
defined. `toMachine` reads `states`, `outOf` of the registered states and `stateIdx` (a function of
`states`) only, so this is the frame theorem by congruence. -/
theorem C16_subclass_machine (env : Env) (base : Cls) (p : List Stmt)
    (hsrc : ∀ st ∈ p, ∀ x ∈ st.srcs, x ≠ .any ∧ ∀ s ∈ base.states, x ≠ .st s.name)
    (hph : ∀ t ∈ base.trans, ∀ e ∈ t.events, ∃ id tl, e = EvRef.real id tl)
    (hfresh : ∀ st ∈ p, ∀ d ∈ st.decls, outOf base d.name = []) :
    toMachine env (baseAfter base p) = toMachine env base := by
  have h := C16_subclass_frame_partial base p hsrc hph hfresh
  unfold toMachine
  congr 1
  show base.states.map (toStateDef env (baseAfter base p)) = base.states.map (toStateDef env base)
  apply List.map_congr_left
  intro s hs
  unfold toStateDef
  rw [h s hs]
  rfl

namespace C16ex
def sA : SDecl := { name := 0, initial := true }
def sB : SDecl := { name := 1 }
def sZ : SDecl := { name := 2, final := true }
def nokw : Kw := {}
def go : Name := 10
def back : Name := 11
def stop : Name := 12
def x : Name := 13

/-- a finished base class: three states, two transitions -/
def base : Cls := elabClass {} [.state sA, .state sB, .state sZ,
  .assign go (.to 0 [1] nokw), .assign back (.to 1 [0] nokw)]

/-- a finished base class that uses `stop = sZ.from_.any()` -/
def baseAny : Cls := elabClass {} [.state sA, .state sB, .state sZ,
  .assign go (.to 0 [1] nokw), .assign stop (.fromAny 2 nokw)]
end C16ex
open C16ex

/-- **D7** (hypothesis (a) is needed): a subclass that declares a transition out of an inherited
state adds it to the base class's state. -/
theorem C16_D7_witness :
    outOf (baseAfter base [.assign x (.to 0 [1] nokw)]) 0 ≠ outOf base 0 := by decide

/-- **D7b**, the code before the repair: with a base that declares `stop = s2.from_.any()`, merely
defining an *empty* subclass expanded the `any()` again into the shared `State` objects. -/
theorem C16_D7b_as_is_witness :
    outOf { baseAny with trans := (elabClassAsIs baseAny []).trans } 0 ≠ outOf baseAny 0 := by decide

/-- **D7b** after the repair: the same base, the empty subclass — an instance of the frame theorem. -/
theorem C16_D7b_fixed_instance :
    ∀ s ∈ baseAny.states, outOf (baseAfter baseAny []) s.name = outOf baseAny s.name :=
  C16_subclass_frame_partial baseAny [] (by simp) (real_of_isReal (by decide)) (by simp)

/-- hypothesis (c) is needed: re-declaring the name of a base state in the subclass re-runs
`_on_event_defined` for the events found on the base's transitions of that name — here the base's
`any()` is expanded again -/
theorem C16_fresh_needed :
    (∀ st ∈ [Stmt.state sA], ∀ x ∈ st.srcs, x ≠ .any ∧ ∀ s ∈ baseAny.states, x ≠ .st s.name) ∧
    outOf (baseAfter baseAny [.state sA]) 1 ≠ outOf baseAny 1 := by decide

/-- non-vacuity of `C16_subclass_frame_partial`: a base with 3 states and 2 transitions, a subclass
that adds a state and two transitions out of it (one via a decorator and a `ref`); all hypotheses
hold, and the shared store did change -/
example : (∀ s ∈ base.states,
      outOf (baseAfter base [.state { name := 3 }, .assign x (.to 3 [0] nokw),
        .decorated (.or (.from_ 1 [3] nokw) (.ref x)) stop 5]) s.name = outOf base s.name) ∧
    (baseAfter base [.state { name := 3 }, .assign x (.to 3 [0] nokw),
        .decorated (.or (.from_ 1 [3] nokw) (.ref x)) stop 5]).trans ≠ base.trans ∧
    2 ≤ base.states.length ∧ 2 ≤ base.trans.length :=
  ⟨C16_subclass_frame_partial base _ (by decide) (real_of_isReal (by decide)) (by decide),
    by decide, by decide, by decide⟩

end SMV
