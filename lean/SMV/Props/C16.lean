import SMV.Model.World
/-!
# C16 — Machines are isolated from other instances, classes and definitions

In the model a process is a list of instances, each with its own machine definition and its own
configuration; nothing else is mutable. `C16_frame`: under every interleaving of operations on any
number of instances, the configuration of instance `i` is exactly what its own operations alone
produce — operations on other instances (of the same or of other classes) are invisible to it.

What this rests on (and what the correspondence checks against the real library): there is no
process-wide mutable state shared between instances or classes. The two places where the real code
had such state are the signature cache (keyed by names before the repair of D6; now by the callable
object itself — `SMV.Bind.C07_local` proves independence from the cache's history) and `State`
objects shared between a base class and a subclass (known finding D7: a subclass that declares a
transition out of an inherited state mutates the base class).
-/
namespace SMV

theorem stepAt_other (ms : List Machine) (o : Opts) (fuel : Nat) (i j : Nat) (op : Op) (w : World)
    (h : i ≠ j) : (stepAt ms o fuel i op w)[j]? = w[j]? := by
  unfold stepAt
  split
  · simp [List.getElem?_set, h]
  · rfl

theorem stepAt_self (ms : List Machine) (o : Opts) (fuel : Nat) (i : Nat) (op : Op) (w : World)
    (m : Machine) (c : Cfg) (hm : ms[i]? = some m) (hc : w[i]? = some c) :
    (stepAt ms o fuel i op w)[i]? = some (stepOp m o fuel op c).1 := by
  unfold stepAt
  simp only [hm, hc]
  have : i < w.length := by
    rcases Nat.lt_or_ge i w.length with h | h
    · exact h
    · rw [List.getElem?_eq_none h] at hc; cases hc
  simp [List.getElem?_set, this]

/-- the operations of the interleaving that address instance `i` -/
def own (i : Nat) (ops : List (Nat × Op)) : List Op := (ops.filter (·.1 == i)).map (·.2)

/-- **C16 (frame).** For every interleaving of operations on every set of instances, the final
configuration of instance `i` equals the result of running its own operations alone. -/
theorem C16_frame (ms : List Machine) (o : Opts) (fuel : Nat) (ops : List (Nat × Op)) (w : World)
    (i : Nat) (m : Machine) (c : Cfg) (hm : ms[i]? = some m) (hc : w[i]? = some c) :
    (runWorld ms o fuel ops w)[i]? = some (runOps m o fuel (own i ops) c) := by
  induction ops generalizing w c with
  | nil => simpa [runWorld, own, runOps] using hc
  | cons x rest ih =>
    obtain ⟨j, op⟩ := x
    unfold runWorld
    by_cases hji : j = i
    · subst hji
      have := stepAt_self ms o fuel j op w m c hm hc
      rw [ih _ _ this]
      simp [own, runOps]
    · have := stepAt_other ms o fuel j i op w hji
      rw [hc] at this
      rw [ih _ _ this]
      have : (j == i) = false := by simpa using hji
      simp [own, this]

/-- in particular: the log (every callback invocation with its arguments), the state and the queue
of instance `i` do not depend on what the others did or on how the operations were interleaved -/
theorem C16_interleaving_irrelevant (ms : List Machine) (o : Opts) (fuel : Nat)
    (ops ops' : List (Nat × Op)) (w : World) (i : Nat) (m : Machine) (c : Cfg)
    (hm : ms[i]? = some m) (hc : w[i]? = some c) (hown : own i ops = own i ops') :
    (runWorld ms o fuel ops w)[i]? = (runWorld ms o fuel ops' w)[i]? := by
  rw [C16_frame ms o fuel ops w i m c hm hc, C16_frame ms o fuel ops' w i m c hm hc, hown]

/-- the number of instances never changes by operating on them (no instance is created or lost) -/
theorem runWorld_length (ms : List Machine) (o : Opts) (fuel : Nat) (ops : List (Nat × Op)) (w : World) :
    (runWorld ms o fuel ops w).length = w.length := by
  induction ops generalizing w with
  | nil => rfl
  | cons x rest ih =>
    obtain ⟨j, op⟩ := x
    unfold runWorld
    rw [ih]
    unfold stepAt
    split <;> simp

end SMV
