import SMV.Lemmas.Store
import SMV.Lemmas.StoreEngine
/-!
# C10 — The current state is exactly what the user's model stores

> The machine's current state is exactly what is stored in the user's model under `state_field`:
> after every transition that field holds the target state's `value`, and `current_state`,
> `current_state_value` and `is_active` reflect any valid value written there (by the machine or
> externally) for every kind of value including falsy ones such as 0, with exactly one state active
> at any time. The model object supplied by the user is the one used, an unmapped value raises
> `InvalidStateValue` without being stored, and `start_value` selects the starting state when the
> model has none.

Reading guide (model: `SMV/Model/Store.lean`).
* `st.userView` is `getattr(<the object the user holds>, state_field, None)`;
  `currentStateValue st`, `currentState m st`, `isActive m st s` are the machine's three readers.
* `Coherent st` = "`sm.model` is the object the user holds"; it is established by the repaired
  constructor for every model object (`C10_model_identity`) and kept by every operation, so every
  theorem that assumes it applies to every state reachable from `construct true …`.
* Values are tokens; `m.truthy` (Python's `bool`) is *any* function and appears in no hypothesis of a
  `fixed := true` theorem: the statements hold for values and model objects that are falsy.
* `fixed := false` is the code before the two `fix:` commits (D1 `if self.start_value`, D2
  `model if model else Model()`); the negation witnesses show that it violates the property.
-/
namespace SMV.Store

/-! ## what the three readers return, as a function of the cell only -/

/-- If the cell holds the declared value `v`, all readers say `v`: `current_state_value` is `v`,
`current_state` is a state whose value is `v`, and `is_active` is true of exactly that state. -/
theorem reads_of_cell (m : Mach) (st : Store) (v : Val) (hcell : st.cell = some v) (hv : v ∈ m.values) :
    currentStateValue st = some v ∧
    ∃ s, s < m.n ∧ valueOf m s = v ∧ currentState m st = .ok s ∧
      ∀ s', isActive m st s' = .ok (s' == s) := by
  obtain ⟨s, hs⟩ := lookup_of_mapped m v ((mapped_iff m v).mpr hv)
  obtain ⟨hlt, hval⟩ := lookup_value m v s hs
  refine ⟨hcell, s, hlt, hval, by simp [currentState, hcell, hs], fun s' => ?_⟩
  simp only [isActive, currentState, hcell, hs]
  congr 1
  exact Bool.eq_iff_iff.mpr ⟨fun h => by simpa using (beq_iff_eq.mp h).symm, fun h => by simpa using (beq_iff_eq.mp h).symm⟩

/-- If the cell holds nothing or an undeclared value, every reader that needs a state raises
`InvalidStateValue`. -/
theorem reads_of_bad_cell (m : Mach) (st : Store)
    (h : st.cell = none ∨ ∃ w, st.cell = some w ∧ w ∉ m.values) :
    currentState m st = .error .invalidState ∧ ∀ s, isActive m st s = .error .invalidState := by
  have hcs : currentState m st = .error .invalidState := by
    rcases h with h | ⟨w, hw, hn⟩
    · simp [currentState, h]
    · have : lookup m w = none := by
        cases h' : lookup m w with
        | none => rfl
        | some s => exact absurd ((mapped_iff m w).mp (by simp [mapped, h'])) hn
      simp [currentState, hw, this]
  exact ⟨hcs, fun s => by simp [isActive, hcs]⟩

/-! ## after every transition the field holds the target's value -/

/-- **C10, transitions.** In any state of affairs in which the machine looks at the user's object,
an event for which the current state `s` declares a transition `t` is executed, and afterwards
the field of the user's object — and `current_state_value` — is the `value` of `t`'s target. -/
theorem _root_.SMV.C10_after_transition (m : Mach) (st : Store) (hc : Coherent st)
    (e : EventId) (s : StateId) (t : Tr)
    (hs : currentState m st = .ok s) (ht : firstMatch m s e = some t) (htgt : t.tgt < m.n) :
    (send m e st).2 = .ok () ∧
    (send m e st).1.userView = some (valueOf m t.tgt) ∧
    currentStateValue (send m e st).1 = some (valueOf m t.tgt) := by
  have hm := mapped_valueOf m t.tgt htgt
  have : send m e st = (st.setCell (some (valueOf m t.tgt)), .ok ()) := by
    simp [send, hs, ht, writeState, writeValue, hm]
  rw [this]
  refine ⟨rfl, ?_, by simp [currentStateValue]⟩
  rw [(hc.setCell _).userView]; simp

/-- … and an event that is *not* executed (no current state, no transition) leaves the field alone. -/
theorem _root_.SMV.C10_no_transition_no_write (m : Mach) (st : Store) (e : EventId)
    (h : (∃ x, currentState m st = .error x) ∨ ∃ s, currentState m st = .ok s ∧ firstMatch m s e = none) :
    (send m e st).1 = st := by
  rcases h with ⟨x, hx⟩ | ⟨s, hs, hn⟩
  · simp [send, hx]
  · simp only [send, hs, hn]; split <;> rfl

/-- the same at every point of every history after the (repaired) constructor, whatever model
object and `start_value` were given -/
theorem _root_.SMV.C10_after_transition_history (m : Mach) (um : Option UserModel) (sv : Option Val)
    (ops : List Op) (e : EventId) (s : StateId) (t : Tr) :
    let st := run m ops (construct true m um sv).1
    currentState m st = .ok s → firstMatch m s e = some t → t.tgt < m.n →
    (send m e st).2 = .ok () ∧ (send m e st).1.userView = some (valueOf m t.tgt) := by
  intro st hs ht htgt
  have hc0 : Coherent (construct true m um sv).1 := by
    unfold construct start
    have hcm : Coherent (chooseModel true um) := by cases um <;> simp [chooseModel, Coherent]
    repeat' split
    all_goals first | exact hcm | (simp only [writeState, writeValue]; split <;> first | exact hcm | exact hcm.setCell _)
  have := SMV.C10_after_transition m st (run_coherent m ops _ hc0) e s t hs ht htgt
  exact ⟨this.1, this.2.1⟩

/-! ## reads reflect every valid value written by anyone -/

/-- the three ways a declared value `v` can be put into the field -/
inductive WritesValue (m : Mach) (v : Val) : Op → Prop
  /-- `sm.current_state_value = v` -/
  | byValue : WritesValue m v (.writeValue (some v))
  /-- `sm.current_state = sm.<s>` with `s.value == v` -/
  | byState (s : StateId) : s < m.n → valueOf m s = v → WritesValue m v (.writeState s)
  /-- `setattr(model, field, v)` behind the machine's back -/
  | raw : WritesValue m v (.raw (some v))

/-- **C10, reads.** For every declared value `v` — whatever `bool(v)` is — written by the machine's
setters or directly into the user's object: the write succeeds, the user's object holds `v`,
`current_state_value` is `v`, `current_state` is a state with value `v`, and `is_active` is true
of that state and false of every other one. -/
theorem _root_.SMV.C10_reads_reflect (m : Mach) (st : Store) (hc : Coherent st) (v : Val) (hv : v ∈ m.values)
    (op : Op) (hop : WritesValue m v op) :
    (step m op st).2 = .ok () ∧
    (step m op st).1.userView = some v ∧
    currentStateValue (step m op st).1 = some v ∧
    ∃ s, s < m.n ∧ valueOf m s = v ∧ currentState m (step m op st).1 = .ok s ∧
      ∀ s', isActive m (step m op st).1 s' = .ok (s' == s) := by
  have hm := (mapped_iff m v).mpr hv
  have hstep : step m op st = (st.setCell (some v), .ok ()) := by
    cases hop with
    | byValue => simp [step, writeValue, hm]
    | byState s hs hval => simp [step, writeState, writeValue, hval, hm]
    | raw => simp [step, hc.userWrite]
  rw [hstep]
  have hcell : (st.setCell (some v)).cell = some v := by simp
  refine ⟨rfl, ?_, reads_of_cell m _ v hcell hv⟩
  rw [(hc.setCell _).userView]; exact hcell

/-- with distinct state values, "the state with value `v`" is unique: `is_active` of `s` is exactly
`s.value == v` -/
theorem _root_.SMV.C10_is_active_iff_value (m : Mach) (hd : m.values.Nodup) (st : Store) (v : Val)
    (hcell : st.cell = some v) (hv : v ∈ m.values) (s : StateId) (hs : s < m.n) :
    isActive m st s = .ok (decide (valueOf m s = v)) := by
  obtain ⟨_, c, hc, hval, _, hact⟩ := reads_of_cell m st v hcell hv
  rw [hact s]
  congr 1
  have : lookup m v = some c := (lookup_iff m hd v c).mpr ⟨hc, hval⟩
  by_cases h : valueOf m s = v
  · have : lookup m v = some s := (lookup_iff m hd v s).mpr ⟨hs, h⟩
    have hsc : s = c := by simp_all
    subst hsc
    simp [h]
  · have hne : s ≠ c := fun hsc => h (hsc ▸ hval)
    simp [h, hne]

/-! ## exactly one state is active -/

/-- **C10, exactly one active state, over every history.** Start anywhere the field holds a
declared value (e.g. after construction) and perform any history of events, checked writes of
*any* value (invalid ones are rejected), writes by state, and raw external writes of declared
values: at the end (hence at every point) the field holds a declared value `v`, `is_active` is
true of exactly one declared state, and — values being distinct — that state is the one whose
value is `v`. -/
theorem _root_.SMV.C10_exactly_one_active (m : Mach) (hd : m.values.Nodup) (st0 : Store) (hc : Coherent st0)
    (h0 : Mapped m st0) (ops : List Op) (hv : ∀ op ∈ ops, op.valid m) :
    ∃ v, (run m ops st0).userView = some v ∧ v ∈ m.values ∧
      (∀ s, s < m.n → isActive m (run m ops st0) s = .ok (decide (valueOf m s = v))) ∧
      ∃ s, s < m.n ∧ isActive m (run m ops st0) s = .ok true ∧
        ∀ s', isActive m (run m ops st0) s' = .ok true → s' = s := by
  obtain ⟨v, hcell, hmv⟩ := run_Mapped m ops st0 hc hv h0
  have hvm := (mapped_iff m v).mp hmv
  have hcoh := run_coherent m ops st0 hc
  obtain ⟨_, s, hs, hval, _, hact⟩ := reads_of_cell m _ v hcell hvm
  refine ⟨v, by rw [hcoh.userView]; exact hcell, hvm,
    fun s' hs' => SMV.C10_is_active_iff_value m hd _ v hcell hvm s' hs', s, hs, by simp [hact], ?_⟩
  intro s' h'
  rw [hact s'] at h'
  simpa using h'

/-- **… and after *any* history whatsoever** (including raw writes of garbage), in any store: either
exactly one state is active, or the field holds no declared value and every `is_active` raises
`InvalidStateValue`. Never two, never silently none. -/
theorem _root_.SMV.C10_never_two_active (m : Mach) (st : Store) :
    (∃ s, s < m.n ∧ ∀ s', isActive m st s' = .ok (s' == s)) ∨
    (∀ s', isActive m st s' = .error .invalidState) := by
  cases hcell : st.cell with
  | none => exact .inr (reads_of_bad_cell m st (.inl hcell)).2
  | some v =>
    by_cases hv : v ∈ m.values
    · obtain ⟨_, s, hs, _, _, hact⟩ := reads_of_cell m st v hcell hv
      exact .inl ⟨s, hs, hact⟩
    · exact .inr (reads_of_bad_cell m st (.inr ⟨v, hcell, hv⟩)).2

/-! ## invalid values -/

/-- **C10, invalid writes.** `sm.current_state_value = w` for `w = None` or an undeclared `w`
raises `InvalidStateValue` and stores nothing (the whole store is unchanged). If instead the user
writes such a `w` directly into the object, the machine does not hide it: `current_state_value`
returns it, and `current_state`, every `is_active` and every `send` raise `InvalidStateValue`
(the event leaves the field as it is). -/
theorem _root_.SMV.C10_invalid_write (m : Mach) (st : Store) (w : Option Val)
    (hw : ∀ v, w = some v → v ∉ m.values) :
    writeValue m w st = (st, .error .invalidState) ∧
    (Coherent st →
      let st' := (step m (.raw w) st).1
      st'.userView = w ∧ currentStateValue st' = w ∧
      currentState m st' = .error .invalidState ∧
      (∀ s, isActive m st' s = .error .invalidState) ∧
      ∀ e, send m e st' = (st', .error .invalidState)) := by
  constructor
  · cases w with
    | none => rfl
    | some v =>
      have : mapped m v = false := by
        cases h : mapped m v with
        | false => rfl
        | true => exact absurd ((mapped_iff m v).mp h) (hw v rfl)
      exact writeValue_unmapped m v st this
  · intro hc
    simp only [step, hc.userWrite]
    have hcell : (st.setCell w).cell = w := by simp
    have hbad : (st.setCell w).cell = none ∨ ∃ v, (st.setCell w).cell = some v ∧ v ∉ m.values := by
      cases w with
      | none => exact .inl hcell
      | some v => exact .inr ⟨v, hcell, hw v rfl⟩
    obtain ⟨hcs, hact⟩ := reads_of_bad_cell m _ hbad
    refine ⟨by rw [(hc.setCell _).userView]; exact hcell, hcell, hcs, hact, fun e => by simp [send, hcs]⟩

/-! ## the constructor: model identity -/

theorem construct_flags (fixed : Bool) (m : Mach) (um : Option UserModel) (sv : Option Val) :
    (construct fixed m um sv).1.supplied = (chooseModel fixed um).supplied ∧
    (construct fixed m um sv).1.usesUser = (chooseModel fixed um).usesUser := by
  unfold construct start
  repeat' split
  all_goals first | exact ⟨rfl, rfl⟩ | (simp only [writeState, writeValue]; split <;> simp)

/-- **C10, model identity.** With the repaired constructor, whatever object the user supplies —
also one whose `bool()` is false — and whatever `start_value`, `sm.model` is that object, also
when the constructor raises, and it stays so along every history; hence the field the user sees is
at every moment what `current_state_value` returns. -/
theorem _root_.SMV.C10_model_identity (m : Mach) (um : Option UserModel) (sv : Option Val) (ops : List Op) :
    (observe m (run m ops (construct true m um sv).1)).ident = true ∧
    (run m ops (construct true m um sv).1).userView
      = currentStateValue (run m ops (construct true m um sv).1) := by
  have hf := construct_flags true m um sv
  have hc0 : Coherent (construct true m um sv).1 := by
    unfold Coherent; rw [hf.1, hf.2]; cases um <;> simp [chooseModel]
  have hc := run_coherent m ops _ hc0
  refine ⟨?_, hc.userView⟩
  simp only [observe]
  cases hs : (run m ops (construct true m um sv).1).supplied
  · simp
  · simp [hc hs]

/-- **D2, negation witness** for the code as it was (`model if model else Model()`): a user model
whose `bool()` is false (e.g. a `list` subclass with a `state` attribute) is replaced — the machine
starts, but the user's object never learns the state. -/
theorem _root_.SMV.C10_model_identity_asis_fails :
    ∃ (m : Mach) (u : UserModel) (sv : Option Val),
      let st := (construct false m (some u) sv).1
      (observe m st).ident = false ∧ st.userView = none ∧ currentStateValue st = some 7 :=
  ⟨{ values := [7, 8], initial := 0 }, { truthy := false, cell := none }, none, by decide⟩

/-! ## the constructor: `start_value` -/

/-- **C10, `start_value`.** With the repaired constructor, when the model holds no state, a
`start_value` `v` — whatever `bool(v)` is — selects the starting state: if `v` is declared the
constructor succeeds and the user's object holds `v` (so all readers say `v`, by `reads_of_cell`);
if `v` is undeclared the constructor raises `InvalidStateValue` and stores nothing. -/
theorem _root_.SMV.C10_start_value (m : Mach) (um : Option UserModel) (hnone : ∀ u, um = some u → u.cell = none)
    (v : Val) :
    (v ∈ m.values →
      (construct true m um (some v)).2 = .ok () ∧
      (construct true m um (some v)).1.userView = some v ∧
      currentStateValue (construct true m um (some v)).1 = some v ∧
      ∃ s, s < m.n ∧ valueOf m s = v ∧ currentState m (construct true m um (some v)).1 = .ok s) ∧
    (v ∉ m.values →
      (construct true m um (some v)).2 = .error .invalidState ∧
      (construct true m um (some v)).1.userView = none) := by
  have hcm : Coherent (chooseModel true um) := by cases um <;> simp [chooseModel, Coherent]
  have hcell0 : (chooseModel true um).cell = none := by
    cases um with
    | none => rfl
    | some u => simp [chooseModel, Store.cell, hnone u rfl]
  constructor
  · intro hv
    obtain ⟨s, hs⟩ := lookup_of_mapped m v ((mapped_iff m v).mpr hv)
    obtain ⟨_, hval⟩ := lookup_value m v s hs
    have : construct true m um (some v) = ((chooseModel true um).setCell (some v), .ok ()) := by
      simp [construct, start, hcell0, initialValue, hs, writeState, writeValue, hval, (mapped_iff m v).mpr hv]
    rw [this]
    have hcell : ((chooseModel true um).setCell (some v)).cell = some v := by simp
    obtain ⟨h1, c, hc, hcv, hcs, _⟩ := reads_of_cell m _ v hcell hv
    exact ⟨rfl, by rw [(hcm.setCell _).userView]; exact hcell, h1, c, hc, hcv, hcs⟩
  · intro hv
    have hl : lookup m v = none := by
      cases h' : lookup m v with
      | none => rfl
      | some s => exact absurd ((mapped_iff m v).mp (by simp [mapped, h'])) hv
    have : construct true m um (some v) = (chooseModel true um, .error .invalidState) := by
      simp [construct, start, hcell0, initialValue, hl]
    rw [this]
    exact ⟨rfl, by rw [hcm.userView]; exact hcell0⟩

/-- without `start_value` the declared initial state is the start -/
theorem _root_.SMV.C10_start_default (m : Mach) (hi : m.initial < m.n) (um : Option UserModel)
    (hnone : ∀ u, um = some u → u.cell = none) :
    (construct true m um none).2 = .ok () ∧
    (construct true m um none).1.userView = some (valueOf m m.initial) := by
  have hcm : Coherent (chooseModel true um) := by cases um <;> simp [chooseModel, Coherent]
  have hcell0 : (chooseModel true um).cell = none := by
    cases um with
    | none => rfl
    | some u => simp [chooseModel, Store.cell, hnone u rfl]
  have hm := mapped_valueOf m m.initial hi
  obtain ⟨s, hs⟩ := lookup_of_mapped m _ hm
  obtain ⟨_, hval⟩ := lookup_value m _ s hs
  have : construct true m um none = ((chooseModel true um).setCell (some (valueOf m m.initial)), .ok ()) := by
    simp [construct, start, hcell0, initialValue, hs, writeState, writeValue, hval, hm]
  rw [this]
  exact ⟨rfl, by rw [(hcm.setCell _).userView]; simp⟩

/-- "when the model has none": a state already stored in the user's object is kept, whatever
`start_value` says (and whether or not it is a declared value — the constructor does not look) -/
theorem _root_.SMV.C10_start_keeps_stored (m : Mach) (u : UserModel) (w : Val) (hw : u.cell = some w)
    (sv : Option Val) :
    (construct true m (some u) sv).2 = .ok () ∧
    (construct true m (some u) sv).1.userView = some w := by
  simp [construct, start, chooseModel, Store.cell, hw, Store.userView]

/-- **D1, negation witness** for the code as it was (`if self.start_value`): states `a(value=5,
initial)`, `b(value=0)`, `start_value=0` — the machine starts in `a`. -/
theorem _root_.SMV.C10_start_value_asis_fails :
    ∃ (m : Mach) (v : Val), v ∈ m.values ∧
      (construct false m none (some v)).2 = .ok () ∧
      currentStateValue (construct false m none (some v)).1 ≠ some v :=
  ⟨{ values := [5, 0], initial := 0, truthy := fun v => v != 0 }, 0, by decide, by decide, by decide⟩

/-! ## non-vacuity -/

/-- a machine with a falsy value (`0` with `truthy 0 = false`) and an event table -/
def exM : Mach :=
  { values := [5, 0, 9], initial := 0, trans := [⟨0, 1, 1⟩, ⟨1, 1, 2⟩, ⟨2, 2, 0⟩],
    truthy := fun v => v != 0 }

/-- a falsy user model (`bool(obj) == False`) with nothing stored -/
def exU : UserModel := { truthy := false, cell := none }

-- C10_after_transition: the hypotheses are satisfiable, the target's value is the falsy `0`
example : let st := (construct true exM (some exU) none).1
    Coherent st ∧ currentState exM st = .ok 0 ∧ firstMatch exM 0 1 = some ⟨0, 1, 1⟩ ∧ (1 : Nat) < exM.n ∧
    (send exM 1 st).1.userView = some 0 ∧ exM.truthy 0 = false := by decide

-- C10_reads_reflect: all three routes, value `0` whose `truthy` is false
example : WritesValue exM 0 (.writeValue (some 0)) ∧ WritesValue exM 0 (.writeState 1) ∧
    WritesValue exM 0 (.raw (some 0)) ∧ (0 : Val) ∈ exM.values ∧ exM.truthy 0 = false :=
  ⟨.byValue, .byState 1 (by decide) (by decide), .raw, by decide, by decide⟩

-- C10_exactly_one_active: a history mixing events, checked writes (valid and invalid), a write by
-- state and a raw write; it is valid, the start is coherent and mapped
def exOps : List Op :=
  [.send 1, .raw (some 9), .writeValue (some 77), .send 2, .writeState 1, .writeValue none, .send 1, .read]

example : exM.values.Nodup ∧ (∀ op ∈ exOps, op.valid exM) ∧
    Coherent (construct true exM (some exU) none).1 ∧
    (construct true exM (some exU) none).1.cell = some 5 ∧ mapped exM 5 = true ∧
    (observe exM (run exM exOps (construct true exM (some exU) none).1)).active
      = [.ok false, .ok false, .ok true] := by decide

example : Mapped exM (construct true exM (some exU) none).1 := ⟨5, by decide, by decide⟩

-- C10_invalid_write: `77` and `None` are undeclared; the raw route makes the next read raise
example : (∀ v, some 77 = some v → v ∉ exM.values) ∧
    currentState exM (step exM (.raw (some 77)) (construct true exM none none).1).1 = .error .invalidState ∧
    currentState exM (step exM (.raw none) (construct true exM none none).1).1 = .error .invalidState := by
  refine ⟨fun v h => ?_, by decide, by decide⟩
  have : v = 77 := by simpa using h.symm
  subst this; decide

-- C10_model_identity / C10_start_value: falsy model object, falsy start value
example : (observe exM (construct true exM (some exU) (some 0)).1).ident = true ∧
    (construct true exM (some exU) (some 0)).1.userView = some 0 ∧
    (∀ u, some exU = some u → u.cell = none) := by
  refine ⟨by decide, by decide, fun u h => ?_⟩
  have : u = exU := by simpa using h.symm
  subst this; rfl

-- C10_start_value, second half: an undeclared start value
example : (77 : Val) ∉ exM.values ∧ (construct true exM none (some 77)).2 = .error .invalidState := by decide

-- C10_start_keeps_stored
example : (construct true exM (some { truthy := false, cell := some 9 }) (some 0)).1.userView = some 9 := by decide

end SMV.Store

/-! ## the same fact in the full engine model (callbacks, guards, nested sends; run-to-completion) -/
namespace SMV

/-- **C10, transitions, engine level.** Processing an event (other than `__initial__`) in the
engine model of `SMV.Model.Engine` — with arbitrary user callbacks in every group, guards,
validators and nested sends — when the model field `cur` maps to state `s`: if the event is
executed, one of `s`'s transitions declared for the event was taken and the field holds *its
target's value* when processing ends; if it is merely tolerated (`allow_event_without_transition`)
… see `trigger`'s result. Whatever happens (guards reject, a callback raises), the field only ever
changes to a candidate's target value (`activate_cur_any`). -/
theorem C10_engine_after_transition (m : Machine) (t : Trigger) (c c' : Cfg) (r : Res) (s : StateId)
    (hne : (t.event == initialEv) = false) (hcur : c.cur.bind (lookupState m) = some s)
    (h : trigger nestedRtc m t c = (c', .ok (some r))) :
    (∃ tr ∈ out m s, matchesEv tr t.event = true ∧ c'.cur = some (stateVal m tr.target)) ∨
    (m.allow = true ∧ r = .none) := by
  unfold trigger at h
  obtain ⟨c1, cfg, h1, hb⟩ := EM.bind_ok h
  have hc1 : c1 = c ∧ cfg = c := by simp [EM.get] at h1; exact ⟨h1.1.symm, h1.2.symm⟩
  obtain ⟨rfl, rfl⟩ := hc1
  simp only [hne, Bool.false_and, Bool.false_eq_true, if_false, hcur] at hb
  obtain ⟨c2, a, h2, hc⟩ := EM.bind_ok hb
  cases a with
  | some r' =>
    have : c2 = c' := by simp [pure] at hc; exact hc.1
    subst this
    exact .inl (tryCands_cur m t _ _ _ r' h2)
  | none =>
    right
    by_cases ha : m.allow = true
    · simp [ha, pure] at hc; exact ⟨ha, hc.2.symm⟩
    · simp [ha, EM.throw] at hc

-- non-vacuity: a one-transition machine whose `on` callback (id 7) sends a nested event
example :
    let m : Machine := { states := [{ value := 5, initial := true, trans := [{ source := 0, target := 1, events := [1], on := [{ id := 7 }] }] },
                                    { value := 0 }],
                         behav := fun _ _ _ => { ret := 3, sends := [1] }, truthy := fun v => v != 0 }
    let c : Cfg := { cur := some 5 }
    c.cur.bind (lookupState m) = some 0 ∧
    (trigger nestedRtc m ⟨0, 1, false⟩ c).2 = .ok (some (.one 3)) ∧ (trigger nestedRtc m ⟨0, 1, false⟩ c).1.cur = some 0 := by
  decide

end SMV
