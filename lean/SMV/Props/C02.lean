import SMV.Lemmas.Rtc
import SMV.Lemmas.NoSends
/-!
# C02 — Callback groups run in the documented order with the documented view of state

For every machine, transition (external, self, internal, multi-event), trigger and callback
behaviour (no assumption on callbacks), in run-to-completion mode:
* `C02_phase_order`: the entries one activation appends to the log are ordered
  validators ≤ conditions ≤ before ≤ exit ≤ on ≤ (state assignment) ≤ enter ≤ after — also when
  the activation stops early (guards reject, a callback raises);
* `C02_entries`: every appended entry belongs to this trigger, carries the triggering event and the
  transition's source and target, and its callback is one of the *applicable* callbacks of its
  group (`groupCbs`): event-named callbacks only for the triggering event, no exit/enter
  callbacks for internal transitions; nested sends return `None`;
* `C02_view_pre` / `C02_view_post`: callbacks up to and including `on` see the state the
  activation started in (the source), `enter`/`after` callbacks see the target;
* `C02_initial`: initial activation appends only the assignment and the initial state's enter
  callbacks, under the event `__initial__`.
-/
namespace SMV

def Phase.rank : Phase → Nat
  | .validators => 0 | .cond => 1 | .before => 2 | .exit => 3 | .on => 4 | .enter => 6 | .after => 7

def Entry.rank : Entry → Nat
  | .cbBegin _ ph .. => ph.rank
  | .sendRet _ ph .. => ph.rank
  | .cbEnd _ ph .. => ph.rank
  | .setState _ _ => 5

/-! ## Phase order -/

/-- `c'` extends `c` by entries whose ranks lie in `[lo, hi]` and never decrease -/
def ExtPh (lo hi : Nat) (c c' : Cfg) : Prop :=
  ∃ es, c'.log = c.log ++ es ∧ (es.map Entry.rank).Pairwise (· ≤ ·) ∧ ∀ e ∈ es, lo ≤ e.rank ∧ e.rank ≤ hi

def RespPh (lo hi : Nat) {α} (x : EM α) : Prop := ∀ c, ExtPh lo hi c (x c).1

theorem ExtPh.refl (lo hi : Nat) (c : Cfg) : ExtPh lo hi c c := ⟨[], by simp⟩

theorem ExtPh.seq {lo1 hi1 lo2 hi2 : Nat} {a b c : Cfg} (h : hi1 ≤ lo2)
    (h1 : ExtPh lo1 hi1 a b) (h2 : ExtPh lo2 hi2 b c) (hl : lo1 ≤ lo2) (hh : hi1 ≤ hi2) :
    ExtPh lo1 hi2 a c := by
  obtain ⟨es1, hl1, hs1, hb1⟩ := h1
  obtain ⟨es2, hl2, hs2, hb2⟩ := h2
  refine ⟨es1 ++ es2, by simp [hl2, hl1], ?_, ?_⟩
  · rw [List.map_append, List.pairwise_append]
    refine ⟨hs1, hs2, ?_⟩
    intro x hx y hy
    simp only [List.mem_map] at hx hy
    obtain ⟨e, he, rfl⟩ := hx
    obtain ⟨e', he', rfl⟩ := hy
    have := (hb1 e he).2; have := (hb2 e' he').1; omega
  · intro e he
    rcases List.mem_append.mp he with h' | h'
    · have := hb1 e h'; omega
    · have := hb2 e h'; omega

theorem ExtPh.widen {lo hi lo' hi' : Nat} {a b : Cfg} (h : ExtPh lo hi a b) (hl : lo' ≤ lo) (hh : hi ≤ hi') :
    ExtPh lo' hi' a b := by
  obtain ⟨es, a1, a2, a3⟩ := h
  exact ⟨es, a1, a2, fun e he => ⟨by have := (a3 e he).1; omega, by have := (a3 e he).2; omega⟩⟩

theorem phBind {lo1 hi1 lo2 hi2 : Nat} {α β} {x : EM α} {f : α → EM β}
    (h : hi1 ≤ lo2) (hl : lo1 ≤ lo2) (hh : hi1 ≤ hi2)
    (hx : RespPh lo1 hi1 x) (hf : ∀ a, RespPh lo2 hi2 (f a)) : RespPh lo1 hi2 (x >>= f) := by
  intro c
  have h1 := hx c
  rw [EM.bind_apply]
  split
  · rename_i c' a heq; rw [heq] at h1; exact ExtPh.seq h h1 (hf a c') hl hh
  · rename_i c' e heq; rw [heq] at h1; exact h1.widen (Nat.le_refl _) hh

theorem phPure {lo hi : Nat} {α} (a : α) : RespPh lo hi (pure a : EM α) := fun c => ExtPh.refl lo hi c

theorem runCb_ph (m : Machine) (x : Ctx) (ph : Phase) (cb : CbId) :
    RespPh ph.rank ph.rank (runCb nestedRtc m x ph cb) := by
  intro c
  rw [runCb_rtc]
  simp only
  generalize m.behav cb c.nextInv { tid := x.t.tid, state := c.cur, event := x.t.event } = a
  have hsorted : ∀ l : List Entry, (∀ e ∈ l, e.rank = ph.rank) → (l.map Entry.rank).Pairwise (· ≤ ·) := by
    intro l hl
    rw [List.pairwise_map]
    exact List.pairwise_of_forall_mem_list fun a ha b hb => by rw [hl a ha, hl b hb]; exact Nat.le_refl _
  split
  · refine ⟨.cbBegin x.t.tid ph cb c.cur x.t.event x.src x.tgt ::
        a.sends.map (fun _ => Entry.sendRet x.t.tid ph cb .none), by simp [rtcSends], ?_, ?_⟩
    · apply hsorted
      intro e he
      rcases List.mem_cons.mp he with rfl | he
      · simp [Entry.rank]
      · obtain ⟨_, _, rfl⟩ := List.mem_map.mp he; simp [Entry.rank]
    · intro e he
      rcases List.mem_cons.mp he with rfl | he
      · simp [Entry.rank]
      · obtain ⟨_, _, rfl⟩ := List.mem_map.mp he; simp [Entry.rank]
  · refine ⟨.cbBegin x.t.tid ph cb c.cur x.t.event x.src x.tgt ::
        (a.sends.map (fun _ => Entry.sendRet x.t.tid ph cb .none) ++ [.cbEnd x.t.tid ph cb (rtcRet m a)]),
        by simp [rtcSends], ?_, ?_⟩
    · apply hsorted
      intro e he
      rcases List.mem_cons.mp he with rfl | he
      · simp [Entry.rank]
      · rcases List.mem_append.mp he with he | he
        · obtain ⟨_, _, rfl⟩ := List.mem_map.mp he; simp [Entry.rank]
        · rw [List.mem_singleton.mp he]; simp [Entry.rank]
    · intro e he
      rcases List.mem_cons.mp he with rfl | he
      · simp [Entry.rank]
      · rcases List.mem_append.mp he with he | he
        · obtain ⟨_, _, rfl⟩ := List.mem_map.mp he; simp [Entry.rank]
        · rw [List.mem_singleton.mp he]; simp [Entry.rank]

theorem runGroup_ph (m : Machine) (x : Ctx) (ph : Phase) (cs : List CbId) :
    RespPh ph.rank ph.rank (runGroup nestedRtc m x ph cs) := by
  induction cs with
  | nil => exact phPure _
  | cons c cs ih =>
    unfold runGroup
    exact phBind (Nat.le_refl _) (Nat.le_refl _) (Nat.le_refl _) (runCb_ph m x ph c) fun _ =>
      phBind (Nat.le_refl _) (Nat.le_refl _) (Nat.le_refl _) ih fun _ => phPure _

theorem runConds_ph (m : Machine) (x : Ctx) (cs : List (CbId × Bool)) :
    RespPh 1 1 (runConds nestedRtc m x cs) := by
  induction cs with
  | nil => exact phPure _
  | cons c cs ih =>
    obtain ⟨c, ex⟩ := c
    unfold runConds
    refine phBind (Nat.le_refl _) (Nat.le_refl _) (Nat.le_refl _) (runCb_ph m x .cond c) fun v => ?_
    split
    · exact ih
    · exact phPure _

theorem setState_ph (t : Trigger) (v : Val) : RespPh 5 5 (setState t v) := by
  intro cfg
  refine ⟨[.setState t.tid v], rfl, by simp, ?_⟩
  intro e he; simp at he; simp [he, Entry.rank]

theorem activatePre_ph (m : Machine) (t : Trigger) (tr : Transn) : RespPh 0 4 (activatePre nestedRtc m t tr) := by
  unfold activatePre
  refine phBind (lo2 := 1) (hi2 := 4) (by decide) (by decide) (by decide) (runGroup_ph m _ .validators _) fun _ => ?_
  refine phBind (lo2 := 2) (hi2 := 4) (by decide) (by decide) (by decide) (runConds_ph m _ _) fun ok => ?_
  split
  · exact phPure _
  refine phBind (lo2 := 3) (hi2 := 4) (by decide) (by decide) (by decide) (runGroup_ph m _ .before _) fun _ => ?_
  refine phBind (lo2 := 4) (hi2 := 4) (by decide) (by decide) (by decide) (runGroup_ph m _ .exit _) fun _ => ?_
  refine phBind (lo2 := 4) (hi2 := 4) (by decide) (by decide) (by decide) (runGroup_ph m _ .on _) fun _ => ?_
  exact phPure _

theorem activatePost_ph (m : Machine) (t : Trigger) (tr : Transn) : RespPh 5 7 (activatePost nestedRtc m t tr) := by
  unfold activatePost
  refine phBind (lo2 := 6) (hi2 := 7) (by decide) (by decide) (by decide) (setState_ph t _) fun _ => ?_
  refine phBind (lo2 := 7) (hi2 := 7) (by decide) (by decide) (by decide) (runGroup_ph m _ .enter _) fun _ => ?_
  refine phBind (lo2 := 7) (hi2 := 7) (by decide) (by decide) (by decide) (runGroup_ph m _ .after _) fun _ => ?_
  exact phPure _

/-- **C02 (phase order).** The entries one activation appends are ordered
validators ≤ cond ≤ before ≤ exit ≤ on ≤ setState ≤ enter ≤ after, whatever the callbacks do. -/
theorem C02_phase_order (m : Machine) (t : Trigger) (tr : Transn) : RespPh 0 7 (activate nestedRtc m t tr) := by
  unfold activate
  refine phBind (lo2 := 5) (hi2 := 7) (by decide) (by decide) (by decide) (activatePre_ph m t tr) fun r => ?_
  split
  · exact phPure _
  · exact phBind (lo2 := 7) (hi2 := 7) (by decide) (by decide) (by decide) (activatePost_ph m t tr) fun _ => phPure _

/-! ## Which entries: applicable callbacks only, right event/source/target -/

/-- `c'` extends `c` by entries that all satisfy `P` -/
def LogAll (P : Entry → Prop) (c c' : Cfg) : Prop := ∃ es, c'.log = c.log ++ es ∧ ∀ e ∈ es, P e

theorem LogAll.lift (P : Entry → Prop) : Lift (LogAll P) (fun _ e => P e) (fun r => r = .none) nestedRtc where
  refl := fun _ => ⟨[], by simp⟩
  trans := fun _ _ _ ⟨es1, h1, p1⟩ ⟨es2, h2, p2⟩ => ⟨es1 ++ es2, by simp [h2, h1], fun e he => by
    rcases List.mem_append.mp he with h | h
    · exact p1 e h
    · exact p2 e h⟩
  log := fun _ es _ h => ⟨es, rfl, h⟩
  handler := fun e c => ⟨⟨[], by simp [nestedRtc, EM.bind_apply, enqueue, EM.modify]⟩, fun r hr => by
    simp [nestedRtc, EM.bind_apply, enqueue, EM.modify] at hr; exact hr.symm⟩

/-- the shape of every entry an activation of `tr` under trigger `t` may append -/
def ActEntry (m : Machine) (t : Trigger) (tr : Transn) : Entry → Prop
  | .cbBegin tid ph cb _ ev src tgt =>
      tid = t.tid ∧ ev = t.event ∧ src = some tr.source ∧ tgt = tr.target ∧ cb ∈ groupCbs m t.event tr ph
  | .sendRet tid ph cb r => tid = t.tid ∧ cb ∈ groupCbs m t.event tr ph ∧ r = .none
  | .cbEnd tid ph cb _ => tid = t.tid ∧ cb ∈ groupCbs m t.event tr ph
  | .setState tid v => tid = t.tid ∧ v = stateVal m tr.target

/-- **C02 (entries).** Every entry appended by an activation is a callback of the right group
of this transition (or the assignment of the target value), for this trigger and event. -/
theorem C02_entries (m : Machine) (t : Trigger) (tr : Transn) :
    Resp (LogAll (ActEntry m t tr)) (activate nestedRtc m t tr) :=
  activate_lift (LogAll.lift _) m t tr
    (fun ph cb hcb _ => ⟨⟨rfl, rfl, rfl, rfl, hcb⟩, fun r hr => ⟨rfl, hcb, hr⟩, fun _ => ⟨rfl, hcb⟩⟩)
    (fun c => ⟨[.setState t.tid (stateVal m tr.target)], rfl, by simp [ActEntry]⟩)

/-- internal transitions run no exit and no enter callbacks -/
theorem C02_internal_no_exit_enter (m : Machine) (ev : EventId) (tr : Transn) (h : tr.internal = true) :
    groupCbs m ev tr .exit = [] ∧ groupCbs m ev tr .enter = [] := by
  simp [groupCbs, h]

/-- event-named callbacks (`before_<e>`, `on_<e>`, `after_<e>`) are in a group only for their event -/
theorem C02_event_scoped (ev : EventId) (l : List CbSpec) (s : CbSpec) (e : EventId)
    (hs : s.only = some e) (hne : e ≠ ev) (huniq : ∀ s' ∈ l, s'.id = s.id → s' = s) :
    s.id ∉ applicable ev l := by
  intro hmem
  simp only [applicable, List.mem_map, List.mem_filter] at hmem
  obtain ⟨s', ⟨hs', hf⟩, hid⟩ := hmem
  have := huniq s' hs' hid
  subst this
  rw [hs] at hf
  simp at hf
  exact hne hf

/-! ## The view of state -/

def seenOk (v : Option Val) : Entry → Prop
  | .cbBegin _ _ _ seen .. => seen = v
  | _ => True

/-- the model field is untouched and every callback that started saw that value -/
def View (c c' : Cfg) : Prop :=
  c'.cur = c.cur ∧ ∃ es, c'.log = c.log ++ es ∧ ∀ e ∈ es, seenOk c.cur e

theorem View.lift : Lift View (fun c e => seenOk c.cur e) (fun _ => True) nestedRtc where
  refl := fun _ => ⟨rfl, [], by simp⟩
  trans := fun a b c ⟨k1, es1, h1, p1⟩ ⟨k2, es2, h2, p2⟩ =>
    ⟨k2.trans k1, es1 ++ es2, by simp [h2, h1], fun e he => by
      rcases List.mem_append.mp he with h | h
      · exact p1 e h
      · have := p2 e h; rw [k1] at this; exact this⟩
  log := fun _ es _ h => ⟨rfl, es, rfl, h⟩
  handler := fun e c => ⟨⟨rfl, [], by simp [nestedRtc, EM.bind_apply, enqueue, EM.modify]⟩, fun _ _ => trivial⟩

theorem entryOk_view (x : Ctx) (ph : Phase) (cb : CbId) :
    EntryOk (fun c e => seenOk c.cur e) (fun _ => True) x ph cb :=
  fun _ => ⟨rfl, fun _ _ => trivial, fun _ => trivial⟩

/-- **C02 (view, first half).** Validators, guards, `before`, `exit` and `on` callbacks all see the
state the activation started in — the source — as the current state. -/
theorem C02_view_pre (m : Machine) (t : Trigger) (tr : Transn) : Resp View (activatePre nestedRtc m t tr) :=
  activatePre_lift View.lift m t tr fun ph _ _ cb _ => entryOk_view _ ph cb

/-- **C02 (view, second half).** After the assignment, `enter` and `after` callbacks all see the
target as the current state. -/
theorem C02_view_post (m : Machine) (t : Trigger) (tr : Transn) (c : Cfg) :
    ∃ es, (activatePost nestedRtc m t tr c).1.log = c.log ++ .setState t.tid (stateVal m tr.target) :: es ∧
      ∀ e ∈ es, seenOk (some (stateVal m tr.target)) e := by
  unfold activatePost
  rw [bind_ok (c := c) (a := ()) rfl]
  have : Resp View (do
      let _ ← runGroup nestedRtc m { t := t, src := some tr.source, tgt := tr.target } .enter
        (if tr.internal then [] else (stateDef m tr.target).enter)
      let _ ← runGroup nestedRtc m { t := t, src := some tr.source, tgt := tr.target } .after
        (applicable t.event tr.after)
      pure ()) :=
    View.lift.bind (runGroup_lift View.lift m _ _ _ fun cb _ => entryOk_view _ _ cb) fun _ =>
      View.lift.bind (runGroup_lift View.lift m _ _ _ fun cb _ => entryOk_view _ _ cb) fun _ => View.lift.pure _
  obtain ⟨_, es, hl, hp⟩ := this (setState t (stateVal m tr.target) c).1
  exact ⟨es, by rw [hl]; simp [setState, EM.modify], hp⟩

/-! ## Initial activation -/

def InitEntry (m : Machine) (t : Trigger) (s : StateId) : Entry → Prop
  | .cbBegin tid ph cb _ ev src tgt =>
      tid = t.tid ∧ ph = .enter ∧ ev = t.event ∧ src = none ∧ tgt = s ∧ cb ∈ (stateDef m s).enter
  | .sendRet tid ph cb r => tid = t.tid ∧ ph = .enter ∧ cb ∈ (stateDef m s).enter ∧ r = .none
  | .cbEnd tid ph cb _ => tid = t.tid ∧ ph = .enter ∧ cb ∈ (stateDef m s).enter
  | .setState tid v => tid = t.tid ∧ v = stateVal m s

/-- **C02 (initial activation).** Only the assignment of the start state's value and that state's
enter callbacks, under the trigger's event (`__initial__`), with no source. -/
theorem C02_initial (m : Machine) (t : Trigger) (s : StateId) (hs : initialTarget m = .ok s) :
    Resp (LogAll (InitEntry m t s)) (activateInitial nestedRtc m t) :=
  activateInitial_lift (LogAll.lift _) m t fun s' hs' => by
    have : s' = s := by rw [hs] at hs'; injection hs' with h; exact h.symm
    subst this
    exact ⟨fun cb hcb _ => ⟨⟨rfl, rfl, rfl, rfl, rfl, hcb⟩, fun r hr => ⟨rfl, rfl, hcb, hr⟩, fun _ => ⟨rfl, rfl, hcb⟩⟩,
      fun c => ⟨[.setState t.tid (stateVal m s')], rfl, by simp [InitEntry]⟩⟩

/-! ## Both processing modes

The theorems above are stated for the run-to-completion handler. For machines whose callbacks send no events
(`NoSends`) the handler is never consulted, so they hold verbatim for every handler — in particular for the
depth-first `sendNR m fuel` of `rtc=False`. (With nested sends under `rtc=False` the nested event's entries lie
*inside* the sending callback, between its begin and its end: the phase order of one activation is then a
statement about the entries of that trigger id only; the correspondence covers it.) -/

theorem C02_phase_order_any {m : Machine} (hs : NoSends m) (h : Nested) (t : Trigger) (tr : Transn) :
    RespPh 0 7 (activate h m t tr) := by
  rw [activate_any hs h]; exact C02_phase_order m t tr

theorem C02_entries_any {m : Machine} (hs : NoSends m) (h : Nested) (t : Trigger) (tr : Transn) :
    Resp (LogAll (ActEntry m t tr)) (activate h m t tr) := by
  rw [activate_any hs h]; exact C02_entries m t tr

theorem C02_view_pre_any {m : Machine} (hs : NoSends m) (h : Nested) (t : Trigger) (tr : Transn) :
    Resp View (activatePre h m t tr) := by
  rw [activatePre_any hs h]; exact C02_view_pre m t tr

theorem C02_view_post_any {m : Machine} (hs : NoSends m) (h : Nested) (t : Trigger) (tr : Transn) (c : Cfg) :
    ∃ es, (activatePost h m t tr c).1.log = c.log ++ .setState t.tid (stateVal m tr.target) :: es ∧
      ∀ e ∈ es, seenOk (some (stateVal m tr.target)) e := by
  rw [activatePost_any hs h]; exact C02_view_post m t tr c

theorem C02_initial_any {m : Machine} (hs : NoSends m) (h : Nested) (t : Trigger) (s : StateId)
    (hi : initialTarget m = .ok s) : Resp (LogAll (InitEntry m t s)) (activateInitial h m t) := by
  rw [activateInitial_any hs h]; exact C02_initial m t s hi

end SMV
