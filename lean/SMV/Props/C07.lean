import SMV.Lemmas.BinderCorner
/-!
# C07 — Callbacks receive exactly the parameters they declare

> Every callback is called with exactly the parameters it declares: named parameters receive the
> same-named event keyword argument or built-in value (`event_data`, `event`, `source`, `target`,
> `state`, `model`, `machine`, `transition`), remaining positional parameters receive the event's
> positional arguments in order, `*args`/`**kwargs` receive the leftovers, and undeclared data never
> causes a `TypeError`. The built-in names always describe the event being processed and cannot be
> overridden or leaked through user keyword arguments, and the binding depends only on the
> callback's own signature.

Objects (all in `SMV/Model/Binder.lean`):

* `invoke fixed sig args kw` — `callable_method(f)(*args, **kw)`: `bind_expected`, then
  `BoundArguments.args/.kwargs`, then the Python call of `f`; the result is the frame `f` sees
  (`none` = `TypeError`). `fixed = true` is the tree with commit 7cfa348 (D5).
* `specCall sig args kw` — the Spec: `collect` of `specParam sig args kw i p` for the `i`-th parameter `p`.
* `eventKwargs kw b` — the keywords a callback is offered when the user sent `kw` and the event being
  processed has the built-in values `b` (`Event.__call__` filter, then `extended_kwargs` layering).
* `invokeCached fixed hist c …` — the same through the process-wide adapter cache, after adapters for
  the callables `hist` were created. `fixed = true` is the tree with commit 2556fed (D6).

Well-formed signature (`WF`): distinct names, Python's kind order. All theorems hold for every
well-formed signature, every list of positional arguments and every keyword list — no bounds.

**The corner.** `corner sig args kw` = some positional-only parameter is *not* reached by a positional
argument while a keyword bears its name. There the library passes the keyword on and the outcome is
CPython's: `TypeError` (`tests/test_signature.py` pins it), or the keyword lands in `**kwargs`.
`C07_receive` covers *all* calls (in the corner the `**kwargs` dict is compared by lookup: the keyword
arrives in a different position); `C07_no_spurious_typeerror` allows the `TypeError` there and nowhere
else; `C07_receive_exact` gives the stronger frame equality away from the corner, and
`C07_corner_first` the pinned `TypeError`.
-/
namespace SMV.Bind

/-- a signature Python accepts: distinct names, kinds in the order po* pk* vp? ko* vk? -/
structure WF (sig : List Param) : Prop where
  names : (sig.map (·.name)).Nodup
  order : Sorted sig

/-! ## Each parameter receives what it declares -/

/-- **C07 (receive, exact form).** Outside the corner, calling a callback through the library's adapter
*is* the Spec: the call raises `TypeError` iff a parameter without default has no argument, and
otherwise every parameter holds exactly `specParam …` (frames are equal as lists: same parameters,
same values, `**kwargs` even in the caller's order). -/
theorem C07_receive_exact (sig : List Param) (args : List Val) (kw : KW) (hwf : WF sig)
    (hc : corner sig args kw = false) :
    invoke true sig args kw = specCall sig args kw :=
  invoke_eq_spec sig args kw hwf.names hwf.order hc

theorem collect_some (l : List (Name × Option ArgVal)) (fr : Frame) (h : collect l = some fr) :
    l = fr.map (fun e => (e.1, some e.2)) := by
  induction l generalizing fr with
  | nil => simp [collect] at h; subst h; rfl
  | cons e rest ih =>
    obtain ⟨n, o⟩ := e
    cases o with
    | none => simp [collect] at h
    | some v =>
      simp only [collect] at h
      cases hc : collect rest with
      | none => simp [hc, consO] at h
      | some fr' =>
        simp [hc, consO] at h
        subst h
        simp [ih fr' hc]

theorem specFrom_lookup (sig : List Param) (args : List Val) (kw : KW) (i : Nat) (ps : List Param)
    (fr : Frame) (hnd : (ps.map (·.name)).Nodup) (h : collect (specFrom sig args kw i ps) = some fr)
    (j : Nat) (p : Param) (hj : ps[j]? = some p) :
    ∃ v, specParam sig args kw (i + j) p = some v ∧ lookup fr p.name = some v := by
  induction ps generalizing i j fr with
  | nil => simp at hj
  | cons q qs ih =>
    simp only [List.map_cons, List.nodup_cons] at hnd
    simp only [specFrom] at h
    cases hq : specParam sig args kw i q with
    | none => simp [hq, collect] at h
    | some v =>
      simp only [hq, collect] at h
      cases hc : collect (specFrom sig args kw (i + 1) qs) with
      | none => simp [hc, consO] at h
      | some fr' =>
        simp [hc, consO] at h
        subst h
        cases j with
        | zero =>
          simp at hj; subst hj
          exact ⟨v, by simpa using hq, by simp [lookup]⟩
        | succ j =>
          simp at hj
          obtain ⟨w, hw1, hw2⟩ := ih (i + 1) fr' hnd.2 hc j hj
          have hne : q.name ≠ p.name := fun he => hnd.1 (he ▸ List.mem_map_of_mem (List.mem_of_getElem? hj))
          exact ⟨w, by rw [← hw1]; congr 1; omega, by simp [lookup, hne, hw2]⟩

/-- parameter by parameter, away from the corner: equal values -/
theorem C07_receive_param (sig : List Param) (args : List Val) (kw : KW) (hwf : WF sig)
    (hc : corner sig args kw = false) (fr : Frame) (h : invoke true sig args kw = some fr)
    (i : Nat) (p : Param) (hi : sig[i]? = some p) :
    ∃ v, specParam sig args kw i p = some v ∧ lookup fr p.name = some v := by
  rw [C07_receive_exact sig args kw hwf hc] at h
  have := specFrom_lookup sig args kw 0 sig fr hwf.names h i p hi
  simpa using this

/-- **C07 (receive).** For *every* call that goes through — every well-formed signature, any number of
positional arguments, any keywords — the `i`-th parameter `p` of the callback holds what the Spec says:
`specParam sig args kw i p = some v` (the same-named keyword / the positional argument at its index /
its default / the remaining positionals / the unconsumed keywords) and the callee finds `w` in `p` with
`w` equal to `v` (`valEquiv`: equal; two `**kwargs` dicts are compared by lookup). -/
theorem C07_receive (sig : List Param) (args : List Val) (kw : KW) (hwf : WF sig) (fr : Frame)
    (h : invoke true sig args kw = some fr) (i : Nat) (p : Param) (hi : sig[i]? = some p) :
    ∃ v w, specParam sig args kw i p = some v ∧ lookup fr p.name = some w ∧ valEquiv w v := by
  cases hc : corner sig args kw with
  | false =>
    obtain ⟨v, h1, h2⟩ := C07_receive_param sig args kw hwf hc fr h i p hi
    exact ⟨v, v, h1, h2, valEquiv_refl v⟩
  | true => exact receive_corner hwf.names hwf.order hc fr h i p hi

/-- a parameter without a default for which the call supplies nothing: no keyword bears its name (or
it is positional-only) and no positional argument reaches it (or it is keyword-only) -/
def Unsupplied (sig : List Param) (args : List Val) (kw : KW) : Prop :=
  ∃ i p, sig[i]? = some p ∧ p.dflt = false ∧ named p = true ∧
    (p.kind = .po ∨ kwGet kw p.name = none) ∧ (p.kind = .ko ∨ args.length ≤ i)

/-- a keyword names a positional-only parameter that no positional argument reaches -/
def PosOnlyByKeyword (sig : List Param) (args : List Val) (kw : KW) : Prop :=
  ∃ j q, sig[j]? = some q ∧ q.kind = .po ∧ args.length ≤ j ∧ (kwGet kw q.name).isSome = true

theorem no_spurious_aux (sig : List Param) (args : List Val) (kw : KW) (hwf : WF sig)
    (hc : corner sig args kw = false) (h : invoke true sig args kw = none) : Unsupplied sig args kw := by
  rw [C07_receive_exact sig args kw hwf hc] at h
  -- some `specParam` is `none`
  have key : ∀ (i : Nat) (ps : List Param), collect (specFrom sig args kw i ps) = none →
      ∃ j p, ps[j]? = some p ∧ specParam sig args kw (i + j) p = none := by
    intro i ps
    induction ps generalizing i with
    | nil => simp [specFrom, collect]
    | cons q qs ih =>
      intro hn
      simp only [specFrom] at hn
      cases hq : specParam sig args kw i q with
      | none => exact ⟨0, q, by simp, by simpa using hq⟩
      | some v =>
        simp only [hq, collect] at hn
        cases hcq : collect (specFrom sig args kw (i + 1) qs) with
        | some fr => simp [hcq, consO] at hn
        | none =>
          obtain ⟨j, p, hj, hp⟩ := ih (i + 1) hcq
          exact ⟨j + 1, p, by simpa using hj, by rw [← hp]; congr 1; omega⟩
  obtain ⟨j, p, hj, hp⟩ := key 0 sig h
  rw [Nat.zero_add] at hp
  refine ⟨j, p, hj, ?_⟩
  cases hk : p.kind <;> simp only [specParam, hk] at hp
  · -- po
    cases ha : args[j]? with
    | some a => simp [ha] at hp
    | none =>
      simp only [ha, dfltOr] at hp
      have : args.length ≤ j := by simpa using ha
      cases hd : p.dflt <;> simp [hd] at hp
      simp [named, hk, this]
  · -- pk
    cases hg : kwGet kw p.name with
    | some v => simp [hg] at hp
    | none =>
      cases ha : args[j]? with
      | some a => simp [hg, ha] at hp
      | none =>
        simp only [hg, ha, dfltOr] at hp
        have : args.length ≤ j := by simpa using ha
        cases hd : p.dflt <;> simp [hd] at hp
        simp [named, hk, this]
  · cases hp
  · -- ko
    cases hg : kwGet kw p.name with
    | some v => simp [hg] at hp
    | none =>
      simp only [hg, dfltOr] at hp
      cases hd : p.dflt <;> simp [hd] at hp
      simp [named, hk]
  · cases hp

/-- **C07 (no spurious `TypeError`).** For every call: a `TypeError` means that some parameter without
a default is not supplied, or that a keyword names a positional-only parameter no positional argument
reaches (CPython's own `TypeError`, pinned by the suite). Surplus positional arguments and unknown
keywords never raise. -/
theorem C07_no_spurious_typeerror (sig : List Param) (args : List Val) (kw : KW) (hwf : WF sig)
    (h : invoke true sig args kw = none) : Unsupplied sig args kw ∨ PosOnlyByKeyword sig args kw := by
  cases hc : corner sig args kw with
  | false => exact Or.inl (no_spurious_aux sig args kw hwf hc h)
  | true =>
    obtain ⟨j, q, h1, h2, h3, h4⟩ := cornerFrom_true args kw 0 sig hc
    exact Or.inr ⟨j, q, h1, h2, by omega, h4⟩

/-- and conversely an unsupplied required parameter *is* a `TypeError` (outside the corner) -/
theorem C07_missing_is_typeerror (sig : List Param) (args : List Val) (kw : KW) (hwf : WF sig)
    (hc : corner sig args kw = false) (h : Unsupplied sig args kw) : invoke true sig args kw = none := by
  cases hi : invoke true sig args kw with
  | none => rfl
  | some fr =>
    obtain ⟨i, p, hp, hd, hn, h1, h2⟩ := h
    obtain ⟨v, hv, _⟩ := C07_receive_param sig args kw hwf hc fr hi i p hp
    exfalso
    cases hk : p.kind <;> simp [named, hk] at hn h1 h2
    · have : args[i]? = none := by simpa using h2
      simp [specParam, hk, this, dfltOr, hd] at hv
    · have : args[i]? = none := by simpa using h2
      simp [specParam, hk, this, dfltOr, hd, h1] at hv
    · simp [specParam, hk, dfltOr, hd, h1] at hv

/-- **C07 (the pinned corner).** No positional argument left, the next parameter is positional-only
and a keyword bears its name: `TypeError` ("… is positional only, but was passed as a keyword"). -/
theorem C07_corner_first (pre : List Param) (p : Param) (rest : List Param) (args : List Val) (kw : KW)
    (hwf : WF (pre ++ p :: rest)) (hpre : ∀ q ∈ pre, isPos q = true) (hlen : pre.length = args.length)
    (hk : p.kind = .po) (hn : (kwGet kw p.name).isSome = true) :
    invoke true (pre ++ p :: rest) args kw = none := by
  have hsp : Split (pre ++ p :: rest) args.length pre (p :: rest) :=
    ⟨rfl, hpre, by omega, Or.inr (Or.inl hlen)⟩
  obtain ⟨_, _, h3⟩ := split_nodup hsp hwf.names
  have hb : blocked (p :: rest) (args.drop pre.length) (eraseNames kw pre) = true := by
    have : args.drop pre.length = [] := by simp [hlen]
    rw [this]
    simp [blocked, hk, kwGet_eraseNames_ne kw pre p.name (fun q hq => h3 q hq p List.mem_cons_self), hn]
  unfold invoke invokeWith
  rw [bind_closed _ args kw pre (p :: rest) hsp hwf.names, hb]
  rfl

/-! ### Non-vacuity -/

/-- `def f(a, /, b, c=…, *args, k, **kw)` called with four positionals and keywords `b`, `k`, `u`:
a well-formed, non-corner call that exercises every kind -/
example :
    let sig : List Param := [⟨10, .po, false⟩, ⟨11, .pk, false⟩, ⟨12, .pk, true⟩, ⟨13, .vp, false⟩,
      ⟨14, .ko, false⟩, ⟨15, .vk, false⟩]
    WF sig ∧ corner sig [100, 101, 102, 103] [(11, 211), (14, 214), (40, 240)] = false ∧
    invoke true sig [100, 101, 102, 103] [(11, 211), (14, 214), (40, 240)] =
      some [(10, .one 100), (11, .one 211), (12, .one 102), (13, .tuple [103]), (14, .one 214),
            (15, .dict [(40, 240)])] := by
  refine ⟨⟨by decide, by simp [Sorted, kindOk]⟩, by decide, by decide⟩

/-- a legitimate `TypeError`: `def f(a, *, k)` called with `(1, 2)` and no `k` -/
example :
    let sig : List Param := [⟨10, .pk, false⟩, ⟨14, .ko, false⟩]
    WF sig ∧ corner sig [100, 101] [(40, 240)] = false ∧ invoke true sig [100, 101] [(40, 240)] = none := by
  refine ⟨⟨by decide, by simp [Sorted, kindOk]⟩, by decide, by decide⟩

/-- the corner where the call goes through: `def f(a=…, b=…, /, **kw)` called as `f(u=1, b=2)`; `b` keeps its
default, the keyword `b` lands in `**kw` — in a different position than in the caller's keywords, which
is why `C07_receive` compares `**kwargs` as a dict -/
example :
    let sig : List Param := [⟨10, .po, true⟩, ⟨11, .po, true⟩, ⟨15, .vk, false⟩]
    WF sig ∧ corner sig [] [(40, 240), (11, 211)] = true ∧
    invoke true sig [] [(40, 240), (11, 211)] = some [(10, .dflt), (11, .dflt), (15, .dict [(11, 211), (40, 240)])] ∧
    specCall sig [] [(40, 240), (11, 211)] = some [(10, .dflt), (11, .dflt), (15, .dict [(40, 240), (11, 211)])] := by
  refine ⟨⟨by decide, by simp [Sorted, kindOk]⟩, by decide, by decide, by decide⟩

/-- the pinned corner: `def f(a, /)` called as `f(a=1)` -/
example : invoke true ([] ++ [⟨10, .po, false⟩]) [] [(10, 210)] = none :=
  C07_corner_first [] ⟨10, .po, false⟩ [] [] [(10, 210)] ⟨by decide, by simp [Sorted]⟩ (by simp) rfl rfl rfl

/-! ### Negation witness for the code as it was (D5) -/

/-- **D5.** Before commit 7cfa348, `def f(a, *, k=…)` called with surplus positionals `(1, 2, 3)` and
`k=9` lost the caller's `k` (the parameter was consumed from the iterator and never looked at again) … -/
theorem C07_as_is_loses_keyword_only :
    let sig : List Param := [⟨10, .pk, false⟩, ⟨14, .ko, true⟩]
    WF sig ∧ corner sig [100, 101, 102] [(14, 214)] = false ∧
    invoke false sig [100, 101, 102] [(14, 214)] = some [(10, .one 100), (14, .dflt)] ∧
    specCall sig [100, 101, 102] [(14, 214)] = some [(10, .one 100), (14, .one 214)] ∧
    invoke true sig [100, 101, 102] [(14, 214)] = some [(10, .one 100), (14, .one 214)] := by
  refine ⟨⟨by decide, by simp [Sorted, kindOk]⟩, by decide, by decide, by decide, by decide⟩

/-- … and with a required `k` the call raised a spurious `TypeError`. -/
theorem C07_as_is_spurious_typeerror :
    let sig : List Param := [⟨10, .pk, false⟩, ⟨14, .ko, false⟩]
    invoke false sig [100, 101] [(14, 214)] = none ∧
    invoke true sig [100, 101] [(14, 214)] = some [(10, .one 100), (14, .one 214)] := by
  refine ⟨by decide, by decide⟩

/-! ## Built-in names: always the current event's, never leaked -/

theorem kwGet_kwSet_self (kw : KW) (n : Name) (v : Val) : kwGet (kwSet kw n v) n = some v := by
  induction kw with
  | nil => simp [kwSet, kwGet]
  | cons e rest ih =>
    obtain ⟨k, w⟩ := e
    simp only [kwSet]
    split
    · rename_i h; simp [kwGet, h]
    · rename_i h; simp [kwGet, h, ih]

theorem kwGet_kwSet_ne (kw : KW) (n m : Name) (v : Val) (h : m ≠ n) :
    kwGet (kwSet kw n v) m = kwGet kw m := by
  induction kw with
  | nil => simp [kwSet, kwGet, Ne.symm h]
  | cons e rest ih =>
    obtain ⟨k, w⟩ := e
    simp only [kwSet]
    split
    · rename_i hk; subst hk; simp [kwGet, Ne.symm h]
    · simp only [kwGet, ih]

theorem kwGet_layer (rs : List Name) (tk : KW) (b : Name → Val) (n : Name) :
    kwGet (rs.foldl (fun kw r => kwSet kw r (b r)) tk) n = if n ∈ rs then some (b n) else kwGet tk n := by
  induction rs generalizing tk with
  | nil => simp
  | cons r rs ih =>
    simp only [List.foldl_cons, ih, List.mem_cons]
    by_cases h1 : n ∈ rs
    · simp [h1]
    · by_cases h2 : n = r
      · subst h2; simp [h1, kwGet_kwSet_self]
      · simp [h1, h2, kwGet_kwSet_ne _ _ _ _ h2]

/-- **C07 (built-ins).** Whatever keywords the user passes to `send` — including keywords named like
the built-ins, and including a whole `**kwargs` dict forwarded from a callback of a parent event, which
contains the parent's `event_data`, `source`, … —
1. the eight reserved names offered to a callback hold the values of the event *being processed*;
2. `trigger_data.kwargs` (what `Event.__call__` stores) contains no reserved name;
3. every other keyword is offered unchanged. -/
theorem C07_builtins (kw : KW) (b : Name → Val) :
    (∀ r ∈ reserved, kwGet (eventKwargs kw b) r = some (b r)) ∧
    (∀ r ∈ reserved, kwGet (filterReserved kw) r = none) ∧
    (∀ n, n ∉ reserved → kwGet (eventKwargs kw b) n = kwGet kw n) := by
  refine ⟨?_, ?_, ?_⟩
  · intro r hr
    simp only [eventKwargs, extendedKwargs, kwGet_layer, hr, if_true]
  · intro r hr
    apply kwGet_filter_none
    intro v
    simp [hr]
  · intro n hn
    simp only [eventKwargs, extendedKwargs, kwGet_layer, hn, if_false, filterReserved]
    apply kwGet_filter_key
    intro v
    simpa [List.contains_iff_mem] using hn

/-- **C07 (layering alone).** Even for a `TriggerData` whose keywords were *not* filtered (built by hand,
or by a future entry point that forgets the filter), `extended_kwargs` assigns the built-ins last: the
reserved names cannot be overridden. -/
theorem C07_layering (tk : KW) (b : Name → Val) :
    (∀ r ∈ reserved, kwGet (extendedKwargs tk b) r = some (b r)) ∧
    (∀ n, n ∉ reserved → kwGet (extendedKwargs tk b) n = kwGet tk n) := by
  constructor
  · intro r hr; simp only [extendedKwargs, kwGet_layer, hr, if_true]
  · intro n hn; simp only [extendedKwargs, kwGet_layer, hn, if_false]

/-- the same for keywords forwarded from a parent event (`sm.send("child", **kwargs, **extra)` inside
a callback that was offered `eventKwargs kw₁ b₁`): the child's callbacks see the child's values -/
theorem C07_builtins_forwarded (kw₁ extra : KW) (b₁ b₂ : Name → Val) :
    ∀ r ∈ reserved, kwGet (eventKwargs (eventKwargs kw₁ b₁ ++ extra) b₂) r = some (b₂ r) :=
  (C07_builtins _ b₂).1

theorem kwGet_unconsumed (sig : List Param) (kw : KW) (n : Name) :
    kwGet (kw.filter fun e => !consumed sig e.1) n = if consumed sig n then none else kwGet kw n := by
  split
  · rename_i h; exact kwGet_filter_none _ _ _ (fun v => by simp [h])
  · rename_i h; exact kwGet_filter_key _ _ _ (fun v => by simpa using h)

/-- **C07 (built-ins, as received).** End to end, from `sm.send(event, *args, **kw)` to the callback's
frame, for every call that goes through: a positional-or-keyword or keyword-only parameter named like a
built-in receives the current event's value (never a positional argument, never the user's same-named
keyword), and a `**kwargs` parameter holds the current event's value for every reserved name that no
parameter consumed. -/
theorem C07_builtins_received (sig : List Param) (args : List Val) (kw : KW) (b : Name → Val)
    (hwf : WF sig) (fr : Frame) (h : invokeEvent true sig args kw b = some fr) (i : Nat) (p : Param)
    (hi : sig[i]? = some p) :
    ((p.kind = .pk ∨ p.kind = .ko) → p.name ∈ reserved → lookup fr p.name = some (.one (b p.name))) ∧
    (p.kind = .vk → ∃ d, lookup fr p.name = some (.dict d) ∧
      ∀ r ∈ reserved, kwGet d r = if consumed sig r then none else some (b r)) := by
  obtain ⟨v, w, hv, hw, he⟩ := C07_receive sig args (eventKwargs kw b) hwf fr h i p hi
  have hb := (C07_builtins kw b).1
  constructor
  · intro hk hr
    have : v = .one (b p.name) := by
      rcases hk with hk | hk <;> simp [specParam, hk, hb p.name hr] at hv <;> exact hv.symm
    subst this
    cases w <;> simp [valEquiv] at he
    rw [hw, he]
  · intro hk
    simp only [specParam, hk, Option.some.injEq] at hv
    subst hv
    cases w with
    | dict d =>
      refine ⟨d, hw, ?_⟩
      intro r hr
      simp only [valEquiv] at he
      rw [he r, kwGet_unconsumed, hb r hr]
    | one x => simp [valEquiv] at he
    | tuple x => simp [valEquiv] at he
    | dflt => simp [valEquiv] at he

/-- non-vacuity: the user passes `source=99` and `x=5`; `def cb(source, **kw)` sees the event's source,
`x`, and the other seven built-ins -/
example :
    let b : Name → Val := fun r => 300 + r
    invokeEvent true [⟨6, .pk, false⟩, ⟨15, .vk, false⟩] [] [(6, 99), (20, 5)] b =
      some [(6, .one 306), (15, .dict [(20, 5), (0, 300), (1, 301), (2, 302), (3, 303), (4, 304), (5, 305),
        (7, 307)])] := by decide

/-! ## The binding depends only on the callback's own signature -/

theorem cacheGet_warm (hist : List Callable) (cache : Cache)
    (hinv : ∀ k s, cacheGet cache k = some s → ∀ c : Callable, c.ident = k → c.sig = s) :
    ∀ k s, cacheGet (warm true cache hist) k = some s →
      (∀ c ∈ hist, ∀ c' : Callable, c'.ident = c.ident → c'.sig = c.sig) →
        ∀ c : Callable, c.ident = k → c.sig = s := by
  induction hist generalizing cache with
  | nil => intro k s h _; exact hinv k s h
  | cons d ds ih =>
    intro k s h hid
    simp only [warm] at h
    refine ih _ ?_ k s h (fun c hc => hid c (List.mem_cons_of_mem _ hc))
    intro k' s' h'
    simp only [fromCallable, cacheKey, if_true] at h'
    cases hg : cacheGet cache d.ident with
    | some s0 => simp only [hg] at h'; exact hinv k' s' h'
    | none =>
      simp only [hg, cacheGet] at h'
      split at h'
      · rename_i hk
        cases h'
        intro c hck
        exact hid d List.mem_cons_self c (hck.trans hk.symm)
      · exact hinv k' s' h'

/-- **C07 (local).** With the cache keyed by the callable object, whatever callables were wrapped
before (`hist`: same names, same class names, partials of one function, `def`/`async def` twins …),
a callback is bound with its *own* signature. The only assumption is what "same object" means: two
callables with the same identity have the same signature. -/
theorem C07_local (hist : List Callable) (c : Callable) (args : List Val) (kw : KW)
    (hid : ∀ d ∈ c :: hist, ∀ d' : Callable, d'.ident = d.ident → d'.sig = d.sig) :
    invokeCached true hist c args kw = invoke true c.sig args kw := by
  have hw := cacheGet_warm hist [] (by simp [cacheGet]) c.ident
  unfold invokeCached invoke fromCallable
  simp only [cacheKey, if_true]
  cases hg : cacheGet (warm true [] hist) c.ident with
  | none => rfl
  | some s =>
    have := hw s hg (fun d hd => hid d (List.mem_cons_of_mem _ hd)) c rfl
    simp [this]

/-- **D6.** Before commit 2556fed the key was built from names only: after wrapping `cb(x)` of one
class, `cb(*, x)` of another class with the same qualified name was bound with the first signature
and the call `send(e, 1)` raised `TypeError` instead of leaving `x` to its default. -/
theorem C07_as_is_cache_confusion :
    let c₁ : Callable := ⟨1, 7, [⟨20, .pk, false⟩]⟩
    let c₂ : Callable := ⟨2, 7, [⟨20, .ko, true⟩]⟩
    invokeCached false [c₁] c₂ [100] [] = none ∧
    invokeCached true [c₁] c₂ [100] [] = some [(20, .dflt)] ∧
    invoke true c₂.sig [100] [] = some [(20, .dflt)] := by
  refine ⟨by decide, by decide, by decide⟩

end SMV.Bind
