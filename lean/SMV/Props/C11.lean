import SMV.Props.C02
import SMV.Props.C03
import SMV.Props.C01
/-!
# C11 — Initial activation happens once; a stored state is resumed untouched

`construct` models `StateMachine.__init__` from the engine's point of view (`BaseEngine.start` +
the sync engine's immediate `activate_initial_state`); `activateOp` models
`activate_initial_state()`.
-/
namespace SMV

/-- a machine at rest: nothing queued, lock free -/
def Quiet (c : Cfg) : Prop := c.queue = [] ∧ c.locked = false

theorem processRtc_quiet (m : Machine) (fuel : Nat) (c : Cfg) (h : Quiet c) :
    processRtc m fuel c = (c, .ok .none) := by
  obtain ⟨hq, hl⟩ := h
  unfold processRtc
  simp only [hl, Bool.false_eq_true, if_false]
  cases fuel with
  | zero =>
    unfold drainLoop
    simp only [hq]
    cases c; simp_all
  | succ n =>
    unfold drainLoop
    simp only [hq]
    cases c; simp_all

theorem popTrigger_quiet (h : Nested) (m : Machine) (c : Cfg) (hq : c.queue = []) :
    popTrigger h m c = (c, .ok .none) := by
  unfold popTrigger
  simp [hq]

theorem process_quiet (m : Machine) (o : Opts) (fuel : Nat) (c : Cfg) (h : Quiet c) :
    process m o fuel c = (c, .ok .none) := by
  unfold process
  split
  · exact processRtc_quiet m fuel c h
  · exact popTrigger_quiet _ m c h.1

/-- **C11 (resume).** Creating a machine over a model that already holds a state runs no
callback, queues nothing and leaves the stored value untouched — sync engine, `rtc` on or off;
async engine likewise (it does not even enter the processing loop). -/
theorem C11_resume (m : Machine) (o : Opts) (fuel : Nat) (c : Cfg) (v : Val)
    (hcur : c.cur = some v) (h : Quiet c) (hvalid : ¬(o.kind = .async ∧ o.rtc = false)) :
    construct m o fuel c = (c, .ok ()) := by
  unfold construct
  have hstart : start c = (c, .ok ()) := by
    unfold start
    rw [bind_ok (x := EM.get) (c := c) (a := c) rfl]
    simp [EM.get, hcur]
  have hk : (o.kind == Kind.async && !o.rtc) = false := by
    cases hk' : o.kind <;> cases hr : o.rtc <;> simp_all
  simp only [hk, Bool.false_eq_true, if_false]
  rw [bind_ok (x := start) (c := c) (a := ()) (by rw [hstart])]
  rw [hstart]
  simp only
  split
  · rw [bind_ok (a := .none) (by rw [process_quiet m o fuel c h])]
    rw [process_quiet m o fuel c h]
    rfl
  · rfl

/-- **C11 (activating again is a no-op).** `activate_initial_state()` on a machine at rest changes
nothing and returns `None`, in every mode. -/
theorem C11_idempotent (m : Machine) (o : Opts) (fuel : Nat) (c : Cfg) (h : Quiet c) :
    activateOp m o fuel c = (c, .ok .none) :=
  process_quiet m o fuel c h

/-- **C11 (fresh model, what is queued).** Over a model with no state, construction queues exactly
one `__initial__` trigger, under a fresh id. -/
theorem C11_start_fresh (c : Cfg) (hcur : c.cur = none) :
    (start c).1 = { c with queue := c.queue ++ [{ tid := c.nextTid, event := initialEv, internal := true }],
                           nextTid := c.nextTid + 1 } := by
  unfold start
  rw [bind_ok (x := EM.get) (c := c) (a := c) rfl]
  simp [EM.get, hcur, enqueueActivation, EM.modify]

/-- the async engine only queues it: activation is deferred to the first entry into the loop -/
theorem C11_async_defers (m : Machine) (fuel : Nat) (c : Cfg) :
    (construct m { rtc := true, kind := .async } fuel c).1 = (start c).1 := by
  unfold construct
  simp only [Bool.not_true, Bool.and_false, Bool.false_eq_true, if_false]
  rw [EM.bind_apply]
  generalize start c = r
  obtain ⟨c1, r1⟩ := r
  cases r1 <;> rfl

/-- **C11 (async: activation precedes the first event).** After the deferred construction the
first `send e` finds the `__initial__` trigger ahead of `e` in the queue (and the queue is FIFO,
C03), whatever `e` is. -/
theorem C11_async_initial_first (c : Cfg) (e : EventId) (hcur : c.cur = none) (hq : c.queue = []) :
    (enqueue e (start c).1).1.queue =
      [{ tid := c.nextTid, event := initialEv, internal := true }, { tid := c.nextTid + 1, event := e }] := by
  rw [C11_start_fresh c hcur]
  simp [enqueue, EM.modify, hq]

/-- **C11 (the first block is the initial activation).** Processing the `__initial__` trigger
appends only the assignment of the start state's value and that state's enter callbacks
(`InitEntry`, C02) and stores that value. -/
theorem C11_initial_block (m : Machine) (t : Trigger) (ht : t.event = initialEv) (s : StateId)
    (hs : initialTarget m = .ok s) (c : Cfg) (hc : c.cur = none) :
    LogAll (InitEntry m t s) c (trigger nestedRtc m t c).1 := by
  unfold trigger
  rw [bind_ok (x := EM.get) (c := c) (a := c) rfl]
  simp only [EM.get, ht, hc, beq_self_eq_true, Option.isNone_none, Bool.and_self, if_true]
  have := C02_initial m t s hs c
  rw [EM.bind_apply]
  generalize activateInitial nestedRtc m t c = r at this
  obtain ⟨c1, r1⟩ := r
  cases r1 <;> exact this

/-- once a state is stored it never becomes "no state" again, so `__initial__` is never queued twice -/
def SomeStays (c c' : Cfg) : Prop := c.cur.isSome = true → c'.cur.isSome = true

theorem SomeStays.lift : Lift SomeStays (fun _ _ => True) (fun _ => True) nestedRtc where
  refl := fun _ h => h
  trans := fun _ _ _ h1 h2 h => h2 (h1 h)
  log := fun _ _ _ _ h => h
  handler := fun _ _ => ⟨fun h => h, fun _ _ => trivial⟩

theorem C11_state_stays (m : Machine) (t : Trigger) : Resp SomeStays (trigger nestedRtc m t) :=
  trigger_lift SomeStays.lift m t
    (fun _ _ _ => ⟨fun cb _ => entryOk_true _ _ cb, fun _ _ => rfl⟩)
    (fun _ _ _ _ => ⟨fun ph cb _ => entryOk_true _ ph cb, fun _ _ => rfl⟩)

/-- **C11 (activating again is a no-op, also by name).** On a machine that holds a state the
reserved event `__initial__` is an ordinary undeclared event: it does not re-run the activation. -/
theorem C11_initial_name_inert (h : Nested) (m : Machine) (t : Trigger) (c : Cfg) (s : StateId)
    (hi : t.internal = false) (hs : c.cur.bind (lookupState m) = some s) (hno : ∀ tr ∈ out m s, tr.events.contains t.event = false) :
    (trigger h m t c).1 = c := by
  have hsome : c.cur.isNone = false := by
    cases hc : c.cur with
    | none => rw [hc] at hs; simp at hs
    | some v => rfl
  unfold trigger
  rw [bind_ok (x := EM.get) (c := c) (a := c) rfl]
  simp only [EM.get, hsome, hi, Bool.and_false, Bool.false_eq_true, if_false, hs]
  have hcands : ∀ (trs : List Transn), (∀ tr ∈ trs, tr.events.contains t.event = false) →
      tryCands h m t trs c = (c, .ok none) := by
    intro trs htrs
    induction trs with
    | nil => rfl
    | cons tr rest ih =>
      rw [tryCands_cons_skip h m t tr rest (htrs tr (by simp))]
      exact ih fun tr' h' => htrs tr' (by simp [h'])
  rw [bind_ok (a := none) (by rw [hcands _ hno])]
  rw [hcands _ hno]
  simp only
  split <;> rfl

/-- **C11 (a state stored before a deferred activation is resumed).** The activation trigger an async machine
queued for itself at construction, processed when the model holds a state by then (the record was loaded in the
meantime; any value): nothing runs, nothing is written, no error — the events behind it are handled from the stored
state (D36 repaired; before, it was treated as an undeclared event and failed the caller's first event). -/
theorem C11_stale_activation (h : Nested) (m : Machine) (tid : Nat) (c : Cfg) (hc : c.cur.isNone = false) :
    trigger h m { tid := tid, event := initialEv, internal := true } c = (c, .ok none) := by
  unfold trigger
  rw [bind_ok (x := EM.get) (c := c) (a := c) rfl]
  simp [EM.get, hc]

/-- the initial activation stores the start state's value before any enter callback runs -/
theorem C11_initial_stores (m : Machine) (t : Trigger) (s : StateId) (hs : initialTarget m = .ok s) (c : Cfg) :
    (activateInitial nestedRtc m t c).1.cur = some (stateVal m s) := by
  unfold activateInitial
  simp only [hs]
  rw [bind_ok (c := c) (a := ()) rfl]
  have : Resp Same (do
      let _ ← runGroup nestedRtc m { t := t, src := none, tgt := s } .enter (stateDef m s).enter
      pure ()) := Same.lift.bind (runGroup_same m _ _ _) fun _ => Same.lift.pure _
  rw [(this _).cur]
  rfl

end SMV
