import SMV.Lemmas.Rtc
/-!
# C01 — Transition selection follows the declared machine

`choose` is the specification, written from the English statement: walk the transitions leaving
the current state in declaration order; skip those not bound to the event; a validator that
raises aborts the whole event; the first one whose `cond` guards are all truthy and `unless`
guards all falsy fires; none → not allowed.

The theorems say the engine's candidate loop (`tryCands`, `trigger`) realises `choose`, for every
machine, every event (declared or not), every guard valuation and validator plan `act`.
Guards are assumed not to raise (a raising guard is C04's subject).
-/
namespace SMV

inductive Choice
  | fire (tr : Transn)
  | notAllowed
  | abort (x : Nat)
deriving Repr

/-- the specification of transition selection -/
def choose (truthy : Val → Bool) (act : CbId → Act) (ev : EventId) : List Transn → Choice
  | [] => .notAllowed
  | tr :: rest =>
    if tr.events.contains ev then
      match firstRaise act tr.validators with
      | some x => .abort x
      | none => if guardsPass truthy act tr.conds then .fire tr else choose truthy act ev rest
    else choose truthy act ev rest

/-- the action callbacks of `tr` under event `ev` -/
def actionCbs (m : Machine) (ev : EventId) (tr : Transn) : List CbId :=
  groupCbs m ev tr .before ++ groupCbs m ev tr .exit ++ groupCbs m ev tr .on ++
  groupCbs m ev tr .enter ++ groupCbs m ev tr .after

/-- what a fired transition returns (C14): `before` results then `on` results, unwrapped -/
def firedResult (m : Machine) (act : CbId → Act) (ev : EventId) (tr : Transn) : Res :=
  unwrap ((groupCbs m ev tr .before).map (fun cb => (act cb).ret) ++
          (groupCbs m ev tr .on).map (fun cb => (act cb).ret))

theorem activatePre_same (m : Machine) (t : Trigger) (tr : Transn) : Resp Same (activatePre nestedRtc m t tr) :=
  activatePre_lift Same.lift m t tr fun ph _ _ cb _ => entryOk_true _ ph cb

theorem tryCands_cons_match (h : Nested) (m : Machine) (t : Trigger) (tr : Transn) (rest : List Transn)
    (hm : tr.events.contains t.event = true) :
    tryCands h m t (tr :: rest) = (activate h m t tr >>= fun r =>
      match r with
      | none => tryCands h m t rest
      | some r => pure (some r)) := by
  rw [tryCands]
  simp only [matchesEv, hm, if_true]
  rfl

theorem tryCands_cons_skip (h : Nested) (m : Machine) (t : Trigger) (tr : Transn) (rest : List Transn)
    (hm : tr.events.contains t.event = false) :
    tryCands h m t (tr :: rest) = tryCands h m t rest := by
  rw [tryCands]
  simp only [matchesEv, hm, Bool.false_eq_true, if_false]

section
variable {m : Machine} {t : Trigger} {act : CbId → Act} (B : Beh m t act)
include B

theorem pre_abort (tr : Transn) (x : Nat) (hv : firstRaise act tr.validators = some x) (c : Cfg) :
    (activatePre nestedRtc m t tr c).2 = .error (.user x) := by
  unfold activatePre
  rw [bind_err (runGroup_err B _ rfl _ _ c x hv)]

theorem pre_reject (tr : Transn) (hv : firstRaise act tr.validators = none)
    (hg : ∀ p ∈ tr.conds, (act p.1).raises = none)
    (hp : guardsPass m.truthy act tr.conds = false) (c : Cfg) :
    (activatePre nestedRtc m t tr c).2 = .ok none := by
  unfold activatePre
  rw [bind_ok (runGroup_ok B _ rfl _ _ c hv)]
  rw [bind_ok (runConds_res B _ rfl _ hg _)]
  simp only [hp]
  rfl

theorem pre_pass (tr : Transn) (hv : firstRaise act tr.validators = none)
    (hg : ∀ p ∈ tr.conds, (act p.1).raises = none)
    (hp : guardsPass m.truthy act tr.conds = true)
    (hb : firstRaise act (applicable t.event tr.before) = none)
    (hx : firstRaise act (if tr.internal then [] else (stateDef m tr.source).exit) = none)
    (ho : firstRaise act (applicable t.event tr.on) = none) (c : Cfg) :
    (activatePre nestedRtc m t tr c).2 =
      .ok (some (((applicable t.event tr.before).map fun cb => (act cb).ret) ++
                 ((applicable t.event tr.on).map fun cb => (act cb).ret))) := by
  unfold activatePre
  rw [bind_ok (runGroup_ok B _ rfl _ _ c hv)]
  rw [bind_ok (runConds_res B _ rfl _ hg _)]
  simp only [hp, Bool.not_true, Bool.false_eq_true, ↓reduceIte]
  rw [bind_ok (runGroup_ok B _ rfl _ _ _ hb)]
  rw [bind_ok (runGroup_ok B _ rfl _ _ _ hx)]
  rw [bind_ok (runGroup_ok B _ rfl _ _ _ ho)]
  rfl

theorem post_ok (tr : Transn)
    (he : firstRaise act (if tr.internal then [] else (stateDef m tr.target).enter) = none)
    (hf : firstRaise act (applicable t.event tr.after) = none) (c : Cfg) :
    (activatePost nestedRtc m t tr c).2 = .ok () ∧
    (activatePost nestedRtc m t tr c).1.cur = some (stateVal m tr.target) := by
  unfold activatePost
  rw [bind_ok (c := _) (a := ()) rfl]
  rw [bind_ok (runGroup_ok B _ rfl _ _ _ he)]
  rw [bind_ok (runGroup_ok B _ rfl _ _ _ hf)]
  refine ⟨rfl, ?_⟩
  simp only [EM.pure_apply]
  rw [(runGroup_same m _ _ _ _).cur, (runGroup_same m _ _ _ _).cur]
  rfl

/-- a raising validator aborts: the exception escapes, the state is unchanged -/
theorem activate_abort (tr : Transn) (x : Nat) (hv : firstRaise act tr.validators = some x) (c : Cfg) :
    (activate nestedRtc m t tr c).2 = .error (.user x) ∧ (activate nestedRtc m t tr c).1.cur = c.cur := by
  unfold activate
  rw [bind_err (pre_abort B tr x hv c)]
  exact ⟨rfl, (activatePre_same m t tr c).cur⟩

/-- failing guards reject the candidate: no action runs, the state is unchanged -/
theorem activate_reject (tr : Transn) (hv : firstRaise act tr.validators = none)
    (hg : ∀ p ∈ tr.conds, (act p.1).raises = none)
    (hp : guardsPass m.truthy act tr.conds = false) (c : Cfg) :
    (activate nestedRtc m t tr c).2 = .ok none ∧ (activate nestedRtc m t tr c).1.cur = c.cur := by
  unfold activate
  rw [bind_ok (pre_reject B tr hv hg hp c)]
  exact ⟨rfl, (activatePre_same m t tr c).cur⟩

/-- passing guards fire the transition: target state, documented result -/
theorem activate_fire (tr : Transn) (hv : firstRaise act tr.validators = none)
    (hg : ∀ p ∈ tr.conds, (act p.1).raises = none)
    (hp : guardsPass m.truthy act tr.conds = true)
    (ha : ∀ cb ∈ actionCbs m t.event tr, (act cb).raises = none) (c : Cfg) :
    (activate nestedRtc m t tr c).2 = .ok (some (firedResult m act t.event tr)) ∧
    (activate nestedRtc m t tr c).1.cur = some (stateVal m tr.target) := by
  have hb : firstRaise act (groupCbs m t.event tr .before) = none :=
    (firstRaise_none_iff _ _).2 fun cb h => ha cb (by simp [actionCbs, h])
  have hx : firstRaise act (groupCbs m t.event tr .exit) = none :=
    (firstRaise_none_iff _ _).2 fun cb h => ha cb (by simp [actionCbs, h])
  have ho : firstRaise act (groupCbs m t.event tr .on) = none :=
    (firstRaise_none_iff _ _).2 fun cb h => ha cb (by simp [actionCbs, h])
  have he : firstRaise act (groupCbs m t.event tr .enter) = none :=
    (firstRaise_none_iff _ _).2 fun cb h => ha cb (by simp [actionCbs, h])
  have hf : firstRaise act (groupCbs m t.event tr .after) = none :=
    (firstRaise_none_iff _ _).2 fun cb h => ha cb (by simp [actionCbs, h])
  simp only [groupCbs] at hb hx ho he hf
  unfold activate
  rw [bind_ok (pre_pass B tr hv hg hp hb hx ho c)]
  simp only
  have := post_ok B tr he hf (activatePre nestedRtc m t tr c).1
  rw [bind_ok this.1]
  exact ⟨rfl, this.2⟩
end

section
variable {m : Machine} {t : Trigger} {act : CbId → Act} (B : Beh m t act)
include B

/-- **C01 (candidate loop).** The engine's candidate loop realises `choose`. -/
theorem tryCands_choose (trs : List Transn)
    (hg : ∀ tr ∈ trs, ∀ p ∈ tr.conds, (act p.1).raises = none) (c : Cfg) :
    match choose m.truthy act t.event trs with
    | .abort x => (tryCands nestedRtc m t trs c).2 = .error (.user x) ∧
                  (tryCands nestedRtc m t trs c).1.cur = c.cur
    | .notAllowed => (tryCands nestedRtc m t trs c).2 = .ok none ∧
                     (tryCands nestedRtc m t trs c).1.cur = c.cur
    | .fire tr => (∀ cb ∈ actionCbs m t.event tr, (act cb).raises = none) →
                  (tryCands nestedRtc m t trs c).2 = .ok (some (firedResult m act t.event tr)) ∧
                  (tryCands nestedRtc m t trs c).1.cur = some (stateVal m tr.target) := by
  induction trs generalizing c with
  | nil => exact ⟨rfl, rfl⟩
  | cons tr rest ih =>
    have ih' := ih (fun tr' h' => hg tr' (by simp [h']))
    have hg0 := hg tr (by simp)
    unfold choose
    by_cases hm : tr.events.contains t.event = true
    · rw [tryCands_cons_match _ _ _ _ _ hm]
      simp only [hm, if_true]
      cases hv : firstRaise act tr.validators with
      | some x =>
        have := activate_abort B tr x hv c
        simp only
        rw [bind_err this.1]
        exact ⟨rfl, this.2⟩
      | none =>
        simp only
        by_cases hp : guardsPass m.truthy act tr.conds = true
        · simp only [hp, if_true]
          intro ha
          have := activate_fire B tr hv hg0 hp ha c
          rw [bind_ok this.1]
          exact ⟨rfl, this.2⟩
        · have hp' : guardsPass m.truthy act tr.conds = false := by simpa using hp
          simp only [hp', Bool.false_eq_true, if_false]
          have := activate_reject B tr hv hg0 hp' c
          rw [bind_ok this.1]
          simp only
          have ihc := ih' (activate nestedRtc m t tr c).1
          rw [this.2] at ihc
          exact ihc
    · have hm' : tr.events.contains t.event = false := by simpa using hm
      rw [tryCands_cons_skip _ _ _ _ _ hm']
      simp only [hm', Bool.false_eq_true, if_false]
      exact ih' c

/-- **C01 (one event).** For every machine, every event other than `__initial__` (declared or
not), every guard valuation and validator plan: with `s` the current state,
* `choose = fire tr`: the machine ends in `tr.target` and the event returns the documented result
  (when no action callback of `tr` raises);
* `choose = notAllowed`: the state is unchanged and `TransitionNotAllowed(event, s)` is raised, or
  `None` is returned when `allow_event_without_transition`;
* `choose = abort x`: the validator's exception escapes with the state unchanged. -/
theorem C01_trigger (hne : (t.event == initialEv) = false) (c : Cfg) (s : StateId)
    (hs : c.cur.bind (lookupState m) = some s)
    (hg : ∀ tr ∈ out m s, ∀ p ∈ tr.conds, (act p.1).raises = none) :
    match choose m.truthy act t.event (out m s) with
    | .abort x => (trigger nestedRtc m t c).2 = .error (.user x) ∧ (trigger nestedRtc m t c).1.cur = c.cur
    | .notAllowed =>
        (trigger nestedRtc m t c).2 =
          (if m.allow then .ok (some .none) else .error (.notAllowed t.event s)) ∧
        (trigger nestedRtc m t c).1.cur = c.cur
    | .fire tr => (∀ cb ∈ actionCbs m t.event tr, (act cb).raises = none) →
        (trigger nestedRtc m t c).2 = .ok (some (firedResult m act t.event tr)) ∧
        (trigger nestedRtc m t c).1.cur = some (stateVal m tr.target) := by
  have key := tryCands_choose B (out m s) hg c
  unfold trigger
  rw [bind_ok (x := EM.get) (a := c) rfl]
  simp only [EM.get, hne, Bool.false_and, Bool.false_eq_true, if_false, hs]
  cases hch : choose m.truthy act t.event (out m s) with
  | abort x =>
    rw [hch] at key; simp only at key ⊢
    rw [bind_err key.1]; exact ⟨rfl, key.2⟩
  | notAllowed =>
    rw [hch] at key; simp only at key ⊢
    rw [bind_ok key.1]
    simp only
    by_cases ha : m.allow = true
    · simp only [ha, if_true]; exact ⟨rfl, key.2⟩
    · simp only [ha, Bool.false_eq_true, if_false]; exact ⟨rfl, key.2⟩
  | fire tr =>
    rw [hch] at key; simp only at key ⊢
    intro ha
    have := key ha
    rw [bind_ok this.1]
    exact ⟨rfl, this.2⟩
end

/-- `choose` fires the *first* enabled transition in declaration order: everything before it is
either not bound to the event or has no raising validator and a failing guard. -/
theorem choose_fire_first (truthy : Val → Bool) (act : CbId → Act) (ev : EventId) (trs : List Transn)
    (tr : Transn) (h : choose truthy act ev trs = .fire tr) :
    ∃ pre post, trs = pre ++ tr :: post ∧ tr.events.contains ev = true ∧
      firstRaise act tr.validators = none ∧ guardsPass truthy act tr.conds = true ∧
      ∀ tr' ∈ pre, tr'.events.contains ev = false ∨
        (firstRaise act tr'.validators = none ∧ guardsPass truthy act tr'.conds = false) := by
  induction trs with
  | nil => simp [choose] at h
  | cons a rest ih =>
    unfold choose at h
    by_cases hm : a.events.contains ev = true
    · simp only [hm, if_true] at h
      cases hv : firstRaise act a.validators with
      | some x => rw [hv] at h; simp at h
      | none =>
        rw [hv] at h; simp only at h
        by_cases hp : guardsPass truthy act a.conds = true
        · simp only [hp, if_true] at h
          injection h with h; subst h
          exact ⟨[], rest, rfl, hm, hv, hp, by simp⟩
        · simp only [hp, Bool.false_eq_true, if_false] at h
          obtain ⟨pre, post, e1, e2, e3, e4, e5⟩ := ih h
          refine ⟨a :: pre, post, by simp [e1], e2, e3, e4, ?_⟩
          intro tr' h'
          rcases List.mem_cons.mp h' with h' | h'
          · subst h'; exact Or.inr ⟨hv, by simpa using hp⟩
          · exact e5 tr' h'
    · simp only [hm, Bool.false_eq_true, if_false] at h
      obtain ⟨pre, post, e1, e2, e3, e4, e5⟩ := ih h
      refine ⟨a :: pre, post, by simp [e1], e2, e3, e4, ?_⟩
      intro tr' h'
      rcases List.mem_cons.mp h' with h' | h'
      · subst h'; exact Or.inl (by simpa using hm)
      · exact e5 tr' h'

/-- event matching is exact membership in the transition's event list (no prefixes, no substrings) -/
theorem matchesEv_iff (tr : Transn) (e : EventId) : matchesEv tr e = true ↔ e ∈ tr.events := by
  simp [matchesEv]

/-- the candidate loop only looks at the transitions bound to the event, in their relative order -/
theorem tryCands_filter (h : Nested) (m : Machine) (t : Trigger) (l : List Transn) :
    tryCands h m t l = tryCands h m t (l.filter (fun tr => tr.events.contains t.event)) := by
  induction l with
  | nil => rfl
  | cons tr rest ih =>
    by_cases hm : tr.events.contains t.event = true
    · simp only [List.filter, hm]
      rw [tryCands_cons_match _ _ _ _ _ hm, tryCands_cons_match _ _ _ _ _ hm, ih]
    · have hm' : tr.events.contains t.event = false := by simpa using hm
      simp only [List.filter, hm']
      rw [tryCands_cons_skip _ _ _ _ _ hm', ih]

end SMV
