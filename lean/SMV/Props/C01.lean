import SMV.Lemmas.Rtc
/-!
# C01 — Transition selection follows the declared machine

`choose` is the specification, written from the English statement: walk the transitions leaving
the current state in declaration order; skip those not bound to the event; a validator that
raises aborts the whole event; the first one whose `cond` guards are all truthy and `unless`
guards all falsy fires; none → not allowed.

The theorems say the engine's candidate loop (`tryCands`, `trigger`) realises `choose`, for every
machine, every event (declared or not), every guard valuation and validator plan `act`.
Guards are assumed not to raise (a raising guard is C04's subject).
-/
namespace SMV

inductive Choice
  | fire (tr : Transn)
  | notAllowed
  | abort (x : Nat)
deriving Repr

/-- the specification of transition selection -/
def choose (m : Machine) (act : CbId → Act) (ev : EventId) : List Transn → Choice
  | [] => .notAllowed
  | tr :: rest =>
    if tr.events.contains ev then
      match firstRaise act tr.validators with
      | some x => .abort x
      | none => if guardsPass m act tr.conds then .fire tr else choose m act ev rest
    else choose m act ev rest

/-- the action callbacks of `tr` under event `ev` -/
def actionCbs (m : Machine) (ev : EventId) (tr : Transn) : List CbId :=
  groupCbs m ev tr .before ++ groupCbs m ev tr .exit ++ groupCbs m ev tr .on ++
  groupCbs m ev tr .enter ++ groupCbs m ev tr .after

/-- what a fired transition returns (C14): `before` results then `on` results, unwrapped -/
def firedResult (m : Machine) (act : CbId → Act) (ev : EventId) (tr : Transn) : Res :=
  unwrap ((groupCbs m ev tr .before).map (fun cb => rtcRet m (act cb)) ++
          (groupCbs m ev tr .on).map (fun cb => rtcRet m (act cb)))

theorem activatePre_same (m : Machine) (t : Trigger) (tr : Transn) : Resp Same (activatePre nestedRtc m t tr) :=
  activatePre_lift Same.lift m t tr fun ph _ _ cb _ => entryOk_true _ ph cb

theorem tryCands_cons_match (h : Nested) (m : Machine) (t : Trigger) (tr : Transn) (rest : List Transn)
    (hm : tr.events.contains t.event = true) :
    tryCands h m t (tr :: rest) = (activate h m t tr >>= fun r =>
      match r with
      | none => tryCands h m t rest
      | some r => pure (some r)) := by
  rw [tryCands]
  simp only [matchesEv, hm, if_true]
  rfl

theorem tryCands_cons_skip (h : Nested) (m : Machine) (t : Trigger) (tr : Transn) (rest : List Transn)
    (hm : tr.events.contains t.event = false) :
    tryCands h m t (tr :: rest) = tryCands h m t rest := by
  rw [tryCands]
  simp only [matchesEv, hm, Bool.false_eq_true, if_false]

section
variable {m : Machine} {t : Trigger} {act : CbId → Act} (B : Beh m t act)
include B

theorem pre_abort (tr : Transn) (x : Nat) (hv : firstRaise act tr.validators = some x) (c : Cfg) :
    (activatePre nestedRtc m t tr c).2 = .error (.user x) := by
  unfold activatePre
  rw [bind_err (runGroup_err B _ rfl _ _ c x hv)]

theorem pre_reject (tr : Transn) (hv : firstRaise act tr.validators = none)
    (hg : ∀ p ∈ tr.conds, (act p.1).raises = none)
    (hp : guardsPass m act tr.conds = false) (c : Cfg) :
    (activatePre nestedRtc m t tr c).2 = .ok none := by
  unfold activatePre
  rw [bind_ok (runGroup_ok B _ rfl _ _ c hv)]
  rw [bind_ok (runConds_res B _ rfl _ hg _)]
  simp only [hp]
  rfl

theorem pre_pass (tr : Transn) (hv : firstRaise act tr.validators = none)
    (hg : ∀ p ∈ tr.conds, (act p.1).raises = none)
    (hp : guardsPass m act tr.conds = true)
    (hb : firstRaise act (applicable t.event tr.before) = none)
    (hx : firstRaise act (if tr.internal then [] else (stateDef m tr.source).exit) = none)
    (ho : firstRaise act (applicable t.event tr.on) = none) (c : Cfg) :
    (activatePre nestedRtc m t tr c).2 =
      .ok (some (((applicable t.event tr.before).map fun cb => rtcRet m (act cb)) ++
                 ((applicable t.event tr.on).map fun cb => rtcRet m (act cb)))) := by
  unfold activatePre
  rw [bind_ok (runGroup_ok B _ rfl _ _ c hv)]
  rw [bind_ok (runConds_res B _ rfl _ hg _)]
  simp only [hp, Bool.not_true, Bool.false_eq_true, ↓reduceIte]
  rw [bind_ok (runGroup_ok B _ rfl _ _ _ hb)]
  rw [bind_ok (runGroup_ok B _ rfl _ _ _ hx)]
  rw [bind_ok (runGroup_ok B _ rfl _ _ _ ho)]
  rfl

theorem post_ok (tr : Transn)
    (he : firstRaise act (if tr.internal then [] else (stateDef m tr.target).enter) = none)
    (hf : firstRaise act (applicable t.event tr.after) = none) (c : Cfg) :
    (activatePost nestedRtc m t tr c).2 = .ok () ∧
    (activatePost nestedRtc m t tr c).1.cur = some (stateVal m tr.target) := by
  unfold activatePost
  rw [bind_ok (c := _) (a := ()) rfl]
  rw [bind_ok (runGroup_ok B _ rfl _ _ _ he)]
  rw [bind_ok (runGroup_ok B _ rfl _ _ _ hf)]
  refine ⟨rfl, ?_⟩
  simp only [EM.pure_apply]
  rw [(runGroup_same m _ _ _ _).cur, (runGroup_same m _ _ _ _).cur]
  rfl

/-- a raising validator aborts: the exception escapes, the state is unchanged -/
theorem activate_abort (tr : Transn) (x : Nat) (hv : firstRaise act tr.validators = some x) (c : Cfg) :
    (activate nestedRtc m t tr c).2 = .error (.user x) ∧ (activate nestedRtc m t tr c).1.cur = c.cur := by
  unfold activate
  rw [bind_err (pre_abort B tr x hv c)]
  exact ⟨rfl, (activatePre_same m t tr c).cur⟩

/-- failing guards reject the candidate: no action runs, the state is unchanged -/
theorem activate_reject (tr : Transn) (hv : firstRaise act tr.validators = none)
    (hg : ∀ p ∈ tr.conds, (act p.1).raises = none)
    (hp : guardsPass m act tr.conds = false) (c : Cfg) :
    (activate nestedRtc m t tr c).2 = .ok none ∧ (activate nestedRtc m t tr c).1.cur = c.cur := by
  unfold activate
  rw [bind_ok (pre_reject B tr hv hg hp c)]
  exact ⟨rfl, (activatePre_same m t tr c).cur⟩

/-- passing guards fire the transition: target state, documented result -/
theorem activate_fire (tr : Transn) (hv : firstRaise act tr.validators = none)
    (hg : ∀ p ∈ tr.conds, (act p.1).raises = none)
    (hp : guardsPass m act tr.conds = true)
    (ha : ∀ cb ∈ actionCbs m t.event tr, (act cb).raises = none) (c : Cfg) :
    (activate nestedRtc m t tr c).2 = .ok (some (firedResult m act t.event tr)) ∧
    (activate nestedRtc m t tr c).1.cur = some (stateVal m tr.target) := by
  have hb : firstRaise act (groupCbs m t.event tr .before) = none :=
    (firstRaise_none_iff _ _).2 fun cb h => ha cb (by simp [actionCbs, h])
  have hx : firstRaise act (groupCbs m t.event tr .exit) = none :=
    (firstRaise_none_iff _ _).2 fun cb h => ha cb (by simp [actionCbs, h])
  have ho : firstRaise act (groupCbs m t.event tr .on) = none :=
    (firstRaise_none_iff _ _).2 fun cb h => ha cb (by simp [actionCbs, h])
  have he : firstRaise act (groupCbs m t.event tr .enter) = none :=
    (firstRaise_none_iff _ _).2 fun cb h => ha cb (by simp [actionCbs, h])
  have hf : firstRaise act (groupCbs m t.event tr .after) = none :=
    (firstRaise_none_iff _ _).2 fun cb h => ha cb (by simp [actionCbs, h])
  simp only [groupCbs] at hb hx ho he hf
  unfold activate
  rw [bind_ok (pre_pass B tr hv hg hp hb hx ho c)]
  simp only
  have := post_ok B tr he hf (activatePre nestedRtc m t tr c).1
  rw [bind_ok this.1]
  exact ⟨rfl, this.2⟩
end

section
variable {m : Machine} {t : Trigger} {act : CbId → Act} (B : Beh m t act)
include B

/-- **C01 (candidate loop).** The engine's candidate loop realises `choose`. -/
theorem tryCands_choose (trs : List Transn)
    (hg : ∀ tr ∈ trs, ∀ p ∈ tr.conds, (act p.1).raises = none) (c : Cfg) :
    match choose m act t.event trs with
    | .abort x => (tryCands nestedRtc m t trs c).2 = .error (.user x) ∧
                  (tryCands nestedRtc m t trs c).1.cur = c.cur
    | .notAllowed => (tryCands nestedRtc m t trs c).2 = .ok none ∧
                     (tryCands nestedRtc m t trs c).1.cur = c.cur
    | .fire tr => (∀ cb ∈ actionCbs m t.event tr, (act cb).raises = none) →
                  (tryCands nestedRtc m t trs c).2 = .ok (some (firedResult m act t.event tr)) ∧
                  (tryCands nestedRtc m t trs c).1.cur = some (stateVal m tr.target) := by
  induction trs generalizing c with
  | nil => exact ⟨rfl, rfl⟩
  | cons tr rest ih =>
    have ih' := ih (fun tr' h' => hg tr' (by simp [h']))
    have hg0 := hg tr (by simp)
    unfold choose
    by_cases hm : tr.events.contains t.event = true
    · rw [tryCands_cons_match _ _ _ _ _ hm]
      simp only [hm, if_true]
      cases hv : firstRaise act tr.validators with
      | some x =>
        have := activate_abort B tr x hv c
        simp only
        rw [bind_err this.1]
        exact ⟨rfl, this.2⟩
      | none =>
        simp only
        by_cases hp : guardsPass m act tr.conds = true
        · simp only [hp, if_true]
          intro ha
          have := activate_fire B tr hv hg0 hp ha c
          rw [bind_ok this.1]
          exact ⟨rfl, this.2⟩
        · have hp' : guardsPass m act tr.conds = false := by simpa using hp
          simp only [hp', Bool.false_eq_true, if_false]
          have := activate_reject B tr hv hg0 hp' c
          rw [bind_ok this.1]
          simp only
          have ihc := ih' (activate nestedRtc m t tr c).1
          rw [this.2] at ihc
          exact ihc
    · have hm' : tr.events.contains t.event = false := by simpa using hm
      rw [tryCands_cons_skip _ _ _ _ _ hm']
      simp only [hm', Bool.false_eq_true, if_false]
      exact ih' c

/-- **C01 (one event).** For every machine, every event other than `__initial__` (declared or
not), every guard valuation and validator plan: with `s` the current state,
* `choose = fire tr`: the machine ends in `tr.target` and the event returns the documented result
  (when no action callback of `tr` raises);
* `choose = notAllowed`: the state is unchanged and `TransitionNotAllowed(event, s)` is raised, or
  `None` is returned when `allow_event_without_transition`;
* `choose = abort x`: the validator's exception escapes with the state unchanged. -/
theorem C01_trigger (hne : (t.event == initialEv) = false) (c : Cfg) (s : StateId)
    (hs : c.cur.bind (lookupState m) = some s)
    (hg : ∀ tr ∈ out m s, ∀ p ∈ tr.conds, (act p.1).raises = none) :
    match choose m act t.event (out m s) with
    | .abort x => (trigger nestedRtc m t c).2 = .error (.user x) ∧ (trigger nestedRtc m t c).1.cur = c.cur
    | .notAllowed =>
        (trigger nestedRtc m t c).2 =
          (if m.allow then .ok (some .none) else .error (.notAllowed t.event s)) ∧
        (trigger nestedRtc m t c).1.cur = c.cur
    | .fire tr => (∀ cb ∈ actionCbs m t.event tr, (act cb).raises = none) →
        (trigger nestedRtc m t c).2 = .ok (some (firedResult m act t.event tr)) ∧
        (trigger nestedRtc m t c).1.cur = some (stateVal m tr.target) := by
  have key := tryCands_choose B (out m s) hg c
  unfold trigger
  rw [bind_ok (x := EM.get) (a := c) rfl]
  simp only [EM.get, hne, Bool.false_and, Bool.false_eq_true, if_false, hs]
  cases hch : choose m act t.event (out m s) with
  | abort x =>
    rw [hch] at key; simp only at key ⊢
    rw [bind_err key.1]; exact ⟨rfl, key.2⟩
  | notAllowed =>
    rw [hch] at key; simp only at key ⊢
    rw [bind_ok key.1]
    simp only
    by_cases ha : m.allow = true
    · simp only [ha, if_true]; exact ⟨rfl, key.2⟩
    · simp only [ha, Bool.false_eq_true, if_false]; exact ⟨rfl, key.2⟩
  | fire tr =>
    rw [hch] at key; simp only at key ⊢
    intro ha
    have := key ha
    rw [bind_ok this.1]
    exact ⟨rfl, this.2⟩
end

/-- `choose` fires the *first* enabled transition in declaration order: everything before it is
either not bound to the event or has no raising validator and a failing guard. -/
theorem choose_fire_first (m : Machine) (act : CbId → Act) (ev : EventId) (trs : List Transn)
    (tr : Transn) (h : choose m act ev trs = .fire tr) :
    ∃ pre post, trs = pre ++ tr :: post ∧ tr.events.contains ev = true ∧
      firstRaise act tr.validators = none ∧ guardsPass m act tr.conds = true ∧
      ∀ tr' ∈ pre, tr'.events.contains ev = false ∨
        (firstRaise act tr'.validators = none ∧ guardsPass m act tr'.conds = false) := by
  induction trs with
  | nil => simp [choose] at h
  | cons a rest ih =>
    unfold choose at h
    by_cases hm : a.events.contains ev = true
    · simp only [hm, if_true] at h
      cases hv : firstRaise act a.validators with
      | some x => rw [hv] at h; simp at h
      | none =>
        rw [hv] at h; simp only at h
        by_cases hp : guardsPass m act a.conds = true
        · simp only [hp, if_true] at h
          injection h with h; subst h
          exact ⟨[], rest, rfl, hm, hv, hp, by simp⟩
        · simp only [hp, Bool.false_eq_true, if_false] at h
          obtain ⟨pre, post, e1, e2, e3, e4, e5⟩ := ih h
          refine ⟨a :: pre, post, by simp [e1], e2, e3, e4, ?_⟩
          intro tr' h'
          rcases List.mem_cons.mp h' with h' | h'
          · subst h'; exact Or.inr ⟨hv, by simpa using hp⟩
          · exact e5 tr' h'
    · simp only [hm, Bool.false_eq_true, if_false] at h
      obtain ⟨pre, post, e1, e2, e3, e4, e5⟩ := ih h
      refine ⟨a :: pre, post, by simp [e1], e2, e3, e4, ?_⟩
      intro tr' h'
      rcases List.mem_cons.mp h' with h' | h'
      · subst h'; exact Or.inl (by simpa using hm)
      · exact e5 tr' h'

/-- event matching is exact membership in the transition's event list (no prefixes, no substrings) -/
theorem matchesEv_iff (tr : Transn) (e : EventId) : matchesEv tr e = true ↔ e ∈ tr.events := by
  simp [matchesEv]

/-- the candidate loop only looks at the transitions bound to the event, in their relative order -/
theorem tryCands_filter (h : Nested) (m : Machine) (t : Trigger) (l : List Transn) :
    tryCands h m t l = tryCands h m t (l.filter (fun tr => tr.events.contains t.event)) := by
  induction l with
  | nil => rfl
  | cons tr rest ih =>
    by_cases hm : tr.events.contains t.event = true
    · simp only [List.filter, hm]
      rw [tryCands_cons_match _ _ _ _ _ hm, tryCands_cons_match _ _ _ _ _ hm, ih]
    · have hm' : tr.events.contains t.event = false := by simpa using hm
      simp only [List.filter, hm']
      rw [tryCands_cons_skip _ _ _ _ _ hm', ih]

end SMV

namespace SMV

/-! ## Every processed event of every history; every handler

`BehT m act`: the valuation is re-drawn per event — while the trigger with id `i` is processed, callback `cb`
behaves as `act i cb`. The statement below is about an arbitrary configuration with a non-empty queue, hence
about every step of every drain of every history (external and nested events alike). -/
def BehT (m : Machine) (act : Nat → CbId → Act) : Prop :=
  ∀ cb inv tid st ev, m.behav cb inv { tid := tid, state := st, event := ev } = act tid cb

theorem BehT.beh {m : Machine} {act : Nat → CbId → Act} (B : BehT m act) (t : Trigger) : Beh m t (act t.tid) :=
  fun cb inv st => B cb inv t.tid st t.event

/-- **C01 (every event of every history, run-to-completion).** Whatever is at the head of the queue — an event
sent from outside or from inside a callback, after any history — is decided by `choose` on the transitions of
the state current *at that moment*, with the guard values of that moment. A validator abort or a
`TransitionNotAllowed` drops what was still queued (C04). -/
theorem C01_drain_step {m : Machine} {act : Nat → CbId → Act} (B : BehT m act) (c : Cfg) (t : Trigger)
    (q : List Trigger) (hq : c.queue = t :: q) (hne : (t.event == initialEv) = false) (s : StateId)
    (hs : c.cur.bind (lookupState m) = some s)
    (hg : ∀ tr ∈ out m s, ∀ p ∈ tr.conds, (act t.tid p.1).raises = none) :
    match choose m (act t.tid) t.event (out m s) with
    | .abort _ => (drainStep m c).cur = c.cur ∧ (drainStep m c).queue = []
    | .notAllowed => (drainStep m c).cur = c.cur ∧ (m.allow = false → (drainStep m c).queue = [])
    | .fire tr => (∀ cb ∈ actionCbs m t.event tr, (act t.tid cb).raises = none) →
        (drainStep m c).cur = some (stateVal m tr.target) := by
  have key := C01_trigger (B.beh t) hne { c with queue := q } s hs hg
  unfold drainStep
  rw [hq]
  simp only
  cases hch : choose m (act t.tid) t.event (out m s) with
  | abort x =>
    rw [hch] at key; simp only at key ⊢
    generalize trigger nestedRtc m t { c with queue := q } = r at key
    obtain ⟨c1, r1⟩ := r
    simp only at key
    obtain ⟨k1, k2⟩ := key
    subst k1
    exact ⟨k2, rfl⟩
  | notAllowed =>
    rw [hch] at key; simp only at key ⊢
    generalize trigger nestedRtc m t { c with queue := q } = r at key
    obtain ⟨c1, r1⟩ := r
    simp only at key
    obtain ⟨k1, k2⟩ := key
    subst k1
    by_cases ha : m.allow = true
    · simp only [ha, if_true]
      exact ⟨k2, fun h => by simp at h⟩
    · simp only [ha, Bool.false_eq_true, if_false]
      exact ⟨k2, by simp⟩
  | fire tr =>
    rw [hch] at key; simp only at key ⊢
    intro hact
    have k := key hact
    generalize trigger nestedRtc m t { c with queue := q } = r at k
    obtain ⟨c1, r1⟩ := r
    simp only at k
    obtain ⟨k1, k2⟩ := k
    subst k1
    exact k2

/-- … in particular at every point of every drain, however long (`iter (drainStep m) n c`) -/
theorem C01_every_event {m : Machine} {act : Nat → CbId → Act} (B : BehT m act) (c0 : Cfg) (n : Nat) :
    let c := iter (drainStep m) n c0
    ∀ t q, c.queue = t :: q → (t.event == initialEv) = false → ∀ s, c.cur.bind (lookupState m) = some s →
      (∀ tr ∈ out m s, ∀ p ∈ tr.conds, (act t.tid p.1).raises = none) →
      match choose m (act t.tid) t.event (out m s) with
      | .abort _ => (iter (drainStep m) (n + 1) c0).cur = c.cur
      | .notAllowed => (iter (drainStep m) (n + 1) c0).cur = c.cur
      | .fire tr => (∀ cb ∈ actionCbs m t.event tr, (act t.tid cb).raises = none) →
          (iter (drainStep m) (n + 1) c0).cur = some (stateVal m tr.target) := by
  intro c t q hq hne s hs hg
  have hstep : iter (drainStep m) (n + 1) c0 = drainStep m c := by
    clear hq hne hs hg
    induction n generalizing c0 with
    | zero => rfl
    | succ k ih => exact ih (drainStep m c0)
  rw [hstep]
  have key := C01_drain_step B c t q hq hne s hs hg
  cases hch : choose m (act t.tid) t.event (out m s) with
  | abort x => rw [hch] at key; exact key.1
  | notAllowed => rw [hch] at key; exact key.1
  | fire tr => rw [hch] at key; exact key

/-! ### Any handler (`rtc=False`, both engine kinds) when callbacks send no events

With callbacks that do not call `send` the handler is never consulted, so the selection theorem holds verbatim
for the depth-first (`rtc=False`) processing mode. (With nested sends under `rtc=False` the nested event runs in
the middle of the outer transition and the final state is the *outer* target only if nothing is sent from
`enter`/`after`; that case is covered by the correspondence, not by this theorem.) -/
section
variable {m : Machine} {t : Trigger} {act : CbId → Act} (B : Beh m t act) (hs : ∀ cb, (act cb).sends = [])
include B hs

theorem runCb_handler_irrel (h : Nested) (x : Ctx) (hx : x.t = t) (ph : Phase) (cb : CbId) :
    runCb h m x ph cb = runCb nestedRtc m x ph cb := by
  funext c
  simp only [runCb, EM.bind_apply, EM.get, EM.modify]
  have hb : m.behav cb c.nextInv { tid := x.t.tid, state := c.cur, event := x.t.event } = act cb := by
    rw [hx]; exact B cb _ _
  rw [hb, hs cb]
  simp only [sendsLoop]

theorem runGroup_handler_irrel (h : Nested) (x : Ctx) (hx : x.t = t) (ph : Phase) (cs : List CbId) :
    runGroup h m x ph cs = runGroup nestedRtc m x ph cs := by
  induction cs with
  | nil => rfl
  | cons cb cs ih => simp only [runGroup, runCb_handler_irrel B hs h x hx, ih]

theorem runConds_handler_irrel (h : Nested) (x : Ctx) (hx : x.t = t) (cs : List (CbId × Bool)) :
    runConds h m x cs = runConds nestedRtc m x cs := by
  induction cs with
  | nil => rfl
  | cons p cs ih =>
    obtain ⟨cb, ex⟩ := p
    simp only [runConds, runCb_handler_irrel B hs h x hx, ih]

theorem activate_handler_irrel (h : Nested) (tr : Transn) :
    activate h m t tr = activate nestedRtc m t tr := by
  have hg := fun ph cs => runGroup_handler_irrel B hs h { t := t, src := some tr.source, tgt := tr.target } rfl ph cs
  have hc := fun cs => runConds_handler_irrel B hs h { t := t, src := some tr.source, tgt := tr.target } rfl cs
  simp only [activate, activatePre, activatePost, hg, hc]

theorem tryCands_handler_irrel (h : Nested) (trs : List Transn) :
    tryCands h m t trs = tryCands nestedRtc m t trs := by
  induction trs with
  | nil => rfl
  | cons tr rest ih => simp only [tryCands, activate_handler_irrel B hs h, ih]

theorem trigger_handler_irrel (h : Nested) (hne : (t.event == initialEv) = false) :
    trigger h m t = trigger nestedRtc m t := by
  funext c
  simp only [trigger, EM.bind_apply, EM.get, hne, Bool.false_and, Bool.false_eq_true, if_false,
    tryCands_handler_irrel B hs h]

/-- **C01 (one event, any processing mode).** `C01_trigger` for an arbitrary handler — in particular the
depth-first handler `sendNR m fuel` of `rtc=False` — when callbacks send no events. -/
theorem C01_trigger_any_handler (h : Nested) (hne : (t.event == initialEv) = false) (c : Cfg) (s : StateId)
    (hcur : c.cur.bind (lookupState m) = some s)
    (hg : ∀ tr ∈ out m s, ∀ p ∈ tr.conds, (act p.1).raises = none) :
    match choose m act t.event (out m s) with
    | .abort x => (trigger h m t c).2 = .error (.user x) ∧ (trigger h m t c).1.cur = c.cur
    | .notAllowed =>
        (trigger h m t c).2 = (if m.allow then .ok (some .none) else .error (.notAllowed t.event s)) ∧
        (trigger h m t c).1.cur = c.cur
    | .fire tr => (∀ cb ∈ actionCbs m t.event tr, (act cb).raises = none) →
        (trigger h m t c).2 = .ok (some (firedResult m act t.event tr)) ∧
        (trigger h m t c).1.cur = some (stateVal m tr.target) := by
  rw [trigger_handler_irrel B hs h hne]
  exact C01_trigger B hne c s hcur hg
end

/-- **C01 (`rtc=False`, external send).** An event sent from outside to a machine in depth-first mode whose
callbacks send nothing: decided by `choose`, result and final state as documented. -/
theorem C01_send_nonrtc {m : Machine} {act : CbId → Act} (fuel : Nat) (kind : Kind) (ev : EventId) (c : Cfg)
    (hq : c.queue = []) (B : Beh m { tid := c.nextTid, event := ev } act) (hs : ∀ cb, (act cb).sends = [])
    (hne : (ev == initialEv) = false) (s : StateId) (hcur : c.cur.bind (lookupState m) = some s)
    (hg : ∀ tr ∈ out m s, ∀ p ∈ tr.conds, (act p.1).raises = none) :
    match choose m act ev (out m s) with
    | .abort x => (send m { rtc := false, kind := kind } fuel ev c).2 = .error (.user x) ∧
                  (send m { rtc := false, kind := kind } fuel ev c).1.cur = c.cur
    | .notAllowed =>
        (send m { rtc := false, kind := kind } fuel ev c).2 =
          (if m.allow then .ok .none else .error (.notAllowed ev s)) ∧
        (send m { rtc := false, kind := kind } fuel ev c).1.cur = c.cur
    | .fire tr => (∀ cb ∈ actionCbs m ev tr, (act cb).raises = none) →
        (send m { rtc := false, kind := kind } fuel ev c).2 = .ok (firedResult m act ev tr) ∧
        (send m { rtc := false, kind := kind } fuel ev c).1.cur = some (stateVal m tr.target) := by
  have key := C01_trigger_any_handler (t := { tid := c.nextTid, event := ev }) B hs (sendNR m fuel) hne
    { c with queue := [], nextTid := c.nextTid + 1 } s hcur hg
  have hsend : send m { rtc := false, kind := kind } fuel ev c =
      popTrigger (sendNR m fuel) m { c with queue := [{ tid := c.nextTid, event := ev }], nextTid := c.nextTid + 1 } := by
    simp [send, process, EM.bind_apply, enqueue, EM.modify, hq]
  rw [hsend]
  simp only [popTrigger]
  cases hch : choose m act ev (out m s) with
  | abort x =>
    rw [hch] at key; simp only at key ⊢
    generalize trigger (sendNR m fuel) m _ _ = r at key
    obtain ⟨c1, r1⟩ := r
    obtain ⟨k1, k2⟩ := key
    simp only at k1 k2; subst k1
    exact ⟨rfl, k2⟩
  | notAllowed =>
    rw [hch] at key; simp only at key ⊢
    generalize trigger (sendNR m fuel) m _ _ = r at key
    obtain ⟨c1, r1⟩ := r
    obtain ⟨k1, k2⟩ := key
    simp only at k1 k2; subst k1
    by_cases ha : m.allow = true
    · simp only [ha, if_true]; exact ⟨trivial, k2⟩
    · simp only [ha, Bool.false_eq_true, if_false]; exact ⟨trivial, k2⟩
  | fire tr =>
    rw [hch] at key; simp only at key ⊢
    intro hact
    have k := key hact
    generalize trigger (sendNR m fuel) m _ _ = r at k
    obtain ⟨c1, r1⟩ := r
    obtain ⟨k1, k2⟩ := k
    simp only at k1 k2; subst k1
    exact ⟨rfl, k2⟩

end SMV

namespace SMV
/-! ### Non-vacuity: a concrete machine meeting the hypotheses, three candidates, the second fires -/
section Example
/-- state 0 --ev 5--> {1 (guard cb 1), 2 (guard cb 2), 0 (no guard)}; guard 1 is falsy, guard 2 truthy -/
def exTrs : List Transn :=
  [ { source := 0, target := 1, events := [5], conds := [(1, true)] },
    { source := 0, target := 2, events := [5, 6], conds := [(2, true)], validators := [3] },
    { source := 0, target := 0, events := [5] } ]
def exAct : CbId → Act := fun cb => { ret := if cb == 1 then 0 else 1 }
def exM : Machine :=
  { states := [{ value := 10, initial := true, trans := exTrs }, { value := 11 }, { value := 12 }],
    behav := fun cb _ _ => exAct cb, truthy := fun v => v != 0 }

example : BehT exM (fun _ => exAct) := fun _ _ _ _ _ => rfl
example : ∀ cb, (exAct cb).sends = [] := fun _ => rfl
example : (match choose exM exAct 5 (out exM 0) with | .fire tr => tr.target | _ => 99) = 2 := by decide
example : (match choose exM exAct 6 (out exM 0) with | .fire tr => tr.target | _ => 99) = 2 := by decide
example : (match choose exM exAct 7 (out exM 0) with | .notAllowed => 1 | _ => 0) = 1 := by decide
/-- the engine on that machine: event 5 from state value 10 ends in state value 12 (both processing modes) -/
example : (send exM { rtc := true } 5 5 { cur := some 10 }).1.cur = some 12 := by decide
example : (send exM { rtc := false } 5 5 { cur := some 10 }).1.cur = some 12 := by decide
end Example
end SMV
