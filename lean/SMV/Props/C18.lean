import SMV.Lemmas.Diagram
/-!
# C18 — The generated diagram is a faithful picture of the machine

Property text: *the DOT graph generated for any machine has exactly one node per state plus the
initial pseudo-node pointing at the initial state, exactly one edge per external transition from its
source to its target labelled with its events and guards, internal transitions listed inside their
state rather than as edges, final states drawn with a double border, and for an instance exactly
the current state highlighted.*

`getGraph m sub` (`SMV.Model.Diagram`) is the model of `DotGraphMachine(sub).get_graph()`; `m` is
the machine definition (any number of states, any number of transitions per state), `sub` is the
class (`.cls`) or an instance whose model stores the value `v` (`.inst v`).

Reading guide — property clause ↦ theorem:

* one node per state + the pseudo-node, no duplicates ↦ `C18_node_ids`, `C18_node_ids_nodup`,
  `C18_one_node_per_state`; the hypothesis "no state is called `i`" is necessary:
  `C18_state_named_i_clashes` (this is a defect of the code, reported as a known finding)
* the pseudo-node points at the initial state, once ↦ `C18_initial_edge`
* one edge per external transition, source → target, labelled with events and guards
  ↦ `C18_edges_external` (the list of remaining edges *is* the list of external transitions, hence a
  bijection that preserves multiplicities and order), `C18_edge_sound`, `C18_edge_complete`
* internal transitions are listed inside their state and are no edge ↦ `C18_state_label`,
  `C18_internal_no_edge`
* double border iff final ↦ `C18_peripheries`
* instance: exactly the current state is highlighted; class: nothing ↦ `C18_highlight_instance`,
  `C18_highlight_current_state`, `C18_highlight_class`
* the graph exists for every well-formed machine ↦ `C18_total`
* (stretch) the text of an edge label ↦ `C18_edge_label_text`

All proofs are by structural induction over the state list / transition lists (in
`SMV.Lemmas.Diagram`) — no bound on the size of the machine.
-/

namespace SMV.Diagram

/-! ## Vocabulary of the statement (written from the property text, not from the code) -/

/-- every (source state, transition) pair of the machine whose transition is external, i.e. not
internal, in declaration order -/
def externals (m : Machine) : List (StateDef × TransDef) :=
  m.states.flatMap fun s => (s.trans.filter fun t => !t.internal).map fun t => (s, t)

/-- the picture of an external transition: source → target, labelled with its events and guards -/
def edgeOfTrans (p : StateDef × TransDef) : Edge :=
  { src := p.1.id, dst := p.2.target, label := { events := p.2.events, guards := p.2.guards } }

/-- state ids are pairwise distinct (always true for a Python class body) and none of them is the
name of the pseudo-node -/
def DistinctIds (m : Machine) : Prop :=
  (m.states.map (·.id)).Nodup ∧ initId ∉ m.states.map (·.id)

/-- a state without its internal transitions -/
def stripInternal (s : StateDef) : StateDef :=
  { s with trans := s.trans.filter fun t => !t.internal }

/-- the machine without its internal transitions -/
def dropInternal (m : Machine) : Machine := ⟨m.states.map stripInternal⟩

/-! ## Nodes -/

/-- **Node ids, in order: the pseudo-node, then the states in declaration order.** -/
theorem C18_node_ids {m : Machine} {sub : Subject} {g : Graph} (h : getGraph m sub = .ok g) :
    g.nodes.map (·.id) = initId :: m.states.map (·.id) := by
  obtain ⟨ini, _, rfl, _⟩ := getGraph_ok h
  rw [build_nodes]
  simp [initNode, stateNode, Function.comp_def]

/-- **No two nodes share an id** (when state ids are distinct and differ from `i`). -/
theorem C18_node_ids_nodup {m : Machine} {sub : Subject} {g : Graph} (h : getGraph m sub = .ok g)
    (hd : DistinctIds m) : (g.nodes.map (·.id)).Nodup := by
  rw [C18_node_ids h, List.nodup_cons]
  exact ⟨hd.2, hd.1⟩

/-- the node with the id of state `s` is the node built from `s` -/
theorem node_of_state {m : Machine} {sub : Subject} {g : Graph} (h : getGraph m sub = .ok g)
    (hd : DistinctIds m) {s : StateDef} (hs : s ∈ m.states) {n : Node} (hn : n ∈ g.nodes)
    (hid : n.id = s.id) : n = stateNode (currentOf m sub) s := by
  obtain ⟨ini, _, rfl, _⟩ := getGraph_ok h
  rw [build_nodes] at hn
  rcases List.mem_cons.mp hn with rfl | hn
  · exfalso
    apply hd.2
    rw [List.mem_map]
    exact ⟨s, hs, by simpa [initNode] using hid.symm⟩
  · rw [List.mem_map] at hn
    obtain ⟨s', hs', rfl⟩ := hn
    have : s' = s := eq_of_id_eq hd.1 hs' hs (by simpa [stateNode] using hid)
    rw [this]

/-- **Exactly one node per state, exactly one pseudo-node.** -/
theorem C18_one_node_per_state {m : Machine} {sub : Subject} {g : Graph}
    (h : getGraph m sub = .ok g) (hd : DistinctIds m) :
    (∀ s ∈ m.states, (g.nodes.map (·.id)).count s.id = 1) ∧
    (g.nodes.map (·.id)).count initId = 1 ∧
    g.nodes.length = m.states.length + 1 := by
  have hnd := C18_node_ids_nodup h hd
  have hids := C18_node_ids h
  refine ⟨?_, ?_, ?_⟩
  · intro s hs
    rw [hnd.count, if_pos]
    rw [hids]
    exact List.mem_cons_of_mem _ (List.mem_map.mpr ⟨s, hs, rfl⟩)
  · rw [hnd.count, if_pos]
    rw [hids]
    exact List.mem_cons_self
  · have := congrArg List.length hids
    simpa using this

/-- **The hypothesis "no state is called `i`" cannot be dropped**: for the two-state machine
`a = State(initial=True); i = State(final=True); go = a.to(i)` the graph has two nodes named `i`
(DOT merges them into one node). -/
theorem C18_state_named_i_clashes :
    ∃ (m : Machine) (g : Graph), (m.states.map (·.id)).Nodup ∧ getGraph m .cls = .ok g ∧
      ¬ (g.nodes.map (·.id)).Nodup ∧ (g.nodes.map (·.id)).count initId = 2 := by
  refine ⟨⟨[{ id := "a", name := "A", value := "a", initial := true,
              trans := [{ target := "i", events := ["go"] }] },
            { id := "i", name := "I", value := "i", final := true }]⟩, _, ?_, rfl, ?_, ?_⟩ <;> decide

/-! ## Edges -/

/-- **Exactly one initial edge: pseudo-node → the initial state, first in the graph, unlabelled.**
`s0` is the initial state of the machine (`huniq`: the only state flagged initial). -/
theorem C18_initial_edge {m : Machine} {sub : Subject} {g : Graph} (h : getGraph m sub = .ok g)
    (hi : initId ∉ m.states.map (·.id)) {s0 : StateDef} (hs0 : s0 ∈ m.states)
    (hini : s0.initial = true) (huniq : ∀ s ∈ m.states, s.initial = true → s = s0) :
    g.edges.head? = some ⟨initId, s0.id, ⟨[], []⟩⟩ ∧
    g.edges.filter (fun e => e.src = initId) = [⟨initId, s0.id, ⟨[], []⟩⟩] := by
  obtain ⟨ini, hfind, rfl, _⟩ := getGraph_ok h
  obtain ⟨hmem, hflag⟩ := initialState_some hfind
  have : ini = s0 := huniq ini hmem hflag
  subst this
  rw [build_edges]
  refine ⟨rfl, ?_⟩
  rw [List.filter_cons_of_pos (by simp [initEdge])]
  have : (m.states.flatMap stateEdges).filter (fun e => e.src = initId) = [] := by
    rw [List.filter_eq_nil_iff]
    intro e he
    simp only [List.mem_flatMap, stateEdges, List.mem_map] at he
    obtain ⟨s, hs, t, _, rfl⟩ := he
    intro hc
    have hc' : s.id = initId := of_decide_eq_true hc
    exact hi (List.mem_map.mpr ⟨s, hs, hc'⟩)
  rw [this]
  rfl

theorem flatMap_stateEdges (ss : List StateDef) :
    ss.flatMap stateEdges =
      (ss.flatMap fun s => (s.trans.filter fun t => !t.internal).map fun t => (s, t)).map edgeOfTrans := by
  induction ss with
  | nil => rfl
  | cons s ss ih =>
    simp only [List.flatMap_cons, List.map_append, ih, stateEdges, List.map_map]
    rfl

/-- **After the initial edge, the edge list is the list of external transitions**, each drawn from
its source state to its target state and labelled with its events and guards; same order, same
multiplicities (several transitions between one pair of states give several edges). -/
theorem C18_edges_external {m : Machine} {sub : Subject} {g : Graph} (h : getGraph m sub = .ok g) :
    g.edges.tail = (externals m).map edgeOfTrans ∧
    g.edges.length = (externals m).length + 1 := by
  obtain ⟨ini, _, rfl, _⟩ := getGraph_ok h
  rw [build_edges, flatMap_stateEdges]
  exact ⟨rfl, by simp [externals]⟩

/-- consequence, as a multiset statement: every possible edge occurs among the non-initial edges
exactly as often as external transitions have that picture -/
theorem C18_edges_count {m : Machine} {sub : Subject} {g : Graph} (h : getGraph m sub = .ok g)
    (e : Edge) : g.edges.tail.count e = ((externals m).map edgeOfTrans).count e := by
  rw [(C18_edges_external h).1]

/-- **Every edge is the initial edge or the picture of an external transition of its source.** -/
theorem C18_edge_sound {m : Machine} {sub : Subject} {g : Graph} (h : getGraph m sub = .ok g) :
    ∀ e ∈ g.edges, (e.src = initId ∧ e.label = ⟨[], []⟩) ∨
      ∃ s ∈ m.states, ∃ t ∈ s.trans, t.internal = false ∧
        e.src = s.id ∧ e.dst = t.target ∧ e.label.events = t.events ∧ e.label.guards = t.guards := by
  obtain ⟨ini, _, rfl, _⟩ := getGraph_ok h
  intro e he
  rw [build_edges] at he
  rcases List.mem_cons.mp he with rfl | he
  · exact Or.inl ⟨rfl, rfl⟩
  · simp only [List.mem_flatMap, stateEdges, List.mem_map, List.mem_filter] at he
    obtain ⟨s, hs, t, ⟨ht, hint⟩, rfl⟩ := he
    exact Or.inr ⟨s, hs, t, ht, by simpa using hint, rfl, rfl, rfl, rfl⟩

/-- **Every external transition is drawn.** -/
theorem C18_edge_complete {m : Machine} {sub : Subject} {g : Graph} (h : getGraph m sub = .ok g)
    {s : StateDef} (hs : s ∈ m.states) {t : TransDef} (ht : t ∈ s.trans) (hint : t.internal = false) :
    (⟨s.id, t.target, ⟨t.events, t.guards⟩⟩ : Edge) ∈ g.edges := by
  obtain ⟨ini, _, rfl, _⟩ := getGraph_ok h
  rw [build_edges]
  apply List.mem_cons_of_mem
  simp only [List.mem_flatMap, stateEdges, List.mem_map, List.mem_filter]
  exact ⟨s, hs, t, ⟨ht, by simp [hint]⟩, rfl⟩

/-! ## Internal transitions, labels -/

/-- **The label of a state's node consists of the state's name, its entry and exit actions and
exactly its internal transitions** (events and actions of each, in order). -/
theorem C18_state_label {m : Machine} {sub : Subject} {g : Graph} (h : getGraph m sub = .ok g)
    (hd : DistinctIds m) {s : StateDef} (hs : s ∈ m.states) {n : Node} (hn : n ∈ g.nodes)
    (hid : n.id = s.id) :
    ∃ l, n.label = some l ∧ l.name = s.name ∧ l.entry = s.enter ∧ l.exit = s.exit ∧
      l.internals = (s.trans.filter (·.internal)).map (fun t => (t.events, t.on)) ∧
      (∀ t ∈ s.trans, t.internal = true → (t.events, t.on) ∈ l.internals) := by
  rw [node_of_state h hd hs hn hid]
  refine ⟨stateLabel s, rfl, rfl, rfl, rfl, rfl, ?_⟩
  intro t ht hint
  simp only [stateLabel, List.mem_map, List.mem_filter]
  exact ⟨t, ⟨ht, hint⟩, rfl⟩

theorem initialState_dropInternal (m : Machine) :
    initialState (dropInternal m) = (initialState m).map stripInternal := by
  simp only [initialState, dropInternal, List.find?_map]
  rfl

theorem lookupValue_map_isSome (f : StateDef → StateDef) (hf : ∀ s, (f s).value = s.value)
    (ss : List StateDef) (v : String) :
    lookupValue (ss.map f) v = (lookupValue ss v).map f := by
  induction ss with
  | nil => rfl
  | cons s ss ih =>
    simp only [List.map_cons, lookupValue, ih, hf]
    cases lookupValue ss v with
    | some r => rfl
    | none =>
      simp only [Option.map_none]
      split <;> rfl

theorem flatMap_stateEdges_dropInternal (ss : List StateDef) :
    (ss.map stripInternal).flatMap stateEdges = ss.flatMap stateEdges := by
  induction ss with
  | nil => rfl
  | cons s ss ih =>
    simp only [List.map_cons, List.flatMap_cons, ih]
    congr 1
    simp [stateEdges, stripInternal, List.filter_filter, transEdge]

/-- **Internal transitions are no edges**: deleting every internal transition from the machine
leaves the edge list unchanged. -/
theorem C18_internal_no_edge {m : Machine} {sub : Subject} {g : Graph} (h : getGraph m sub = .ok g) :
    ∃ g', getGraph (dropInternal m) sub = .ok g' ∧ g'.edges = g.edges := by
  obtain ⟨ini, hini, rfl, hcur⟩ := getGraph_ok h
  unfold getGraph
  rw [initialState_dropInternal, hini]
  cases sub with
  | cls =>
    refine ⟨_, rfl, ?_⟩
    rw [build_edges, build_edges]
    simp only [dropInternal, flatMap_stateEdges_dropInternal]
    rfl
  | inst v =>
    obtain ⟨c, hc⟩ := hcur v rfl
    simp only [Option.map_some, dropInternal]
    rw [lookupValue_map_isSome stripInternal (fun _ => rfl), hc]
    refine ⟨_, rfl, ?_⟩
    rw [build_edges, build_edges]
    simp only [flatMap_stateEdges_dropInternal]
    rfl
  | unset =>
    refine ⟨_, rfl, ?_⟩
    rw [build_edges, build_edges]
    simp only [dropInternal, flatMap_stateEdges_dropInternal]
    rfl

/-! ## Final states -/

/-- **Double border iff final** (single border otherwise). -/
theorem C18_peripheries {m : Machine} {sub : Subject} {g : Graph} (h : getGraph m sub = .ok g)
    (hd : DistinctIds m) {s : StateDef} (hs : s ∈ m.states) {n : Node} (hn : n ∈ g.nodes)
    (hid : n.id = s.id) :
    (n.peripheries = some 2 ↔ s.final = true) ∧ (n.peripheries = some 1 ↔ s.final = false) := by
  rw [node_of_state h hd hs hn hid]
  cases hf : s.final <;> simp [stateNode, hf]

/-! ## Highlighting -/

theorem pseudo_not_highlighted : initNode.highlighted = false := rfl

/-- **Class: no node is highlighted.** -/
theorem C18_highlight_class {m : Machine} {g : Graph} (h : getGraph m .cls = .ok g) :
    ∀ n ∈ g.nodes, n.highlighted = false := by
  obtain ⟨ini, _, rfl, _⟩ := getGraph_ok h
  intro n hn
  rw [build_nodes] at hn
  rcases List.mem_cons.mp hn with rfl | hn
  · rfl
  · rw [List.mem_map] at hn
    obtain ⟨s, _, rfl⟩ := hn
    rfl

/-- **Instance whose model holds no state yet (an async machine before its activation): drawn like the class — every
state, no node highlighted** (D38 repaired). -/
theorem C18_highlight_unset {m : Machine} {g : Graph} (h : getGraph m .unset = .ok g) :
    getGraph m .cls = .ok g ∧ ∀ n ∈ g.nodes, n.highlighted = false := by
  have hc : getGraph m .cls = .ok g := by
    unfold getGraph at h ⊢
    split at h
    · cases h
    · exact h
  refine ⟨hc, ?_⟩
  obtain ⟨ini, _, rfl, _⟩ := getGraph_ok hc
  intro n hn
  rw [build_nodes] at hn
  rcases List.mem_cons.mp hn with rfl | hn
  · rfl
  · rw [List.mem_map] at hn
    obtain ⟨s, _, rfl⟩ := hn
    rfl

/-- **Instance: exactly one node is highlighted, the node of a state `c` whose value is the value
the model stores.** -/
theorem C18_highlight_instance {m : Machine} {v : String} {g : Graph}
    (h : getGraph m (.inst v) = .ok g) (hd : DistinctIds m) :
    ∃ c ∈ m.states, c.value = v ∧ ∀ n ∈ g.nodes, (n.highlighted = true ↔ n.id = c.id) := by
  obtain ⟨ini, _, rfl, hcur⟩ := getGraph_ok h
  obtain ⟨c, hc⟩ := hcur v rfl
  obtain ⟨hcm, hcv⟩ := lookupValue_some hc
  refine ⟨c, hcm, hcv, ?_⟩
  intro n hn
  rw [build_nodes] at hn
  rcases List.mem_cons.mp hn with rfl | hn
  · simp only [initNode, Bool.false_eq_true, false_iff]
    intro hc'
    exact hd.2 (List.mem_map.mpr ⟨c, hcm, hc'.symm⟩)
  · rw [List.mem_map] at hn
    obtain ⟨s, hs, rfl⟩ := hn
    simp only [stateNode, currentOf, hc, isCurrent, decide_eq_true_eq]
    constructor
    · exact fun h => h.2
    · intro hid
      have : s = c := eq_of_id_eq hd.1 hs hcm hid
      subst this
      exact ⟨rfl, rfl⟩

/-- **Instance whose current state is `s`: exactly the node of `s` is highlighted** (state values
are pairwise distinct, so "the state whose value the model stores" is `s`). -/
theorem C18_highlight_current_state {m : Machine} {s : StateDef} {g : Graph}
    (hs : s ∈ m.states) (h : getGraph m (.inst s.value) = .ok g) (hd : DistinctIds m)
    (hv : (m.states.map (·.value)).Nodup) :
    ∀ n ∈ g.nodes, (n.highlighted = true ↔ n.id = s.id) := by
  obtain ⟨c, hcm, hcv, hall⟩ := C18_highlight_instance h hd
  have : c = s := eq_of_key_eq (·.value) hv hcm hs hcv
  subst this
  exact hall

/-! ## The graph exists -/

/-- **`get_graph` succeeds** for the class of every machine that has an initial state, and for every
instance whose model stores the value of one of the states. -/
theorem C18_total {m : Machine} (sub : Subject) (hini : ∃ s ∈ m.states, s.initial = true)
    (hsub : sub = .cls ∨ ∃ s ∈ m.states, sub = .inst s.value) : ∃ g, getGraph m sub = .ok g := by
  obtain ⟨s0, hs0, hflag⟩ := hini
  obtain ⟨ini, hfind⟩ := initialState_isSome_of_mem hs0 hflag
  unfold getGraph
  rw [hfind]
  cases hsub with
  | inl h => subst h; exact ⟨_, rfl⟩
  | inr h =>
    obtain ⟨s, hs, rfl⟩ := h
    obtain ⟨c, hc⟩ := lookupValue_isSome_of_mem hs rfl
    simp only [hc]
    exact ⟨_, rfl⟩

/-! ## The text of an edge label (stretch) -/

/-- **An edge label is the event names separated by blanks; when the transition has guards a second
line `[g1, !g2, …]` follows, an `unless` guard written with a leading `!`.** -/
theorem C18_edge_label_text (l : EdgeLabel) :
    (l.guards = [] → renderEdgeLabel l = " ".intercalate l.events) ∧
    (", ".intercalate (l.guards.map renderGuard) ≠ "" →
      renderEdgeLabel l =
        " ".intercalate l.events ++ "\n[" ++ ", ".intercalate (l.guards.map renderGuard) ++ "]") ∧
    (∀ n, renderGuard ⟨n, true⟩ = n ∧ renderGuard ⟨n, false⟩ = "!" ++ n) := by
  refine ⟨?_, ?_, fun n => ⟨rfl, rfl⟩⟩
  · intro h
    simp [renderEdgeLabel, joinWith, h]
  · intro h
    simp [renderEdgeLabel, joinWith, h]

/-! ## Non-vacuity: a concrete machine with a final state, an internal transition, guards, a
multi-event transition and two transitions between one pair of states -/

def exMachine : Machine :=
  ⟨[{ id := "s0", name := "S0", value := "'s0'", initial := true, enter := ["a1"],
      trans := [{ target := "s1", events := ["go"], guards := [⟨"g1", true⟩, ⟨"g2", false⟩] },
                { target := "s0", internal := true, events := ["tick"], on := ["o1"] },
                { target := "s1", events := ["go", "other"] }] },
    { id := "s1", name := "Nice name", value := "3",
      trans := [{ target := "s2", events := ["stop"] }, { target := "s1", events := ["loop"] }] },
    { id := "s2", name := "S2", value := "'s2'", final := true }]⟩

example : DistinctIds exMachine := ⟨by decide, by decide⟩
example : (exMachine.states.map (·.value)).Nodup := by decide
example : ∃ g, getGraph exMachine (.inst "3") = .ok g ∧ g.nodes.length = 4 ∧ g.edges.length = 5 ∧
    (g.nodes.filter (·.highlighted)).map (·.id) = ["s1"] ∧
    (g.nodes.filter (·.peripheries = some 2)).map (·.id) = ["s2"] := ⟨_, rfl, by decide⟩
example : (externals exMachine).length = 4 := by decide
example : ∃ g, getGraph exMachine .cls = .ok g ∧
    renderEdgeLabel (g.edges.getD 1 default).label = "go\n[g1, !g2]" ∧
    renderStateLabel ((g.nodes.getD 1 default).label.getD default) = "S0\nentry / a1\ntick / o1" :=
  ⟨_, rfl, by decide⟩

end SMV.Diagram
