import SMV.Props.C11
import SMV.Props.C16
/-!
# C17 — deepcopy / pickle clones are equivalent and independent

`clone` = `__getstate__`/`__setstate__`: a re-construction over the copied model field with a
fresh engine. `C17_clone_equiv`: cloning a machine at rest (after any history) gives back exactly
its configuration, hence (`C17_clone_then_ops`) the clone responds to every subsequent operation
sequence exactly as the original would. `C17_clone_unactivated`: a not-yet-activated async machine
clones into a machine with one `__initial__` trigger queued, so it activates on its first event
(D14 repaired). Independence: original and clone are two instances of a `World`; `C16_frame`
applies (in the model deep copies share nothing by construction — that `copy`/`pickle` really copy
the model and listeners is an assumption checked by the correspondence with identity tests).
-/
namespace SMV

/-- **C17 (equivalence).** A clone of a machine at rest that holds a state is configuration-equal
to the original, in every mode. -/
theorem C17_clone_equiv (m : Machine) (o : Opts) (fuel : Nat) (c : Cfg) (v : Val)
    (hcur : c.cur = some v) (h : Quiet c) (hvalid : ¬(o.kind = .async ∧ o.rtc = false)) :
    clone m o fuel c = (c, .ok ()) := by
  unfold clone
  have hc : ({ c with queue := [], locked := false } : Cfg) = c := by
    obtain ⟨hq, hl⟩ := h
    cases c; simp_all
  rw [hc]
  exact C11_resume m o fuel c v hcur h hvalid

/-- … so original and clone respond identically to every subsequent operation sequence -/
theorem C17_clone_then_ops (m : Machine) (o : Opts) (fuel : Nat) (c : Cfg) (v : Val)
    (hcur : c.cur = some v) (h : Quiet c) (hvalid : ¬(o.kind = .async ∧ o.rtc = false)) (ops : List Op) :
    runOps m o fuel ops (clone m o fuel c).1 = runOps m o fuel ops c := by
  rw [C17_clone_equiv m o fuel c v hcur h hvalid]

/-- a not yet activated async machine: the clone has exactly one `__initial__` trigger queued -/
theorem C17_clone_unactivated (m : Machine) (fuel : Nat) (c : Cfg) (hcur : c.cur = none) :
    (clone m { rtc := true, kind := .async } fuel c).1.queue = [{ tid := c.nextTid, event := initialEv }] ∧
    (clone m { rtc := true, kind := .async } fuel c).1.cur = none := by
  unfold clone
  rw [C11_async_defers]
  rw [C11_start_fresh _ (by simpa using hcur)]
  exact ⟨rfl, hcur⟩

/-- **C17 (independence).** Original and clone are two instances; driving one never affects the other. -/
theorem C17_independent (ms : List Machine) (o : Opts) (fuel : Nat) (ops : List (Nat × Op)) (w : World)
    (i : Nat) (m : Machine) (c : Cfg) (hm : ms[i]? = some m) (hc : w[i]? = some c) :
    (runWorld ms o fuel ops w)[i]? = some (runOps m o fuel (own i ops) c) :=
  C16_frame ms o fuel ops w i m c hm hc

end SMV
