import SMV.Props.C11
import SMV.Props.C16
import SMV.Props.C12
import SMV.Model.Clone
import SMV.Model.Expr
/-!
# C17 — deepcopy / pickle clones are equivalent and independent

`clone` = `__getstate__`/`__setstate__`: a re-construction over the copied model field with a
fresh engine. `C17_clone_equiv`: cloning a machine at rest (after any history) gives back exactly
its configuration, hence (`C17_clone_then_ops`) the clone responds to every subsequent operation
sequence exactly as the original would. `C17_clone_unactivated`: a not-yet-activated async machine
clones into a machine with one `__initial__` trigger queued, so it activates on its first event
(D14 repaired). Independence: original and clone are two instances of a `World`; `C16_frame`
applies (in the model deep copies share nothing by construction — that `copy`/`pickle` really copy
the model and listeners is an assumption checked by the correspondence with identity tests).
-/
namespace SMV

/-- **C17 (equivalence).** A clone of a machine at rest that holds a state is configuration-equal
to the original, in every mode. -/
theorem C17_clone_equiv (m : Machine) (o : Opts) (fuel : Nat) (c : Cfg) (v : Val)
    (hcur : c.cur = some v) (h : Quiet c) (hvalid : ¬(o.kind = .async ∧ o.rtc = false)) :
    clone m o fuel c = (c, .ok ()) := by
  unfold clone
  have hc : ({ c with queue := [], locked := false } : Cfg) = c := by
    obtain ⟨hq, hl⟩ := h
    cases c; simp_all
  rw [hc]
  exact C11_resume m o fuel c v hcur h hvalid

/-- … so original and clone respond identically to every subsequent operation sequence -/
theorem C17_clone_then_ops (m : Machine) (o : Opts) (fuel : Nat) (c : Cfg) (v : Val)
    (hcur : c.cur = some v) (h : Quiet c) (hvalid : ¬(o.kind = .async ∧ o.rtc = false)) (ops : List Op) :
    runOps m o fuel ops (clone m o fuel c).1 = runOps m o fuel ops c := by
  rw [C17_clone_equiv m o fuel c v hcur h hvalid]

/-- a not yet activated async machine: the clone has exactly one `__initial__` trigger queued -/
theorem C17_clone_unactivated (m : Machine) (fuel : Nat) (c : Cfg) (hcur : c.cur = none) :
    (clone m { rtc := true, kind := .async } fuel c).1.queue = [{ tid := c.nextTid, event := initialEv, internal := true }] ∧
    (clone m { rtc := true, kind := .async } fuel c).1.cur = none := by
  unfold clone
  rw [C11_async_defers]
  rw [C11_start_fresh _ (by simpa using hcur)]
  exact ⟨rfl, hcur⟩

/-- **C17 (independence).** Original and clone are two instances; driving one never affects the other. -/
theorem C17_independent (ms : List Machine) (o : Opts) (fuel : Nat) (ops : List (Nat × Op)) (w : World)
    (i : Nat) (m : Machine) (c : Cfg) (hm : ms[i]? = some m) (hc : w[i]? = some c) :
    (runWorld ms o fuel ops w)[i]? = some (runOps m o fuel (own i ops) c) :=
  C16_frame ms o fuel ops w i m c hm hc

/-!
## The clone's callback registry (`SMV.Prov`, `Model/Clone.lean`)

`__setstate__` rebuilds the registry of the copy. Repaired (`setstate true`) it is the constructor's
`_register_callbacks` over `[machine, model, *listeners]`, so
* `C17_registry_ctor`: the clone of a machine constructed with listeners has exactly the
  constructor's registry and engine kind;
* `C17_registry_late`, `C17_registry_late_exists`, `C17_registry_late_async`: when some listeners
  were attached later with `add_listener`, the clone exists whenever the original did, holds the
  same set of resolved callbacks, and hence sees the same "has a coroutine callback" answer;
* `C17_registry_fixed_kind`: the clone's engine is the async one iff some callback of the *full*
  registry (listeners included) is a coroutine function.
As is (`setstate false`) the check and the engine choice happened before the listeners were back:
`C17_D25a_witness`, `C17_D25b_witness`.
-/
namespace Prov

theorem mem_addKey_mono (ex : List Item) (it x : Item) (h : x ∈ ex) : x ∈ addKey ex it := by
  unfold addKey
  split <;> simp [h]

theorem mem_resolveName_mono (ex : List Item) (n : Name) (ps : List Provider) (x : Item) (h : x ∈ ex) :
    x ∈ resolveName ex n ps := by
  induction ps generalizing ex with
  | nil => exact h
  | cons q ps ih =>
    unfold resolveName
    split
    · exact ih _ (mem_addKey_mono ex _ x h)
    · exact ih _ h

/-- attaching never removes an item -/
theorem mem_attach_mono (ex : List Item) (ps : List Provider) (ns : List Name) (x : Item) (h : x ∈ ex) :
    x ∈ attach ex ps ns := by
  induction ns generalizing ex with
  | nil => exact h
  | cons n ns ih => exact ih _ (mem_resolveName_mono ex n ps x h)

theorem hasKey_iff (ex : List Item) (n : Name) (p : ProvId) :
    hasKey ex n p = true ↔ ∃ x ∈ ex, x.name = n ∧ x.prov = p := by
  simp [hasKey, List.any_eq_true]

/-- distinct ids: a provider of the list is determined by its id -/
theorem provider_of_id (ps : List Provider) (hnd : (ps.map (·.id)).Nodup) (p q : Provider)
    (hp : p ∈ ps) (hq : q ∈ ps) (h : p.id = q.id) : p = q := by
  induction ps with
  | nil => cases hp
  | cons a ps ih =>
    simp only [List.map_cons, List.nodup_cons, List.mem_map, not_exists, not_and] at hnd
    rcases List.mem_cons.mp hp with rfl | hp' <;> rcases List.mem_cons.mp hq with rfl | hq'
    · rfl
    · exact absurd h.symm (hnd.1 q hq')
    · exact absurd h (hnd.1 p hp')
    · exact ih hnd.2 hp' hq'

/-- **Membership in an executor**, for providers with distinct ids none of which already has an
item in `ex`: the items afterwards are the old ones plus exactly one item (name, provider, the
callback that provider offers under that name) per listed name and offering provider. -/
theorem mem_attach_iff (ex : List Item) (ps : List Provider) (ns : List Name) (it : Item)
    (hnd : (ps.map (·.id)).Nodup) (hdisj : ∀ x ∈ ex, ∀ p ∈ ps, x.prov ≠ p.id) :
    it ∈ attach ex ps ns ↔
      it ∈ ex ∨ ∃ p ∈ ps, it.name ∈ ns ∧ it.prov = p.id ∧ offers p it.name = some it.cb := by
  constructor
  · exact C12_only_offered ex ps ns it
  · rintro (h | ⟨p, hp, hn, e1, e2⟩)
    · exact mem_attach_mono ex ps ns it h
    · have hk := attach_saturates ex ps ns it.name hn p hp it.cb e2
      obtain ⟨x, hx, hxn, hxp⟩ := (hasKey_iff _ _ _).mp hk
      rcases C12_only_offered ex ps ns x hx with h1 | ⟨q, hq, _, f1, f2⟩
      · exact absurd hxp (hdisj x h1 p hp)
      · have hqp : q = p := provider_of_id ps hnd q p hq hp (by rw [← f1, hxp])
        subst hqp
        rw [hxn, e2] at f2
        have hxit : x = it := by
          cases x; cases it
          simp_all
        exact hxit ▸ hx

/-- every item of a freshly built executor is what its (unique) provider offers under its name -/
theorem attach_nil_item_offered (ps : List Provider) (ns : List Name) (it : Item)
    (h : it ∈ attach [] ps ns) : ∃ p ∈ ps, it.name ∈ ns ∧ it.prov = p.id ∧ offers p it.name = some it.cb := by
  rcases C12_only_offered [] ps ns it h with h | h
  · cases h
  · exact h

/-- `check` is monotone in the item set -/
theorem checkNames_mono (ex ex' : List Item) (required : List Name) (hsub : ∀ it ∈ ex, it ∈ ex')
    (h : checkNames ex required = true) : checkNames ex' required = true := by
  simp only [checkNames, List.all_eq_true, List.any_eq_true] at *
  intro n hn
  obtain ⟨it, hit, e⟩ := h n hn
  exact ⟨it, hsub it hit, e⟩

/-- `has_async_callbacks` depends on the item set only -/
theorem hasAsync_congr (isCoro : CbId → Bool) (ex ex' : List Item) (h : ∀ it, it ∈ ex ↔ it ∈ ex') :
    hasAsync isCoro ex = hasAsync isCoro ex' := by
  rw [Bool.eq_iff_iff]
  simp only [hasAsync, List.any_eq_true]
  constructor
  · rintro ⟨it, hit, e⟩; exact ⟨it, (h it).mp hit, e⟩
  · rintro ⟨it, hit, e⟩; exact ⟨it, (h it).mpr hit, e⟩

theorem registerAll_ok (isCoro : CbId → Bool) (ps : List Provider) (names required : List Name) (r : Reg)
    (h : registerAll isCoro ps names required = .ok r) :
    r.items = attach [] ps names ∧ checkNames (attach [] ps names) required = true ∧
    r.kind = (if hasAsync isCoro (attach [] ps names) then .async else .sync) := by
  unfold registerAll at h
  simp only at h
  split at h
  · rename_i hc
    cases h
    exact ⟨rfl, hc, rfl⟩
  · cases h

/-- the item sets of "constructed with `mm ++ ctor`, later `add_listener(*late)`" and
"registered in one pass over `mm ++ ctor ++ late`" coincide -/
theorem late_items_iff (mm ctor late : List Provider) (names : List Name)
    (hnd : ((mm ++ ctor ++ late).map (·.id)).Nodup) (it : Item) :
    it ∈ attach [] (mm ++ (ctor ++ late)) names ↔
      it ∈ attach (attach [] (mm ++ ctor) names) late names := by
  rw [← List.append_assoc]
  have hnd' := hnd
  rw [List.map_append, List.nodup_append] at hnd'
  obtain ⟨hnd1, hnd2, hcross⟩ := hnd'
  have hdisj : ∀ x ∈ attach [] (mm ++ ctor) names, ∀ p ∈ late, x.prov ≠ p.id := by
    intro x hx p hp e
    obtain ⟨q, hq, _, f1, _⟩ := attach_nil_item_offered _ _ _ hx
    exact hcross q.id (List.mem_map.mpr ⟨q, hq, rfl⟩) p.id (List.mem_map.mpr ⟨p, hp, rfl⟩) (by rw [← f1, e])
  rw [mem_attach_iff [] _ names it hnd (by intro x hx; cases hx),
    mem_attach_iff _ late names it hnd2 hdisj,
    mem_attach_iff [] _ names it hnd1 (by intro x hx; cases hx)]
  simp only [List.not_mem_nil, false_or]
  constructor
  · rintro ⟨p, hp, rest⟩
    rcases List.mem_append.mp hp with hp | hp
    · exact Or.inl ⟨p, hp, rest⟩
    · exact Or.inr ⟨p, hp, rest⟩
  · rintro (⟨p, hp, rest⟩ | ⟨p, hp, rest⟩)
    · exact ⟨p, List.mem_append.mpr (Or.inl hp), rest⟩
    · exact ⟨p, List.mem_append.mpr (Or.inr hp), rest⟩

/-- **C17 (registry, constructor listeners).** The repaired `__setstate__` of a machine that was
constructed with listeners `ls` yields exactly the constructor's registry and engine kind (or
exactly its `InvalidDefinition`). -/
theorem C17_registry_ctor (isCoro : CbId → Bool) (mm ls : List Provider) (names required : List Name) :
    setstate true isCoro mm ls names required = registerAll isCoro (mm ++ ls) names required := rfl

/-- **C17 (registry, late listeners).** Original: constructed over `mm ++ ctor`
(`[machine, model, *ctor]`), later extended by `add_listener(*late)`. Its repaired clone is built
in one pass over `mm ++ ctor ++ late`. Provided the providers are distinct objects (distinct ids),
the clone holds exactly the same resolved callbacks as the original.

Only the *set* is preserved: with a late listener the order inside an executor may differ (the
original has the late listener's callbacks after those of every name, the clone has them after the
constructor providers' callbacks of the *same* name — see the `example` below); callbacks inside
one group are unordered by the documented contract. The engine `kind` is deliberately not compared:
the original keeps the engine chosen at construction (finding D12) while the clone chooses from the
full registry (`C17_registry_fixed_kind`). -/
theorem C17_registry_late (isCoro : CbId → Bool) (mm ctor late : List Provider) (names required : List Name)
    (hnd : ((mm ++ ctor ++ late).map (·.id)).Nodup) (r₀ r' : Reg)
    (h₀ : registerAll isCoro (mm ++ ctor) names required = .ok r₀)
    (h' : setstate true isCoro mm (ctor ++ late) names required = .ok r') :
    ∀ it, it ∈ r'.items ↔ it ∈ (addListeners r₀ late names).items := by
  intro it
  obtain ⟨e₀, _, _⟩ := registerAll_ok _ _ _ _ _ h₀
  obtain ⟨e', _, _⟩ := registerAll_ok _ _ _ _ _ h'
  simp only [addListeners, e₀, e']
  exact late_items_iff mm ctor late names hnd it

/-- … and the clone never fails when the original existed (`check` is monotone in the item set) -/
theorem C17_registry_late_exists (isCoro : CbId → Bool) (mm ctor late : List Provider)
    (names required : List Name) (hnd : ((mm ++ ctor ++ late).map (·.id)).Nodup) (r₀ : Reg)
    (h₀ : registerAll isCoro (mm ++ ctor) names required = .ok r₀) :
    ∃ r', setstate true isCoro mm (ctor ++ late) names required = .ok r' := by
  obtain ⟨_, hc, _⟩ := registerAll_ok _ _ _ _ _ h₀
  have hc' : checkNames (attach [] (mm ++ (ctor ++ late)) names) required = true :=
    checkNames_mono _ _ required
      (fun it hit => (late_items_iff mm ctor late names hnd it).mpr (mem_attach_mono _ late names it hit)) hc
  refine ⟨⟨attach [] (mm ++ (ctor ++ late)) names,
    if hasAsync isCoro (attach [] (mm ++ (ctor ++ late)) names) then .async else .sync⟩, ?_⟩
  simp [setstate, registerAll, hc']

/-- … and original and clone agree on whether a coroutine callback is registered -/
theorem C17_registry_late_async (isCoro : CbId → Bool) (mm ctor late : List Provider)
    (names required : List Name) (hnd : ((mm ++ ctor ++ late).map (·.id)).Nodup) (r₀ r' : Reg)
    (h₀ : registerAll isCoro (mm ++ ctor) names required = .ok r₀)
    (h' : setstate true isCoro mm (ctor ++ late) names required = .ok r') :
    hasAsync isCoro r'.items = hasAsync isCoro (addListeners r₀ late names).items :=
  hasAsync_congr isCoro _ _ (C17_registry_late isCoro mm ctor late names required hnd r₀ r' h₀ h')

/-- **C17 (engine of the clone; D25b repaired).** The repaired `__setstate__` chooses the async
engine iff some callback of the full registry — machine, model *and listeners* — is a coroutine. -/
theorem C17_registry_fixed_kind (isCoro : CbId → Bool) (mm ls : List Provider) (names required : List Name)
    (r : Reg) (h : setstate true isCoro mm ls names required = .ok r) :
    r.items = attach [] (mm ++ ls) names ∧
    (r.kind = .async ↔ ∃ it ∈ r.items, isCoro it.cb = true) := by
  obtain ⟨e, _, k⟩ := registerAll_ok _ _ _ _ _ h
  refine ⟨e, ?_⟩
  rw [k, e]
  have hiff : hasAsync isCoro (attach [] (mm ++ ls) names) = true ↔
      ∃ it ∈ attach [] (mm ++ ls) names, isCoro it.cb = true := by
    simp [hasAsync, List.any_eq_true]
  rw [← hiff]
  cases hasAsync isCoro (attach [] (mm ++ ls) names) <;> simp

/-- **D25a (as is).** Name 7 is required and offered only by the listener (provider 2): the
constructor accepts the machine, the unrepaired `__setstate__` raises `InvalidDefinition` (its check
runs on machine + model only); the repaired one rebuilds the registry. -/
theorem C17_D25a_witness :
    registerAll (fun _ => false) ([⟨0, []⟩, ⟨1, []⟩] ++ [⟨2, [(7, 70)]⟩]) [7] [7] = .ok ⟨[⟨7, 2, 70⟩], .sync⟩ ∧
    setstate false (fun _ => false) [⟨0, []⟩, ⟨1, []⟩] [⟨2, [(7, 70)]⟩] [7] [7] = .error .invalidDef ∧
    setstate true (fun _ => false) [⟨0, []⟩, ⟨1, []⟩] [⟨2, [(7, 70)]⟩] [7] [7] = .ok ⟨[⟨7, 2, 70⟩], .sync⟩ := by
  decide

/-- **D25b (as is).** Only the listener's callback (72) is a coroutine function: the constructor
and the repaired `__setstate__` choose the async engine, the unrepaired one the sync engine — with
the very same items. -/
theorem C17_D25b_witness :
    registerAll (· == 72) ([⟨0, [(7, 70)]⟩, ⟨1, []⟩] ++ [⟨2, [(7, 72)]⟩]) [7] [7]
      = .ok ⟨[⟨7, 0, 70⟩, ⟨7, 2, 72⟩], .async⟩ ∧
    setstate false (· == 72) [⟨0, [(7, 70)]⟩, ⟨1, []⟩] [⟨2, [(7, 72)]⟩] [7] [7]
      = .ok ⟨[⟨7, 0, 70⟩, ⟨7, 2, 72⟩], .sync⟩ ∧
    setstate true (· == 72) [⟨0, [(7, 70)]⟩, ⟨1, []⟩] [⟨2, [(7, 72)]⟩] [7] [7]
      = .ok ⟨[⟨7, 0, 70⟩, ⟨7, 2, 72⟩], .async⟩ := by
  decide

/-- non-vacuity of `C17_registry_late`: machine 0 offers name 5, model 1 and constructor listener 2
offer name 6, the late listener 3 offers name 5 too. Hypotheses hold; original and clone hold the
same four items, in a different order. -/
example :
    let mm : List Provider := [⟨0, [(5, 50)]⟩, ⟨1, [(6, 61)]⟩]
    let ctor : List Provider := [⟨2, [(6, 62)]⟩]
    let late : List Provider := [⟨3, [(5, 53)]⟩]
    ((mm ++ ctor ++ late).map (·.id)).Nodup ∧
    registerAll (fun _ => false) (mm ++ ctor) [5, 6] [5] = .ok ⟨[⟨5, 0, 50⟩, ⟨6, 1, 61⟩, ⟨6, 2, 62⟩], .sync⟩ ∧
    (addListeners ⟨[⟨5, 0, 50⟩, ⟨6, 1, 61⟩, ⟨6, 2, 62⟩], .sync⟩ late [5, 6]).items
      = [⟨5, 0, 50⟩, ⟨6, 1, 61⟩, ⟨6, 2, 62⟩, ⟨5, 3, 53⟩] ∧
    setstate true (fun _ => false) mm (ctor ++ late) [5, 6] [5]
      = .ok ⟨[⟨5, 0, 50⟩, ⟨5, 3, 53⟩, ⟨6, 1, 61⟩, ⟨6, 2, 62⟩], .sync⟩ := by
  decide

/-- **C17 (registry of a copy, as the code is now).** `__setstate__` replays the remembered attachment passes:
the copy's registry — items *in executor order* — and engine kind are exactly those of the original, for any
constructor listeners and any sequence of `add_listener` calls; it fails iff the original's construction
failed. (The copy even shares the original's D12 behaviour: a late coroutine listener does not change the
engine.) -/
theorem C17_registry_replay (isCoro : CbId → Bool) (mm ctor : List Provider) (lates : List (List Provider))
    (names required : List Name) :
    setstateReplay isCoro mm (ctor :: lates) names required = original isCoro mm ctor lates names required := rfl

/-- … in particular with late listeners: same items as "constructed, then extended", same engine kind -/
theorem C17_registry_replay_late (isCoro : CbId → Bool) (mm ctor late : List Provider) (names required : List Name)
    (r₀ : Reg) (h₀ : registerAll isCoro (mm ++ ctor) names required = .ok r₀) :
    setstateReplay isCoro mm [ctor, late] names required = .ok (addListeners r₀ late names) := by
  simp [setstateReplay, h₀]

end Prov

/-! ### D29: why the one-pass registration was not enough (guard expressions)

At the level of names the one-pass `__setstate__` resolves the same callbacks as the original
(`C17_registry_late`). A guard *expression*, however, is built once per attachment pass over the providers of
that pass: `passGuards` lists the guards an entry yields. -/
namespace GExpr

/-- the guards one `cond`/`unless` entry yields over a sequence of attachment passes: one per pass whose
providers offer every name of the expression -/
def passGuards (passes : List (Nat → List Nat)) (e : E) (expected : Bool) : List Guard :=
  passes.filterMap fun prov => if (unknowns prov e).isEmpty then some ⟨subst prov e, expected⟩ else none

/-- **D29 (witness).** `cond="!locked"`; slot 0 = the machine's `locked` (True), slot 1 = the late listener's
(False). The original (constructor pass, then the late pass) holds `not m.locked` and `not l.locked`: not
enabled. The one-pass copy held `not (m.locked and l.locked)`: enabled. The replayed copy is the original. -/
theorem C17_D29_witness :
    let e : E := .not (.name 0)
    let ρ : Env := fun s => .bool (s == 0)
    (allLib pySem ρ (passGuards [fun _ => [0], fun _ => [1]] e true)).val = some false ∧
    (allLib pySem ρ (passGuards [fun _ => [0, 1]] e true)).val = some true := by
  decide

/-- for a plain name (`cond="ready"`) the two registrations agree on every valuation of two providers -/
theorem passGuards_plain_name_agree (a b : V) :
    let ρ : Env := fun s => if s == 0 then a else b
    (allLib pySem ρ (passGuards [fun _ => [0], fun _ => [1]] (.name 0) true)).val =
    (allLib pySem ρ (passGuards [fun _ => [0, 1]] (.name 0) true)).val := by
  simp only [passGuards, List.filterMap, unknowns, names, List.filter, List.isEmpty, subst, provExpr, List.foldl]
  cases ha : truthy a <;> cases hb : truthy b <;> simp [allLib, evalLib, ha, hb]

end GExpr

end SMV
