import SMV.Lemmas.Protocol
import SMV.Lemmas.ProtocolFail
import SMV.Src.Tie
/-!
# C06 — Concurrent senders: mutual exclusion, exactly-once, nothing stranded

Property text (`properties.jsonl`, C06): *when several asyncio tasks or OS threads send events to one
machine concurrently, then under every interleaving the callback sequences of different events never
overlap, every accepted event is processed exactly once with each sender's events in the order it
sent them, and once all senders have returned no event is left unprocessed.*

All theorems below quantify over **every reachable state of the protocol** `Reach fixed atomic s`
(`SMV/Model/Protocol.lean`): any number of senders (`Nat`-indexed), any number of events, nested
sends from callbacks, and any interleaving of the atomic steps. Nothing is bounded.

| clause of the property                          | theorem                                              |
|-------------------------------------------------|------------------------------------------------------|
| callback sequences of different events never overlap | `C06_mutual_exclusion`, `C06_blocks_serial`, `C06_no_overlap` |
| every accepted event processed exactly once, in put order | `C06_exactly_once_in_order`, `C06_count`   |
| each sender's events in the order it sent them  | `C06_per_sender_order`                               |
| all senders returned ⇒ nothing left unprocessed | `C06_nothing_stranded` (`fixed ∨ atomic`)            |
| the un-repaired thread protocol violates the last clause | `C06_stranded_witness` (`fixed = false`, `atomic = false`) |
| senders never block each other                  | `C06_nonblocking`                                    |

Which instance is which code: threads + sync engine of `/repo` (with fix commit D15) is
`fixed = true, atomic = false`; asyncio tasks + async engine is `fixed = false, atomic = true`
(no `await` between the last `while self._external_queue` test and `release()`); the sync engine of
the pinned 2.5.0 release is `fixed = false, atomic = false`, for which `C06_stranded_witness` holds.

Partial for the runtime (see DESIGN §7 C06): one `Step` is one source line / one atomic C-level
operation (`Lock.acquire(blocking=False)`, `deque.append/popleft`, `Lock.release`); bytecode-level
preemption inside a line, GIL hand-off timing and the failure path (a raising callback clears the
queue) are not modelled.
-/
namespace SMV.Protocol

/-! ## (1) Mutual exclusion: callback sequences of different events never overlap -/

/-- At most one sender is between a successful acquire and its release; in particular two senders are
never both running callbacks, and whoever runs callbacks runs those of the single event in flight.
The lock is held exactly when somebody is in the critical section. -/
theorem C06_mutual_exclusion {fixed atomic : Bool} {s : S} (h : Reach fixed atomic s) :
    (∀ i j, inCS (s.pc i) → inCS (s.pc j) → i = j) ∧
    (∀ i j ei ej, s.pc i = .processing ei → s.pc j = .processing ej → i = j ∧ ei = ej) ∧
    (s.lock = true ↔ ∃ i, inCS (s.pc i)) := by
  obtain ⟨hme, hlk⟩ := mutex_inv h
  refine ⟨hme, ?_, hlk⟩
  intro i j ei ej hi hj
  have hij : i = j := hme i j (by rw [hi]; trivial) (by rw [hj]; trivial)
  subst hij
  rw [hi] at hj
  exact ⟨rfl, by injection hj⟩

/-- Trace form: the log of begin/end marks of callback sequences is the concatenation of one complete
`[begin e, end e]` block per processed event, in processing order, followed by the begin mark of the
event in flight, if any. -/
theorem C06_blocks_serial {fixed atomic : Bool} {s : S} (h : Reach fixed atomic s) :
    s.log = s.processed.flatMap (fun e => [Mark.beg e, Mark.fin e]) ++
      (match s.cur with | some e => [Mark.beg e] | none => []) := by
  have := serial_inv h
  unfold Serial at this
  rw [this]
  cases s.cur <;> rfl

theorem serial_next (ps : List Ev) (c : Option Ev) :
    ∀ (l1 l2 : List Mark) (e : Ev) (m : Mark),
      ps.flatMap block ++ openBlock c = l1 ++ Mark.beg e :: m :: l2 → m = Mark.fin e := by
  induction ps with
  | nil =>
    intro l1 l2 e m h
    have := congrArg List.length h
    cases c <;> simp [openBlock] at this <;> omega
  | cons p ps ih =>
    intro l1 l2 e m h
    simp only [List.flatMap_cons, block, List.cons_append, List.nil_append] at h
    match l1, h with
    | [], h =>
      simp only [List.nil_append, List.cons.injEq, Mark.beg.injEq] at h
      obtain ⟨rfl, rfl, _⟩ := h
      rfl
    | [x], h => simp at h
    | x :: y :: l1', h =>
      simp only [List.cons_append, List.cons.injEq] at h
      exact ih l1' l2 e m (by simpa [block] using h.2.2)

/-- Never-overlap form: whatever mark follows `begin e` in the log is `end e` — no mark of another
event ever falls between the begin and the end of an event's callback sequence. -/
theorem C06_no_overlap {fixed atomic : Bool} {s : S} (h : Reach fixed atomic s)
    (l1 l2 : List Mark) (e : Ev) (m : Mark) (hl : s.log = l1 ++ Mark.beg e :: m :: l2) :
    m = Mark.fin e := by
  have hs := serial_inv h
  unfold Serial at hs
  exact serial_next _ _ l1 l2 e m (hs ▸ hl)

/-! ## (2) Exactly once, in put order -/

/-- `processed ++ in-flight ++ queue = history`: every accepted event is, at any time, in exactly one
of "already processed", "being processed", "still queued", and the order is the put order. -/
theorem C06_exactly_once_in_order {fixed atomic : Bool} {s : S} (h : Reach fixed atomic s) :
    s.processed ++ s.cur.toList ++ s.queue = s.history ∧
    (∀ i e, s.pc i = .processing e → s.cur = some e) :=
  ⟨(fifo_inv h).2.2, (fifo_inv h).1⟩

/-- Counting form of exactly-once. -/
theorem C06_count {fixed atomic : Bool} {s : S} (h : Reach fixed atomic s) (e : Ev) :
    s.processed.count e + s.cur.toList.count e + s.queue.count e = s.history.count e := by
  rw [← (fifo_inv h).2.2]
  simp [List.count_append, Nat.add_assoc]

/-- Each sender's events are processed in the order that sender put them (restriction of the FIFO
equation to the events of one sender `i`); the processed events are a prefix of the history. -/
theorem C06_per_sender_order {fixed atomic : Bool} {s : S} (h : Reach fixed atomic s) (i : Nat) :
    (s.processed ++ s.cur.toList ++ s.queue).filter (fun e => e.sender == i)
      = s.history.filter (fun e => e.sender == i) ∧
    s.processed <+: s.history := by
  have := (fifo_inv h).2.2
  refine ⟨by rw [this], ?_⟩
  rw [← this, List.append_assoc]
  exact List.prefix_append _ _

/-! ## (3) Nothing stranded -/

/-- For the repaired thread protocol (`fixed`) and for the asyncio variant (`atomic`): once all senders
have returned, the queue is empty and every event ever put has been processed, in put order. -/
theorem C06_nothing_stranded {fixed atomic : Bool} {s : S} (hfa : fixed = true ∨ atomic = true)
    (h : Reach fixed atomic s) (hq : ∀ i, s.pc i = .idle) :
    s.queue = [] ∧ s.processed = s.history := by
  have hlive := live_inv hfa h
  unfold Live at hlive
  have hqe : s.queue = [] := by
    by_cases hne : s.queue = []
    · exact hne
    · obtain ⟨i, hi⟩ := hlive hne
      rw [hq i] at hi
      simp [willLook] at hi
  obtain ⟨_, h2, h3⟩ := fifo_inv h
  have hc : s.cur = none := h2 (fun i => by rw [hq i]; rfl)
  refine ⟨hqe, ?_⟩
  rw [← h3, hqe, hc]
  simp

/-- Senders never wait for each other: a sender that has not returned can always take a step. -/
theorem C06_nonblocking {fixed atomic : Bool} (s : S) (i : Nat) (hi : s.pc i ≠ .idle) :
    ∃ s', Step fixed atomic s s' := by
  cases hp : s.pc i with
  | idle => exact absurd hp hi
  | putDone =>
    cases hl : s.lock
    · exact ⟨_, .acqOk s i hp hl⟩
    · exact ⟨_, .acqFail s i hp hl⟩
  | check =>
    cases hq : s.queue with
    | nil =>
      cases atomic
      · exact ⟨_, .empty s i hp hq rfl⟩
      · exact ⟨_, .emptyRelease s i hp hq rfl⟩
    | cons e q => exact ⟨_, .pop s i e q hp hq⟩
  | processing e => exact ⟨_, .done s i e hp⟩
  | exiting => exact ⟨_, .release s i hp⟩
  | recheck =>
    cases hq : s.queue with
    | nil => exact ⟨_, .recheckEmpty s i hp hq⟩
    | cons e q => exact ⟨_, .recheckMore s i hp (by simp [hq])⟩

/-! ## The un-repaired thread protocol strands an event (defect D15) -/

/-- The D15 schedule: sender 0 drains its own event and sees the queue empty; before it releases,
sender 1 enqueues and fails to acquire; sender 0 releases and returns. -/
def strandingSchedule : List Label :=
  [.put 0 7, .acqOk 0, .pop 0, .done 0, .empty 0, .put 1 8, .acqFail 1, .release 0]

/-- As the sync engine was before fix D15 (`fixed = false`, `atomic = false`): a reachable state in
which every sender has returned and an event is still queued, never to be processed. -/
theorem C06_stranded_witness :
    ∃ s, Reach false false s ∧ (∀ i, s.pc i = .idle) ∧ s.queue = [⟨1, 8⟩] ∧ s.processed = [⟨0, 7⟩] := by
  refine ⟨(run? false false init strandingSchedule).getD init, reach_run .init (ls := strandingSchedule) rfl, ?_, rfl, rfl⟩
  intro i
  simp [strandingSchedule, run?, step?, set, init]
  grind

/-- The same schedule is not stranding in the repaired protocol: sender 0 re-checks, re-enters the loop
and processes the late event. -/
def repairedSchedule : List Label :=
  [.put 0 7, .acqOk 0, .pop 0, .done 0, .empty 0, .put 1 8, .acqFail 1, .release 0,
   .recheckMore 0, .acqOk 0, .pop 0, .nested 0 9, .done 0, .pop 0, .done 0, .empty 0, .release 0, .recheckEmpty 0]

/-- Non-vacuity of `C06_nothing_stranded`, `C06_exactly_once_in_order`, `C06_per_sender_order`: a
reachable quiescent state of the repaired thread protocol with two senders, a late enqueue in the
D15 window and a nested send; all three events processed in put order. -/
example : ∃ s, Reach true false s ∧ (∀ i, s.pc i = .idle) ∧
    s.processed = [⟨0, 7⟩, ⟨1, 8⟩, ⟨0, 9⟩] ∧ s.history = [⟨0, 7⟩, ⟨1, 8⟩, ⟨0, 9⟩] ∧ s.queue = [] := by
  refine ⟨(run? true false init repairedSchedule).getD init, reach_run .init (ls := repairedSchedule) rfl, ?_, rfl, rfl, rfl⟩
  intro i
  simp [repairedSchedule, run?, step?, set, init]
  grind

/-- Non-vacuity for the asyncio variant (`fixed = false`, `atomic = true`) and of
`C06_mutual_exclusion` / `C06_blocks_serial`: a reachable state where task 0 is running the callbacks
of its event while task 1 and task 2 have enqueued and task 1 already returned. -/
example : ∃ s, Reach false true s ∧ s.pc 0 = .processing ⟨0, 1⟩ ∧ s.pc 1 = .idle ∧ s.pc 2 = .putDone ∧
    s.lock = true ∧ s.queue = [⟨1, 2⟩, ⟨2, 3⟩] ∧ s.log = [.beg ⟨0, 1⟩] := by
  let ls : List Label := [.put 0 1, .acqOk 0, .pop 0, .put 1 2, .acqFail 1, .put 2 3]
  exact ⟨(run? false true init ls).getD init, reach_run .init (ls := ls) rfl, rfl, rfl, rfl, rfl, rfl, rfl⟩

/-- Non-vacuity of `C06_no_overlap`: a log with two complete blocks. -/
example : ∃ s, Reach true false s ∧ s.log = [.beg ⟨0, 1⟩, .fin ⟨0, 1⟩, .beg ⟨1, 2⟩, .fin ⟨1, 2⟩] := by
  let ls : List Label := [.put 0 1, .put 1 2, .acqOk 1, .acqFail 0, .pop 1, .done 1, .pop 1, .done 1]
  exact ⟨(run? true false init ls).getD init, reach_run .init (ls := ls) rfl, rfl⟩

end SMV.Protocol

/-! ## With failing callbacks and cancelled drainers (`SMV/Lemmas/ProtocolFail.lean`)

The property excludes the failure path from "exactly once" and "nothing stranded" (a failing callback clears the
queue). What it does not exclude — and what the cancelled-sender probe of the check looks at on the real engine —
is proved for the protocol extended by `fail` / `releaseF` steps, for every interleaving: -/
namespace SMV.Protocol

/-- **C06 (mutual exclusion, failures included).** -/
theorem C06_mutual_exclusion_failures {fixed atomic} {x : SF} (h : ReachF fixed atomic x) : Mutex x.s :=
  mutexF_inv h

/-- **C06 (no overlap, failures included).** At every moment the log holds as many begin marks as end marks, plus
one iff an event is in flight; logs grow by appending, so in every prefix of every reachable log a begin mark is
followed by its end mark before the next begin mark. -/
theorem C06_no_overlap_failures {fixed atomic} {x : SF} (h : ReachF fixed atomic x) : Balanced x.s :=
  balancedF_inv h

/-- **C06 (at most once, in order, failures included).** -/
theorem C06_at_most_once_failures {fixed atomic} {x : SF} (h : ReachF fixed atomic x) : AtMostOnce x.s :=
  atMostOnceF_inv h

/-! ## The two flags of the protocol, read off the source-derived scripts of `processing_loop`

`fixed` and `atomic` are not assumptions about the tree under test: they are computed from the scripts that
`harness/srcgen.py` derives from `engines/sync.py` / `engines/async_.py` on every run (DESIGN 11.6). -/

open SMV.Src in
/-- the loop re-checks the queue after releasing the lock (the repair of D15) -/
def fixedOf (script : List PStmt) : Bool := script.contains .recheck

open SMV.Src in
/-- the loop is a coroutine whose only suspension point is the awaited `_trigger`: between the last emptiness test
and the release nothing else can run (asyncio's cooperative scheduling) -/
def atomicOf (script : List PStmt) : Bool :=
  script.any fun st => match st with
    | .drain awaited _ => awaited
    | _ => false

theorem C06_script_flags :
    fixedOf Src.Expected.processSync = true ∧ atomicOf Src.Expected.processSync = false ∧
    fixedOf Src.Expected.processAsync = false ∧ atomicOf Src.Expected.processAsync = true := by decide

/-- **C06 (nothing stranded), for the loops as the source writes them**: the sync engine's loop among threads and the
async engine's loop among tasks — once all senders have returned the queue is empty and everything put has been
processed, in put order, under every interleaving. -/
theorem C06_nothing_stranded_scripts {s : S} (script : List Src.PStmt)
    (hs : script = Src.Expected.processSync ∨ script = Src.Expected.processAsync)
    (h : Reach (fixedOf script) (atomicOf script) s) (hq : ∀ i, s.pc i = .idle) :
    s.queue = [] ∧ s.processed = s.history := by
  refine C06_nothing_stranded ?_ h hq
  rcases hs with rfl | rfl
  · exact Or.inl C06_script_flags.1
  · exact Or.inr C06_script_flags.2.2.2

/-- without the re-check (`fixedOf = false`) and among threads (`atomicOf = false`) an event can be stranded: the
script of the loop as it was before D15 -/
theorem C06_stranded_without_recheck :
    fixedOf (Src.Expected.processSync.filter (· != .recheck)) = false ∧
    atomicOf (Src.Expected.processSync.filter (· != .recheck)) = false := by decide

end SMV.Protocol

