import SMV.Props.C01
import SMV.Lemmas.NoSends
/-!
# C14 — Event results come only from before/on return values, by the documented rule

`firedResult m act ev tr = unwrap (before results ++ on results)` over the *applicable* callbacks
(event-named ones filtered by the triggering event). `activate_fire`/`C01_trigger` (C01) already
show that an executed transition returns exactly `firedResult`; here: the unwrap rule, the
applicability filter, "no transition ⇒ None", and that the outermost `send` hands that value back.
-/
namespace SMV

theorem unwrap_nil : unwrap [] = .none := rfl
theorem unwrap_one (v : Val) : unwrap [v] = .one v := rfl
theorem unwrap_many (a b : Val) (l : List Val) : unwrap (a :: b :: l) = .many (a :: b :: l) := rfl

/-- the unwrap rule by count: `None`, the value itself, or the whole list -/
theorem unwrap_cases (l : List Val) :
    (l = [] ∧ unwrap l = .none) ∨ (∃ v, l = [v] ∧ unwrap l = .one v) ∨ (2 ≤ l.length ∧ unwrap l = .many l) := by
  match l with
  | [] => exact Or.inl ⟨rfl, rfl⟩
  | [v] => exact Or.inr (Or.inl ⟨v, rfl, rfl⟩)
  | a :: b :: l => exact Or.inr (Or.inr ⟨by simp, rfl⟩)

/-- a convention callback scoped to an event contributes only when that event triggered -/
theorem mem_applicable (ev : EventId) (l : List CbSpec) (cb : CbId) :
    cb ∈ applicable ev l ↔ ∃ s ∈ l, s.id = cb ∧ (s.only = none ∨ s.only = some ev) := by
  simp only [applicable, List.mem_map, List.mem_filter]
  constructor
  · rintro ⟨s, ⟨hs, hf⟩, rfl⟩
    refine ⟨s, hs, rfl, ?_⟩
    cases ho : s.only with
    | none => exact Or.inl rfl
    | some e => rw [ho] at hf; simp at hf; exact Or.inr (by rw [hf])
  · rintro ⟨s, hs, rfl, ho⟩
    refine ⟨s, ⟨hs, ?_⟩, rfl⟩
    rcases ho with ho | ho <;> simp [ho]

/-- **C14 (result of an executed transition)**: built from the return values of the applicable
`before` callbacks followed by those of the applicable `on` callbacks, `None` kept, and from
nothing else — validators, guards, exit, enter and after callbacks do not occur in it. -/
theorem C14_result {m : Machine} {t : Trigger} {act : CbId → Act} (B : Beh m t act) (tr : Transn)
    (hv : firstRaise act tr.validators = none)
    (hg : ∀ p ∈ tr.conds, (act p.1).raises = none)
    (hp : guardsPass m act tr.conds = true)
    (ha : ∀ cb ∈ actionCbs m t.event tr, (act cb).raises = none) (c : Cfg) :
    (activate nestedRtc m t tr c).2 =
      .ok (some (unwrap (((applicable t.event tr.before).map fun cb => rtcRet m (act cb)) ++
                         ((applicable t.event tr.on).map fun cb => rtcRet m (act cb))))) :=
  (activate_fire B tr hv hg hp ha c).1

/-- a rejected candidate contributes nothing -/
theorem C14_rejected_none {m : Machine} {t : Trigger} {act : CbId → Act} (B : Beh m t act) (tr : Transn)
    (hv : firstRaise act tr.validators = none)
    (hg : ∀ p ∈ tr.conds, (act p.1).raises = none)
    (hp : guardsPass m act tr.conds = false) (c : Cfg) :
    (activate nestedRtc m t tr c).2 = .ok none :=
  (activate_reject B tr hv hg hp c).1

/-- the outermost call returns the result of the (first) event it enqueued: a single queued
trigger that executes with result `r` and enqueues nothing makes the drain loop return `r` -/
theorem drainLoop_single (m : Machine) (n : Nat) (t : Trigger) (c c' : Cfg) (r : Res)
    (hq : c.queue = [t])
    (ht : trigger nestedRtc m t { c with queue := [] } = (c', .ok (some r)))
    (hq' : c'.queue = []) :
    drainLoop m (n + 2) none c = (c', .ok r) := by
  unfold drainLoop
  simp only [hq, ht, orFirst]
  unfold drainLoop
  simp [hq']

/-- an event that fires no transition (tolerated) returns `None` -/
theorem drainLoop_single_none (m : Machine) (n : Nat) (t : Trigger) (c c' : Cfg)
    (hq : c.queue = [t])
    (ht : trigger nestedRtc m t { c with queue := [] } = (c', .ok (some .none)))
    (hq' : c'.queue = []) :
    drainLoop m (n + 2) none c = (c', .ok .none) :=
  drainLoop_single m n t c c' .none hq ht hq'

/-- the `__initial__` pseudo-event never becomes the caller's result: after it, the first real
event's result is returned -/
theorem orFirst_sentinel (r : Option Res) : orFirst none r = r := rfl
theorem orFirst_keeps (f : Res) (r : Option Res) : orFirst (some f) r = some f := rfl

example : unwrap ([] : List Val) = .none ∧ unwrap [0] = .one 0 ∧ unwrap [0, 7] = .many [0, 7] := ⟨rfl, rfl, rfl⟩

/-- **C14 (any processing mode).** For a machine whose callbacks send no events the result of an executed
transition is the same for every nested-send handler (`rtc=False` included): the unwrap rule applied to the
applicable `before` results followed by the applicable `on` results. -/
theorem C14_result_any {m : Machine} {t : Trigger} {act : CbId → Act} (B : Beh m t act) (hs : NoSends m) (h : Nested)
    (tr : Transn) (hv : firstRaise act tr.validators = none)
    (hg : ∀ p ∈ tr.conds, (act p.1).raises = none)
    (hp : guardsPass m act tr.conds = true)
    (ha : ∀ cb ∈ actionCbs m t.event tr, (act cb).raises = none) (c : Cfg) :
    (activate h m t tr c).2 =
      .ok (some (unwrap (((applicable t.event tr.before).map fun cb => rtcRet m (act cb)) ++
                         ((applicable t.event tr.on).map fun cb => rtcRet m (act cb))))) := by
  rw [activate_any hs h]; exact C14_result B tr hv hg hp ha c

/-! ## The caller gets the *first* result, whatever is queued behind

`first_result` in `processing_loop`: once an event that is not the activation pseudo-event has produced its result
(also `None`: an event that fired nothing, or whose callbacks returned nothing), no event processed later in the same
drain — nested sends, chained events — can replace it. -/

/-- once the first result is set, the drain loop can only return it -/
theorem drainLoop_keeps_first (m : Machine) (n : Nat) (f : Res) (c : Cfg) (r : Res)
    (h : (drainLoop m n (some f) c).2 = .ok r) : r = f := by
  induction n generalizing c with
  | zero =>
    unfold drainLoop at h
    split at h
    · simp at h; exact h.symm
    · simp at h
  | succ k ih =>
    unfold drainLoop at h
    split at h
    · simp at h; exact h.symm
    · rename_i t q hq
      split at h
      · rename_i c' r' heq
        exact ih c' (by simpa [orFirst] using h)
      · simp at h

/-- **C14 / C03 (the outermost call returns the first event's result).** If the event at the head of the queue
executes with result `r₀` — `None` included — then, however many events its callbacks queued and whatever those
return, a drain that completes returns `r₀`. -/
theorem C14_first_result (m : Machine) (n : Nat) (c : Cfg) (t : Trigger) (q : List Trigger) (c' : Cfg) (r₀ r : Res)
    (hq : c.queue = t :: q)
    (ht : trigger nestedRtc m t { c with queue := q } = (c', .ok (some r₀)))
    (h : (drainLoop m (n + 1) none c).2 = .ok r) : r = r₀ := by
  unfold drainLoop at h
  simp only [hq, ht, orFirst] at h
  exact drainLoop_keeps_first m n r₀ c' r h

/-- the activation pseudo-event (`trigger` returns the sentinel `none`) does not count: the next event's result does -/
theorem C14_initial_not_a_result (m : Machine) (n : Nat) (c : Cfg) (t : Trigger) (q : List Trigger) (c' : Cfg)
    (hq : c.queue = t :: q)
    (ht : trigger nestedRtc m t { c with queue := q } = (c', .ok none)) :
    drainLoop m (n + 1) none c = drainLoop m n none c' := by
  conv => lhs; unfold drainLoop
  simp only [hq, ht, orFirst]

end SMV
