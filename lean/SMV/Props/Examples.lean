import SMV.Props.C02
import SMV.Props.C03
import SMV.Props.C04
import SMV.Props.C05
import SMV.Props.C11
import SMV.Props.C14
import SMV.Model.Clone
/-!
# Concrete instances (non-vacuity) for the engine theorems C02–C05, C11, C14

One machine with callbacks in every group, a nested send, an event used as a callback and a failing callback;
the statements below are evaluated by the kernel (`decide`), so they also pin the model's behaviour on a
non-trivial run: phase order, FIFO blocks, state after a failure, results.
-/
namespace SMV.Ex

/-- callbacks: 1 validator, 2 cond, 3 before, 4 exit(s0), 5 on (sends event 7), 6 enter(s1), 8 after,
9 = event 7 used as a `before` callback of the transition on event 6, 10 = `on` of event 7 (returns 42),
11 = `on` of event 9, raises -/
def behav : CbId → Nat → Obs → Act := fun cb _ _ =>
  match cb with
  | 2 => { ret := 1 }
  | 3 => { ret := 30 }
  | 5 => { ret := 50, sends := [7] }
  | 9 => { ret := 0, sends := [7], retSend := true }
  | 10 => { ret := 42 }
  | 11 => { ret := 0, raises := some 3 }
  | _ => { ret := 0 }

def m : Machine :=
  { states :=
      [ { value := 100, initial := true, exit := [4],
          trans := [ { source := 0, target := 1, events := [5], validators := [1], conds := [(2, true)],
                       before := [{ id := 3 }], on := [{ id := 5 }], after := [{ id := 8 }] },
                     { source := 0, target := 0, events := [7], internal := true, on := [{ id := 10 }] } ] },
        { value := 101, enter := [6],
          trans := [ { source := 1, target := 1, events := [7], internal := true, on := [{ id := 10 }] },
                     { source := 1, target := 0, events := [6], before := [{ id := 9 }] },
                     { source := 1, target := 0, events := [9], on := [{ id := 11 }] } ] } ],
    behav := behav, truthy := fun v => v != 0,
    resVal := fun r => match r with | .none => 0 | .one v => v | .many _ => 999 }

def c0 : Cfg := { cur := some 100 }

/-- event 5 from state 100: every group runs, in the documented order, then the nested event 7 as a block of
its own (C02 phase order within a block, C03 FIFO between blocks) -/
example :
    ((send m {} 10 5 c0).1.log.filterMap fun e => match e with
      | .cbBegin tid ph cb _ _ _ _ => some (tid, ph, cb)
      | _ => none) =
    [(0, .validators, 1), (0, .cond, 2), (0, .before, 3), (0, .exit, 4), (0, .on, 5), (0, .enter, 6), (0, .after, 8),
     (1, .on, 10)] := by decide +kernel

/-- … the caller gets `[30, 50]` = before results ++ on results (C14), the machine is in state 101 (C01), the nested
send returned None (C03) -/
example : (send m {} 10 5 c0).2 = .ok (.many [30, 50]) ∧ (send m {} 10 5 c0).1.cur = some 101 ∧
    (.sendRet 0 .on 5 .none) ∈ (send m {} 10 5 c0).1.log := by decide +kernel

/-- instance of `C03_fifo_no_interleave`: trigger ids along the log never decrease -/
example : ((send m {} 10 5 c0).1.log.map Entry.tid).Pairwise (· ≤ ·) := by decide +kernel

/-- an event used as a callback: under run-to-completion the callback contributes None (token 0) and event 7 is
queued behind the running event (it is processed in the *target* state); under `rtc=False` it runs at once, in the
source state, and the callback contributes its result 42 -/
example : (send m { rtc := true } 10 6 { cur := some 101 }).2 = .ok (.one 0) ∧
          (send m { rtc := false } 10 6 { cur := some 101 }).2 = .ok (.one 42) ∧
          ((send m { rtc := true } 10 6 { cur := some 101 }).1.log.filterMap fun e => match e with
            | .cbBegin tid _ cb seen _ _ _ => some (tid, cb, seen) | _ => none) =
            [(0, 9, some 101), (1, 10, some 100)] := by decide +kernel

/-- a failing `on` callback (C04): the exception reaches the caller, the state is still the source's, the queue is
empty and the lock free; the next event is processed normally -/
example :
    let r := send m {} 10 9 { cur := some 101 }
    r.2 = .error (.user 3) ∧ r.1.cur = some 101 ∧ r.1.queue = [] ∧ r.1.locked = false ∧
    (send m {} 10 7 r.1).2 = .ok (.one 42) := by decide +kernel

/-- C11 / C05: constructing over a stored state does nothing; over an empty model it enters the initial state once,
with the reserved event; the async kind defers exactly that to the explicit activation -/
example : (construct m {} 10 { cur := some 101 }).1.log = [] ∧
    (construct m {} 10 {}).1.cur = some 100 ∧
    (construct m { kind := .async } 10 {}).1.cur = none ∧
    (activateOp m { kind := .async } 10 (construct m { kind := .async } 10 {}).1).1.cur = some 100 := by decide +kernel

end SMV.Ex
