import SMV.Model.World
import SMV.Lemmas.Registry
import SMV.Model.Expr
/-!
# C12 — Listeners and the model are first-class callback providers, attached once

About the resolution model `Prov` (names → executor items keyed by (name, provider)):
* `C12_attach_idempotent`: resolving the same names against the same providers again adds nothing;
* `C12_no_duplicate_keys`: an executor never holds two items with one (name, provider) key;
* `C12_all_providers_called`: every provider that offers the name has its item in the executor;
* `C12_only_offered`: … and nothing else gets in;
* `C12_parity`: which provider kind (machine, model, listener) offers a method does not matter —
  the function treats all providers uniformly (it only uses `id` and `attrs`).
That an instance's executors are built from its *own* provider list only (isolation between
instances) is by construction of the model (`attach` takes the providers as an argument) and is
checked on the implementation by the correspondence.

About the registry model `Reg` (`SMV/Model/Registry.lean`: specs with group / priority / inline
callables → priority-ordered executors keyed by `name@provider` or `@callable`; the model the driver
builds every engine scenario's machine with), for all spec lists, constructor providers, late
`add_listener` calls and groups:
* `C12_reg_keys_nodup`: every resolved callback is registered exactly once;
* `C12_reg_sorted`: call order is `CallbackPriority` order;
* `C12_reg_sound` / `C12_reg_isolated`: every entry comes from a declared spec of the group and an
  attached provider (or is an inline callable) — a listener never attached is never called;
* `C12_reg_complete` / `C12_reg_complete_callable`: every attached provider offering a declared
  name, and every inline callable, is represented;
* `C12_reg_reattach`: attaching already attached listeners again changes nothing.
No side conditions were needed (in particular provider ids need not be distinct).
-/
namespace SMV.Prov

theorem hasKey_append (ex : List Item) (it : Item) (n : Name) (p : ProvId) :
    hasKey (ex ++ [it]) n p = (hasKey ex n p || (it.name == n && it.prov == p)) := by
  simp [hasKey, List.any_append]

theorem hasKey_addKey_self (ex : List Item) (it : Item) : hasKey (addKey ex it) it.name it.prov = true := by
  unfold addKey
  split
  · assumption
  · simp [hasKey_append]

theorem hasKey_addKey_mono (ex : List Item) (it : Item) (n : Name) (p : ProvId)
    (h : hasKey ex n p = true) : hasKey (addKey ex it) n p = true := by
  unfold addKey
  split
  · exact h
  · simp [hasKey_append, h]

/-- adding a key that is present changes nothing -/
theorem addKey_present (ex : List Item) (it : Item) (h : hasKey ex it.name it.prov = true) :
    addKey ex it = ex := by
  simp [addKey, h]

theorem hasKey_resolveName_mono (ex : List Item) (n : Name) (ps : List Provider) (k : Name) (p : ProvId)
    (h : hasKey ex k p = true) : hasKey (resolveName ex n ps) k p = true := by
  induction ps generalizing ex with
  | nil => exact h
  | cons q ps ih =>
    unfold resolveName
    split
    · exact ih _ (hasKey_addKey_mono ex _ k p h)
    · exact ih _ h

/-- every provider offering the name is keyed in the executor afterwards -/
theorem C12_all_providers_called (ex : List Item) (n : Name) (ps : List Provider) (p : Provider)
    (hp : p ∈ ps) (cb : CbId) (ho : offers p n = some cb) :
    hasKey (resolveName ex n ps) n p.id = true := by
  induction ps generalizing ex with
  | nil => cases hp
  | cons q ps ih =>
    unfold resolveName
    rcases List.mem_cons.mp hp with rfl | hp'
    · rw [ho]
      exact hasKey_resolveName_mono _ n ps n p.id (hasKey_addKey_self ex { name := n, prov := p.id, cb := cb })
    · split
      · exact ih _ hp'
      · exact ih _ hp'

/-- resolving a name when all its providers are already keyed is the identity -/
theorem resolveName_saturated (ex : List Item) (n : Name) (ps : List Provider)
    (h : ∀ p ∈ ps, ∀ cb, offers p n = some cb → hasKey ex n p.id = true) :
    resolveName ex n ps = ex := by
  induction ps generalizing ex with
  | nil => rfl
  | cons q ps ih =>
    unfold resolveName
    split
    · rename_i cb ho
      rw [addKey_present ex _ (h q (by simp) cb ho)]
      exact ih ex fun p hp cb' ho' => h p (by simp [hp]) cb' ho'
    · exact ih ex fun p hp cb' ho' => h p (by simp [hp]) cb' ho'

theorem hasKey_attach_mono (ex : List Item) (ps : List Provider) (ns : List Name) (k : Name) (p : ProvId)
    (h : hasKey ex k p = true) : hasKey (attach ex ps ns) k p = true := by
  induction ns generalizing ex with
  | nil => exact h
  | cons n ns ih => exact ih _ (hasKey_resolveName_mono ex n ps k p h)

/-- after attaching, every (name in the spec list, provider offering it) is keyed -/
theorem attach_saturates (ex : List Item) (ps : List Provider) (ns : List Name) (n : Name) (hn : n ∈ ns)
    (p : Provider) (hp : p ∈ ps) (cb : CbId) (ho : offers p n = some cb) :
    hasKey (attach ex ps ns) n p.id = true := by
  induction ns generalizing ex with
  | nil => cases hn
  | cons a ns ih =>
    unfold attach
    rcases List.mem_cons.mp hn with rfl | hn'
    · exact hasKey_attach_mono _ ps ns n p.id (C12_all_providers_called ex n ps p hp cb ho)
    · exact ih _ hn'

/-- attaching to an executor in which every (name, offering provider) is already keyed is the identity -/
theorem attach_saturated (ex : List Item) (ps : List Provider) (ns : List Name)
    (h : ∀ n ∈ ns, ∀ p ∈ ps, ∀ cb, offers p n = some cb → hasKey ex n p.id = true) :
    attach ex ps ns = ex := by
  induction ns generalizing ex with
  | nil => rfl
  | cons n ns ih =>
    unfold attach
    rw [resolveName_saturated ex n ps (h n (by simp))]
    exact ih ex fun n' hn' => h n' (by simp [hn'])

/-- **C12 (attached once).** Attaching the same listeners again — at any later point, any number
of times — leaves every executor unchanged: no callback is duplicated. -/
theorem C12_attach_idempotent (ex : List Item) (ps : List Provider) (ns : List Name) :
    attach (attach ex ps ns) ps ns = attach ex ps ns :=
  attach_saturated _ ps ns fun n hn p hp cb ho => attach_saturates ex ps ns n hn p hp cb ho

/-- keys are unique -/
def KeysNodup (ex : List Item) : Prop := (ex.map fun x => (x.name, x.prov)).Nodup

theorem addKey_nodup (ex : List Item) (it : Item) (h : KeysNodup ex) : KeysNodup (addKey ex it) := by
  unfold addKey
  split
  · exact h
  · rename_i hk
    unfold KeysNodup at *
    rw [List.map_append, List.nodup_append]
    refine ⟨h, by simp, ?_⟩
    intro a ha b hb
    simp at hb
    subst hb
    intro heq
    subst heq
    apply hk
    simp only [List.mem_map] at ha
    obtain ⟨x, hx, hxe⟩ := ha
    simp only [hasKey, List.any_eq_true]
    refine ⟨x, hx, ?_⟩
    simp only [Prod.mk.injEq] at hxe
    simp [hxe.1, hxe.2]

theorem resolveName_nodup (ex : List Item) (n : Name) (ps : List Provider) (h : KeysNodup ex) :
    KeysNodup (resolveName ex n ps) := by
  induction ps generalizing ex with
  | nil => exact h
  | cons q ps ih =>
    unfold resolveName
    split
    · exact ih _ (addKey_nodup ex _ h)
    · exact ih _ h

/-- **C12 (no duplicates).** An executor never holds two items for one (name, provider). -/
theorem C12_no_duplicate_keys (ex : List Item) (ps : List Provider) (ns : List Name) (h : KeysNodup ex) :
    KeysNodup (attach ex ps ns) := by
  induction ns generalizing ex with
  | nil => exact h
  | cons n ns ih => exact ih _ (resolveName_nodup ex n ps h)

/-- only items offered by an attached provider (or present before) are in the executor -/
theorem C12_only_offered (ex : List Item) (ps : List Provider) (ns : List Name) (it : Item)
    (h : it ∈ attach ex ps ns) : it ∈ ex ∨ ∃ p ∈ ps, it.name ∈ ns ∧ it.prov = p.id ∧ offers p it.name = some it.cb := by
  induction ns generalizing ex with
  | nil => exact Or.inl h
  | cons n ns ih =>
    unfold attach at h
    rcases ih _ h with h1 | ⟨p, hp, hn, e1, e2⟩
    · have key : ∀ (qs : List Provider) (ex' : List Item), (∀ q ∈ qs, q ∈ ps) → it ∈ resolveName ex' n qs →
          it ∈ ex' ∨ ∃ p ∈ ps, it.name = n ∧ it.prov = p.id ∧ offers p it.name = some it.cb := by
        intro qs
        induction qs with
        | nil => intro ex' _ h'; exact Or.inl h'
        | cons q qs ihq =>
          intro ex' hsub h'
          unfold resolveName at h'
          split at h'
          · rename_i cb ho
            rcases ihq _ (fun q' hq' => hsub q' (by simp [hq'])) h' with h2 | h2
            · unfold addKey at h2
              split at h2
              · exact Or.inl h2
              · rcases List.mem_append.mp h2 with h3 | h3
                · exact Or.inl h3
                · simp at h3; subst h3
                  exact Or.inr ⟨q, hsub q (by simp), rfl, rfl, ho⟩
            · exact Or.inr h2
          · exact ihq _ (fun q' hq' => hsub q' (by simp [hq'])) h'
      rcases key ps ex (fun q hq => hq) h1 with h2 | ⟨p, hp, e0, e1, e2⟩
      · exact Or.inl h2
      · exact Or.inr ⟨p, hp, by simp [e0], e1, e2⟩
    · exact Or.inr ⟨p, hp, by simp [hn], e1, e2⟩

/-- **C12 (parity).** Resolution treats every provider alike: replacing a provider by one with
the same id and attributes (whether it is "the machine", "the model" or "a listener" is not even
representable) gives the same executor. Stated as: `attach` depends on providers only through
`id` and `attrs`. -/
theorem C12_parity (ex : List Item) (ps qs : List Provider) (ns : List Name)
    (h : ps.map (fun p => (p.id, p.attrs)) = qs.map (fun p => (p.id, p.attrs))) :
    attach ex ps ns = attach ex qs ns := by
  have : ps = qs := by
    induction ps generalizing qs with
    | nil => cases qs with
      | nil => rfl
      | cons => simp at h
    | cons p ps ih =>
      cases qs with
      | nil => simp at h
      | cons q qs =>
        simp only [List.map_cons, List.cons.injEq, Prod.mk.injEq] at h
        obtain ⟨⟨h1, h2⟩, h3⟩ := h
        have : p = q := by cases p; cases q; simp_all
        rw [this, ih qs h3]
  rw [this]

example : attach [] [⟨0, [(5, 50)]⟩, ⟨1, [(5, 51), (6, 61)]⟩] [5, 6] =
    [⟨5, 0, 50⟩, ⟨5, 1, 51⟩, ⟨6, 1, 61⟩] := by decide

end SMV.Prov

namespace SMV.Reg

open SMV.Prov

/-- **C12 (registered once).** The de-duplication keys of an executor are pairwise distinct: every resolved
callback (`name@provider`, or an inline callable; for guards together with the expected truth value, so that
`cond="x"` and `unless="x"` are two guards — D32) is registered exactly once, whatever the specs
(duplicated specs included), however many providers share an id and however often a listener is
attached. -/
theorem C12_reg_keys_nodup (specs : List Spec) (ctor : List Provider) (late : List (List Provider))
    (g : Group) : ((executor specs ctor late g).map (·.dk)).Nodup :=
  executor_induct (fun ex => (ex.map (·.dk)).Nodup) specs ctor late g (by simp)
    fun ex e h _ => add_keys_nodup ex e h

/-- **C12 (call order = priority order).** Priorities never decrease along an executor. -/
theorem C12_reg_sorted (specs : List Spec) (ctor : List Provider) (late : List (List Provider))
    (g : Group) : ((executor specs ctor late g).map (·.prio)).Pairwise (· ≤ ·) :=
  executor_induct (fun ex => (ex.map (·.prio)).Pairwise (· ≤ ·)) specs ctor late g (by simp)
    fun ex e h _ => add_sorted ex e h

/-- provenance of an entry: a declared spec of the group `g`, resolved inline or against one of the
providers `ps` -/
def Sound (specs : List Spec) (ps : List Provider) (g : Group) (e : Entry) : Prop :=
  ∃ s ∈ specs, s.group = g ∧ e.prio = s.prio ∧ e.only = s.only ∧ e.expected = s.expected ∧
    ((∃ cb, s.ref = .callable cb ∧ e.key = .callable cb ∧ e.cb = cb) ∨
     (∃ n p, s.ref = .name n ∧ p ∈ ps ∧ offers p n = some e.cb ∧ e.key = .named n p.id))

theorem sound_of_src (specs : List Spec) (ctor : List Provider) (late : List (List Provider))
    (g : Group) (x : Entry) (hsrc : Src specs ctor late g x) :
    Sound specs (ctor ++ late.flatten) g x := by
  obtain ⟨s, hs, hg, hb⟩ := hsrc
  refine ⟨s, hs, hg, ?_⟩
  cases hr : s.ref with
  | callable cb =>
    have hx : x = { key := .callable cb, cb := cb, prio := s.prio, only := s.only, expected := s.expected } := by
      rcases hb with hb | ⟨ls, _, ⟨n, hn⟩, _⟩
      · exact (mem_buildSpec_callable ctor s cb hr x).mp hb
      · rw [hr] at hn; cases hn
    subst hx
    exact ⟨rfl, rfl, rfl, Or.inl ⟨cb, rfl, rfl, rfl⟩⟩
  | name n =>
    have : ∃ p ∈ ctor ++ late.flatten, ∃ cb, offers p n = some cb ∧
        x = { key := .named n p.id, cb := cb, prio := s.prio, only := s.only, expected := s.expected } := by
      rcases hb with hb | ⟨ls, hls, _, hb⟩
      · obtain ⟨p, hp, h⟩ := (mem_buildSpec_name ctor s n hr x).mp hb
        exact ⟨p, List.mem_append_left _ hp, h⟩
      · obtain ⟨p, hp, h⟩ := (mem_buildSpec_name ls s n hr x).mp hb
        exact ⟨p, List.mem_append_right _ (List.mem_flatten.mpr ⟨ls, hls, hp⟩), h⟩
    obtain ⟨p, hp, cb, ho, rfl⟩ := this
    exact ⟨rfl, rfl, rfl, Or.inr ⟨n, p, rfl, hp, ho, rfl⟩⟩

/-- **C12 (only declared specs, only attached providers).** Every entry of an executor carries the
priority / event scope / expected value of a declared spec of that group, and is either that spec's
inline callable or the attribute an attached provider (constructor or some later `add_listener`)
offers under the spec's name. -/
theorem C12_reg_sound (specs : List Spec) (ctor : List Provider) (late : List (List Provider))
    (g : Group) (e : Entry) (he : e ∈ executor specs ctor late g) :
    ∃ s ∈ specs, s.group = g ∧ e.prio = s.prio ∧ e.only = s.only ∧ e.expected = s.expected ∧
      ((∃ cb, s.ref = .callable cb ∧ e.key = .callable cb ∧ e.cb = cb) ∨
       (∃ n p, s.ref = .name n ∧ p ∈ ctor ++ late.flatten ∧ offers p n = some e.cb ∧
          e.key = .named n p.id)) := by
  have key : ∀ e ∈ executor specs ctor late g, Sound specs (ctor ++ late.flatten) g e :=
    executor_induct (fun ex => ∀ e ∈ ex, Sound specs (ctor ++ late.flatten) g e) specs ctor late g
      (fun e he => by cases he)
      fun ex e ih hsrc x hx => by
        rcases mem_add ex e x hx with rfl | hx'
        · exact sound_of_src specs ctor late g x hsrc
        · exact ih x hx'
  exact key e he

/-- **C12 (isolation).** A name-resolved entry belongs to a provider attached to *this* instance:
a listener that was never attached here is never called. -/
theorem C12_reg_isolated (specs : List Spec) (ctor : List Provider) (late : List (List Provider))
    (g : Group) (e : Entry) (he : e ∈ executor specs ctor late g) (n : Name) (pid : ProvId)
    (hk : e.key = .named n pid) : pid ∈ (ctor ++ late.flatten).map (·.id) := by
  obtain ⟨s, _, _, _, _, _, h⟩ := C12_reg_sound specs ctor late g e he
  rcases h with ⟨cb, _, hk', _⟩ | ⟨n', p, _, hp, _, hk'⟩
  · rw [hk] at hk'; cases hk'
  · rw [hk] at hk'
    cases hk'
    exact List.mem_map.mpr ⟨p, hp, rfl⟩

/-- **C12 (all providers of a callback name are called).** Every declared name spec of the group
and every attached provider (constructor or later `add_listener`) offering that name is keyed in
the executor. -/
theorem C12_reg_complete (specs : List Spec) (ctor : List Provider) (late : List (List Provider))
    (g : Group) (s : Spec) (hs : s ∈ specs) (hg : s.group = g) (n : Name) (hr : s.ref = .name n)
    (p : Provider) (hp : p ∈ ctor ++ late.flatten) (cb : CbId) (ho : offers p n = some cb) :
    seen (executor specs ctor late g) (.named n p.id, s.expected) = true := by
  rw [executor_eq]
  rcases List.mem_append.mp hp with hc | hl
  · apply seen_lateFold_mono
    exact seen_resolveInto_mem false ctor g specs [] s hs ⟨hg, Or.inl rfl⟩ _
      ((mem_buildSpec_name ctor s n hr _).mpr ⟨p, hc, cb, ho, rfl⟩)
  · obtain ⟨ls, hls, hpl⟩ := List.mem_flatten.mp hl
    exact seen_lateFold_mem specs g late _ ls hls s hs ⟨hg, Or.inr ⟨n, hr⟩⟩ _
      ((mem_buildSpec_name ls s n hr _).mpr ⟨p, hpl, cb, ho, rfl⟩)

/-- … and every inline callable / decorated function declared for the group is keyed (it is
resolved by the constructor pass, independently of the providers). -/
theorem C12_reg_complete_callable (specs : List Spec) (ctor : List Provider)
    (late : List (List Provider)) (g : Group) (s : Spec) (hs : s ∈ specs) (hg : s.group = g)
    (cb : CbId) (hr : s.ref = .callable cb) :
    seen (executor specs ctor late g) (.callable cb, s.expected) = true := by
  rw [executor_eq]
  apply seen_lateFold_mono
  exact seen_resolveInto_mem false ctor g specs [] s hs ⟨hg, Or.inl rfl⟩ _
    ((mem_buildSpec_callable ctor s cb hr _).mpr rfl)

/-- **C12 (attached once).** An `add_listener` call whose listeners are all attached already —
at construction or by any earlier `add_listener` — leaves every executor exactly as it was: the
same listener attached again never has its callbacks duplicated (or reordered). -/
theorem C12_reg_reattach (specs : List Spec) (ctor : List Provider) (late : List (List Provider))
    (ls : List Provider) (g : Group) (h : ∀ p ∈ ls, p ∈ ctor ++ late.flatten) :
    executor specs ctor (late ++ [ls]) g = executor specs ctor late g := by
  rw [executor_snoc]
  apply resolveInto_saturated
  intro s hs ha e he
  obtain ⟨hg, hf | ⟨n, hr⟩⟩ := ha
  · cases hf
  · obtain ⟨p, hp, cb, ho, rfl⟩ := (mem_buildSpec_name ls s n hr e).mp he
    exact C12_reg_complete specs ctor late g s hs hg n hr p (h p hp) cb ho

/-- view of an entry as a tuple (key, callback, priority, event scope, expected) -/
def Entry.view (e : Entry) : Key × CbId × Nat × Option EventId × Bool :=
  (e.key, e.cb, e.prio, e.only, e.expected)

/- Non-vacuity: machine `0` offers names 5 and 6, model `1` offers 5, the late listener `2` offers
5 and 7. Group `before` declares name 5 (NAMING 30), the inline callable 90 (INLINE 10), the generic
name 6 (GENERIC 0), name 7 (INLINE 10) and — a duplicate — name 5 again; group `on` declares name 5.
The listener `2` is attached late, then once more together with the model. -/
example :
    (executor
      [⟨.before, .name 5, 30, some 3, true⟩, ⟨.before, .callable 90, 10, none, true⟩,
       ⟨.on, .name 5, 10, none, true⟩, ⟨.before, .name 6, 0, none, true⟩,
       ⟨.before, .name 7, 10, none, true⟩, ⟨.before, .name 5, 30, some 3, true⟩]
      [⟨0, [(5, 50), (6, 60)]⟩, ⟨1, [(5, 51)]⟩]
      [[⟨2, [(5, 52), (7, 72)]⟩], [⟨2, [(5, 52), (7, 72)]⟩, ⟨1, [(5, 51)]⟩]]
      .before).map Entry.view =
    [(.named 6 0, 60, 0, none, true),
     (.callable 90, 90, 10, none, true),
     (.named 7 2, 72, 10, none, true),
     (.named 5 0, 50, 30, some 3, true),
     (.named 5 1, 51, 30, some 3, true),
     (.named 5 2, 52, 30, some 3, true)] := by decide

example :
    (executor
      [⟨.before, .name 5, 30, some 3, true⟩, ⟨.before, .callable 90, 10, none, true⟩,
       ⟨.on, .name 5, 10, none, true⟩, ⟨.before, .name 6, 0, none, true⟩]
      [⟨0, [(5, 50), (6, 60)]⟩, ⟨1, [(5, 51)]⟩]
      [[⟨2, [(5, 52), (7, 72)]⟩], [⟨2, [(5, 52), (7, 72)]⟩]]
      .on).map Entry.view =
    [(.named 5 0, 50, 10, none, true), (.named 5 1, 51, 10, none, true),
     (.named 5 2, 52, 10, none, true)] := by decide

end SMV.Reg

/-! ## Guards given as boolean expressions, listeners attached late (`GExpr.constructPasses`)

Every attachment pass that provides all names of an entry contributes that entry once more, over its own
providers; the transition is enabled iff the guards of the constructor pass *and* those of every late pass hold:
"a guard name provided by several objects must hold on all of them", attachment by attachment. -/
namespace SMV.GExpr

/-- the guard loop over a concatenation: the second list is consulted iff the first one passed entirely -/
theorem allLib_append_val (S : Sem) (ρ : Env) (g1 g2 : List Guard) :
    (allLib S ρ (g1 ++ g2)).val =
      match (allLib S ρ g1).val with
      | some true => (allLib S ρ g2).val
      | v => v := by
  induction g1 with
  | nil => simp [allLib]
  | cons g gs ih =>
    simp only [List.cons_append, allLib]
    cases h : (evalLib S ρ false g.e).val with
    | none => simp
    | some v =>
      simp only
      by_cases hv : (truthy v == g.expected) = true
      · simp only [hv, if_true]
        exact ih
      · simp [hv]

/-- **C12 (late guard expressions).** With the registered guards `gs` of the constructor pass and the guards
`ls` contributed by late passes, the transition is enabled iff both lists pass. -/
theorem C12_late_guards_conj (S : Sem) (ρ : Env) (gs ls : List Guard) :
    (allLib S ρ (gs ++ ls)).val = some true ↔
      (allLib S ρ gs).val = some true ∧ (allLib S ρ ls).val = some true := by
  rw [allLib_append_val]
  cases h : (allLib S ρ gs).val with
  | none => simp
  | some b => cases b <;> simp

/-- no late pass: construction as before -/
theorem constructPasses_nil (prov : Nat → List Nat) (entries : List (Src × Bool × Bool)) :
    constructPasses prov [] entries =
      match construct prov (entries.map fun en => (en.1, en.2.1)) with
      | .ok gs => .ok gs
      | .invalidDefinition => .invalidDefinition := by
  unfold constructPasses
  cases construct prov (entries.map fun en => (en.1, en.2.1)) <;> simp

/-- one guard of the loop, on its own -/
def okLib (S : Sem) (ρ : Env) (g : Guard) : Bool :=
  (evalLib S ρ false g.e).val.map truthy == some g.expected

/-- the guard loop lets the transition through iff every guard of the list holds -/
theorem allLib_true_iff (S : Sem) (ρ : Env) (l : List Guard) :
    (allLib S ρ l).val = some true ↔ ∀ g ∈ l, okLib S ρ g = true := by
  induction l with
  | nil => simp [allLib]
  | cons g gs ih =>
    simp only [allLib, List.mem_cons, forall_eq_or_imp, okLib]
    cases h : (evalLib S ρ false g.e).val with
    | none => simp
    | some v =>
      by_cases hv : truthy v = g.expected
      · simp [hv, ih, okLib]
      · simp [hv]

theorem mem_addNew (acc new : List Guard) (g : Guard) : g ∈ addNew acc new ↔ g ∈ acc ∨ g ∈ new := by
  induction new generalizing acc with
  | nil => simp [addNew]
  | cons x xs ih =>
    simp only [addNew]
    split
    · rename_i hc
      rw [ih]
      have : x ∈ acc := by simpa using hc
      constructor
      · rintro (h | h)
        · exact Or.inl h
        · exact Or.inr (List.mem_cons_of_mem _ h)
      · rintro (h | h)
        · exact Or.inl h
        · rcases List.mem_cons.mp h with rfl | h
          · exact Or.inl this
          · exact Or.inr h
    · rw [ih]
      simp [or_assoc]

/-- nothing is ever removed by an attachment, and what is there stays in front, in order -/
theorem addNew_prefix (acc new : List Guard) : ∃ more, addNew acc new = acc ++ more := by
  induction new generalizing acc with
  | nil => exact ⟨[], by simp [addNew]⟩
  | cons x xs ih =>
    simp only [addNew]
    split
    · exact ih acc
    · obtain ⟨m, hm⟩ := ih (acc ++ [x])
      exact ⟨x :: m, by rw [hm]; simp⟩

/-- **re-attachment does not change what is decided**: ignoring the entries whose key was seen gives the same
verdict as keeping them all ("attaching the same listener again never duplicates its calls" costs nothing) -/
theorem addNew_enabled (S : Sem) (ρ : Env) (acc new : List Guard) :
    (allLib S ρ (addNew acc new)).val = some true ↔ (allLib S ρ (acc ++ new)).val = some true := by
  simp only [allLib_true_iff, mem_addNew, List.mem_append]

/-- the guards after the late passes, as a set: those of the constructor and those every pass resolves -/
theorem mem_passes (gs : List Guard) (lates : List (Nat → List Nat)) (entries : List (Src × Bool × Bool)) (g : Guard) :
    g ∈ lates.foldl (fun acc p => addNew acc (lateGuards p entries)) gs ↔
      g ∈ gs ∨ ∃ p ∈ lates, g ∈ lateGuards p entries := by
  induction lates generalizing gs with
  | nil => simp
  | cons p ps ih =>
    simp [ih, mem_addNew, or_assoc]

/-- a late pass never turns a constructible machine into an error, and never removes a guard -/
theorem constructPasses_ok (prov : Nat → List Nat) (lates : List (Nat → List Nat)) (entries : List (Src × Bool × Bool))
    (gs : List Guard) (h : construct prov (entries.map fun en => (en.1, en.2.1)) = .ok gs) :
    constructPasses prov lates entries = .ok (lates.foldl (fun acc p => addNew acc (lateGuards p entries)) gs) := by
  unfold constructPasses
  rw [h]

/-- **C12 (several providers, attachment by attachment).** After any number of attachment passes the transition is
enabled iff the constructor's guards hold and, for every pass, the guards that pass resolves hold over its own
providers — whether or not a pass repeats an earlier one. -/
theorem C12_passes_enabled (S : Sem) (ρ : Env) (gs : List Guard) (lates : List (Nat → List Nat))
    (entries : List (Src × Bool × Bool)) :
    (allLib S ρ (lates.foldl (fun acc p => addNew acc (lateGuards p entries)) gs)).val = some true ↔
      (allLib S ρ gs).val = some true ∧ ∀ p ∈ lates, (allLib S ρ (lateGuards p entries)).val = some true := by
  simp only [allLib_true_iff, mem_passes]
  constructor
  · intro h
    exact ⟨fun g hg => h g (Or.inl hg), fun p hp g hg => h g (Or.inr ⟨p, hp, hg⟩)⟩
  · rintro ⟨h1, h2⟩ g (hg | ⟨p, hp, hg⟩)
    · exact h1 g hg
    · exact h2 p hp g hg

/-- attaching the same providers again adds nothing -/
theorem addNew_idem (acc new : List Guard) (h : ∀ g ∈ new, g ∈ acc) : addNew acc new = acc := by
  induction new with
  | nil => simp [addNew]
  | cons x xs ih =>
    have hx : acc.contains x = true := by simpa using h x (List.mem_cons_self ..)
    simp only [addNew, hx, if_true]
    exact ih (fun g hg => h g (List.mem_cons_of_mem _ hg))

/-- an entry some name of which the pass does not provide contributes nothing in that pass -/
theorem lateGuards_unknown (prov : Nat → List Nat) (e : E) (x : Bool) (h : (unknowns prov e).isEmpty = false) :
    lateGuards prov [(.parsed e, x, true)] = [] := by
  have : unknowns prov e ≠ [] := by
    intro he; rw [he] at h; simp at h
  simp [lateGuards, this]

/-- an entry given as an object (function, property) is not resolved again by `add_listener` -/
theorem lateGuards_by_object (prov : Nat → List Nat) (src : Src) (x : Bool) :
    lateGuards prov [(src, x, false)] = [] := by
  cases src <;> simp [lateGuards]

/-- non-vacuity / the D29 shape: `cond="!n0"`, constructor provider slot 0 (True), late provider slot 1 (False):
two guards, not enabled; had the late provider been a constructor provider: one guard, enabled -/
example :
    let entries : List (Src × Bool × Bool) := [(.parsed (.not (.name 0)), true, true)]
    let ρ : Env := fun s => .bool (s == 0)
    (match constructPasses (fun _ => [0]) [fun _ => [1]] entries with
      | .ok gs => (gs.length, (allLib pySem ρ gs).val) | .invalidDefinition => (0, none)) = (2, some false) ∧
    (match constructPasses (fun _ => [0, 1]) [] entries with
      | .ok gs => (gs.length, (allLib pySem ρ gs).val) | .invalidDefinition => (0, none)) = (1, some true) := by
  decide

end SMV.GExpr
