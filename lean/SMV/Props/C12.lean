import SMV.Model.World
/-!
# C12 — Listeners and the model are first-class callback providers, attached once

About the resolution model `Prov` (names → executor items keyed by (name, provider)):
* `C12_attach_idempotent`: resolving the same names against the same providers again adds nothing;
* `C12_no_duplicate_keys`: an executor never holds two items with one (name, provider) key;
* `C12_all_providers_called`: every provider that offers the name has its item in the executor;
* `C12_only_offered`: … and nothing else gets in;
* `C12_parity`: which provider kind (machine, model, listener) offers a method does not matter —
  the function treats all providers uniformly (it only uses `id` and `attrs`).
That an instance's executors are built from its *own* provider list only (isolation between
instances) is by construction of the model (`attach` takes the providers as an argument) and is
checked on the implementation by the correspondence.
-/
namespace SMV.Prov

theorem hasKey_append (ex : List Item) (it : Item) (n : Name) (p : ProvId) :
    hasKey (ex ++ [it]) n p = (hasKey ex n p || (it.name == n && it.prov == p)) := by
  simp [hasKey, List.any_append]

theorem hasKey_addKey_self (ex : List Item) (it : Item) : hasKey (addKey ex it) it.name it.prov = true := by
  unfold addKey
  split
  · assumption
  · simp [hasKey_append]

theorem hasKey_addKey_mono (ex : List Item) (it : Item) (n : Name) (p : ProvId)
    (h : hasKey ex n p = true) : hasKey (addKey ex it) n p = true := by
  unfold addKey
  split
  · exact h
  · simp [hasKey_append, h]

/-- adding a key that is present changes nothing -/
theorem addKey_present (ex : List Item) (it : Item) (h : hasKey ex it.name it.prov = true) :
    addKey ex it = ex := by
  simp [addKey, h]

theorem hasKey_resolveName_mono (ex : List Item) (n : Name) (ps : List Provider) (k : Name) (p : ProvId)
    (h : hasKey ex k p = true) : hasKey (resolveName ex n ps) k p = true := by
  induction ps generalizing ex with
  | nil => exact h
  | cons q ps ih =>
    unfold resolveName
    split
    · exact ih _ (hasKey_addKey_mono ex _ k p h)
    · exact ih _ h

/-- every provider offering the name is keyed in the executor afterwards -/
theorem C12_all_providers_called (ex : List Item) (n : Name) (ps : List Provider) (p : Provider)
    (hp : p ∈ ps) (cb : CbId) (ho : offers p n = some cb) :
    hasKey (resolveName ex n ps) n p.id = true := by
  induction ps generalizing ex with
  | nil => cases hp
  | cons q ps ih =>
    unfold resolveName
    rcases List.mem_cons.mp hp with rfl | hp'
    · rw [ho]
      exact hasKey_resolveName_mono _ n ps n p.id (hasKey_addKey_self ex { name := n, prov := p.id, cb := cb })
    · split
      · exact ih _ hp'
      · exact ih _ hp'

/-- resolving a name when all its providers are already keyed is the identity -/
theorem resolveName_saturated (ex : List Item) (n : Name) (ps : List Provider)
    (h : ∀ p ∈ ps, ∀ cb, offers p n = some cb → hasKey ex n p.id = true) :
    resolveName ex n ps = ex := by
  induction ps generalizing ex with
  | nil => rfl
  | cons q ps ih =>
    unfold resolveName
    split
    · rename_i cb ho
      rw [addKey_present ex _ (h q (by simp) cb ho)]
      exact ih ex fun p hp cb' ho' => h p (by simp [hp]) cb' ho'
    · exact ih ex fun p hp cb' ho' => h p (by simp [hp]) cb' ho'

theorem hasKey_attach_mono (ex : List Item) (ps : List Provider) (ns : List Name) (k : Name) (p : ProvId)
    (h : hasKey ex k p = true) : hasKey (attach ex ps ns) k p = true := by
  induction ns generalizing ex with
  | nil => exact h
  | cons n ns ih => exact ih _ (hasKey_resolveName_mono ex n ps k p h)

/-- after attaching, every (name in the spec list, provider offering it) is keyed -/
theorem attach_saturates (ex : List Item) (ps : List Provider) (ns : List Name) (n : Name) (hn : n ∈ ns)
    (p : Provider) (hp : p ∈ ps) (cb : CbId) (ho : offers p n = some cb) :
    hasKey (attach ex ps ns) n p.id = true := by
  induction ns generalizing ex with
  | nil => cases hn
  | cons a ns ih =>
    unfold attach
    rcases List.mem_cons.mp hn with rfl | hn'
    · exact hasKey_attach_mono _ ps ns n p.id (C12_all_providers_called ex n ps p hp cb ho)
    · exact ih _ hn'

/-- attaching to an executor in which every (name, offering provider) is already keyed is the identity -/
theorem attach_saturated (ex : List Item) (ps : List Provider) (ns : List Name)
    (h : ∀ n ∈ ns, ∀ p ∈ ps, ∀ cb, offers p n = some cb → hasKey ex n p.id = true) :
    attach ex ps ns = ex := by
  induction ns generalizing ex with
  | nil => rfl
  | cons n ns ih =>
    unfold attach
    rw [resolveName_saturated ex n ps (h n (by simp))]
    exact ih ex fun n' hn' => h n' (by simp [hn'])

/-- **C12 (attached once).** Attaching the same listeners again — at any later point, any number
of times — leaves every executor unchanged: no callback is duplicated. -/
theorem C12_attach_idempotent (ex : List Item) (ps : List Provider) (ns : List Name) :
    attach (attach ex ps ns) ps ns = attach ex ps ns :=
  attach_saturated _ ps ns fun n hn p hp cb ho => attach_saturates ex ps ns n hn p hp cb ho

/-- keys are unique -/
def KeysNodup (ex : List Item) : Prop := (ex.map fun x => (x.name, x.prov)).Nodup

theorem addKey_nodup (ex : List Item) (it : Item) (h : KeysNodup ex) : KeysNodup (addKey ex it) := by
  unfold addKey
  split
  · exact h
  · rename_i hk
    unfold KeysNodup at *
    rw [List.map_append, List.nodup_append]
    refine ⟨h, by simp, ?_⟩
    intro a ha b hb
    simp at hb
    subst hb
    intro heq
    subst heq
    apply hk
    simp only [List.mem_map] at ha
    obtain ⟨x, hx, hxe⟩ := ha
    simp only [hasKey, List.any_eq_true]
    refine ⟨x, hx, ?_⟩
    simp only [Prod.mk.injEq] at hxe
    simp [hxe.1, hxe.2]

theorem resolveName_nodup (ex : List Item) (n : Name) (ps : List Provider) (h : KeysNodup ex) :
    KeysNodup (resolveName ex n ps) := by
  induction ps generalizing ex with
  | nil => exact h
  | cons q ps ih =>
    unfold resolveName
    split
    · exact ih _ (addKey_nodup ex _ h)
    · exact ih _ h

/-- **C12 (no duplicates).** An executor never holds two items for one (name, provider). -/
theorem C12_no_duplicate_keys (ex : List Item) (ps : List Provider) (ns : List Name) (h : KeysNodup ex) :
    KeysNodup (attach ex ps ns) := by
  induction ns generalizing ex with
  | nil => exact h
  | cons n ns ih => exact ih _ (resolveName_nodup ex n ps h)

/-- only items offered by an attached provider (or present before) are in the executor -/
theorem C12_only_offered (ex : List Item) (ps : List Provider) (ns : List Name) (it : Item)
    (h : it ∈ attach ex ps ns) : it ∈ ex ∨ ∃ p ∈ ps, it.name ∈ ns ∧ it.prov = p.id ∧ offers p it.name = some it.cb := by
  induction ns generalizing ex with
  | nil => exact Or.inl h
  | cons n ns ih =>
    unfold attach at h
    rcases ih _ h with h1 | ⟨p, hp, hn, e1, e2⟩
    · have key : ∀ (qs : List Provider) (ex' : List Item), (∀ q ∈ qs, q ∈ ps) → it ∈ resolveName ex' n qs →
          it ∈ ex' ∨ ∃ p ∈ ps, it.name = n ∧ it.prov = p.id ∧ offers p it.name = some it.cb := by
        intro qs
        induction qs with
        | nil => intro ex' _ h'; exact Or.inl h'
        | cons q qs ihq =>
          intro ex' hsub h'
          unfold resolveName at h'
          split at h'
          · rename_i cb ho
            rcases ihq _ (fun q' hq' => hsub q' (by simp [hq'])) h' with h2 | h2
            · unfold addKey at h2
              split at h2
              · exact Or.inl h2
              · rcases List.mem_append.mp h2 with h3 | h3
                · exact Or.inl h3
                · simp at h3; subst h3
                  exact Or.inr ⟨q, hsub q (by simp), rfl, rfl, ho⟩
            · exact Or.inr h2
          · exact ihq _ (fun q' hq' => hsub q' (by simp [hq'])) h'
      rcases key ps ex (fun q hq => hq) h1 with h2 | ⟨p, hp, e0, e1, e2⟩
      · exact Or.inl h2
      · exact Or.inr ⟨p, hp, by simp [e0], e1, e2⟩
    · exact Or.inr ⟨p, hp, by simp [hn], e1, e2⟩

/-- **C12 (parity).** Resolution treats every provider alike: replacing a provider by one with
the same id and attributes (whether it is "the machine", "the model" or "a listener" is not even
representable) gives the same executor. Stated as: `attach` depends on providers only through
`id` and `attrs`. -/
theorem C12_parity (ex : List Item) (ps qs : List Provider) (ns : List Name)
    (h : ps.map (fun p => (p.id, p.attrs)) = qs.map (fun p => (p.id, p.attrs))) :
    attach ex ps ns = attach ex qs ns := by
  have : ps = qs := by
    induction ps generalizing qs with
    | nil => cases qs with
      | nil => rfl
      | cons => simp at h
    | cons p ps ih =>
      cases qs with
      | nil => simp at h
      | cons q qs =>
        simp only [List.map_cons, List.cons.injEq, Prod.mk.injEq] at h
        obtain ⟨⟨h1, h2⟩, h3⟩ := h
        have : p = q := by cases p; cases q; simp_all
        rw [this, ih qs h3]
  rw [this]

example : attach [] [⟨0, [(5, 50)]⟩, ⟨1, [(5, 51), (6, 61)]⟩] [5, 6] =
    [⟨5, 0, 50⟩, ⟨5, 1, 51⟩, ⟨6, 1, 61⟩] := by decide

end SMV.Prov
