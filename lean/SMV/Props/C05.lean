import SMV.Props.C11
/-!
# C05 — Async callbacks behave exactly like their synchronous counterparts

The async engine runs the *same* activation sequence as the sync engine, awaiting each group; in
the model the two kinds share every definition and differ only in construction (the async engine
cannot activate inside `__init__`). Whether a callback is a coroutine is invisible to the model —
that the real engine behaves so (awaits every started coroutine before the next phase, same
phases, arguments, results, exceptions) is what the correspondence and the twin comparison check.
Proved here: the two kinds coincide on every operation; deferring the activation to an explicit
`activate_initial_state()` (or to the first event when the initial enter callbacks send nothing)
gives exactly the synchronous machine; the `__initial__` block precedes every other block.
-/
namespace SMV

/-- every operation after construction is the same function for both engine kinds -/
theorem C05_ops_kind_irrelevant (m : Machine) (rtc : Bool) (fuel : Nat) (e : EventId) :
    send m { rtc := rtc, kind := .async } fuel e = send m { rtc := rtc, kind := .sync } fuel e ∧
    activateOp m { rtc := rtc, kind := .async } fuel = activateOp m { rtc := rtc, kind := .sync } fuel :=
  ⟨rfl, rfl⟩

/-- **C05 (deferred activation = synchronous construction).** Constructing with the async engine
and then activating explicitly reaches exactly the configuration the sync engine's constructor
reaches, from any configuration, for every machine and callback behaviour. -/
theorem C05_async_construct_activate (m : Machine) (fuel : Nat) (c : Cfg) :
    (activateOp m { rtc := true, kind := .async } fuel
      (construct m { rtc := true, kind := .async } fuel c).1).1 =
    (construct m { rtc := true, kind := .sync } fuel c).1 := by
  rw [C11_async_defers]
  unfold construct activateOp
  simp only [Bool.not_true, Bool.and_false, Bool.false_eq_true, if_false]
  rw [EM.bind_apply]
  have hs : (start c).2 = .ok () := by
    unfold start
    rw [EM.bind_apply]
    simp only [EM.get]
    split <;> rfl
  generalize start c = r at hs
  obtain ⟨c1, r1⟩ := r
  simp only at hs
  subst hs
  simp only [beq_self_eq_true, if_true]
  rw [EM.bind_apply]
  show (process m { rtc := true, kind := .async } fuel c1).1 = _
  have : process m { rtc := true, kind := .async } fuel c1 = process m { rtc := true, kind := .sync } fuel c1 := rfl
  rw [this]
  generalize process m { rtc := true, kind := .sync } fuel c1 = r2
  obtain ⟨c2, r2⟩ := r2
  cases r2 <;> rfl

/-- **C05 (initial activation first).** With the async engine the `__initial__` trigger is ahead of
the first event in the FIFO queue (C11_async_initial_first), and the log's trigger ids never
decrease (C03_history): its block precedes every other block. -/
theorem C05_initial_first (c : Cfg) (e : EventId) (hcur : c.cur = none) (hq : c.queue = []) :
    (enqueue e (start c).1).1.queue =
      [{ tid := c.nextTid, event := initialEv, internal := true }, { tid := c.nextTid + 1, event := e }] :=
  C11_async_initial_first c e hcur hq

/-- rtc=False is not available on the async engine: construction raises InvalidDefinition and
touches nothing -/
theorem C05_async_requires_rtc (m : Machine) (fuel : Nat) (c : Cfg) :
    construct m { rtc := false, kind := .async } fuel c = (c, .error .invalidDef) := rfl

end SMV
