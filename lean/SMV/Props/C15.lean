import SMV.Lemmas.DeclEngine
import SMV.Lemmas.DeclEquiv
import SMV.Lemmas.DeclAllowed
import SMV.Lemmas.DeclStyles
import SMV.Lemmas.DeclAny4
import SMV.Lemmas.DeclDeco
/-!
# C15 — every declaration style of the same machine yields the same machine

Model: `SMV.Model.Decl` (class body evaluation `elabBody` + metaclass processing `elabMeta`,
inheritance chains `elabProg`), linked to the engine model `SMV.Model.Engine` by `toMachine`.
What is trusted: that the real classes elaborate like the store model — checked on every run by the
correspondence harness (`harness/props/c15.py`: rendered Python source of random declaration
programs vs `drv_decl`).

`c₁ ≈ c₂` (`Decl.Equiv`): same states (id, value, flags, inline enter/exit), same event set, and for
every state and event the same ordered list of candidates (target, internal, validators, guards,
before/on/after). Theorems:

* `C15_behaviour`        `≈` classes behave identically on every operation sequence, for every user
                         code, valuation, option set and both processing modes (via
                         `tryCands_filter`: the engine only looks at per-event candidate lists);
* `C15_allowed`          … and allow the same events in every state;
* `C15_rewrite_anywhere` the style rewrites that are equalities of elaboration — (a) `to`/`from_`,
                         (b) multi-target/multi-source vs `|`, (c) `itself`, (d) spellings of
                         `event=`, (e) decorator-declared event vs assignment with `on=`,
                         (g) `States({...})`/`States.from_enum` — may be applied in any
                         context: under `|`, in any statement kind, between any statements, in any
                         class of an inheritance chain;
* `C15_any_partial`      (f) `e = t.from_.any(kw)` ≈ `e = t.from_(s₁,…,sₖ, kw)` after any class body;
                         hypotheses exclude exactly the recorded shapes of finding D16, each of
                         which has a proved negation witness below (`D16a … D16d`);
* `C15_any_two`          renderings connected by any chain of these rewrites are `≈`, hence behave
                         identically.

Not proved in general (only machine-checked on the instances below, `*_instance`, and exercised by
the correspondence): (d') one list assigned to two attributes vs `event="e1 e2"`; (e) `e = T` vs
`Event(T)` vs placeholder `Event(name=…)` + `event=e`; (h) base class + subclass vs one flat class;
and (f) with transition-creating statements after the `any()` statement (needs an index-shifting
simulation of the rest of the body).
-/
namespace SMV
open SMV.Decl

@[inherit_doc] scoped infix:50 " ≈ " => Decl.Equiv

/-! ## behaviour -/

/-- **C15 (behaviour).** Equivalent classes are indistinguishable for the engine: every trigger, every
`send`, every operation and every history gives the same result and the same configuration (model
field, queue, log of callback invocations with what they saw), whatever the callbacks do (`env.behav`),
whatever is truthy, with or without `allow_event_without_transition`, `start_value`, RTC or not. -/
theorem C15_behaviour {c₁ c₂ : Cls} (E : c₁ ≈ c₂) (env : Env) :
    (∀ (h : Nested) (t : Trigger), trigger h (toMachine env c₁) t = trigger h (toMachine env c₂) t) ∧
    (∀ (o : Opts) (fuel : Nat) (op : Op),
      stepOp (toMachine env c₁) o fuel op = stepOp (toMachine env c₂) o fuel op) ∧
    (∀ (o : Opts) (fuel : Nat) (ops : List Op) (cfg : Cfg),
      runOps (toMachine env c₁) o fuel ops cfg = runOps (toMachine env c₂) o fuel ops cfg) :=
  have M := Equiv.toMachine env E
  ⟨fun h t => trigger_congr h M t, fun o fuel op => stepOp_congr M o fuel op,
   fun o fuel ops cfg => runOps_congr M o fuel ops cfg⟩

/-- **C15 (allowed events).** -/
theorem C15_allowed {c₁ c₂ : Cls} (E : c₁ ≈ c₂) (s : SDecl) (hs : s ∈ c₁.states) (e : Name) :
    e ∈ allowed c₁ s.name ↔ e ∈ allowed c₂ s.name := E.allowed s hs e

/-! ## rewrites that hold in every context -/

/-- the elementary style rewrites on transition expressions, (a)–(d) -/
inductive TRule : TExpr → TExpr → Prop
  | to_from (a b : Name) (kw : Kw) : TRule (.to a [b] kw) (.from_ b [a] kw)
  | multi_target (s : Name) (ts₁ ts₂ : List Name) (kw : Kw) :
      TRule (.to s (ts₁ ++ ts₂) kw) (.or (.to s ts₁ kw) (.to s ts₂ kw))
  | multi_source (t : Name) (ss₁ ss₂ : List Name) (kw : Kw) :
      TRule (.from_ t (ss₁ ++ ss₂) kw) (.or (.from_ t ss₁ kw) (.from_ t ss₂ kw))
  | to_itself (a : Name) (kw : Kw) : TRule (.toItself a kw) (.to a [a] kw)
  | from_itself (a : Name) (kw : Kw) : TRule (.fromItself a kw) (.from_ a [a] kw)
  /-- any re-spelling of `event=` that denotes the same de-duplicated id sequence:
  `"e1 e2"`, `["e1","e2"]`, `[Event("e1"), "e2"]` (`spaced_eq_list`, `str_eq_obj`) -/
  | event_spelling (e : TExpr) (items : List EvItem) (h : kwEvents e.kwEvent = kwEvents items) :
      TRule e (e.withEvent items)

theorem TRule.sound {e e' : TExpr} (r : TRule e e') : TExpr.Eqv e e' := by
  cases r with
  | to_from a b kw => exact to_eq_from a b kw
  | multi_target s ts₁ ts₂ kw => exact to_split s ts₁ ts₂ kw
  | multi_source t ss₁ ss₂ kw => exact from_split t ss₁ ss₂ kw
  | to_itself a kw => exact toItself_eq a kw
  | from_itself a kw => exact fromItself_eq a kw
  | event_spelling e items h => exact Decl.event_spelling e items h

/-- the elementary style rewrites on statements: a `TRule` anywhere inside a statement, and (g) -/
inductive SRule : List Stmt → List Stmt → Prop
  | texpr (S : SCtx) {e e' : TExpr} (r : TRule e e') : SRule [S.fill e] [S.fill e']
  | states_dict (ss : List SDecl) : SRule [.statesDict ss] (ss.map .state)
  | states_enum (ms : List (Name × Val)) (i : Name) (fs : List Name) :
      SRule [.statesEnum ms i fs] ((enumStates ms i fs).map .state)
  /-- (e) `@T` / `def f(self): body` ↔ `f = T'`, `T'` = `T` with `body` appended to every `on=` -/
  | decorator (e : TExpr) (f : Name) (cb : CbId) (he : e.fresh cb) :
      SRule [.decorated e f cb] [.assign f (e.withOn cb)]

theorem SRule.sound {s s' : List Stmt} (r : SRule s s') : Stmts.Eqv s s' := by
  cases r with
  | texpr S r => exact S.congr r.sound
  | states_dict ss => exact statesDict_eq ss
  | states_enum ms i fs => exact statesEnum_eq ms i fs
  | decorator e f cb he => exact decorated_eq e f cb he

/-- **C15 (a)(b)(c)(d)(e-decorator)(g), with full congruence.** A style rewrite applied to any statement(s) of any
class of an inheritance chain — between arbitrary statements `p`, `q`, below arbitrary base classes
`pre`, above arbitrary subclasses `post` — does not change the elaborated class at all. -/
theorem C15_rewrite_anywhere {s s' : List Stmt} (r : SRule s s') (p q : List Stmt)
    (pre post : List (List Stmt)) :
    elabProg (pre ++ [p ++ s ++ q] ++ post) = elabProg (pre ++ [p ++ s' ++ q] ++ post) :=
  elabProg_congr (r.sound.context p q) pre post

/-! ## (f) `from_.any()` -/

/-- **C15 (f), partial.** After any class body `p`, the statement `e = t.from_.any(kw)` and the
statement `e = t.from_(s₁, …, sₖ, kw)`, `s₁ … sₖ` the non-final states of the class in declaration
order, declare equivalent classes — provided that
* every *non-final* state is declared before the event: the states `fs` declared after it are all
  final (and new, and nothing in `p` leaves them) (`D16a`),
* the event's expression holds no other transition (here: it is exactly the `any()` call; `D16b`),
* `kw` carries no `event=` (`D16d`) and is not `internal` (`AnyState` is never the target),
* `e` is not assigned in `p`,
and the class has no base class that already used `from_.any()` (here: no base class; `D16c`).
Missing for the full statement (f): transition-creating statements after the `any()` statement (the
proof would need an index-shifting simulation of the rest of the body). -/
theorem C15_any_partial (p : List Stmt) (fs : List SDecl) (e t : Name) (kw : Kw)
    (hev : kw.event = []) (hint : kw.internal = false)
    (hfresh : e ∉ (elabBody {} p).attrs.map (·.1))
    (hfinal : ∀ f ∈ fs, f.final = true)
    (hnew : ∀ f ∈ fs, f.name ∉ (declared (elabBody {} p).attrs).map (·.name) ∧
      ∀ t' ∈ (elabBody {} p).trans, t'.source ≠ .st f.name) :
    elabClass {} (p ++ [.assign e (.fromAny t kw)] ++ fs.map .state) ≈
      elabClass {} (p ++ [.assign e (.from_ t
        (((declared (elabBody {} p).attrs ++ fs).filter (!·.final)).map (·.name)) kw)] ++ fs.map .state) :=
  any_partial_q p fs e t kw hev hint hfresh hfinal hnew

/-! ## chains of rewrites -/

/-- programs connected by style rewrites -/
inductive Rewrites : List (List Stmt) → List (List Stmt) → Prop
  | refl (P : List (List Stmt)) : Rewrites P P
  | symm {P Q : List (List Stmt)} : Rewrites P Q → Rewrites Q P
  | trans {P Q R : List (List Stmt)} : Rewrites P Q → Rewrites Q R → Rewrites P R
  | style {s s' : List Stmt} (r : SRule s s') (p q : List Stmt) (pre post : List (List Stmt)) :
      Rewrites (pre ++ [p ++ s ++ q] ++ post) (pre ++ [p ++ s' ++ q] ++ post)
  | any (p : List Stmt) (fs : List SDecl) (e t : Name) (kw : Kw) (hev : kw.event = [])
      (hint : kw.internal = false) (hfresh : e ∉ (elabBody {} p).attrs.map (·.1))
      (hfinal : ∀ f ∈ fs, f.final = true)
      (hnew : ∀ f ∈ fs, f.name ∉ (declared (elabBody {} p).attrs).map (·.name) ∧
        ∀ t' ∈ (elabBody {} p).trans, t'.source ≠ .st f.name) :
      Rewrites [p ++ [.assign e (.fromAny t kw)] ++ fs.map .state]
        [p ++ [.assign e (.from_ t
          (((declared (elabBody {} p).attrs ++ fs).filter (!·.final)).map (·.name)) kw)] ++ fs.map .state]

/-- **C15 (any two renderings).** Renderings connected by any chain of the proved rewrites declare
equivalent classes … -/
theorem C15_any_two {P Q : List (List Stmt)} (h : Rewrites P Q) : elabProg P ≈ elabProg Q := by
  induction h with
  | refl P => exact Equiv.refl _
  | symm _ ih => exact ih.symm
  | trans _ _ ih1 ih2 => exact ih1.trans ih2
  | style r p q pre post => rw [C15_rewrite_anywhere r p q pre post]; exact Equiv.refl _
  | any p fs e t kw hev hint hfresh hfinal hnew => exact any_partial_q p fs e t kw hev hint hfresh hfinal hnew

/-- … hence behave identically on every history. -/
theorem C15_any_two_behaviour {P Q : List (List Stmt)} (h : Rewrites P Q) (env : Env) (o : Opts)
    (fuel : Nat) (ops : List Op) (cfg : Cfg) :
    runOps (toMachine env (elabProg P)) o fuel ops cfg = runOps (toMachine env (elabProg Q)) o fuel ops cfg :=
  (C15_behaviour (C15_any_two h) env).2.2 o fuel ops cfg

/-! ## non-vacuity, negation witnesses (finding D16), instances of the unproved rewrites -/

namespace C15ex

def sA : SDecl := { name := 0, initial := true }
def sB : SDecl := { name := 1, value := some 7, enter := [3] }
def sZ : SDecl := { name := 2, final := true }
def nokw : Kw := {}
def guarded : Kw := { cond := [1], on := [2] }
/-- event ids -/
def go : Name := 10
def stop : Name := 11
def x : Name := 12

def body : List Stmt := [.state sA, .state sB, .state sZ, .assign go (.to 0 [1] guarded)]

/-- non-vacuity of `C15_any_partial` (and of `C15_behaviour`): the hypotheses hold, the two classes
are different objects (different stores), and the explicit list is `[s0, s1]` -/
example : elabClass {} (body ++ [.assign stop (.fromAny 2 guarded)] ++ [.state { name := 4, final := true }]) ≈
    elabClass {} (body ++ [.assign stop (.from_ 2 [0, 1] guarded)] ++ [.state { name := 4, final := true }]) :=
  C15_any_partial body [{ name := 4, final := true }] stop 2 guarded rfl rfl (by decide) (by decide) (by decide)

example : elabClass {} (body ++ [.assign stop (.fromAny 2 guarded)]) ≠
    elabClass {} (body ++ [.assign stop (.from_ 2 [0, 1] guarded)]) := by decide

example : cands (elabClass {} (body ++ [.assign stop (.fromAny 2 guarded)])) 1 stop =
    [⟨2, false, [], [(1, true)], [], [2], []⟩] := by decide

/-- non-vacuity of `C15_rewrite_anywhere`: a multi-target call under `|` inside a decorator, in a
subclass -/
example : elabProg [body, [.decorated (.or (.to 1 [0, 2] nokw) (.ref go)) x 5]] =
    elabProg [body, [.decorated (.or (.or (.to 1 [0] nokw) (.to 1 [2] nokw)) (.ref go)) x 5]] :=
  C15_rewrite_anywhere (.texpr (.decorated (.orL .hole (.ref go)) x 5) (.multi_target 1 [0] [2] nokw))
    [] [] [body] []

/-- non-vacuity of the decorator rule -/
example : SRule [.decorated (.or (.to 1 [2] guarded) (.from_ 0 [1] nokw)) stop 9]
    [.assign stop (.or (.to 1 [2] { guarded with on := [2, 9] }) (.from_ 0 [1] { nokw with on := [9] }))] :=
  .decorator _ stop 9 ⟨by show 9 ∉ [2]; decide, by show 9 ∉ []; decide⟩

/-- non-vacuity of the `event=` rule: `"go x"` ↔ `[Event("go"), "x"]` -/
example : TRule (.to 0 [1] { nokw with event := [.str [go, x]] })
    (.to 0 [1] { nokw with event := [.obj go, .str [x]] }) :=
  .event_spelling (.to 0 [1] { nokw with event := [.str [go, x]] }) [.obj go, .str [x]] rfl

/-! ### D16: the excluded shapes are genuinely different (as-is behaviour of the code) -/

/-- D16a: a state declared after the event gets no `any()` transition -/
theorem D16a_state_declared_later :
    ¬ (elabClass {} [.state sA, .state sZ, .assign stop (.fromAny 2 nokw), .state sB, .assign go (.to 0 [1] nokw)] ≈
       elabClass {} [.state sA, .state sZ, .assign stop (.from_ 2 [0, 1] nokw), .state sB, .assign go (.to 0 [1] nokw)]) := by
  intro h
  have := h.cands sB (by decide) stop
  revert this
  decide

/-- D16b: the expansions are ordered after explicit transitions of the same event -/
theorem D16b_ordered_after_explicit :
    ¬ (elabClass {} (body ++ [.assign stop (.or (.fromAny 2 guarded) (.to 0 [1] nokw))]) ≈
       elabClass {} (body ++ [.assign stop (.or (.from_ 2 [0, 1] guarded) (.to 0 [1] nokw))])) := by
  intro h
  have := h.cands sA (by decide) stop
  revert this
  decide

/-- D16c (repaired by commit 8ac2dc6): a subclass no longer expands the base's `any()` again —
base class + subclass is equivalent to the flat class also when the base uses `from_.any()` -/
theorem D16c_fixed_instance :
    elabProg [body ++ [.assign stop (.fromAny 2 guarded)], [.assign x (.to 1 [0] nokw)]] ≈
    elabProg [body ++ [.assign stop (.fromAny 2 guarded)] ++ [.assign x (.to 1 [0] nokw)]] :=
  equivB_sound (by decide)

/-- D16c, the code before the repair: registering the inherited states re-ran the expansion, the
subclass (and, through the shared `State` objects, the base class) held duplicates -/
theorem D16c_as_is_duplicated_by_subclass :
    ¬ (elabClassAsIs (elabClass {} (body ++ [.assign stop (.fromAny 2 guarded)])) [.assign x (.to 1 [0] nokw)] ≈
       elabProg [body ++ [.assign stop (.fromAny 2 guarded)] ++ [.assign x (.to 1 [0] nokw)]]) := by
  intro h
  have := h.cands sA (by decide) stop
  revert this
  decide

/-- D16d: `event=` given to `any()` is dropped -/
theorem D16d_event_kw_dropped :
    ¬ (elabClass {} (body ++ [.assign stop (.fromAny 2 { nokw with event := [.str [x]] })]) ≈
       elabClass {} (body ++ [.assign stop (.from_ 2 [0, 1] { nokw with event := [.str [x]] })])) := by
  intro h
  have := (h.events x).mpr (by decide)
  revert this
  decide

/-! ### instances of the rewrites that are not proved in general (checked by evaluation) -/

/-- (d') one list assigned to two attributes ↔ `event="stop x"` on a statement-only transition -/
theorem shared_list_instance :
    elabClass {} (body ++ [.assign stop (.to 1 [2] guarded), .assign x (.ref stop)]) ≈
    elabClass {} (body ++ [.bare (.to 1 [2] { guarded with event := [.str [stop, x]] })]) :=
  equivB_sound (by decide)

/-- (e) `stop = T` ↔ `stop = Event(T, name=…)` ↔ placeholder `stop = Event(name=…)` + `event=stop`
↔ `@T def stop(self): cb2` with `on` callback 2 -/
theorem explicit_event_instance :
    elabClass {} (body ++ [.assign stop (.to 1 [2] guarded)]) ≈
    elabClass {} (body ++ [.eventOf stop (.to 1 [2] guarded)]) := equivB_sound (by decide)

theorem placeholder_instance :
    elabClass {} (body ++ [.assign stop (.to 1 [2] guarded)]) ≈
    elabClass {} ([.placeholder stop] ++ body ++ [.bare (.to 1 [2] { guarded with event := [.ph stop] })]) :=
  equivB_sound (by decide)

theorem decorator_instance :
    elabClass {} (body ++ [.assign stop (.to 1 [2] guarded)]) ≈
    elabClass {} (body ++ [.decorated (.to 1 [2] { guarded with on := [] }) stop 2]) :=
  equivB_sound (by decide)

/-- (h) base class + subclass ↔ one flat class (no `any()` in the base) -/
theorem inheritance_instance :
    elabProg [body, [.state { name := 3 }, .assign stop (.or (.to 1 [3] nokw) (.from_ 2 [3] guarded))]] ≈
    elabProg [body ++ [.state { name := 3 }, .assign stop (.or (.to 1 [3] nokw) (.from_ 2 [3] guarded))]] :=
  equivB_sound (by decide)

/-- non-vacuity of `C15_behaviour`'s conclusion on an instance: sending `stop` in `s1` with a true guard
moves both renderings to `s2` -/
example : let env : Env := { behav := fun _ _ _ => { ret := 1 }, truthy := fun v => v == 1 }
    let m := toMachine env (elabClass {} (body ++ [.assign stop (.fromAny 2 guarded)]))
    (runOps m {} 10 [.construct, .send go, .send stop] {}).cur = some (valOf sZ) := by decide

end C15ex
end SMV
