import SMV.Model.Decl
namespace SMV

/-- the candidate loop only looks at transitions bound to the event -/
theorem tryCands_filter (h : Nested) (m : Machine) (t : Trigger) (l : List Transn) :
    tryCands h m t l = tryCands h m t (l.filter (matchesEv · t.event)) := by
  induction l with
  | nil => rfl
  | cons tr rest ih =>
    by_cases hm : matchesEv tr t.event = true
    · simp only [List.filter_cons, hm, if_true]
      unfold tryCands
      simp only [hm, if_true]
      congr 1
      funext r
      cases r with
      | none => exact ih
      | some v => rfl
    · simp only [List.filter_cons, hm]
      conv => lhs; unfold tryCands
      simp only [hm]
      exact ih

end SMV
