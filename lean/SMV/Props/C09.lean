import SMV.Lemmas.Bfs
/-!
# C09 — Class-definition validation accepts exactly the well-formed machines

Model: `SMV.Validate.check` (`SMV/Model/Validate.lean`), the metaclass checks in the code's order
with `visit_connected_states` as a worklist loop. Specification (this file): `HasTransition`,
`Reach` (inductive reflexive-transitive closure of "has a transition to"), `WellFormed`, `Trap`,
`NoPath`, all written from the English statement, without reference to the worklist loop or to
the order of the checks.

Main results: `bfs_sound_complete`, `C09_iff` (+ `C09_iff_nonstrict`, `not_accepts_iff_rejects`,
`C09_abstract`), `C09_strict` (+ `C09_strict_reason`, `mem_trapStates`, `mem_noPathToFinal`,
`check_of_wellFormed`), `mem_edges` (the graph the checks see is the specified "has a transition
to" relation, including the `from_.any()` expansion). All hold for every definition: any number of
states, any transition multiset, indices in or out of range.

Trusted: that `check` is what the library does — established by the correspondence check
(`harness/props/c09.py`: exhaustive enumeration of small definitions against the real metaclass
and against an independent Warshall-closure oracle), not by proof. One deliberate reading of the
statement: a class with neither states nor events is accepted unchecked (`C09_abstract`; it is
the library's notion of an abstract base and cannot be instantiated), so `C09_iff` is stated for
classes that declare something.
-/
namespace SMV.Validate
open ClassDef

/-! ## Specification -/

def TSpec.internal : TSpec → Bool
  | .edge _ _ i => i
  | .any _ i _ => i

/-- state `a` has a transition to state `b`: an explicit `a.to(b)` was written (bound to an event
or not), or `b.from_.any()` was bound to an event when `a`, non-final, was already declared -/
def HasTransition (d : ClassDef) (a b : Nat) : Prop :=
  (∃ i, TSpec.edge a b i ∈ d.specs) ∨
  (∃ ev ∈ d.events, ∃ i u, TSpec.any b i u ∈ ev ∧ a < u ∧ a < d.n ∧ d.isFinal a = false)

/-- reflexive-transitive closure of "has a transition to" -/
inductive Reach (d : ClassDef) : Nat → Nat → Prop
  | refl (a) : Reach d a a
  | step {a b c} : Reach d a b → HasTransition d b c → Reach d a c

/-- "at least one state and one event, exactly one initial state, no transition leaving a final
state, internal transitions only as self-transitions, every state reachable from the initial one" -/
structure WellFormed (d : ClassDef) : Prop where
  has_state : d.states ≠ []
  has_event : d.events ≠ []
  one_initial : ∃ i, d.isInitial i = true ∧ ∀ j, d.isInitial j = true → j = i
  final_no_out : ∀ a b, d.isFinal a = true → ¬ HasTransition d a b
  internal_self : ∀ sp ∈ d.specs, sp.internal = true → ∃ a, sp = .edge a a true
  all_reachable : ∀ i j, d.isInitial i = true → j < d.n → Reach d i j

/-- a declared non-final state without outgoing transitions -/
def Trap (d : ClassDef) (i : Nat) : Prop :=
  i < d.n ∧ d.isFinal i = false ∧ ∀ b, ¬ HasTransition d i b

/-- (when final states exist) a declared non-final state without a path to a final state -/
def NoPath (d : ClassDef) (i : Nat) : Prop :=
  (∃ f, d.isFinal f = true) ∧ i < d.n ∧ d.isFinal i = false ∧ ∀ f, Reach d i f → d.isFinal f = false

/-- neither states nor events: the metaclass skips validation (base classes such as
`StateMachine` itself); such a class cannot be instantiated -/
def Abstract (d : ClassDef) : Prop := d.states = [] ∧ d.events = []

/-- the class statement completes -/
def accepts (d : ClassDef) : Prop := ∃ a ws, check d = .ok a ws
/-- the class statement raises `InvalidDefinition` -/
def rejects (d : ClassDef) : Prop := ∃ r l, check d = .invalid r l

theorem accepts_or_rejects (d : ClassDef) : accepts d ∨ rejects d := by
  unfold accepts rejects
  cases check d with
  | invalid r l => exact Or.inr ⟨r, l, rfl⟩
  | ok a ws => exact Or.inl ⟨a, ws, rfl⟩

theorem not_accepts_iff_rejects (d : ClassDef) : ¬ accepts d ↔ rejects d := by
  unfold accepts rejects
  cases check d <;> simp

/-! ## The graph the checks see is the specified one -/

theorem isFinal_lt {d : ClassDef} {i : Nat} (h : d.isFinal i = true) : i < d.n := by
  unfold isFinal at h
  split at h
  · next s hs => exact (List.getElem?_eq_some_iff.mp hs).1
  · cases h

theorem isInitial_lt {d : ClassDef} {i : Nat} (h : d.isInitial i = true) : i < d.n := by
  unfold isInitial at h
  split at h
  · next s hs => exact (List.getElem?_eq_some_iff.mp hs).1
  · cases h

theorem mem_edges (d : ClassDef) (a b : Nat) : (⟨a, b⟩ : Edge) ∈ d.edges ↔ HasTransition d a b := by
  unfold edges HasTransition specs
  simp only [List.mem_append, List.mem_flatten, List.mem_map]
  constructor
  · rintro (⟨l, ⟨sp, ⟨ev, hev, hsp⟩, rfl⟩, h⟩ | ⟨l, ⟨sp, hsp, rfl⟩, h⟩)
    · cases sp with
      | edge s t i =>
        simp only [expandBound, List.mem_singleton, Edge.mk.injEq] at h
        obtain ⟨rfl, rfl⟩ := h
        exact Or.inl ⟨i, Or.inl ⟨ev, hev, hsp⟩⟩
      | any t i u =>
        simp only [expandBound, expandAny, List.mem_map, List.mem_filter, List.mem_range,
          Edge.mk.injEq, Bool.not_eq_true'] at h
        obtain ⟨x, ⟨hx, hf⟩, rfl, rfl⟩ := h
        exact Or.inr ⟨ev, hev, i, u, hsp, by omega, by omega, hf⟩
    · cases sp with
      | edge s t i =>
        simp only [expandLoose, List.mem_singleton, Edge.mk.injEq] at h
        obtain ⟨rfl, rfl⟩ := h
        exact Or.inl ⟨i, Or.inr hsp⟩
      | any t i u => simp [expandLoose] at h
  · rintro (⟨i, ⟨ev, hev, hsp⟩ | hsp⟩ | ⟨ev, hev, i, u, hsp, hau, han, hf⟩)
    · exact Or.inl ⟨_, ⟨_, ⟨ev, hev, hsp⟩, rfl⟩, by simp [expandBound]⟩
    · exact Or.inr ⟨_, ⟨_, hsp, rfl⟩, by simp [expandLoose]⟩
    · refine Or.inl ⟨_, ⟨_, ⟨ev, hev, hsp⟩, rfl⟩, ?_⟩
      simp only [expandBound, expandAny, List.mem_map, List.mem_filter, List.mem_range,
        Edge.mk.injEq, Bool.not_eq_true']
      exact ⟨a, ⟨by omega, hf⟩, rfl, trivial⟩

theorem mem_succ (d : ClassDef) (a b : Nat) : b ∈ d.succ a ↔ HasTransition d a b := by
  rw [← mem_edges]
  unfold succ
  simp only [List.mem_map, List.mem_filter, beq_iff_eq]
  constructor
  · rintro ⟨⟨s, t⟩, ⟨he, rfl⟩, rfl⟩; exact he
  · intro h; exact ⟨⟨a, b⟩, ⟨h, rfl⟩, rfl⟩

theorem reach_iff_reachS (d : ClassDef) (a b : Nat) : Reach d a b ↔ ReachS d.succ a b := by
  constructor
  · intro h
    induction h with
    | refl => exact ReachS.refl _
    | step _ hbc ih => exact ReachS.step ih ((mem_succ d _ _).mpr hbc)
  · intro h
    induction h with
    | refl => exact Reach.refl _
    | step _ hbc ih => exact Reach.step ih ((mem_succ d _ _).mp hbc)

/-! ## `visit_connected_states` computes reachability -/

/-- **The worklist loop visits exactly the states reachable from its start**, for every graph
(cycles, self-loops, parallel edges), with no bound on its size: the fuel `|edges| + 1` given by
`bfs` never runs out, because the visited list is duplicate-free and contained in
`{s} ∪ targets`. -/
theorem bfs_sound_complete (d : ClassDef) (s t : Nat) : t ∈ d.bfs s ↔ Reach d s t := by
  rw [reach_iff_reachS]
  unfold bfs
  apply go_sound_complete d.succ (s :: d.edges.map (·.tgt))
  · intro a b hb
    unfold succ at hb
    simp only [List.mem_map, List.mem_filter] at hb
    obtain ⟨e, ⟨he, _⟩, rfl⟩ := hb
    exact List.mem_cons_of_mem _ (List.mem_map_of_mem he)
  · exact List.mem_cons_self
  · simp

/-! ## Each check decides its clause -/

theorem constructible_iff (sp : TSpec) :
    sp.constructible = true ↔ (sp.internal = true → ∃ a, sp = .edge a a true) := by
  cases sp with
  | edge s t i =>
    cases i <;> simp [TSpec.constructible, TSpec.internal]
    exact eq_comm
  | any t i u => cases i <;> simp [TSpec.constructible, TSpec.internal]

theorem specs_constructible_iff (d : ClassDef) :
    d.specs.all TSpec.constructible = true ↔
      ∀ sp ∈ d.specs, sp.internal = true → ∃ a, sp = .edge a a true := by
  simp only [List.all_eq_true, constructible_iff]

theorem mem_initials (d : ClassDef) (i : Nat) : i ∈ d.initials ↔ d.isInitial i = true := by
  unfold initials
  simp only [List.mem_filter, List.mem_range, and_iff_right_iff_imp]
  exact isInitial_lt

theorem nodup_initials (d : ClassDef) : d.initials.Nodup :=
  List.Nodup.sublist List.filter_sublist List.nodup_range

/-- "the list of initial states has length one" is "exactly one state is initial" -/
theorem initials_length_one_iff (d : ClassDef) :
    d.initials.length = 1 ↔ ∃ i, d.isInitial i = true ∧ ∀ j, d.isInitial j = true → j = i := by
  have hnd := nodup_initials d
  simp only [← mem_initials]
  generalize d.initials = l at *
  constructor
  · intro h
    match l, h with
    | [i], _ => exact ⟨i, by simp, by simp⟩
  · rintro ⟨i, hi, hu⟩
    match l, hnd, hi, hu with
    | [a], _, _, _ => rfl
    | a :: b :: r, hnd, _, hu =>
      have ha := hu a (by simp)
      have hb := hu b (by simp)
      simp only [List.nodup_cons, List.mem_cons, not_or] at hnd
      omega

/-- `next(s for s in states if s.initial)` is the unique initial state -/
theorem initIdx_eq {d : ClassDef} {i : Nat} (hi : d.isInitial i = true)
    (hu : ∀ j, d.isInitial j = true → j = i) : d.initIdx = i := by
  apply hu
  unfold isInitial at hi
  split at hi
  · next s hs =>
    have hmem : s ∈ d.states := List.mem_of_getElem? hs
    have hlt : d.initIdx < d.states.length :=
      List.findIdx_lt_length_of_exists ⟨s, hmem, hi⟩
    have := List.findIdx_getElem (p := fun x : StateDef => x.initial) (xs := d.states) (w := hlt)
    unfold isInitial
    rw [List.getElem?_eq_getElem (by exact hlt)]
    exact this
  · cases hi

theorem finalsWithTransitions_nil_iff (d : ClassDef) :
    d.finalsWithTransitions = [] ↔ ∀ a b, d.isFinal a = true → ¬ HasTransition d a b := by
  unfold finalsWithTransitions
  simp only [List.filter_eq_nil_iff, List.mem_range, Bool.and_eq_true, List.any_eq_true,
    beq_iff_eq, not_and, not_exists]
  constructor
  · intro h a b hf ht
    exact h a (isFinal_lt hf) hf ⟨a, b⟩ ((mem_edges d a b).mpr ht) rfl
  · intro h a _ hf e he hsrc
    cases e with
    | mk s t =>
      simp only at hsrc; subst hsrc
      exact h s t hf ((mem_edges d s t).mp he)

theorem disconnected_nil_iff (d : ClassDef) :
    d.disconnected = [] ↔ ∀ j, j < d.n → Reach d d.initIdx j := by
  unfold disconnected
  simp only [List.filter_eq_nil_iff, List.mem_range, Bool.not_eq_false,
    List.contains_iff_mem, bfs_sound_complete, Bool.not_eq_eq_eq_not, Bool.not_true]

theorem edges_any_src (d : ClassDef) (i : Nat) :
    d.edges.any (fun e => e.src == i) = true ↔ ∃ b, HasTransition d i b := by
  simp only [List.any_eq_true, beq_iff_eq]
  constructor
  · rintro ⟨⟨s, t⟩, he, rfl⟩; exact ⟨t, (mem_edges d s t).mp he⟩
  · rintro ⟨b, hb⟩; exact ⟨⟨i, b⟩, (mem_edges d i b).mpr hb, rfl⟩

/-- the states named by the "no outgoing transition" message are exactly the trap states -/
theorem mem_trapStates (d : ClassDef) (i : Nat) : i ∈ d.trapStates ↔ Trap d i := by
  unfold trapStates Trap
  simp only [List.mem_filter, List.mem_range, Bool.and_eq_true, Bool.not_eq_true']
  have := edges_any_src d i
  constructor
  · rintro ⟨hlt, hf, ha⟩
    refine ⟨hlt, hf, fun b hb => ?_⟩
    have := this.mpr ⟨b, hb⟩
    simp [ha] at this
  · rintro ⟨hlt, hf, hno⟩
    refine ⟨hlt, hf, ?_⟩
    cases h : d.edges.any (fun e => e.src == i) with
    | false => rfl
    | true => obtain ⟨b, hb⟩ := this.mp h; exact absurd hb (hno b)

theorem states_any_final (d : ClassDef) :
    d.states.any (·.final) = true ↔ ∃ f, d.isFinal f = true := by
  simp only [List.any_eq_true]
  constructor
  · rintro ⟨s, hs, hf⟩
    obtain ⟨i, hi, rfl⟩ := List.getElem_of_mem hs
    exact ⟨i, by simp [isFinal, List.getElem?_eq_getElem hi, hf]⟩
  · rintro ⟨f, hf⟩
    unfold isFinal at hf
    split at hf
    · next s hs => exact ⟨s, List.mem_of_getElem? hs, hf⟩
    · cases hf

/-- the states named by the "no path to a final state" message are exactly those without one -/
theorem mem_noPathToFinal (d : ClassDef) (i : Nat) : i ∈ d.noPathToFinal ↔ NoPath d i := by
  unfold noPathToFinal NoPath
  by_cases hany : d.states.any (·.final) = true
  · have hex := (states_any_final d).mp hany
    simp only [hany, if_true, List.mem_filter, List.mem_range, Bool.and_eq_true,
      Bool.not_eq_true', List.any_eq_false, bfs_sound_complete, hex, true_and]
    constructor
    · rintro ⟨hlt, hf, h⟩
      exact ⟨hlt, hf, fun f hr => by simpa using h f hr⟩
    · rintro ⟨hlt, hf, h⟩
      exact ⟨hlt, hf, fun f hr => by simpa using h f hr⟩
  · have hex : ¬ ∃ f, d.isFinal f = true := fun h => hany ((states_any_final d).mpr h)
    simp [hany, hex]

/-! ## The main theorems -/

theorem isEmpty_eq_false_iff {α} (l : List α) : l.isEmpty = false ↔ l ≠ [] := by
  cases l <;> simp

/-- closed form of `check` on every non-abstract definition whose structural clauses hold -/
theorem check_of_wellFormed {d : ClassDef} (hw : WellFormed d) :
    check d =
      if d.strict = true then
        if d.trapStates ≠ [] then .invalid .trap d.trapStates
        else if d.noPathToFinal ≠ [] then .invalid .noPathToFinal d.noPathToFinal
        else .ok false []
      else .ok false ([d.trapStates, d.noPathToFinal].filter (fun w => !w.isEmpty)) := by
  obtain ⟨hs, he, hi, hf, hint, hr⟩ := hw
  have h1 : d.specs.all TSpec.constructible = true := (specs_constructible_iff d).mpr hint
  have h2 : d.states.isEmpty = false := (isEmpty_eq_false_iff _).mpr hs
  have h3 : d.events.isEmpty = false := (isEmpty_eq_false_iff _).mpr he
  have h4 : d.initials.length = 1 := (initials_length_one_iff d).mpr hi
  have h5 : d.finalsWithTransitions = [] := (finalsWithTransitions_nil_iff d).mpr hf
  have h6 : d.disconnected = [] := by
    obtain ⟨i, hi1, hi2⟩ := hi
    rw [disconnected_nil_iff, initIdx_eq hi1 hi2]
    exact fun j hj => hr i j hi1 hj
  unfold check
  simp only [h1, h2, h3, h4, h5, h6, Bool.not_true, Bool.false_and, List.isEmpty_nil,
    bne_self_eq_false, Bool.false_eq_true, if_false, strictStep]
  cases hst : d.strict <;> cases ht : d.trapStates <;> cases hn : d.noPathToFinal <;> simp

/-- **C09 (acceptance).** A class that declares anything at all is accepted iff it is well formed
and — under `strict_states=True` — has neither a trap state nor a state without a path to a
final state. Otherwise (`not_accepts_iff_rejects`) the class statement raises
`InvalidDefinition`. For every number of states, every transition multiset, every flag
assignment. -/
theorem C09_iff (d : ClassDef) (hna : ¬ Abstract d) :
    accepts d ↔ WellFormed d ∧ (d.strict = true → ∀ i, ¬ Trap d i ∧ ¬ NoPath d i) := by
  have hstrict : (∀ i, ¬ Trap d i ∧ ¬ NoPath d i) ↔ d.trapStates = [] ∧ d.noPathToFinal = [] := by
    simp only [← mem_trapStates, ← mem_noPathToFinal, List.eq_nil_iff_forall_not_mem]
    exact ⟨fun h => ⟨fun i => (h i).1, fun i => (h i).2⟩, fun h i => ⟨h.1 i, h.2 i⟩⟩
  rw [hstrict]
  constructor
  · rintro ⟨a, ws, hc⟩
    -- read the clauses off the chain of tests
    have hc0 := hc
    unfold check at hc
    split at hc; · cases hc
    next h1 =>
    split at hc
    · next habs =>
      exfalso; apply hna
      simp only [Bool.and_eq_true, List.isEmpty_iff] at habs
      exact habs
    next habs =>
    split at hc; · cases hc
    next h2 =>
    split at hc; · cases hc
    next h3 =>
    split at hc; · cases hc
    next h4 =>
    split at hc; · cases hc
    next h5 =>
    split at hc; · cases hc
    next h6 =>
    simp only [Bool.not_eq_false, Bool.not_eq_eq_eq_not, Bool.not_true,
      bne_iff_ne, ne_eq, Decidable.not_not, List.isEmpty_iff,
      isEmpty_eq_false_iff] at h1 h2 h3 h4 h5 h6
    have hone := (initials_length_one_iff d).mp h4
    have hwf : WellFormed d := by
      refine ⟨h2, h3, hone, (finalsWithTransitions_nil_iff d).mp h5,
        (specs_constructible_iff d).mp h1, ?_⟩
      obtain ⟨i, hi1, hi2⟩ := hone
      intro i' j hi' hj
      rw [hi2 i' hi', ← initIdx_eq hi1 hi2]
      exact (disconnected_nil_iff d).mp h6 j hj
    refine ⟨hwf, fun hst => ?_⟩
    rw [check_of_wellFormed hwf] at hc0
    simp only [hst, if_true] at hc0
    split at hc0; · cases hc0
    next ht =>
    split at hc0; · cases hc0
    next hn =>
    exact ⟨Decidable.not_not.mp ht, Decidable.not_not.mp hn⟩
  · rintro ⟨hwf, hst⟩
    rw [accepts, check_of_wellFormed hwf]
    cases hs : d.strict with
    | false => exact ⟨_, _, rfl⟩
    | true =>
      obtain ⟨ht, hn⟩ := hst hs
      simp [ht, hn]

/-- without `strict_states`: accepted iff well formed -/
theorem C09_iff_nonstrict (d : ClassDef) (hna : ¬ Abstract d) (hs : d.strict = false) :
    accepts d ↔ WellFormed d := by
  rw [C09_iff d hna]; simp [hs]

/-- a class with no states, no events (and no stray transitions) is accepted unchecked as an
abstract base -/
theorem C09_abstract (d : ClassDef) (ha : Abstract d) (hl : d.loose = []) :
    check d = .ok true [] := by
  obtain ⟨h1, h2⟩ := ha
  simp [check, specs, h1, h2, hl]

/-- **C09 (strict_states).** On a well-formed definition: under `strict_states=True` the class
is rejected iff some state is a trap or has no path to a final state; otherwise the class is
accepted and the states named in the warnings are exactly those states (first warning: exactly
the trap states; second: exactly the states without a path to a final state; a warning is
emitted iff its set is non-empty). -/
theorem C09_strict (d : ClassDef) (hw : WellFormed d) :
    (d.strict = true → (rejects d ↔ ∃ i, Trap d i ∨ NoPath d i)) ∧
    (d.strict = false → ∃ ws, check d = .ok false ws ∧
        ws = [d.trapStates, d.noPathToFinal].filter (fun w => !w.isEmpty) ∧
        (∀ i, i ∈ d.trapStates ↔ Trap d i) ∧ (∀ i, i ∈ d.noPathToFinal ↔ NoPath d i) ∧
        (∀ i, (∃ w ∈ ws, i ∈ w) ↔ Trap d i ∨ NoPath d i)) := by
  have hc := check_of_wellFormed hw
  constructor
  · intro hs
    have hna : ¬ Abstract d := fun h => hw.has_state h.1
    rw [← not_accepts_iff_rejects, C09_iff d hna]
    simp only [hw, hs, true_and, forall_const]
    constructor
    · intro h
      apply Classical.byContradiction
      intro hne
      exact h fun i => ⟨fun ht => hne ⟨i, Or.inl ht⟩, fun hn => hne ⟨i, Or.inr hn⟩⟩
    · rintro ⟨i, hi⟩ h
      rcases hi with hi | hi
      · exact (h i).1 hi
      · exact (h i).2 hi
  · intro hs
    simp only [hs, Bool.false_eq_true, if_false] at hc
    refine ⟨_, hc, rfl, mem_trapStates d, mem_noPathToFinal d, fun i => ?_⟩
    rw [← mem_trapStates, ← mem_noPathToFinal]
    simp only [List.mem_filter, List.mem_cons, List.not_mem_nil, or_false, Bool.not_eq_true',
      isEmpty_eq_false_iff]
    constructor
    · rintro ⟨w, ⟨rfl | rfl, _⟩, hi⟩
      · exact Or.inl hi
      · exact Or.inr hi
    · rintro (hi | hi)
      · exact ⟨_, ⟨Or.inl rfl, List.ne_nil_of_mem hi⟩, hi⟩
      · exact ⟨_, ⟨Or.inr rfl, List.ne_nil_of_mem hi⟩, hi⟩

/-- which exception: the first failing test, with the states it names (strict mode) -/
theorem C09_strict_reason (d : ClassDef) (hw : WellFormed d) (hs : d.strict = true) :
    (d.trapStates ≠ [] → check d = .invalid .trap d.trapStates) ∧
    (d.trapStates = [] → d.noPathToFinal ≠ [] →
      check d = .invalid .noPathToFinal d.noPathToFinal) := by
  rw [check_of_wellFormed hw]
  simp only [hs, if_true]
  constructor
  · intro h; simp [h]
  · intro h1 h2; simp [h1, h2]

/-! ## Non-vacuity: concrete instances -/

/-- traffic light with a final state and a `from_.any()` event: 3 states, a cycle, a self-loop -/
def exOk : ClassDef :=
  { states := [⟨true, false⟩, ⟨false, false⟩, ⟨false, true⟩],
    events := [[.edge 0 1 false, .edge 1 0 false, .edge 1 1 true], [.any 2 false 3]] }

example : check exOk = .ok false [] := by decide
example : WellFormed exOk :=
  (C09_iff_nonstrict exOk (by simp [Abstract, exOk]) rfl).mp ⟨false, [], by decide⟩
example : Reach exOk 0 2 := (bfs_sound_complete exOk 0 2).mp (by decide)

/-- state 2 is a trap and has no path to the final state 3; state 1 → 3 -/
def exWarn : ClassDef :=
  { states := [⟨true, false⟩, ⟨false, false⟩, ⟨false, false⟩, ⟨false, true⟩],
    events := [[.edge 0 1 false, .edge 0 2 false, .edge 1 3 false]] }

example : check exWarn = .ok false [[2], [2]] := by decide
example : check { exWarn with strict := true } = .invalid .trap [2] := by decide
/-- the hypothesis of `C09_strict` is satisfiable by a definition with issues -/
example : WellFormed exWarn :=
  (C09_iff_nonstrict exWarn (by simp [Abstract, exWarn]) rfl).mp ⟨false, [[2], [2]], by decide⟩
example : rejects { exWarn with strict := true } := ⟨.trap, [2], by decide⟩
/-- a cycle: states 1 and 2 reach each other but no final state, and neither is a trap -/
example : check { states := [⟨true, false⟩, ⟨false, false⟩, ⟨false, false⟩, ⟨false, true⟩],
                  events := [[.edge 0 1 false, .edge 1 2 false, .edge 2 1 false, .edge 0 3 false]] }
    = .ok false [[1, 2]] := by decide
example : Trap exWarn 2 := (mem_trapStates exWarn 2).mp (by decide)
example : NoPath exWarn 2 := (mem_noPathToFinal exWarn 2).mp (by decide)

/-- rejected shapes: unreachable state behind a *reversed* edge; self-loop on a final state;
internal non-self transition; two initials; `from_.any()` bound before the last state exists -/
example : check { states := [⟨true, false⟩, ⟨false, false⟩], events := [[.edge 1 0 false, .edge 0 0 false]] }
    = .invalid .unreachable [1] := by decide
example : check { states := [⟨true, false⟩, ⟨false, true⟩], events := [[.edge 0 1 false, .edge 1 1 false]] }
    = .invalid .finalWithTransitions [1] := by decide
example : check { states := [⟨true, false⟩, ⟨false, true⟩], events := [[.edge 0 1 true]] }
    = .invalid .internalNotSelf [] := by decide
example : check { states := [⟨true, false⟩, ⟨true, true⟩], events := [[.edge 0 1 false]] }
    = .invalid .initialCount [0, 1] := by decide
example : check { states := [⟨true, false⟩, ⟨false, false⟩, ⟨false, true⟩],
                  events := [[.any 2 false 1], [.edge 1 2 false]] }
    = .invalid .unreachable [1] := by decide
example : ¬ WellFormed { states := [⟨true, false⟩, ⟨false, false⟩], events := [[.edge 1 0 false, .edge 0 0 false]] } :=
  fun h => by
    obtain ⟨a, ws, hc⟩ := (C09_iff_nonstrict _ (by simp [Abstract]) rfl).mpr h
    have hd : check { states := [⟨true, false⟩, ⟨false, false⟩], events := [[.edge 1 0 false, .edge 0 0 false]] }
      = .invalid .unreachable [1] := by decide
    rw [hd] at hc; cases hc

end SMV.Validate
